// @host src/name/wire.rs
//
// C14 (and the name-decoding part of C01): wire-format name decoding against
// the independent RFC 1035 section 4.1.4 decoder in kani_common.
//
// Every harness takes a buffer of CONCRETE length N whose N octets are all
// symbolic (all 256 values each - not a reduced alphabet) and, where the API
// has one, a fully symbolic start offset (any usize, so start == N and
// start > N are inside the claim).

use super::*;
use crate::kani_common::*;

fn same_name(name: &Name, e: &RefName) {
    // wire form
    let w = name.wire_repr();
    assert!(w.len() == e.len, "[C14] decoded name has the reference's wire length");
    let mut i = 0;
    while i < e.len {
        assert!(w[i] == e.wire[i], "[C14] decoded name has the reference's wire octets");
        i += 1;
    }
    // label table of the unsafe DST layout
    assert!(name.len() == e.n_labels, "[C14] label count equals the reference's");
    let mut k = 0;
    while k < e.n_labels {
        let off = e.offs[k] as usize;
        let l = e.wire[off] as usize;
        let lab = name[k].octets();
        assert!(lab.len() == l, "[C14] label k has the reference's length");
        assert!(
            name.wire_repr_from(k).len() == e.len - off,
            "[C14] wire_repr_from(k) starts at the reference's label offset"
        );
        assert!(
            name.wire_repr_to(k).len() == off,
            "[C14] wire_repr_to(k) ends at the reference's label offset"
        );
        k += 1;
    }
}

fn compressed<const N: usize>() {
    let buf: [u8; N] = kani::any();
    let start: usize = kani::any();
    // start == N (one past the end) and start == N + 1 stand for "at or
    // beyond the end of the buffer"
    kani::assume(start <= N + 1);
    let r = parse_compressed_name(&buf, start);
    let e = ref_name(&buf, start);
    match (&r, &e) {
        (Ok((name, first)), Ok(en)) => {
            assert!(*first == en.first_chunk, "[C14] first-chunk length equals the reference's");
            same_name(name, en);
            kani::cover!(en.used_pointer && en.n_labels > 1, "accepted name that used a pointer");
        }
        (Err(_), Err(_)) => {
            kani::cover!(start < N, "rejected name inside the buffer");
        }
        (Ok(_), Err(_)) => assert!(false, "[C14] implementation accepts a name the reference rejects"),
        (Err(_), Ok(_)) => assert!(false, "[C14] implementation rejects a name the reference accepts"),
    }
    // the Box<Name> built through the unsafe DST constructor is dropped here,
    // with Kani's memory-safety checks on
}

// @harness props=C14,C01 tier=quick mem=5 t=900 kani="--no-assertion-reach-checks" fn="name::wire::parse_compressed_name,name::wire::parse_pointer,name::new_boxed_name,Name::wire_repr,Name::wire_repr_from,Name::wire_repr_to,<Name as Index>::index"
//   bound="every buffer of exactly 3 octets (all 2^24), every start offset 0..=N+1 (so at and beyond the end); unwind 5"
//   stubs="S7"
//   sym="buf:[u8;3], start<=4"
#[kani::proof]
#[kani::unwind(5)]
#[kani::stub(arrayvec::ArrayVec::try_extend_from_slice, try_extend_model)]
fn c14_compressed_len3() {
    compressed::<3>();
}

// @harness props=C14 panics=C14,C01 tier=thorough mem=10 t=2400 kani="--no-assertion-reach-checks" fn="name::wire::parse_compressed_name,name::wire::parse_pointer,name::new_boxed_name"
//   bound="every buffer of exactly 4 octets (all 2^32), every start offset 0..=N+1 (so at and beyond the end); unwind 6"
//   stubs="S7"
//   sym="buf:[u8;4], start<=5"
#[kani::proof]
#[kani::unwind(6)]
#[kani::stub(arrayvec::ArrayVec::try_extend_from_slice, try_extend_model)]
fn c14_compressed_len4() {
    compressed::<4>();
}




fn uncompressed<const N: usize>() {
    let buf: [u8; N] = kani::any();
    let len: usize = kani::any();
    kani::assume(len <= N);
    let b = &buf[..len];
    let e = ref_uncompressed(b);
    // validate
    let v = validate_uncompressed_name(b, false);
    let va = validate_uncompressed_name(b, true);
    match (&v, &e) {
        (Ok(n), Ok(en)) => assert!(*n == *en, "[C14] validate_uncompressed length equals the reference's"),
        (Err(_), Err(_)) => {}
        _ => assert!(false, "[C14] validate_uncompressed acceptance differs from the reference"),
    }
    let all_ok = matches!(e, Ok(en) if en == len);
    assert!(va.is_ok() == all_ok, "[C14] validate_uncompressed_all accepts exactly names filling the buffer");
    // skip
    let s = skip_compressed_name(b);
    let es = ref_skip(b);
    match (&s, &es) {
        (Ok(n), Ok(en)) => {
            assert!(*n <= len, "[C14] skip_compressed never reports more octets than the buffer holds");
            assert!(*n == *en, "[C14] skip_compressed length equals the reference's first-chunk length");
        }
        (Err(_), Err(_)) => {}
        (Ok(_), Err(_)) => assert!(false, "[C14] skip_compressed accepts a first chunk the reference rejects"),
        (Err(_), Ok(_)) => assert!(false, "[C14] skip_compressed rejects a first chunk the reference accepts"),
    }
    kani::cover!(matches!(v, Ok(n) if n > 2), "accepted uncompressed name with a non-root label");
    kani::cover!(matches!(s, Ok(n) if n >= 3 && b[n - 2] >= 0xc0), "skip ended at a pointer after a label");
}

// @harness props=C14,C01 tier=quick mem=3 t=300 kani="--no-assertion-reach-checks" fn="name::wire::validate_uncompressed_name,name::wire::skip_compressed_name"
//   bound="every buffer of every length 0..=8 (symbolic length, all octet values); unwind 10"
//   sym="buf:[u8;8], len:usize<=8"
#[kani::proof]
#[kani::unwind(10)]
fn c14_validate_skip_len8() {
    uncompressed::<8>();
}

// @harness props=C14,C01 tier=thorough mem=4 t=900 kani="--no-assertion-reach-checks" fn="name::wire::validate_uncompressed_name,name::wire::skip_compressed_name"
//   bound="every buffer of every length 0..=14 (symbolic length, all octet values); unwind 16"
//   sym="buf:[u8;14], len:usize<=14"
#[kani::proof]
#[kani::unwind(16)]
fn c14_validate_skip_len14() {
    uncompressed::<14>();
}

fn parse_unc<const N: usize>() {
    let buf: [u8; N] = kani::any();
    let use_all: bool = kani::any();
    let e = ref_uncompressed(&buf);
    let r = parse_uncompressed_name(&buf, use_all);
    match (&r, &e) {
        (Ok((name, n)), Ok(en)) => {
            assert!(!use_all || *en == N, "[C14] try_from_uncompressed_all rejects trailing octets");
            assert!(*n == *en, "[C14] try_from_uncompressed length equals the reference's");
            let rn = ref_name(&buf, 0);
            match rn {
                Ok(ref full) => same_name(name, full),
                Err(_) => assert!(false, "[C14] uncompressed and compressed reference disagree"),
            }
            kani::cover!(N < 3 || *n > 2, "accepted name (with a non-root label when the buffer can hold one)");
        }
        (Err(_), Ok(en)) => assert!(use_all && *en < N, "[C14] try_from_uncompressed rejects a valid name"),
        (Ok(_), Err(_)) => assert!(false, "[C14] try_from_uncompressed accepts an invalid name"),
        (Err(_), Err(_)) => {}
    }
}

// @harness props=C14,C01 tier=quick mem=3 t=300 kani="--no-assertion-reach-checks" fn="name::wire::parse_uncompressed_name,name::new_boxed_name"
//   bound="every buffer of exactly 5 octets, use_all symbolic; unwind 7" sym="buf:[u8;5], use_all"
#[kani::proof]
#[kani::unwind(7)]
fn c14_parse_uncompressed_len5() {
    parse_unc::<5>();
}

// @harness props=C14,C01 tier=quick mem=3 t=300 kani="--no-assertion-reach-checks" fn="name::wire::parse_uncompressed_name,name::new_boxed_name"
//   bound="every buffer of exactly 2 octets, use_all symbolic; unwind 4" sym="buf:[u8;2], use_all"
#[kani::proof]
#[kani::unwind(4)]
fn c14_parse_uncompressed_len2() {
    parse_unc::<2>();
}

// @harness props=C14,C01 tier=thorough mem=6 t=1200 kani="--no-assertion-reach-checks" fn="name::wire::parse_uncompressed_name,name::new_boxed_name"
//   bound="every buffer of exactly 8 octets, use_all symbolic; unwind 10" sym="buf:[u8;8], use_all"
#[kani::proof]
#[kani::unwind(10)]
fn c14_parse_uncompressed_len8() {
    parse_unc::<8>();
}

// ---------------------------------------------------------------------------
// Long names: the 63-octet label and 255-octet name boundaries.
//
// A 270-octet buffer holds three 63-octet labels, a fourth label whose length
// octet `l` is SYMBOLIC (all 256 values: valid lengths, the 0x40/0x80 reserved
// forms and pointers), zero-filled label contents, and the root label; total
// wire length 194 + l, so l = 61 is the longest acceptable name (255 octets)
// and l = 62 the shortest unacceptable one (256).  At offset 262 a second name
// "label(1) + pointer to offset 0" gives a compressed name of 196 + l octets.
// ---------------------------------------------------------------------------

fn long_buf(l: u8) -> [u8; 270] {
    let mut b = [0u8; 270];
    b[0] = 63;
    b[64] = 63;
    b[128] = 63;
    b[192] = l;
    b[262] = 1;
    b[263] = b'p';
    b[264] = 0xc0;
    b[265] = 0x00;
    b
}

// @harness props=C14,C01 tier=quick mem=3 t=600 kani="--no-assertion-reach-checks" fn="name::wire::validate_uncompressed_name,name::wire::skip_compressed_name"
//   bound="270-octet buffer, three 63-octet labels + a fourth label of symbolic length octet (all 256 values); wire lengths 194..=257 incl. the 255/256 boundary; unwind 8"
//   sym="l:u8 (length octet of the fourth label)"
#[kani::proof]
#[kani::unwind(8)]
fn c14_long_validate_skip() {
    let l: u8 = kani::any();
    let b = long_buf(l);
    let e = ref_uncompressed(&b);
    let v = validate_uncompressed_name(&b, false);
    match (&v, &e) {
        (Ok(n), Ok(en)) => assert!(*n == *en, "[C14] validate_uncompressed length equals the reference's (long names)"),
        (Err(_), Err(_)) => {}
        _ => assert!(false, "[C14] validate_uncompressed acceptance differs from the reference (long names)"),
    }
    let s = skip_compressed_name(&b);
    let es = ref_skip(&b);
    match (&s, &es) {
        (Ok(n), Ok(en)) => assert!(*n == *en, "[C14] skip_compressed length equals the reference's (long names)"),
        (Err(_), Err(_)) => {}
        _ => assert!(false, "[C14] skip_compressed acceptance differs from the reference (long names)"),
    }
    // the name that starts with a label and continues through a pointer
    let s2 = skip_compressed_name(&b[262..]);
    assert!(matches!(s2, Ok(4)), "[C14] skip_compressed stops after the pointer of a two-chunk name");
    kani::cover!(l == 61 && matches!(v, Ok(255)), "255-octet name accepted");
    kani::cover!(l == 62 && v.is_err(), "256-octet name rejected");
    kani::cover!(l == 64 && s.is_err(), "64-octet label rejected");
}

// @harness props=C14,C01 tier=quick mem=6 t=900 kani="--no-assertion-reach-checks" fn="name::wire::parse_uncompressed_name,name::new_boxed_name"
//   bound="same 270-octet long-name buffer, symbolic fourth length octet; acceptance, consumed length and wire length vs the reference; unwind 8"
//   sym="l:u8"
#[kani::proof]
#[kani::unwind(8)]
fn c14_long_parse_uncompressed() {
    let l: u8 = kani::any();
    let b = long_buf(l);
    let e = ref_uncompressed(&b);
    let r = parse_uncompressed_name(&b, false);
    match (&r, &e) {
        (Ok((name, n)), Ok(en)) => {
            assert!(*n == *en, "[C14] try_from_uncompressed length equals the reference's (long names)");
            assert!(name.wire_repr().len() == *en, "[C14] long name has the reference's wire length");
            assert!(name.len() == if l == 0 { 4 } else { 5 }, "[C14] long name has the reference's label count");
        }
        (Err(_), Err(_)) => {}
        _ => assert!(false, "[C14] try_from_uncompressed acceptance differs from the reference (long names)"),
    }
    kani::cover!(l == 61 && r.is_ok(), "255-octet name parsed");
    kani::cover!(l == 62 && r.is_err(), "256-octet name rejected");
    core::mem::forget(r);
}


// (Tried and dropped, measured: compressed parsing of 5-, 6- and 7-octet buffers was
// not calibrated within the time budget (5 octets: ~14 min / 13 GB), and
// `parse_compressed_name` on the 270-octet long-name buffer - where the real
// ArrayVec::try_extend_from_slice copies a label of symbolic length - ran out
// of memory at 29 GB.  The 255/256 boundary of the compressed parser is
// therefore only covered through `skip_compressed_name` and the uncompressed
// parser above.)
