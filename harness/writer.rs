// @host src/message/writer.rs
//
// C12 (the writer serialises exactly what it was given) and C13 (name
// compression only emits valid, permitted pointers).
//
// Oracles: the independent message decoder of kani_common (ref_decode_lim:
// framing, counts, OPT/TSIG placement, every pointer strictly backwards onto
// a registered label start, no pointer inside incompressible RDATA), the
// RFC 1035 name walk `check_name` written here, and small arithmetic models
// of the documented size/limit rules.  Nothing is compared against the
// reader of quandary.
//
// Shapes are CONCRETE (one harness per operation program; the compression
// mode is a const generic); symbolic are: the size limit in force for the
// LAST operation of a program (set_limit(any) just before it, so truncation
// can strike at each of its push sites), header fields, QTYPE/QCLASS, TTLs,
// non-name RDATA octets and the ASCII case bit of every letter.  Names are
// one-letter labels, 2-4 labels; buffers are 64 octets.
//
// Why the limit is symbolic only for the last operation: CBMC merges the
// refused and accepted paths of an operation at its return; after that the
// cursor is an if-then-else and every later write goes to a symbolic index.
// A failed operation in the MIDDLE of a program is covered with concrete
// refusals (c12_prog_order_clear: OutOfOrder x2, Truncation, then more
// operations).
//
// Inputs are built on the stack so that CBMC keeps their constants:
//   * `name_view` lays out a `Name` (repr(C): n_labels, label offsets, wire
//     form) in an array literal and views it as `&Name`, exactly as
//     `Name::root()` does with its static; c12_inputs_wellformed checks these
//     views against `Name::try_from_uncompressed`.
//   * `rdataset_view` views `[len_lo, len_hi, rdata.., ...]` as `&RdataSet`
//     (repr(transparent) over [u8], native-endian length prefixes); the same
//     harness checks that RdataSet::iter yields the intended RDATA.
// RDATA names still go through `Box<Name>` inside Rdata::components.
//
// Stub S8 (Writer::write -> element-wise stores) is used by every program
// harness and proven equal to the real function in c12_write_matches_model.
//
// All harnesses run with kani="--no-assertion-reach-checks": Kani's
// per-assertion reachability checks made CBMC emit one full JSON trace per
// harness assert (measured: 209 traces, 1.1 GB, 515 s instead of 72 s).
// Vacuity is guarded by the kani::cover! witnesses instead.

use super::*;
use crate::kani_common::*;

// --------------------------------------------------------------------------
// input construction
// --------------------------------------------------------------------------

/// `repr` = [n_labels, offsets.., wire..]
fn name_view(repr: &[u8]) -> &Name {
    unsafe { &*(core::ptr::slice_from_raw_parts(repr.as_ptr(), repr.len() - 1) as *const Name) }
}

fn rdataset_view(raw: &[u8]) -> &RdataSet {
    unsafe { &*(raw as *const [u8] as *const RdataSet) }
}

/// ASCII letter `c` (given in lower case) with a symbolic case bit.
fn any_case(c: u8) -> u8 {
    if kani::any() {
        c
    } else {
        c - 32
    }
}

// --------------------------------------------------------------------------
// Stub S8: Writer::write
// --------------------------------------------------------------------------
// `Writer::write(position, data)` is `octets[position..position + len]
// .copy_from_slice(data)`: one memcpy, after which CBMC treats the whole
// message buffer as an opaque array, so that every later read (the
// compressor's label scan, the reference decoder) is a symbolic 64-way
// selection.  The model below performs the same stores one element at a time
// (same bounds panics: slice indexing first), which keeps constants.
// c12_write_matches_model proves the two equal for every position and every
// data length 0..=40 in a 64-octet buffer; harnesses that use the stub say
// stubs="S8" and never write a longer piece.
fn write_model<'a>(w: &mut Writer<'a>, position: usize, data: &[u8])
where
    'a: 'a, // early-bound, like the impl's lifetime parameter
{
    let dst = &mut w.octets[position..position + data.len()];
    let mut i = 0;
    while i < data.len() {
        dst[i] = data[i];
        i += 1;
    }
}

// --------------------------------------------------------------------------
// state snapshots: "a failed operation leaves the message unchanged"
// --------------------------------------------------------------------------

#[derive(Clone, Copy)]
struct Snap {
    cursor: usize,
    limit: usize,
    available: usize,
    rr_start: usize,
    section: Section,
    counts: [u16; 4],
    qname: Option<(u16, u8)>,
    owner: Option<(u16, u8)>,
    in_rdata: Option<(u16, u8)>,
    probe: usize,
    probe_val: u8,
}

fn prior(p: Option<PriorName>) -> Option<(u16, u8)> {
    match p {
        Some(p) => Some((p.pointer.get(), p.len)),
        None => None,
    }
}

/// `probe` is a symbolic index: checking one symbolic octet is checking all.
fn snap(w: &Writer, probe: usize) -> Snap {
    Snap {
        cursor: w.cursor,
        limit: w.limit,
        available: w.available,
        rr_start: w.rr_start,
        section: w.section,
        counts: [w.qdcount, w.ancount, w.nscount, w.arcount],
        qname: prior(w.qname),
        owner: prior(w.most_recent_owner),
        in_rdata: prior(w.most_recent_name_in_rdata),
        probe,
        probe_val: w.octets[probe],
    }
}

fn assert_unchanged(w: &Writer, s: &Snap) {
    assert!(w.cursor == s.cursor, "[C12] failed operation leaves the cursor unchanged");
    assert!(w.limit == s.limit && w.available == s.available, "[C12] failed operation leaves limit and reservation unchanged");
    assert!(w.rr_start == s.rr_start, "[C12] failed operation leaves the end of the question section unchanged");
    assert!(w.section == s.section, "[C12] failed operation leaves the section unchanged");
    assert!(
        w.qdcount == s.counts[0] && w.ancount == s.counts[1] && w.nscount == s.counts[2] && w.arcount == s.counts[3],
        "[C12] failed operation leaves the counts unchanged"
    );
    assert!(
        s.probe >= s.cursor || w.octets[s.probe] == s.probe_val,
        "[C12] failed operation leaves the octets written so far unchanged"
    );
    // compression anchors: a stale anchor would let a later name point into
    // octets that are no longer part of the message
    assert!(prior(w.qname) == s.qname, "[C12,C13] failed operation leaves the QNAME anchor unchanged");
    assert!(prior(w.most_recent_owner) == s.owner, "[C12,C13] failed operation leaves the owner anchor unchanged");
    assert!(
        prior(w.most_recent_name_in_rdata) == s.in_rdata,
        "[C12,C13] failed operation leaves the RDATA-name anchor unchanged"
    );
}

fn assert_invariant(w: &Writer, buf_len: usize) {
    assert!(
        HEADER_SIZE <= w.cursor && w.cursor <= w.available && w.available <= w.limit && w.limit <= buf_len,
        "[C12] 12 <= cursor <= available <= limit <= buffer length"
    );
}

// --------------------------------------------------------------------------
// 0. the stack-built inputs are what the public constructors build
// --------------------------------------------------------------------------

const N_A: [u8; 6] = [2, 0, 2, 1, b'a', 0];
const N_B: [u8; 6] = [2, 0, 2, 1, b'b', 0];
const N_AB: [u8; 9] = [3, 0, 2, 4, 1, b'A', 1, b'b', 0];

fn same_as_parsed(repr: &[u8], n_labels: usize) {
    let v = name_view(repr);
    let wire = &repr[1 + n_labels..];
    let (parsed, used) = Name::try_from_uncompressed(wire).unwrap();
    assert!(used == wire.len(), "[C12] input sanity: wire form is one whole name");
    assert!(v.len() == parsed.len() && v.len() == n_labels, "[C12] input sanity: label count");
    assert!(v.wire_repr().len() == wire.len(), "[C12] input sanity: wire length");
    let mut i = 0;
    while i < wire.len() {
        assert!(v.wire_repr()[i] == parsed.wire_repr()[i] && v.wire_repr()[i] == wire[i], "[C12] input sanity: wire octets");
        i += 1;
    }
    let mut k = 0;
    while k < n_labels {
        assert!(
            v.wire_repr_to(k).len() == parsed.wire_repr_to(k).len(),
            "[C12] input sanity: label offsets"
        );
        k += 1;
    }
}

// @harness props=C12,C13 tier=quick mem=3 t=600 kani="--no-assertion-reach-checks" fn="Name::try_from_uncompressed,Name::wire_repr,Name::wire_repr_to,RdataSet::iter"
//   bound="the three pool names a. b. A.b. and one 2-element RDATA set; concrete; unwind 8"
//   sym="none (sanity check: stack-built Name views equal the parsed names; the RdataSet view iterates to the intended RDATA)"
#[kani::proof]
#[kani::unwind(8)]
fn c12_inputs_wellformed() {
    same_as_parsed(&N_A, 2);
    same_as_parsed(&N_B, 2);
    same_as_parsed(&N_AB, 3);
    // the writer consumes an RdataSet only through iter()
    let raw = [2u8, 0, 7, 9, 3, 0, 1, 2, 3];
    let set = rdataset_view(&raw);
    let mut it = set.iter();
    let x = it.next().unwrap().octets();
    assert!(x.len() == 2 && x[0] == 7 && x[1] == 9, "[C12] input sanity: first RDATA of the set view");
    let y = it.next().unwrap().octets();
    assert!(y.len() == 3 && y[0] == 1 && y[2] == 3, "[C12] input sanity: second RDATA of the set view");
    assert!(it.next().is_none(), "[C12] input sanity: the set view has two elements");
    kani::cover!(true, "inputs compared");
}

// --------------------------------------------------------------------------
// 1. limits, try_push, with_rollback
// --------------------------------------------------------------------------

// @harness props=C12 tier=quick mem=3 t=600 kani="--no-assertion-reach-checks" fn="Writer::new"
//   bound="64-octet buffer with arbitrary prior contents, every usize limit; unwind 14"
//   sym="buf:[u8;64], limit:usize"
#[kani::proof]
#[kani::unwind(14)]
fn c12_new_any_limit() {
    let mut buf: [u8; 64] = kani::any();
    let limit: usize = kani::any();
    let eff = if limit < 64 { limit } else { 64 };
    let probe: usize = kani::any();
    kani::assume(probe < 12);
    match Writer::new(&mut buf, limit) {
        Err(e) => {
            assert!(eff < 12, "[C12] new fails only when a header does not fit");
            assert!(e == Error::Truncation, "[C12] new fails with Truncation");
            kani::cover!(limit == 11, "limit 11 rejected");
        }
        Ok(w) => {
            assert!(eff >= 12, "[C12] new succeeds only when a header fits");
            assert!(w.limit == eff && w.available == eff && w.cursor == 12, "[C12] new: limit = min(limit, buffer length)");
            assert_invariant(&w, 64);
            assert!(w.octets[probe] == 0, "[C12] header initially zero");
            assert!(w.section == Section::Question && w.qdcount == 0 && w.ancount == 0 && w.nscount == 0 && w.arcount == 0, "[C12] new message is empty");
            // (finish() on this value is not called here: after the join of
            // the Ok/Err arms CBMC no longer knows that `tsig` is None and
            // would explore the HMAC code; finish of an empty message is
            // covered by c12_header_fields)
            core::mem::forget(w);
            kani::cover!(limit == 12, "limit 12 accepted");
            kani::cover!(limit > 64, "limit beyond the buffer clamped");
        }
    }
}

/// set_limit from a state with a question and (E) an OPT reservation, then
/// one record of known size: the limit rule, and that space accounting
/// after the change is exact in both directions.
fn set_limit_then_rr<const E: bool>() {
    let mut buf = [0u8; 64];
    let l0: usize = kani::any();
    let x: usize = kani::any();
    let probe: usize = kani::any();
    kani::assume(probe < 64);
    // concrete construction, then a symbolic limit through set_limit: with
    // cursor = 12 and nothing reserved this reaches every limit in 12..=64
    // (Writer::new with a symbolic limit is c12_new_any_limit)
    let mut w = Writer::new(&mut buf, 64).unwrap();
    w.set_limit(l0);
    assert!(w.limit == (if l0 < 12 { 12 } else if l0 > 64 { 64 } else { l0 }), "[C12] set_limit clamps to [written + reserved, buffer length]");
    let reserved = if E { 11 } else { 0 };
    if E {
        if w.set_edns(1232).is_err() {
            return;
        }
    }
    let q = Question {
        qname: name_view(&N_A).to_owned(),
        qtype: Type::A.into(),
        qclass: Class::IN.into(),
    };
    let s = snap(&w, probe);
    if w.add_question(&q).is_err() {
        assert!(s.cursor + 7 > s.available, "[C12] question that fits is not refused");
        assert_unchanged(&w, &s);
        kani::cover!(true, "question truncated");
        core::mem::forget(q);
        return;
    }
    assert!(w.cursor == 19, "[C12] question occupies 7 octets");
    assert_invariant(&w, 64);
    let old_limit = w.limit;
    w.set_limit(x);
    // "as close to new_limit as possible", never above the buffer, never
    // below what is written plus what is reserved
    let lo = 19 + reserved;
    let want = if x > 64 {
        64
    } else if x < lo {
        lo
    } else {
        x
    };
    assert!(w.limit == want, "[C12] set_limit clamps to [written + reserved, buffer length]");
    assert!(w.available == want - reserved, "[C12] set_limit keeps the reservation");
    assert!(w.cursor == 19, "[C12] set_limit does not move the cursor");
    assert_invariant(&w, 64);
    kani::cover!(x < lo && old_limit > lo, "limit lowered and clamped from below");
    kani::cover!(x > old_limit && x <= 64, "limit raised");
    // one A record owned by the root: 1 + 10 + 4 = 15 octets, incompressible
    let ttl: u32 = kani::any();
    let rd: [u8; 4] = kani::any();
    let rdata: &Rdata = (&rd).try_into().unwrap();
    let s = snap(&w, probe);
    let r = w.add_answer_rr(HintedName::new(Hint::None, Name::root()), Type::A, Class::IN, Ttl::from(ttl), rdata, None);
    let fits = 19 + 15 <= want - reserved;
    match r {
        Ok(()) => {
            assert!(fits, "[C12] a record that does not fit in the limit is refused");
            assert!(w.cursor == 34 && w.ancount == 1, "[C12] record accounted for");
        }
        Err(e) => {
            assert!(!fits, "[C12] a record whose uncompressed form fits is never truncated");
            assert!(e == Error::Truncation, "[C12] the only possible failure here is truncation");
            assert_unchanged(&w, &s);
            kani::cover!(true, "record truncated after set_limit");
        }
    }
    assert_invariant(&w, 64);
    let ok = r.is_ok();
    let limit = w.limit;
    let n = w.finish();
    assert!(n <= limit, "[C12] finished message within the limit in effect");
    assert!(n == 19 + (if ok { 15 } else { 0 }) + reserved, "[C12] finished length = written + reserved records");
    let m = ref_decode_lim(&buf, n, [1, 1, 0, 1], 3);
    assert!(m.wellformed, "[C12] finished message decodes");
    assert!(
        m.counts[0] == 1 && m.counts[1] == (ok as u16) && m.counts[2] == 0 && m.counts[3] == (E as u16),
        "[C12] header counts are those of the successful operations"
    );
    if ok {
        let rec = &m.recs[0];
        let want_ttl = if ttl > 0x7fff_ffff { 0 } else { ttl };
        assert!(rec.section == 1 && rec.rtype == 1 && rec.class == 1 && rec.ttl == want_ttl, "[C12] record fields");
        assert!(rec.rdlen == 4 && buf[rec.rd_at] == rd[0] && buf[rec.rd_at + 3] == rd[3], "[C12] record RDATA");
        assert!(buf[rec.owner_at] == 0, "[C12] root owner");
    }
    kani::cover!(ok, "record present in the finished message");
    core::mem::forget(q);
}

// @harness props=C12 tier=quick mem=4 t=900 kani="--no-assertion-reach-checks" fn="Writer::set_limit,Writer::add_question,Writer::add_answer_rr,Writer::add_rr,Writer::with_rollback,Writer::try_push,Writer::finish"
//   bound="buffer 64; question a. A IN; every initial limit and every set_limit argument (usize); then one 15-octet root-owned A record with symbolic TTL and RDATA; unwind 8"
//   sym="l0:usize, x:usize, ttl:u32, rdata:[u8;4], probe<64" stubs="S8"
#[kani::proof]
#[kani::unwind(8)]
#[kani::stub(Writer::write, write_model)]
fn c12_set_limit_plain() {
    set_limit_then_rr::<false>();
}

// @harness props=C12 tier=quick mem=4 t=900 kani="--no-assertion-reach-checks" fn="Writer::set_edns,Writer::set_limit,Writer::add_question,Writer::add_answer_rr,Writer::add_rr,Writer::finish"
//   bound="as c12_set_limit_plain with an 11-octet OPT reservation made first; unwind 8"
//   sym="l0:usize, x:usize, ttl:u32, rdata:[u8;4], probe<64" stubs="S8"
#[kani::proof]
#[kani::unwind(8)]
#[kani::stub(Writer::write, write_model)]
fn c12_set_limit_edns() {
    set_limit_then_rr::<true>();
}

// @harness props=C12 tier=quick mem=3 t=600 kani="--no-assertion-reach-checks" fn="Writer::try_push,Writer::write"
//   bound="buffer 32 with arbitrary contents; every valid (cursor, available, limit); data of every length 0..=6; unwind 8"
//   sym="buf:[u8;32], l0:usize, cursor, data:[u8;6], len<=6, probe<32"
#[kani::proof]
#[kani::unwind(8)]
fn c12_try_push_atomic() {
    let mut buf: [u8; 32] = kani::any();
    let l0: usize = kani::any();
    let mut w = Writer::new(&mut buf, 32).unwrap();
    w.set_limit(l0);
    // any cursor the invariant allows
    let c: usize = kani::any();
    kani::assume(12 <= c && c <= w.available);
    w.cursor = c;
    let data: [u8; 6] = kani::any();
    let len: usize = kani::any();
    kani::assume(len <= 6);
    let probe: usize = kani::any();
    kani::assume(probe < 32);
    let s = snap(&w, probe);
    let r = w.try_push(&data[..len]);
    match r {
        Ok(()) => {
            assert!(c + len <= s.available, "[C12] try_push never writes past the available space");
            assert!(w.cursor == c + len, "[C12] try_push advances the cursor by the data length");
            if probe < c {
                assert!(w.octets[probe] == s.probe_val, "[C12] try_push leaves earlier octets alone");
            } else if probe < c + len {
                assert!(w.octets[probe] == data[probe - c], "[C12] try_push writes the data in order");
            } else {
                assert!(w.octets[probe] == s.probe_val, "[C12] try_push leaves later octets alone");
            }
            kani::cover!(len == 6 && c + len == s.available, "push that exactly fills the space");
        }
        Err(e) => {
            assert!(e == Error::Truncation, "[C12] try_push fails with Truncation");
            assert!(c + len > s.available, "[C12] data that fits is never refused");
            assert_unchanged(&w, &s);
            assert!(w.octets[probe] == s.probe_val, "[C12] failed try_push writes nothing at all");
            kani::cover!(len == 1, "one octet too many");
        }
    }
    assert_invariant(&w, 32);
}

// @harness props=C12,C13 tier=quick mem=3 t=600 kani="--no-assertion-reach-checks" fn="Writer::with_rollback,Writer::try_push"
//   bound="buffer 32; state after new + fabricated anchors; closure that moves section, cursor and all three anchors and pushes 0..=4 octets, failing or not (symbolic); unwind 8"
//   sym="l0:usize, fail:bool, len<=4, data:[u8;4], probe<32"
#[kani::proof]
#[kani::unwind(8)]
fn c12_with_rollback_restores() {
    let mut buf: [u8; 32] = kani::any();
    let l0: usize = kani::any();
    let mut w = Writer::new(&mut buf, 32).unwrap();
    w.set_limit(l0);
    let fail: bool = kani::any();
    let data: [u8; 4] = kani::any();
    let len: usize = kani::any();
    kani::assume(len <= 4);
    let probe: usize = kani::any();
    kani::assume(probe < 32);
    let s = snap(&w, probe);
    let r: Result<u8> = w.with_rollback(|this| {
        this.section = Section::Additional;
        this.qname = Some(PriorName {
            pointer: HintPointer::new(12).unwrap(),
            len: 2,
        });
        this.most_recent_owner = this.qname;
        this.most_recent_name_in_rdata = this.qname;
        this.try_push(&data[..len])?;
        if fail {
            Err(Error::InvalidRdata)
        } else {
            Ok(7)
        }
    });
    match r {
        Ok(v) => {
            assert!(v == 7 && !fail, "[C12] with_rollback returns the closure's value");
            assert!(w.cursor == 12 + len && w.section == Section::Additional, "[C12] successful closure's effects are kept");
            kani::cover!(len == 4, "kept");
        }
        Err(e) => {
            assert!(fail || 12 + len > s.available, "[C12] with_rollback fails only if the closure does");
            assert_unchanged(&w, &s);
            kani::cover!(e == Error::Truncation, "rollback after truncation");
            kani::cover!(e == Error::InvalidRdata && len == 4, "rollback after octets were pushed");
        }
    }
    assert_invariant(&w, 32);
}

// --------------------------------------------------------------------------
// 2. header fields and the extended RCODE
// --------------------------------------------------------------------------

// @harness props=C12 tier=quick mem=3 t=600 kani="--no-assertion-reach-checks" fn="Writer::set_id,Writer::set_qr,Writer::set_opcode,Writer::set_aa,Writer::set_tc,Writer::set_rd,Writer::set_ra,Writer::set_rcode,Writer::id,Writer::qr,Writer::opcode,Writer::aa,Writer::tc,Writer::rd,Writer::ra,Writer::rcode,Writer::extended_rcode,Writer::finish"
//   bound="12-octet message; every field set twice (first to an arbitrary value, then to the final one) in a fixed order; all values of all fields; unwind 14"
//   sym="id:2xu16, opcode:2x0..15, rcode:2x0..15, six flag bits 2x"
#[kani::proof]
#[kani::unwind(14)]
fn c12_header_fields() {
    let mut buf: [u8; 12] = kani::any();
    let mut w = Writer::new(&mut buf, 12).unwrap();
    let id: [u16; 2] = kani::any();
    let op: [u8; 2] = kani::any();
    let rc: [u8; 2] = kani::any();
    let fl: [[bool; 6]; 2] = kani::any();
    kani::assume(op[0] < 16 && op[1] < 16 && rc[0] < 16 && rc[1] < 16);
    let mut k = 0;
    while k < 2 {
        // the second round runs in the opposite order, so every setter is
        // exercised both on zero and on arbitrary neighbouring bits
        if k == 0 {
            w.set_id(id[k]);
            w.set_qr(fl[k][0]);
            w.set_opcode(Opcode::try_from(op[k]).unwrap());
            w.set_aa(fl[k][1]);
            w.set_tc(fl[k][2]);
            w.set_rd(fl[k][3]);
            w.set_ra(fl[k][4]);
            w.set_rcode(Rcode::try_from(rc[k]).unwrap());
        } else {
            w.set_rcode(Rcode::try_from(rc[k]).unwrap());
            w.set_ra(fl[k][4]);
            w.set_rd(fl[k][3]);
            w.set_tc(fl[k][2]);
            w.set_aa(fl[k][1]);
            w.set_opcode(Opcode::try_from(op[k]).unwrap());
            w.set_qr(fl[k][0]);
            w.set_id(id[k]);
        }
        k += 1;
    }
    assert!(w.id() == id[1] && w.qr() == fl[1][0] && u8::from(w.opcode()) == op[1], "[C12] getters return what was set");
    assert!(w.aa() == fl[1][1] && w.tc() == fl[1][2] && w.rd() == fl[1][3] && w.ra() == fl[1][4], "[C12] getters return what was set");
    assert!(u8::from(w.rcode()) == rc[1] && u16::from(w.extended_rcode()) == rc[1] as u16, "[C12] getters return what was set");
    let n = w.finish();
    assert!(n == 12, "[C12] header-only message");
    // RFC 1035 section 4.1.1, extracted independently
    assert!(be16(&buf, 0) == id[1], "[C12] ID");
    assert!((buf[2] >> 7) == fl[1][0] as u8, "[C12] QR");
    assert!(((buf[2] >> 3) & 0xf) == op[1], "[C12] OPCODE");
    assert!(((buf[2] >> 2) & 1) == fl[1][1] as u8, "[C12] AA");
    assert!(((buf[2] >> 1) & 1) == fl[1][2] as u8, "[C12] TC");
    assert!((buf[2] & 1) == fl[1][3] as u8, "[C12] RD");
    assert!((buf[3] >> 7) == fl[1][4] as u8, "[C12] RA");
    assert!(((buf[3] >> 4) & 7) == 0, "[C12] Z bits stay zero");
    assert!((buf[3] & 0xf) == rc[1], "[C12] RCODE");
    assert!(be16(&buf, 4) == 0 && be16(&buf, 6) == 0 && be16(&buf, 8) == 0 && be16(&buf, 10) == 0, "[C12] empty counts");
    kani::cover!(op[1] == 15 && rc[1] == 15 && fl[1][0] && !fl[0][0], "all-ones fields over a cleared first round");
}

// @harness props=C12 tier=quick mem=3 t=600 kani="--no-assertion-reach-checks" fn="Writer::set_extended_rcode,Writer::extended_rcode,Writer::finish"
//   bound="12-octet non-EDNS message with an arbitrary RCODE already set; every u16 extended RCODE; unwind 14"
//   sym="first:0..15, v:u16"
#[kani::proof]
#[kani::unwind(14)]
fn c12_extended_rcode_without_edns() {
    let mut buf = [0u8; 12];
    let mut w = Writer::new(&mut buf, 12).unwrap();
    let first: u8 = kani::any();
    kani::assume(first < 16);
    w.set_rcode(Rcode::try_from(first).unwrap());
    let v: u16 = kani::any();
    let r = w.set_extended_rcode(ExtendedRcode::from(v));
    let ok = r.is_ok();
    if v >= 16 {
        assert!(!ok, "[C12] an extended RCODE of 16 or more cannot be set without EDNS");
    }
    let n = w.finish();
    assert!(n == 12, "[C12] no OPT record appears without set_edns");
    let got = (buf[3] & 0xf) as u16;
    if ok {
        assert!(got == v, "[C12] accepted extended RCODE is the header RCODE");
    } else {
        assert!(got == first as u16, "[C12] refused extended RCODE leaves the header RCODE unchanged");
    }
    kani::cover!(!ok && v == 3, "refused without EDNS");
}

/// EDNS: OPT composition for every payload size and every extended RCODE.
/// `THEN_RCODE`: a set_rcode afterwards must zero the upper eight bits.
fn edns_rcode<const THEN_RCODE: bool>() {
    let mut buf = [0u8; 32];
    let mut w = Writer::new(&mut buf, 32).unwrap();
    let payload: u16 = kani::any();
    let v: u16 = kani::any();
    let id: u16 = kani::any();
    w.set_id(id);
    assert!(w.set_edns(payload).is_ok(), "[C12] OPT reservation fits");
    assert!(w.set_edns(payload) == Err(Error::AlreadyEdns), "[C12] second set_edns refused");
    assert!(w.arcount == 1 && w.available == 21 && w.cursor == 12, "[C12] exactly one OPT reserved");
    let r = w.set_extended_rcode(ExtendedRcode::from(v));
    let mut want = 0u16;
    match r {
        Ok(()) => {
            assert!(v <= 4095, "[C12] extended RCODEs above 12 bits are refused");
            want = v;
            assert!(u16::from(w.extended_rcode()) == v, "[C12] extended_rcode() returns what was set");
        }
        Err(e) => {
            assert!(v > 4095 && e == Error::ExtendedRcodeOverflow, "[C12] every 12-bit extended RCODE is accepted with EDNS");
            kani::cover!(true, "13-bit value refused");
        }
    }
    if THEN_RCODE {
        let low: u8 = kani::any();
        kani::assume(low < 16);
        w.set_rcode(Rcode::try_from(low).unwrap());
        want = low as u16;
    }
    let n = w.finish();
    assert!(n == 23, "[C12] header plus the 11-octet OPT record");
    let m = ref_decode_lim(&buf, n, [0, 0, 0, 1], 2);
    assert!(m.wellformed, "[C12] finished EDNS message decodes");
    assert!(m.id == id && m.counts[0] == 0 && m.counts[1] == 0 && m.counts[2] == 0 && m.counts[3] == 1, "[C12] counts");
    assert!(m.n_opt == 1 && m.opt_placement_ok && m.n_recs == 1, "[C12] exactly one OPT, in the additional section");
    let opt = &m.recs[0];
    assert!(buf[opt.owner_at] == 0 && opt.rd_at == opt.owner_at + 11, "[C12] OPT owner is the root");
    assert!(opt.rtype == T_OPT && opt.class == payload && opt.rdlen == 0, "[C12] OPT class carries the payload size; no options");
    // RFC 6891 section 6.1.3: TTL = ext-rcode(8) version(8) DO(1) Z(15)
    assert!(opt.ttl & 0x00ff_ffff == 0, "[C12] EDNS version 0, no flags");
    let got = (((opt.ttl >> 24) as u16) << 4) | (m.flags & 0xf);
    assert!(got == want, "[C12] 12-bit extended RCODE = OPT TTL[31:24] << 4 | header RCODE");
    kani::cover!(r.is_ok() && v >= 2048, "extended RCODE with the top bit set");
    kani::cover!(r.is_ok() && v >= 16 && v < 2048, "extended RCODE between 16 and 2047");
}

// @harness props=C12 tier=quick mem=4 t=900 kani="--no-assertion-reach-checks" fn="Writer::set_edns,Writer::set_extended_rcode,Writer::extended_rcode,Writer::finish,Writer::add_rr,Ttl::from"
//   bound="32-octet buffer, no question; every u16 payload size, every u16 extended RCODE (all 4096 valid ones and all refused ones), every ID; unwind 8"
//   sym="payload:u16, v:u16, id:u16"
#[kani::proof]
#[kani::unwind(8)]
fn c12_edns_extended_rcode() {
    edns_rcode::<false>();
}

// @harness props=C12 tier=quick mem=4 t=900 kani="--no-assertion-reach-checks" fn="Writer::set_edns,Writer::set_extended_rcode,Writer::set_rcode,Writer::finish"
//   bound="as c12_edns_extended_rcode, followed by set_rcode(any of 16): upper bits must be cleared; unwind 8"
//   sym="payload:u16, v:u16, id:u16, low:0..15"
#[kani::proof]
#[kani::unwind(8)]
fn c12_edns_set_rcode_clears_extension() {
    edns_rcode::<true>();
}

// --------------------------------------------------------------------------
// Stub S8 is the same function as Writer::write
// --------------------------------------------------------------------------

// @harness props=C12 tier=quick mem=4 t=900 kani="--no-assertion-reach-checks" fn="Writer::write,Writer::write_u16"
//   bound="64-octet buffer with arbitrary contents, every position (usize), every data length 0..=40 with arbitrary octets, in-bounds or not (both must panic alike: the out-of-bounds case is excluded by assumption and reported here); unwind 42"
//   sym="buf:[u8;64], position:usize, data:[u8;40], len<=40, probe<64"
#[kani::proof]
#[kani::unwind(42)]
fn c12_write_matches_model() {
    let init: [u8; 64] = kani::any();
    let mut b1 = init;
    let mut b2 = init;
    let data: [u8; 40] = kani::any();
    let len: usize = kani::any();
    kani::assume(len <= 40);
    let position: usize = kani::any();
    // both versions index `octets[position..position + len]` first and panic
    // if that is out of range; the writer only calls write() after a space
    // check (try_push) or at positions already written (write_u16)
    kani::assume(position <= 64 && position + len <= 64);
    let probe: usize = kani::any();
    kani::assume(probe < 64);
    {
        let mut w1 = Writer::new(&mut b1, 64).unwrap();
        w1.write(position, &data[..len]);
        core::mem::forget(w1);
    }
    {
        let mut w2 = Writer::new(&mut b2, 64).unwrap();
        write_model(&mut w2, position, &data[..len]);
        core::mem::forget(w2);
    }
    assert!(b1[probe] == b2[probe], "[C12] stub S8 (element-wise write) equals Writer::write on every octet");
    if probe >= position && probe < position + len {
        assert!(b1[probe] == data[probe - position], "[C12] write stores the data in order");
    } else if probe >= 12 {
        assert!(b1[probe] == init[probe], "[C12] write touches nothing else");
    }
    kani::cover!(len == 40 && position == 24, "longest piece at the end of the buffer");
    kani::cover!(len == 0, "empty piece");
}

// --------------------------------------------------------------------------
// 3./4. operation programs: C12 and C13 on the finished message
// --------------------------------------------------------------------------

const M_STD: u8 = 0;
const M_CASE: u8 = 1;
const M_OFF: u8 = 2;

fn mode_of(m: u8) -> CompressionMode {
    match m {
        M_STD => CompressionMode::Standard,
        M_CASE => CompressionMode::CasePreserving,
        _ => CompressionMode::Disabled,
    }
}

/// wire form inside a `name_view` array
fn wire_of(repr: &[u8]) -> &[u8] {
    &repr[1 + repr[0] as usize..]
}

/// One record as GIVEN to the writer (everything uncompressed).
#[derive(Clone, Copy)]
struct Rec<'a> {
    /// 1 answer, 2 authority, 3 additional
    sec: u8,
    /// `name_view` layout
    owner: &'a [u8],
    rtype: u16,
    class: u16,
    /// raw value handed to Ttl::from
    ttl: u32,
    rdata: &'a [u8],
    /// embedded name: rdata[name_at..name_at + name_len]; name_len 0 = none
    name_at: usize,
    name_len: usize,
}

const NO_REC: Rec<'static> = Rec {
    sec: 0,
    owner: &[1, 0, 0],
    rtype: 0,
    class: 0,
    ttl: 0,
    rdata: &[],
    name_at: 0,
    name_len: 0,
};

/// What the finished message must decode to.
struct Expect<'a> {
    mode: u8,
    /// (qname in name_view layout, qtype, qclass)
    q: Option<(&'a [u8], u16, u16)>,
    recs: [Rec<'a>; 4],
    n: usize,
    /// OPT: (payload size, extended RCODE)
    edns: Option<(u16, u16)>,
}

/// Judges the result of one add operation of uncompressed size `unc`.
fn judge(w: &Writer, s: &Snap, res: Result<()>, unc: usize, order_ok: bool, sec: u8, added: u16) -> bool {
    match res {
        Ok(()) => {
            assert!(order_ok, "[C12] an out-of-order operation is refused");
            assert!(
                w.cursor > s.cursor && w.cursor <= s.cursor + unc,
                "[C12] an operation never takes more than its uncompressed encoding"
            );
            let want = [
                s.counts[0] + (if sec == 0 { added } else { 0 }),
                s.counts[1] + (if sec == 1 { added } else { 0 }),
                s.counts[2] + (if sec == 2 { added } else { 0 }),
                s.counts[3] + (if sec == 3 { added } else { 0 }),
            ];
            assert!(
                w.qdcount == want[0] && w.ancount == want[1] && w.nscount == want[2] && w.arcount == want[3],
                "[C12] a successful operation adds exactly its records to its section's count"
            );
            assert!(w.limit == s.limit && w.limit - w.available == s.limit - s.available, "[C12] add operations do not change limit or reservation");
            assert_invariant(w, w.octets.len());
            true
        }
        Err(e) => {
            if order_ok {
                assert!(e == Error::Truncation, "[C12] the only possible failure of an in-order add here is truncation");
                assert!(
                    s.cursor + unc > s.available,
                    "[C12] an operation whose uncompressed encoding fits in the remaining space is never truncated"
                );
            } else {
                assert!(e == Error::OutOfOrder, "[C12] an out-of-order operation fails with OutOfOrder");
            }
            assert_unchanged(w, s);
            false
        }
    }
}

fn add_q(w: &mut Writer, q: &Question, probe: usize) -> bool {
    let s = snap(w, probe);
    let unc = q.qname.wire_repr().len() + 4;
    let res = w.add_question(q);
    judge(w, &s, res, unc, s.section == Section::Question, 0, 1)
}

fn add_rec(w: &mut Writer, r: &Rec, hint: Hint, order_ok: bool, probe: usize) -> bool {
    let s = snap(w, probe);
    let hn = HintedName::new(hint, name_view(r.owner));
    let rdata: &Rdata = r.rdata.try_into().unwrap();
    let (t, c, ttl) = (Type::from(r.rtype), Class::from(r.class), Ttl::from(r.ttl));
    let res = match r.sec {
        1 => w.add_answer_rr(hn, t, c, ttl, rdata, None),
        2 => w.add_authority_rr(hn, t, c, ttl, rdata, None),
        _ => w.add_additional_rr(hn, t, c, ttl, rdata, None),
    };
    let unc = wire_of(r.owner).len() + 10 + r.rdata.len();
    judge(w, &s, res, unc, order_ok, r.sec, 1)
}

/// add_*_rrset of two records `a`, `b` (same owner, type, class, TTL);
/// `raw` is the RdataSet encoding of their two RDATA.
fn add_set2(w: &mut Writer, a: &Rec, b: &Rec, raw: &[u8], hint: Hint, order_ok: bool, probe: usize) -> bool {
    let s = snap(w, probe);
    let hn = HintedName::new(hint, name_view(a.owner));
    let (t, c, ttl) = (Type::from(a.rtype), Class::from(a.class), Ttl::from(a.ttl));
    let set = rdataset_view(raw);
    let res = match a.sec {
        1 => w.add_answer_rrset(hn, t, c, ttl, set, None),
        2 => w.add_authority_rrset(hn, t, c, ttl, set, None),
        _ => w.add_additional_rrset(hn, t, c, ttl, set, None),
    };
    let unc = 2 * (wire_of(a.owner).len() + 10) + a.rdata.len() + b.rdata.len();
    judge(w, &s, res, unc, order_ok, a.sec, 2)
}

/// RFC 1035 section 4.1.4 walk of the (possibly compressed) name at `at`,
/// compared label by label with the uncompressed name `given`.  All loop
/// bounds come from `given` (concrete), so a symbolic position costs one
/// selection per octet and no unwinding.  Every pointer met must point
/// strictly backwards; at most 3 consecutive pointers are accepted before a
/// label (more fails the assertion).  Returns the number of octets the name
/// occupies at `at`, which must not extend beyond `end`.
fn check_name(msg: &[u8], end: usize, at: usize, given: &[u8], exact: bool) -> usize {
    let mut pos = at;
    let mut used = usize::MAX;
    let mut gi = 0;
    loop {
        let mut hops = 0;
        while hops < 3 {
            if msg[pos] < 0xc0 {
                break;
            }
            let target = (((msg[pos] & 0x3f) as usize) << 8) | msg[pos + 1] as usize;
            assert!(target < pos, "[C13] a compression pointer points strictly backwards");
            if used == usize::MAX {
                used = pos + 2 - at;
            }
            pos = target;
            hops += 1;
        }
        let l = given[gi] as usize;
        assert!(msg[pos] as usize == l, "[C12] a decompressed name has the labels of the name given (label length)");
        let mut j = 1;
        while j <= l {
            if exact {
                assert!(msg[pos + j] == given[gi + j], "[C12] decompressed name equals the name given exactly (case-preserving or disabled compression, or incompressible field)");
            } else {
                assert!(lower(msg[pos + j]) == lower(given[gi + j]), "[C12] decompressed name equals the name given ignoring ASCII case");
            }
            j += 1;
        }
        pos += 1 + l;
        gi += 1 + l;
        if used == usize::MAX {
            assert!(pos <= end, "[C12] a name stays inside its field");
        }
        if l == 0 {
            if used == usize::MAX {
                used = pos - at;
            }
            break;
        }
    }
    assert!(gi == given.len(), "[C12] the whole given name was compared");
    assert!(at + used <= end, "[C12] a name stays inside its field");
    used
}

fn check_rec(msg: &[u8], n: usize, got: &RefRec, r: &Rec, mode: u8) {
    let want_ttl = if r.ttl > 0x7fff_ffff { 0 } else { r.ttl };
    assert!(got.section == r.sec, "[C12] record is in the section it was added to");
    assert!(got.rtype == r.rtype && got.class == r.class, "[C12] record TYPE and CLASS are those given");
    assert!(got.ttl == want_ttl, "[C12] record TTL is the one given");
    check_name(msg, n, got.owner_at, wire_of(r.owner), mode != M_STD);
    // RDATA: octets before the name, the name, octets after it
    let rd_end = got.rd_at + got.rdlen;
    let mut at = got.rd_at;
    let mut i = 0;
    assert!(got.rdlen >= r.name_at, "[C12] RDATA is not shorter than its leading fixed part");
    while i < r.name_at {
        assert!(msg[at] == r.rdata[i], "[C12] RDATA octets before an embedded name are those given");
        at += 1;
        i += 1;
    }
    if r.name_len > 0 {
        let compressible = compressible_type(r.rtype);
        let exact = mode != M_STD || !compressible;
        let used = check_name(msg, rd_end, at, &r.rdata[r.name_at..r.name_at + r.name_len], exact);
        if !compressible {
            assert!(used == r.name_len, "[C13] a name in SRV, class-specific or unknown-type RDATA is written uncompressed");
        }
        at += used;
        i += r.name_len;
    }
    assert!(rd_end - at == r.rdata.len() - i, "[C12] RDATA has the given length after the embedded name");
    while i < r.rdata.len() {
        assert!(msg[at] == r.rdata[i], "[C12] RDATA octets after an embedded name are those given");
        at += 1;
        i += 1;
    }
}

fn verify(msg: &[u8], n: usize, limit: usize, e: &Expect) -> usize {
    assert!(n <= limit, "[C12] the finished message does not exceed the limit in effect");
    let mut per = [0usize; 4];
    per[0] = e.q.is_some() as usize;
    let mut k = 0;
    while k < e.n {
        per[e.recs[k].sec as usize] += 1;
        k += 1;
    }
    per[3] += e.edns.is_some() as usize;
    let m = ref_decode_lim(msg, n, per, 8);
    assert!(m.wellformed, "[C12] the finished message decodes completely and ends at the returned length");
    assert!(
        m.counts[0] as usize == per[0] && m.counts[1] as usize == per[1] && m.counts[2] as usize == per[2] && m.counts[3] as usize == per[3],
        "[C12] header counts are those of the successful operations"
    );
    // C13
    assert!(m.pointers_ok, "[C13] every pointer points strictly backwards to the first octet of a label of an earlier name");
    assert!(!m.forbidden_pointer, "[C13] no pointer inside SRV, class-specific or unknown-type RDATA");
    if e.mode == M_OFF {
        assert!(m.n_pointers == 0, "[C13] no pointer at all when compression is disabled");
    }
    if let Some((qn, qt, qc)) = e.q {
        let used = check_name(msg, n, 12, wire_of(qn), true);
        assert!(used == wire_of(qn).len(), "[C12] the first name of a message is written in full");
        assert!(m.qtype == qt && m.qclass == qc && m.q_end == 12 + used + 4, "[C12] QTYPE and QCLASS are those given");
    }
    assert!(m.n_recs == e.n + e.edns.is_some() as usize, "[C12] the message holds exactly the records of the successful operations");
    let mut k = 0;
    while k < e.n {
        check_rec(msg, n, &m.recs[k], &e.recs[k], e.mode);
        k += 1;
    }
    if let Some((payload, xr)) = e.edns {
        let opt = &m.recs[e.n];
        assert!(m.n_opt == 1 && m.opt_placement_ok && opt.section == 3, "[C12] exactly one OPT, last in the additional section");
        assert!(msg[opt.owner_at] == 0 && opt.rtype == T_OPT && opt.class == payload && opt.rdlen == 0, "[C12] OPT as configured");
        assert!(opt.ttl & 0x00ff_ffff == 0, "[C12] EDNS version 0, no flags");
        assert!(((((opt.ttl >> 24) as u16) << 4) | (m.flags & 0xf)) == xr, "[C12] extended RCODE as set");
    } else {
        assert!(m.n_opt == 0, "[C12] no OPT without set_edns");
    }
    assert!(m.n_tsig == 0, "[C12] no TSIG without set_tsig");
    m.n_pointers
}

/// finish, then verify against `e`
macro_rules! done {
    ($w:ident, $buf:ident, $e:expr) => {{
        let limit = $w.limit;
        let n = $w.finish();
        let pointers = verify(&$buf, n, limit, $e);
        (n, pointers)
    }};
}

/// What a program run reports to its wrapper for the cover witnesses
/// (covers inside a const-generic body would be dead code in some
/// instantiations and count as unsatisfied).
#[derive(Clone, Copy)]
struct Out {
    /// the last operation was refused and rolled back
    truncated: bool,
    /// compression pointers FOLLOWED while decoding all names of the
    /// finished message (a pointer to a name that itself ends in a pointer
    /// counts twice)
    pointers: usize,
    /// final length
    n: usize,
}


fn new_expect<'a>(mode: u8) -> Expect<'a> {
    Expect {
        mode,
        q: None,
        recs: [NO_REC; 4],
        n: 0,
        edns: None,
    }
}

/// The common tail of every program: the LAST operation runs under an
/// arbitrary limit (set_limit(any) just before it, so truncation can strike
/// at each of its push sites while the prefix stays free of joins); then
/// finish and verify, on the refused and on the accepted path separately.
macro_rules! last_then_done {
    ($w:ident, $buf:ident, $e:ident, $q:ident, $ok:expr, $($rec:expr),*) => {{
        let ok: bool = $ok;
        if !ok {
            let (n, pointers) = done!($w, $buf, &$e);
            core::mem::forget($q);
            return Out { truncated: true, pointers, n };
        }
        $(
            $e.recs[$e.n] = $rec;
            $e.n += 1;
        )*
        let (n, pointers) = done!($w, $buf, &$e);
        core::mem::forget($q);
        return Out { truncated: false, pointers, n };
    }};
}

/// Program A: question, then ONE answer record whose owner and RDATA name
/// are case variants / suffixes of the QNAME.
///   QNAME  x.y.   (x in {a,A}, y in {b,B})
///   owner  x.y.   (own case bits) Hint::None
///   RDATA  MX preference, y. (own case bit)
fn prog_q_mx<const M: u8>() -> Out {
    let mut buf = [0u8; 64];
    let probe: usize = kani::any();
    kani::assume(probe < 64);
    let mut w = Writer::new(&mut buf, 64).unwrap();
    w.set_compression_mode(mode_of(M));
    let qn = [3, 0, 2, 4, 1, any_case(b'a'), 1, any_case(b'b'), 0];
    let (qt, qc): (u16, u16) = (kani::any(), kani::any());
    let q = Question {
        qname: name_view(&qn).to_owned(),
        qtype: qt.into(),
        qclass: qc.into(),
    };
    let mut e = new_expect(M);
    let ok = add_q(&mut w, &q, probe);
    assert!(ok && w.cursor == 21, "[C12] question written in full");
    e.q = Some((&qn, qt, qc));
    w.set_limit(kani::any());
    let on = [3, 0, 2, 4, 1, any_case(b'a'), 1, any_case(b'b'), 0];
    let rd = [kani::any(), kani::any(), 1, any_case(b'b'), 0];
    let r = Rec {
        sec: 1,
        owner: &on,
        rtype: T_MX,
        class: 1,
        ttl: kani::any(),
        rdata: &rd,
        name_at: 2,
        name_len: 3,
    };
    last_then_done!(w, buf, e, q, add_rec(&mut w, &r, Hint::None, true, probe), r)
}

// @harness props=C12,C13 tier=quick mem=4 t=1500 kani="--no-assertion-reach-checks" fn="Writer::add_question,Writer::add_answer_rr,Writer::add_rr,Writer::with_rollback,Writer::write_hinted_name,Writer::write_unhinted_name,Writer::write_compressed_unhinted_name,Writer::write_uncompressed_name,Writer::try_push,Writer::set_limit,Writer::set_compression_mode,Writer::finish,Rdata::components"
//   bound="buffer 64; program: question x.y. (both letters either case, QTYPE/QCLASS any) ; set_limit(any) ; add_answer_rr(owner x.y. with its own case bits, Hint::None, MX, IN, any TTL, any preference, exchange y.) ; finish - Standard mode; unwind 8"
//   sym="5 case bits, qtype, qclass, limit:usize, ttl:u32, pref:2 octets, probe<64" stubs="S8"
#[kani::proof]
#[kani::unwind(8)]
#[kani::stub(Writer::write, write_model)]
fn c12_prog_q_mx_standard() {
    let o = prog_q_mx::<M_STD>();
    kani::cover!(!o.truncated && o.pointers == 2 && o.n == 21 + 2 + 10 + 2 + 2, "owner and exchange both replaced by pointers");
    kani::cover!(o.truncated, "record truncated and rolled back");
}

// @harness props=C12,C13 tier=thorough mem=4 t=1500 kani="--no-assertion-reach-checks" fn="Writer::add_question,Writer::add_answer_rr,Writer::add_rr,Writer::write_compressed_unhinted_name,Writer::set_limit,Writer::finish,Rdata::components"
//   bound="as c12_prog_q_mx_standard in CasePreserving mode; unwind 8"
//   sym="5 case bits, qtype, qclass, limit:usize, ttl:u32, pref:2 octets, probe<64" stubs="S8"
#[kani::proof]
#[kani::unwind(8)]
#[kani::stub(Writer::write, write_model)]
fn c12_prog_q_mx_casepreserving() {
    let o = prog_q_mx::<M_CASE>();
    kani::cover!(!o.truncated && o.pointers == 2 && o.n == 21 + 4 + 10 + 2 + 2, "owner partially compressed (first label differs in case)");
    kani::cover!(!o.truncated && o.pointers == 0, "case differences prevent all compression");
}

// @harness props=C12,C13 tier=quick mem=4 t=1500 kani="--no-assertion-reach-checks" fn="Writer::add_question,Writer::add_answer_rr,Writer::add_rr,Writer::write_uncompressed_name,Writer::set_limit,Writer::finish,Rdata::components"
//   bound="as c12_prog_q_mx_standard with compression Disabled; unwind 8"
//   sym="5 case bits, qtype, qclass, limit:usize, ttl:u32, pref:2 octets, probe<64" stubs="S8"
#[kani::proof]
#[kani::unwind(8)]
#[kani::stub(Writer::write, write_model)]
fn c12_prog_q_mx_disabled() {
    let o = prog_q_mx::<M_OFF>();
    kani::cover!(!o.truncated && o.n == 21 + 5 + 10 + 2 + 3, "everything written in full");
    kani::cover!(o.truncated, "record truncated and rolled back");
}

/// Program B: truthful hints.
///   QNAME x.y. ; answer A  owner x.y. Hint::Qname
///              ; answer NS owner x.y. Hint::MostRecentOwner, RDATA y.
/// (every occurrence has its own case bits: the names are equal ignoring
/// case, which is what the hint contract asks for)
fn prog_hints<const M: u8>() -> Out {
    let mut buf = [0u8; 64];
    let probe: usize = kani::any();
    kani::assume(probe < 64);
    let mut w = Writer::new(&mut buf, 64).unwrap();
    w.set_compression_mode(mode_of(M));
    let qn = [3, 0, 2, 4, 1, any_case(b'a'), 1, any_case(b'b'), 0];
    let (qt, qc): (u16, u16) = (kani::any(), kani::any());
    let q = Question {
        qname: name_view(&qn).to_owned(),
        qtype: qt.into(),
        qclass: qc.into(),
    };
    let mut e = new_expect(M);
    let ok = add_q(&mut w, &q, probe);
    assert!(ok, "[C12] question fits");
    e.q = Some((&qn, qt, qc));
    let on1 = [3, 0, 2, 4, 1, any_case(b'a'), 1, any_case(b'b'), 0];
    let rd1: [u8; 4] = kani::any();
    let r1 = Rec {
        sec: 1,
        owner: &on1,
        rtype: T_A,
        class: 1,
        ttl: kani::any(),
        rdata: &rd1,
        name_at: 4,
        name_len: 0,
    };
    let ok = add_rec(&mut w, &r1, Hint::Qname, true, probe);
    assert!(ok, "[C12] first record fits");
    e.recs[0] = r1;
    e.n = 1;
    w.set_limit(kani::any());
    let on2 = [3, 0, 2, 4, 1, any_case(b'a'), 1, any_case(b'b'), 0];
    let rd2 = [1, any_case(b'b'), 0];
    let r2 = Rec {
        sec: 1,
        owner: &on2,
        rtype: T_NS,
        class: 1,
        ttl: kani::any(),
        rdata: &rd2,
        name_at: 0,
        name_len: 3,
    };
    last_then_done!(w, buf, e, q, add_rec(&mut w, &r2, Hint::MostRecentOwner, true, probe), r2)
}

// @harness props=C12,C13 tier=quick mem=4 t=1500 kani="--no-assertion-reach-checks" fn="Writer::add_question,Writer::add_answer_rr,Writer::add_rr,Writer::write_hinted_name,Writer::write_compressed_unhinted_name,Writer::set_limit,Writer::finish"
//   bound="buffer 64; question x.y. ; add_answer_rr(owner = QNAME up to case, Hint::Qname, A) ; set_limit(any) ; add_answer_rr(owner = same up to case, Hint::MostRecentOwner, NS y.) ; finish - Standard mode; unwind 8"
//   sym="7 case bits, qtype, qclass, limit:usize, 2 ttl, rdata:[u8;4], probe<64" stubs="S8"
#[kani::proof]
#[kani::unwind(8)]
#[kani::stub(Writer::write, write_model)]
fn c12_prog_hints_standard() {
    let o = prog_hints::<M_STD>();
    kani::cover!(!o.truncated && o.pointers == 3, "both hinted owners and the NS name are pointers");
    kani::cover!(o.truncated, "second record truncated and rolled back");
}

// @harness props=C12,C13 tier=thorough mem=4 t=1500 kani="--no-assertion-reach-checks" fn="Writer::add_question,Writer::add_answer_rr,Writer::add_rr,Writer::write_hinted_name,Writer::write_compressed_unhinted_name,Writer::set_limit,Writer::finish"
//   bound="as c12_prog_hints_standard in CasePreserving mode (hints are ignored, names compared exactly); unwind 8"
//   sym="7 case bits, qtype, qclass, limit:usize, 2 ttl, rdata:[u8;4], probe<64" stubs="S8"
#[kani::proof]
#[kani::unwind(8)]
#[kani::stub(Writer::write, write_model)]
fn c12_prog_hints_casepreserving() {
    let o = prog_hints::<M_CASE>();
    kani::cover!(!o.truncated && o.pointers == 3, "all three names compressed although hints are ignored");
    kani::cover!(!o.truncated && o.pointers == 0, "hinted owners written in full because their case differs");
}

// @harness props=C12,C13 tier=thorough mem=4 t=1500 kani="--no-assertion-reach-checks" fn="Writer::add_question,Writer::add_answer_rr,Writer::add_rr,Writer::write_hinted_name,Writer::write_uncompressed_name,Writer::set_limit,Writer::finish"
//   bound="as c12_prog_hints_standard with compression Disabled (hints must not produce pointers); unwind 8"
//   sym="7 case bits, qtype, qclass, limit:usize, 2 ttl, rdata:[u8;4], probe<64" stubs="S8"
#[kani::proof]
#[kani::unwind(8)]
#[kani::stub(Writer::write, write_model)]
fn c12_prog_hints_disabled() {
    let o = prog_hints::<M_OFF>();
    kani::cover!(!o.truncated && o.n == 21 + 19 + 18, "everything written in full");
}

/// Program C: RDATA that must not be compressed (RFC 3597 section 4).
///   QNAME x. ; answer SRV (IN) owner x. Hint::Qname, target x.
///            ; additional TYPE65280 owner x. Hint::None,
///              RDATA = 01 x 00 ?? (looks like a name; must be copied verbatim)
fn prog_srv_unknown<const M: u8>() -> Out {
    let mut buf = [0u8; 64];
    let probe: usize = kani::any();
    kani::assume(probe < 64);
    let mut w = Writer::new(&mut buf, 64).unwrap();
    w.set_compression_mode(mode_of(M));
    let qn = [2, 0, 2, 1, any_case(b'a'), 0];
    let (qt, qc): (u16, u16) = (kani::any(), kani::any());
    let q = Question {
        qname: name_view(&qn).to_owned(),
        qtype: qt.into(),
        qclass: qc.into(),
    };
    let mut e = new_expect(M);
    let ok = add_q(&mut w, &q, probe);
    assert!(ok, "[C12] question fits");
    e.q = Some((&qn, qt, qc));
    let on1 = [2, 0, 2, 1, any_case(b'a'), 0];
    let rd1 = [kani::any(), kani::any(), kani::any(), kani::any(), kani::any(), kani::any(), 1, any_case(b'a'), 0];
    let r1 = Rec {
        sec: 1,
        owner: &on1,
        rtype: T_SRV,
        class: 1,
        ttl: kani::any(),
        rdata: &rd1,
        name_at: 6,
        name_len: 3,
    };
    let ok = add_rec(&mut w, &r1, Hint::Qname, true, probe);
    assert!(ok, "[C12] SRV record fits");
    e.recs[0] = r1;
    e.n = 1;
    w.set_limit(kani::any());
    let on2 = [2, 0, 2, 1, any_case(b'a'), 0];
    let rd2 = [1, any_case(b'a'), 0, kani::any()];
    let r2 = Rec {
        sec: 3,
        owner: &on2,
        rtype: 65280,
        class: 1,
        ttl: kani::any(),
        rdata: &rd2,
        name_at: 4,
        name_len: 0,
    };
    last_then_done!(w, buf, e, q, add_rec(&mut w, &r2, Hint::None, true, probe), r2)
}

// @harness props=C12,C13 tier=quick mem=4 t=1500 kani="--no-assertion-reach-checks" fn="Writer::add_question,Writer::add_answer_rr,Writer::add_additional_rr,Writer::add_rr,Writer::write_hinted_name,Writer::write_compressed_unhinted_name,Writer::write_uncompressed_name,Writer::finish,Rdata::components,Rdata::components_as_in_srv"
//   bound="buffer 64; question x. ; add_answer_rr(x. Hint::Qname, SRV IN, 6 arbitrary octets + target x.) ; set_limit(any) ; add_additional_rr(x. Hint::None, TYPE65280, RDATA 01 x 00 ??) ; finish - Standard mode; unwind 8"
//   sym="5 case bits, qtype, qclass, limit:usize, 2 ttl, 7 RDATA octets, probe<64" stubs="S8"
#[kani::proof]
#[kani::unwind(8)]
#[kani::stub(Writer::write, write_model)]
fn c13_prog_srv_unknown_standard() {
    let o = prog_srv_unknown::<M_STD>();
    kani::cover!(!o.truncated && o.pointers == 2, "both owners are pointers, no RDATA name is");
    kani::cover!(o.truncated, "unknown-type record truncated and rolled back");
}

// @harness props=C12,C13 tier=thorough mem=4 t=1500 kani="--no-assertion-reach-checks" fn="Writer::add_question,Writer::add_answer_rr,Writer::add_additional_rr,Writer::add_rr,Writer::write_compressed_unhinted_name,Writer::write_uncompressed_name,Writer::finish,Rdata::components"
//   bound="as c13_prog_srv_unknown_standard in CasePreserving mode; unwind 8"
//   sym="5 case bits, qtype, qclass, limit:usize, 2 ttl, 7 RDATA octets, probe<64" stubs="S8"
#[kani::proof]
#[kani::unwind(8)]
#[kani::stub(Writer::write, write_model)]
fn c13_prog_srv_unknown_casepreserving() {
    let o = prog_srv_unknown::<M_CASE>();
    kani::cover!(!o.truncated && o.pointers == 2, "both owners are pointers, no RDATA name is");
    kani::cover!(!o.truncated && o.pointers == 0, "no compression at all");
}

/// Program D: Chaosnet A (class-specific: its name must stay uncompressed)
/// in the authority section, then TXT in the additional section.
fn prog_cha_txt<const M: u8>() -> Out {
    let mut buf = [0u8; 64];
    let probe: usize = kani::any();
    kani::assume(probe < 64);
    let mut w = Writer::new(&mut buf, 64).unwrap();
    w.set_compression_mode(mode_of(M));
    let qn = [2, 0, 2, 1, any_case(b'a'), 0];
    let (qt, qc): (u16, u16) = (kani::any(), kani::any());
    let q = Question {
        qname: name_view(&qn).to_owned(),
        qtype: qt.into(),
        qclass: qc.into(),
    };
    let mut e = new_expect(M);
    let ok = add_q(&mut w, &q, probe);
    assert!(ok, "[C12] question fits");
    e.q = Some((&qn, qt, qc));
    let on1 = [2, 0, 2, 1, any_case(b'a'), 0];
    let rd1 = [1, any_case(b'a'), 0, kani::any(), kani::any()];
    let r1 = Rec {
        sec: 2,
        owner: &on1,
        rtype: T_A,
        class: 3,
        ttl: kani::any(),
        rdata: &rd1,
        name_at: 0,
        name_len: 3,
    };
    let ok = add_rec(&mut w, &r1, Hint::Qname, true, probe);
    assert!(ok, "[C12] CH A record fits");
    e.recs[0] = r1;
    e.n = 1;
    w.set_limit(kani::any());
    let on2 = [2, 0, 2, 1, any_case(b'a'), 0];
    let rd2 = [2, kani::any(), kani::any()];
    let r2 = Rec {
        sec: 3,
        owner: &on2,
        rtype: T_TXT,
        class: 1,
        ttl: kani::any(),
        rdata: &rd2,
        name_at: 3,
        name_len: 0,
    };
    last_then_done!(w, buf, e, q, add_rec(&mut w, &r2, Hint::MostRecentOwner, true, probe), r2)
}

// @harness props=C12,C13 tier=quick mem=4 t=1500 kani="--no-assertion-reach-checks" fn="Writer::add_question,Writer::add_authority_rr,Writer::add_additional_rr,Writer::add_rr,Writer::write_hinted_name,Writer::write_uncompressed_name,Writer::finish,Rdata::components,Rdata::components_as_ch_a"
//   bound="buffer 64; question x. ; add_authority_rr(x. Hint::Qname, A in class CH, name x. + 2 octets) ; set_limit(any) ; add_additional_rr(x. Hint::MostRecentOwner, TXT 2 octets) ; finish - Standard mode; unwind 8"
//   sym="4 case bits, qtype, qclass, limit:usize, 2 ttl, 4 RDATA octets, probe<64" stubs="S8"
#[kani::proof]
#[kani::unwind(8)]
#[kani::stub(Writer::write, write_model)]
fn c13_prog_cha_txt_standard() {
    let o = prog_cha_txt::<M_STD>();
    kani::cover!(!o.truncated && o.pointers == 2, "both owners are pointers, the CH A name is not");
    kani::cover!(o.truncated, "TXT record truncated and rolled back");
}

/// Program E: an RRset of two NS records as the last operation (a failure
/// in the second record must roll back the first as well).
fn prog_rrset<const M: u8>() -> Out {
    let mut buf = [0u8; 64];
    let probe: usize = kani::any();
    kani::assume(probe < 64);
    let mut w = Writer::new(&mut buf, 64).unwrap();
    w.set_compression_mode(mode_of(M));
    let qn = [3, 0, 2, 4, 1, b'a', 1, b'b', 0];
    let (qt, qc): (u16, u16) = (kani::any(), kani::any());
    let q = Question {
        qname: name_view(&qn).to_owned(),
        qtype: qt.into(),
        qclass: qc.into(),
    };
    let mut e = new_expect(M);
    let ok = add_q(&mut w, &q, probe);
    assert!(ok, "[C12] question fits");
    e.q = Some((&qn, qt, qc));
    w.set_limit(kani::any());
    let on = [3, 0, 2, 4, 1, any_case(b'a'), 1, b'b', 0];
    // RdataSet encoding: native-endian u16 length, RDATA, ...
    let raw = [3, 0, 1, any_case(b'b'), 0, 5, 0, 1, any_case(b'a'), 1, any_case(b'b'), 0];
    let ttl: u32 = kani::any();
    let ra = Rec {
        sec: 1,
        owner: &on,
        rtype: T_NS,
        class: 1,
        ttl,
        rdata: &raw[2..5],
        name_at: 0,
        name_len: 3,
    };
    let rb = Rec {
        sec: 1,
        owner: &on,
        rtype: T_NS,
        class: 1,
        ttl,
        rdata: &raw[7..12],
        name_at: 0,
        name_len: 5,
    };
    last_then_done!(w, buf, e, q, add_set2(&mut w, &ra, &rb, &raw, Hint::Qname, true, probe), ra, rb)
}

// @harness props=C12,C13 tier=thorough mem=5 t=1800 kani="--no-assertion-reach-checks" fn="Writer::add_question,Writer::add_answer_rrset,Writer::add_rrset,Writer::add_rr,Writer::with_rollback,Writer::write_hinted_name,Writer::write_compressed_unhinted_name,Writer::finish,RdataSet::iter"
//   bound="buffer 64; question a.b. ; set_limit(any) ; add_answer_rrset(x.b. Hint::Qname, NS, {y., x.y.}) with case bits on x, y ; finish - Standard mode; unwind 8"
//   sym="4 case bits, qtype, qclass, limit:usize, ttl, probe<64" stubs="S8"
#[kani::proof]
#[kani::unwind(8)]
#[kani::stub(Writer::write, write_model)]
fn c12_prog_rrset_standard() {
    let o = prog_rrset::<M_STD>();
    kani::cover!(!o.truncated && o.pointers == 4, "two owners and two NS names, all pointers");
    kani::cover!(o.truncated, "whole RRset rolled back");
}

// @harness props=C12,C13 tier=thorough mem=5 t=1800 kani="--no-assertion-reach-checks" fn="Writer::add_question,Writer::add_answer_rrset,Writer::add_rrset,Writer::add_rr,Writer::write_compressed_unhinted_name,Writer::finish,RdataSet::iter"
//   bound="as c12_prog_rrset_standard in CasePreserving mode; unwind 8"
//   sym="4 case bits, qtype, qclass, limit:usize, ttl, probe<64" stubs="S8"
#[kani::proof]
#[kani::unwind(8)]
#[kani::stub(Writer::write, write_model)]
fn c12_prog_rrset_casepreserving() {
    let o = prog_rrset::<M_CASE>();
    kani::cover!(!o.truncated && o.pointers >= 3, "compressed although names are compared exactly");
    kani::cover!(o.truncated, "whole RRset rolled back");
}

// --------------------------------------------------------------------------
// section order, clear_rrs, count overflow
// --------------------------------------------------------------------------

// @harness props=C12,C13 tier=quick mem=4 t=1500 kani="--no-assertion-reach-checks" fn="Writer::set_edns,Writer::add_question,Writer::add_answer_rr,Writer::add_authority_rr,Writer::add_additional_rr,Writer::change_section_to_answer,Writer::change_section_to_authority,Writer::clear_rrs,Writer::with_rollback,Writer::finish"
//   bound="buffer 64, Standard mode; set_edns(any payload) ; question x. ; answer A (Hint::Qname) ; authority A (Hint::MostRecentOwner) ; answer A -> OutOfOrder ; question -> OutOfOrder ; additional A that does not fit -> Truncation ; clear_rrs ; additional A (Hint::MostRecentOwner with no anchor left) ; finish; unwind 8"
//   sym="4 case bits, payload, qtype, qclass, 4 ttl, 4x4 RDATA octets, probe<64" stubs="S8"
#[kani::proof]
#[kani::unwind(8)]
#[kani::stub(Writer::write, write_model)]
fn c12_prog_order_clear() {
    let mut buf = [0u8; 64];
    let probe: usize = kani::any();
    kani::assume(probe < 64);
    let mut w = Writer::new(&mut buf, 64).unwrap();
    let payload: u16 = kani::any();
    assert!(w.set_edns(payload).is_ok(), "[C12] OPT reservation fits");
    let qn = [2, 0, 2, 1, any_case(b'a'), 0];
    let (qt, qc): (u16, u16) = (kani::any(), kani::any());
    let q = Question {
        qname: name_view(&qn).to_owned(),
        qtype: qt.into(),
        qclass: qc.into(),
    };
    let mut e = new_expect(M_STD);
    e.edns = Some((payload, 0));
    assert!(add_q(&mut w, &q, probe), "[C12] question fits");
    e.q = Some((&qn, qt, qc));
    let on = [2, 0, 2, 1, any_case(b'a'), 0];
    let rd: [[u8; 4]; 4] = kani::any();
    let ttl: [u32; 4] = kani::any();
    let r1 = Rec {
        sec: 1,
        owner: &on,
        rtype: T_A,
        class: 1,
        ttl: ttl[0],
        rdata: &rd[0],
        name_at: 4,
        name_len: 0,
    };
    let r2 = Rec { sec: 2, ttl: ttl[1], rdata: &rd[1], ..r1 };
    let r3 = Rec { sec: 1, ttl: ttl[2], rdata: &rd[2], ..r1 };
    let r4 = Rec { sec: 3, owner: &[1, 0, 0], ttl: ttl[3], rdata: &rd[3], ..r1 };
    assert!(add_rec(&mut w, &r1, Hint::Qname, true, probe), "[C12] answer record fits");
    assert!(add_rec(&mut w, &r2, Hint::MostRecentOwner, true, probe), "[C12] authority record fits");
    assert!(w.cursor == 51 && w.section == Section::Authority, "[C12] two 16-octet records after the question");
    // out of order: refused, nothing changes (judge checks both)
    assert!(!add_rec(&mut w, &r3, Hint::Qname, false, probe), "[C12] answer after authority is refused");
    assert!(!add_q(&mut w, &q, probe), "[C12] question after records is refused");
    // 15 octets do not fit in the 2 that the OPT reservation leaves
    assert!(!add_rec(&mut w, &r4, Hint::None, true, probe), "[C12] record that would eat the OPT reservation is refused");
    // Over-approximate the states clear_rrs can be called in: pretend the most
    // recent owner was also the most recent name inside RDATA (an anchor into
    // the region that clear_rrs discards), as after an NS/CNAME/MX record.
    w.most_recent_name_in_rdata = w.most_recent_owner;
    let s = snap(&w, probe);
    w.clear_rrs();
    assert!(w.cursor == 19 && w.rr_start == 19 && w.section == Section::Question, "[C12] clear_rrs goes back to the end of the question section");
    assert!(w.qdcount == 1 && w.ancount == 0 && w.nscount == 0 && w.arcount == 1, "[C12] clear_rrs keeps the question and the reserved OPT");
    assert!(w.limit == s.limit && w.available == s.available, "[C12] clear_rrs keeps limit and reservation");
    assert!(probe >= 19 || w.octets[probe] == s.probe_val, "[C12] clear_rrs leaves header and question octets alone");
    assert!(prior(w.qname) == s.qname && w.most_recent_owner.is_none() && w.most_recent_name_in_rdata.is_none(), "[C12,C13] clear_rrs drops the anchors of removed names and keeps the QNAME anchor");
    let r5 = Rec { sec: 3, ttl: ttl[3], rdata: &rd[3], ..r1 };
    assert!(add_rec(&mut w, &r5, Hint::MostRecentOwner, true, probe), "[C12] record fits after clear_rrs");
    e.recs[0] = r5;
    e.n = 1;
    let (n, pointers) = done!(w, buf, &e);
    kani::cover!(n == 19 + 16 + 11 && pointers == 1, "question, one compressed record and the OPT remain");
    core::mem::forget(q);
}

// @harness props=C12 tier=quick mem=4 t=1200 kani="--no-assertion-reach-checks" fn="Writer::add_question,Writer::add_answer_rr,Writer::add_answer_rrset,Writer::add_authority_rr,Writer::add_additional_rr,Writer::set_edns,Writer::with_rollback"
//   bound="buffer 64; counters set to 65535/65534 by the harness (reaching them through the API needs 65535 records), then one add per section, one 2-record RRset, set_edns and add_question: all must fail with CountOverflow and change nothing; unwind 8"
//   sym="rdata octets, probe<64" stubs="S8"
#[kani::proof]
#[kani::unwind(8)]
#[kani::stub(Writer::write, write_model)]
fn c12_count_overflow_rolls_back() {
    let mut buf = [0u8; 64];
    let probe: usize = kani::any();
    kani::assume(probe < 64);
    let mut w = Writer::new(&mut buf, 64).unwrap();
    let rd: [u8; 4] = kani::any();
    let rdata: &Rdata = (&rd).try_into().unwrap();
    let raw = [4, 0, rd[0], rd[1], rd[2], rd[3], 4, 0, rd[3], rd[2], rd[1], rd[0]];
    let root = HintedName::new(Hint::None, Name::root());
    let q = Question {
        qname: name_view(&N_A).to_owned(),
        qtype: Type::A.into(),
        qclass: Class::IN.into(),
    };
    w.qdcount = u16::MAX;
    let s = snap(&w, probe);
    assert!(w.add_question(&q) == Err(Error::CountOverflow), "[C12] 65536th question refused");
    assert_unchanged(&w, &s);
    w.ancount = u16::MAX;
    let s = snap(&w, probe);
    assert!(w.add_answer_rr(root, Type::A, Class::IN, Ttl::from(1), rdata, None) == Err(Error::CountOverflow), "[C12] 65536th answer refused");
    assert_unchanged(&w, &s);
    w.ancount = u16::MAX - 1;
    let s = snap(&w, probe);
    assert!(
        w.add_answer_rrset(root, Type::A, Class::IN, Ttl::from(1), rdataset_view(&raw), None) == Err(Error::CountOverflow),
        "[C12] RRset that would overflow ANCOUNT refused as a whole"
    );
    assert_unchanged(&w, &s);
    w.nscount = u16::MAX;
    let s = snap(&w, probe);
    assert!(w.add_authority_rr(root, Type::A, Class::IN, Ttl::from(1), rdata, None) == Err(Error::CountOverflow), "[C12] 65536th authority record refused");
    assert_unchanged(&w, &s);
    w.arcount = u16::MAX;
    let s = snap(&w, probe);
    assert!(w.add_additional_rr(root, Type::A, Class::IN, Ttl::from(1), rdata, None) == Err(Error::CountOverflow), "[C12] 65536th additional record refused");
    assert_unchanged(&w, &s);
    assert!(w.set_edns(512) == Err(Error::CountOverflow), "[C12] OPT that would overflow ARCOUNT refused");
    assert_unchanged(&w, &s);
    assert!(w.edns.is_none(), "[C12] refused set_edns leaves the message non-EDNS");
    kani::cover!(w.cursor == 12 && w.section == Section::Question, "all five refusals rolled back to the empty message");
    core::mem::forget(q);
    core::mem::forget(w);
}

// --------------------------------------------------------------------------
// TSIG reservation (TsigMode::Unsigned only: the signing modes reach HMAC-SHA
// code that Kani cannot translate - inline assembly)
// --------------------------------------------------------------------------

// What is NOT covered: finish() of a TSIG message.  finish_with_mac moves the
// TSIG state out of the writer with Option::take (a memcpy), after which all
// of its fields - name lengths and the mode discriminant included - are
// symbolic to CBMC.  Measured with the signing entry points stubbed out
// (assert(false) models): with compression enabled the run was still in
// symbolic execution after 100 min; with compression disabled symbolic
// execution took 81 s and CBMC's propositional reduction then ran out of
// memory at 24 GB.  The harness below covers the reservation logic only.

// @harness props=C12 tier=quick mem=4 t=1200 kani="--no-assertion-reach-checks" fn="Writer::set_tsig,Writer::update_time_signed,Writer::add_question,Writer::add_answer_rr,Writer::set_limit,Writer::clear_rrs,PreparedTsigRr::unsigned_len"
//   bound="buffer 64; set_tsig(Unsigned, key k., algorithm h., any time/fudge/original id/error != BADTIME) ; second set_tsig refused ; question x. ; set_limit(0) and back to 64 ; a 15-octet record that does not fit beside the 32-octet reservation ; update_time_signed(any) ; clear_rrs ; NO finish (see comment above); unwind 8"
//   sym="case bit, 2x6 time octets, fudge, original id, error, qtype, qclass, probe<64" stubs="S8"
#[kani::proof]
#[kani::unwind(8)]
#[kani::stub(Writer::write, write_model)]
fn c12_tsig_reservation() {
    let mut buf = [0u8; 64];
    let probe: usize = kani::any();
    kani::assume(probe < 64);
    let mut w = Writer::new(&mut buf, 64).unwrap();
    let key: Box<LowercaseName> = name_view(&[2, 0, 2, 1, b'k', 0]).to_owned().into();
    let alg: Box<LowercaseName> = name_view(&[2, 0, 2, 1, b'h', 0]).to_owned().into();
    let t1: [u8; 6] = kani::any();
    let t2: [u8; 6] = kani::any();
    let (fudge, oid, err): (u16, u16, u16) = (kani::any(), kani::any(), kani::any());
    kani::assume(err != 18); // BADTIME adds 6 octets of "other data": not covered
    let rr = PreparedTsigRr {
        key_name: key,
        time_signed: TimeSigned::from(t1),
        fudge,
        original_id: oid,
        error: ExtendedRcode::from(err),
        server_time: TimeSigned::from(t1),
    };
    assert!(w.update_time_signed(TimeSigned::from(t2)) == Err(Error::NotTsig), "[C12] update_time_signed without TSIG refused");
    assert!(w.set_tsig(TsigMode::Unsigned { algorithm: alg }, rr).is_ok(), "[C12] TSIG reservation fits");
    assert!(w.arcount == 1 && w.available == 64 - 32 && w.cursor == 12, "[C12] key name + algorithm name + 26 = 32 octets reserved for the unsigned TSIG record");
    let qn = [2, 0, 2, 1, any_case(b'a'), 0];
    let (qt, qc): (u16, u16) = (kani::any(), kani::any());
    let q = Question {
        qname: name_view(&qn).to_owned(),
        qtype: qt.into(),
        qclass: qc.into(),
    };
    assert!(add_q(&mut w, &q, probe), "[C12] question fits");
    // lowering the limit as far as it goes keeps the reservation
    w.set_limit(0);
    assert!(w.limit == 51 && w.available == 19, "[C12] set_limit keeps written octets and the TSIG reservation");
    w.set_limit(64);
    let rd: [u8; 4] = kani::any();
    let r = Rec {
        sec: 1,
        owner: &[1, 0, 0],
        rtype: T_A,
        class: 1,
        ttl: kani::any(),
        rdata: &rd,
        name_at: 4,
        name_len: 0,
    };
    assert!(!add_rec(&mut w, &r, Hint::None, true, probe), "[C12] record that would eat the TSIG reservation is refused");
    assert!(w.update_time_signed(TimeSigned::from(t2)).is_ok(), "[C12] update_time_signed accepted");
    w.clear_rrs();
    assert!(w.arcount == 1 && w.cursor == 19 && w.available == 32, "[C12] clear_rrs keeps the question and the reserved TSIG");
    assert_invariant(&w, 64);
    kani::cover!(w.limit == 64, "TSIG reservation exercised");
    core::mem::forget(q);
    core::mem::forget(w);
}

// --------------------------------------------------------------------------
// templates
// --------------------------------------------------------------------------

// @harness props=C12,C13 tier=thorough mem=5 t=1800 kani="--no-assertion-reach-checks" fn="Writer::into_template,Writer::try_from_template,Writer::try_from_template_impl,Writer::add_answer_rr,Writer::finish"
//   bound="buffer 64; set_edns ; question x. ; answer A (Hint::Qname) ; into_template ; try_from_template into buffers of 45 (refused), 46 (limit lowered) and 64 octets ; answer A (Hint::MostRecentOwner) ; finish; unwind 8"
//   sym="3 case bits, payload, qtype, qclass, 2 ttl, 2x4 RDATA octets, probe<64" stubs="S8"
#[kani::proof]
#[kani::unwind(8)]
#[kani::stub(Writer::write, write_model)]
fn c12_template_roundtrip() {
    let mut buf = [0u8; 64];
    let probe: usize = kani::any();
    kani::assume(probe < 64);
    let mut w = Writer::new(&mut buf, 64).unwrap();
    let payload: u16 = kani::any();
    assert!(w.set_edns(payload).is_ok(), "[C12] OPT reservation fits");
    let qn = [2, 0, 2, 1, any_case(b'a'), 0];
    let (qt, qc): (u16, u16) = (kani::any(), kani::any());
    let q = Question {
        qname: name_view(&qn).to_owned(),
        qtype: qt.into(),
        qclass: qc.into(),
    };
    let mut e = new_expect(M_STD);
    e.edns = Some((payload, 0));
    assert!(add_q(&mut w, &q, probe), "[C12] question fits");
    e.q = Some((&qn, qt, qc));
    let on1 = [2, 0, 2, 1, any_case(b'a'), 0];
    let on2 = [2, 0, 2, 1, any_case(b'a'), 0];
    let rd: [[u8; 4]; 2] = kani::any();
    let r1 = Rec {
        sec: 1,
        owner: &on1,
        rtype: T_A,
        class: 1,
        ttl: kani::any(),
        rdata: &rd[0],
        name_at: 4,
        name_len: 0,
    };
    let r2 = Rec { owner: &on2, ttl: kani::any(), rdata: &rd[1], ..r1 };
    assert!(add_rec(&mut w, &r1, Hint::Qname, true, probe), "[C12] first record fits");
    assert!(w.cursor == 35, "[C12] 16-octet record");
    let s = snap(&w, probe);
    let t = w.into_template();
    let mut small = [0u8; 45];
    assert!(matches!(Writer::try_from_template(&mut small, &t), Err(Error::Truncation)), "[C12] template needs room for the message and its reservations");
    let mut exact = [0u8; 46];
    let w3 = Writer::try_from_template(&mut exact, &t).unwrap();
    assert!(w3.limit == 46 && w3.available == 35 && w3.cursor == 35, "[C12] limit lowered to the new buffer, reservation kept");
    core::mem::forget(w3);
    let mut buf2 = [0u8; 64];
    let mut w2 = Writer::try_from_template(&mut buf2, &t).unwrap();
    assert_unchanged(&w2, &Snap { probe_val: w2.octets[probe], ..s });
    assert!(probe >= 35 || w2.octets[probe] == s.probe_val, "[C12] template carries the octets written so far");
    assert!(add_rec(&mut w2, &r2, Hint::MostRecentOwner, true, probe), "[C12] second record fits in the new writer");
    e.recs[0] = r1;
    e.recs[1] = r2;
    e.n = 2;
    let (n, pointers) = done!(w2, buf2, &e);
    kani::cover!(n == 35 + 16 + 11 && pointers == 2, "template message continued and finished");
    core::mem::forget(q);
    core::mem::forget(t);
}

// --------------------------------------------------------------------------
// C13: the heuristic scan of write_compressed_unhinted_name
// --------------------------------------------------------------------------

/// Scan A: two prior names of the compressee's length, one of them holding
/// a pointer itself.  Prefix (concrete letters, so its layout is fixed):
///   12 QNAME a.b.            -> 01 a 01 b 00
///   21 answer owner c.b.     -> 01 c c0 0e          (anchor: owner, 3 labels)
///      SRV target A.b.  @41  -> 01 A 01 b 00        (anchor: RDATA name, 3 labels)
/// Compressee (authority owner, Hint::None): X.Y. with X in {a,A,c,C},
/// Y in {b,B}.
fn scan_a<const M: u8>() -> Out {
    let mut buf = [0u8; 64];
    let probe: usize = kani::any();
    kani::assume(probe < 64);
    let mut w = Writer::new(&mut buf, 64).unwrap();
    w.set_compression_mode(mode_of(M));
    let qn = [3, 0, 2, 4, 1, b'a', 1, b'b', 0];
    let (qt, qc): (u16, u16) = (kani::any(), kani::any());
    let q = Question {
        qname: name_view(&qn).to_owned(),
        qtype: qt.into(),
        qclass: qc.into(),
    };
    let mut e = new_expect(M);
    assert!(add_q(&mut w, &q, probe), "[C12] question fits");
    e.q = Some((&qn, qt, qc));
    let on1 = [3, 0, 2, 4, 1, b'c', 1, b'b', 0];
    let rd1 = [kani::any(), kani::any(), kani::any(), kani::any(), kani::any(), kani::any(), 1, b'A', 1, b'b', 0];
    let r1 = Rec {
        sec: 1,
        owner: &on1,
        rtype: T_SRV,
        class: 1,
        ttl: kani::any(),
        rdata: &rd1,
        name_at: 6,
        name_len: 5,
    };
    assert!(add_rec(&mut w, &r1, Hint::None, true, probe), "[C12] SRV record fits");
    assert!(w.cursor == 46, "[C12] owner c.b. shares the label b with the QNAME; SRV target in full");
    e.recs[0] = r1;
    e.n = 1;
    let x = if kani::any() { b'a' } else { b'c' };
    let on2 = [3, 0, 2, 4, 1, any_case(x), 1, any_case(b'b'), 0];
    let rd2: [u8; 2] = kani::any();
    let r2 = Rec {
        sec: 2,
        owner: &on2,
        rtype: T_TXT,
        class: 1,
        ttl: kani::any(),
        rdata: &rd2,
        name_at: 2,
        name_len: 0,
    };
    assert!(add_rec(&mut w, &r2, Hint::None, true, probe), "[C12] compressee record fits");
    e.recs[1] = r2;
    e.n = 2;
    let (n, pointers) = done!(w, buf, &e);
    core::mem::forget(q);
    Out {
        truncated: false,
        pointers,
        n,
    }
}

// @harness props=C13,C12 tier=quick mem=4 t=1500 kani="--no-assertion-reach-checks" fn="Writer::write_compressed_unhinted_name,Writer::write_hinted_name,Writer::write_uncompressed_name,Writer::add_rr"
//   bound="buffer 64, Standard mode; priors: owner c.b. (written 01 c + pointer) and SRV target A.b. (in full); compressee X.Y., X in {a,A,c,C}, Y in {b,B}, as authority owner with Hint::None; unwind 8"
//   sym="letter choice + 2 case bits, qtype, qclass, 2 ttl, 8 RDATA octets, probe<64" stubs="S8"
#[kani::proof]
#[kani::unwind(8)]
#[kani::stub(Writer::write, write_model)]
fn c13_scan_equal_length_standard() {
    let o = scan_a::<M_STD>();
    // prefix has 1 pointer (owner c.b.); the compressee adds exactly one
    kani::cover!(o.pointers == 2 && o.n == 46 + 2 + 12, "compressee replaced by one pointer");
}

// @harness props=C13,C12 tier=thorough mem=4 t=1500 kani="--no-assertion-reach-checks" fn="Writer::write_compressed_unhinted_name,Writer::write_hinted_name,Writer::write_uncompressed_name,Writer::add_rr"
//   bound="as c13_scan_equal_length_standard in CasePreserving mode; unwind 8"
//   sym="letter choice + 2 case bits, qtype, qclass, 2 ttl, 8 RDATA octets, probe<64" stubs="S8"
#[kani::proof]
#[kani::unwind(8)]
#[kani::stub(Writer::write, write_model)]
fn c13_scan_equal_length_casepreserving() {
    let o = scan_a::<M_CASE>();
    kani::cover!(o.pointers == 2 && o.n == 46 + 4 + 12, "compressee keeps its first label and points to the shared suffix");
    kani::cover!(o.pointers == 1 && o.n == 46 + 5 + 12, "compressee written in full (case differs)");
}

/// Scan B: priors of different lengths that converge on the same octets
/// (the de-duplication branch), compressee shorter / equal / longer.
/// Prefix (concrete letters):
///   12 QNAME a.b.               -> 01 a 01 b 00
///   21 answer owner b.          -> c0 0e            (anchor: owner = offset 14, 2 labels)
///      NS a.b.            @33   -> 01 a c0 0e       (anchor: RDATA name, 3 labels)
/// Compressee (second answer owner, Hint::None), by K:
///   0: X.Y.   1: Y.   2: z.X.Y.      (X in {a,A}, Y in {b,B})
fn scan_b<const M: u8, const K: u8>() -> Out {
    let mut buf = [0u8; 64];
    let probe: usize = kani::any();
    kani::assume(probe < 64);
    let mut w = Writer::new(&mut buf, 64).unwrap();
    w.set_compression_mode(mode_of(M));
    let qn = [3, 0, 2, 4, 1, b'a', 1, b'b', 0];
    let (qt, qc): (u16, u16) = (kani::any(), kani::any());
    let q = Question {
        qname: name_view(&qn).to_owned(),
        qtype: qt.into(),
        qclass: qc.into(),
    };
    let mut e = new_expect(M);
    assert!(add_q(&mut w, &q, probe), "[C12] question fits");
    e.q = Some((&qn, qt, qc));
    let on1 = [2, 0, 2, 1, b'b', 0];
    let rd1 = [1, b'a', 1, b'b', 0];
    let r1 = Rec {
        sec: 1,
        owner: &on1,
        rtype: T_NS,
        class: 1,
        ttl: kani::any(),
        rdata: &rd1,
        name_at: 0,
        name_len: 5,
    };
    assert!(add_rec(&mut w, &r1, Hint::None, true, probe), "[C12] NS record fits");
    assert!(w.cursor == 37, "[C12] owner b. is a pointer into the QNAME; NS name a.b. keeps one label and a pointer");
    e.recs[0] = r1;
    e.n = 1;
    let (xa, yb) = (any_case(b'a'), any_case(b'b'));
    let on2_0 = [3, 0, 2, 4, 1, xa, 1, yb, 0];
    let on2_1 = [2, 0, 2, 1, yb, 0];
    let on2_2 = [4, 0, 2, 4, 6, 1, b'z', 1, xa, 1, yb, 0];
    let rd2: [u8; 4] = kani::any();
    let r2 = Rec {
        sec: 1,
        owner: if K == 0 {
            &on2_0
        } else if K == 1 {
            &on2_1
        } else {
            &on2_2
        },
        rtype: T_A,
        class: 1,
        ttl: kani::any(),
        rdata: &rd2,
        name_at: 4,
        name_len: 0,
    };
    assert!(add_rec(&mut w, &r2, Hint::None, true, probe), "[C12] compressee record fits");
    e.recs[1] = r2;
    e.n = 2;
    let (n, pointers) = done!(w, buf, &e);
    core::mem::forget(q);
    Out {
        truncated: false,
        pointers,
        n,
    }
}

// @harness props=C13,C12 tier=thorough quick=C13 mem=5 t=1800 kani="--no-assertion-reach-checks" fn="Writer::write_compressed_unhinted_name,Writer::write_unhinted_name,Writer::add_rr,Rdata::components"
//   bound="buffer 64, Standard mode; priors: owner anchor at the QNAME's label b (2 labels) and NS name a.b. written 01 a + pointer (3 labels), converging on offset 14; compressee X.Y. (equal length); unwind 8"
//   sym="2 case bits, qtype, qclass, 2 ttl, 4 RDATA octets, probe<64" stubs="S8"
#[kani::proof]
#[kani::unwind(8)]
#[kani::stub(Writer::write, write_model)]
fn c13_scan_converging_equal_standard() {
    let o = scan_b::<M_STD, 0>();
    // (pointers counts pointers FOLLOWED while decoding: 1 owner b., 1 NS name, 2 compressee)
    kani::cover!(o.pointers == 4 && o.n == 37 + 2 + 14, "compressee is one pointer to the NS name, itself compressed");
}

// @harness props=C13,C12 tier=thorough mem=5 t=1800 kani="--no-assertion-reach-checks" fn="Writer::write_compressed_unhinted_name,Writer::write_unhinted_name,Writer::add_rr,Rdata::components"
//   bound="as c13_scan_converging_equal_standard in CasePreserving mode; unwind 8"
//   sym="2 case bits, qtype, qclass, 2 ttl, 4 RDATA octets, probe<64" stubs="S8"
#[kani::proof]
#[kani::unwind(8)]
#[kani::stub(Writer::write, write_model)]
fn c13_scan_converging_equal_casepreserving() {
    let o = scan_b::<M_CASE, 0>();
    kani::cover!(o.pointers == 3 && o.n == 37 + 4 + 14, "first label differs in case: label + pointer to the shared b");
    kani::cover!(o.pointers == 2 && o.n == 37 + 5 + 14, "last label differs in case: written in full");
}

// @harness props=C13,C12 tier=thorough quick=C13 mem=5 t=1800 kani="--no-assertion-reach-checks" fn="Writer::write_compressed_unhinted_name,Writer::write_unhinted_name,Writer::add_rr,Rdata::components"
//   bound="as c13_scan_converging_equal_standard with the 2-label compressee Y. (both priors are longer or equal: the skip loop follows the pointer inside the NS name); unwind 8"
//   sym="1 case bit, qtype, qclass, 2 ttl, 4 RDATA octets, probe<64" stubs="S8"
#[kani::proof]
#[kani::unwind(8)]
#[kani::stub(Writer::write, write_model)]
fn c13_scan_converging_shorter_standard() {
    let o = scan_b::<M_STD, 1>();
    kani::cover!(o.pointers == 3 && o.n == 37 + 2 + 14, "compressee is one pointer to the shared label");
}

// @harness props=C13,C12 tier=thorough mem=5 t=1800 kani="--no-assertion-reach-checks" fn="Writer::write_compressed_unhinted_name,Writer::write_unhinted_name,Writer::add_rr,Rdata::components"
//   bound="as c13_scan_converging_equal_standard with the 4-label compressee z.X.Y. (both priors shorter: start columns 1 and 2); unwind 8"
//   sym="2 case bits, qtype, qclass, 2 ttl, 4 RDATA octets, probe<64" stubs="S8"
#[kani::proof]
#[kani::unwind(8)]
#[kani::stub(Writer::write, write_model)]
fn c13_scan_converging_longer_standard() {
    let o = scan_b::<M_STD, 2>();
    kani::cover!(o.pointers == 4 && o.n == 37 + 4 + 14, "compressee keeps z and points to the NS name");
}

// --------------------------------------------------------------------------
// hints that refer to a name inside RDATA
// --------------------------------------------------------------------------

/// Program F: QNAME x. ; answer NS (owner x. Hint::Qname) with RDATA name y.,
/// its HintPointer collected in a HintPointerVec ; additional A whose owner
/// is that NS name (own case bit), hinted either explicitly from the vector
/// (H = 0) or with Hint::MostRecentNameInRdata (H = 1).
fn prog_rdata_hints<const M: u8, const H: u8>() -> Out {
    let mut buf = [0u8; 64];
    let probe: usize = kani::any();
    kani::assume(probe < 64);
    let mut w = Writer::new(&mut buf, 64).unwrap();
    w.set_compression_mode(mode_of(M));
    let qn = [2, 0, 2, 1, any_case(b'a'), 0];
    let (qt, qc): (u16, u16) = (kani::any(), kani::any());
    let q = Question {
        qname: name_view(&qn).to_owned(),
        qtype: qt.into(),
        qclass: qc.into(),
    };
    let mut e = new_expect(M);
    assert!(add_q(&mut w, &q, probe), "[C12] question fits");
    e.q = Some((&qn, qt, qc));
    let on1 = [2, 0, 2, 1, any_case(b'a'), 0];
    let rd1 = [1, any_case(b'b'), 0];
    let r1 = Rec {
        sec: 1,
        owner: &on1,
        rtype: T_NS,
        class: 1,
        ttl: kani::any(),
        rdata: &rd1,
        name_at: 0,
        name_len: 3,
    };
    let mut hpv = HintPointerVec::new();
    {
        let s = snap(&w, probe);
        let rdata: &Rdata = (&rd1).try_into().unwrap();
        let res = w.add_answer_rr(HintedName::new(Hint::Qname, name_view(&on1)), Type::NS, Class::IN, Ttl::from(r1.ttl), rdata, Some(&mut hpv));
        assert!(judge(&w, &s, res, 3 + 10 + 3, true, 1, 1), "[C12] NS record fits");
    }
    e.recs[0] = r1;
    e.n = 1;
    assert!(hpv.get(0).is_some() && hpv.get(1).is_none(), "[C13] one hint pointer recorded for the one RDATA name");
    let hp = hpv.get(0).unwrap().get() as usize;
    assert!(hp >= 19 + 2 + 10 && hp < w.cursor, "[C13] the recorded hint pointer lies inside the NS record's RDATA");
    w.set_limit(kani::any());
    let on2 = [2, 0, 2, 1, any_case(b'b'), 0];
    let rd2: [u8; 4] = kani::any();
    let r2 = Rec {
        sec: 3,
        owner: &on2,
        rtype: T_A,
        class: 1,
        ttl: kani::any(),
        rdata: &rd2,
        name_at: 4,
        name_len: 0,
    };
    let hint = if H == 0 {
        HintedName::from_hint_pointer_vec(&hpv, 0, name_view(&on2)).hint()
    } else {
        Hint::MostRecentNameInRdata
    };
    last_then_done!(w, buf, e, q, add_rec(&mut w, &r2, hint, true, probe), r2)
}

// @harness props=C12,C13 tier=thorough quick=C13 mem=4 t=1500 kani="--no-assertion-reach-checks" fn="Writer::add_answer_rr,Writer::add_additional_rr,Writer::add_rr,Writer::write_hinted_name,HintPointerVec::push,HintPointerVec::get,HintedName::from_hint_pointer_vec,Writer::finish"
//   bound="buffer 64, Standard mode; question x. ; add_answer_rr(x. Hint::Qname, NS y., Some(HintPointerVec)) ; set_limit(any) ; add_additional_rr(y. with Hint::Explicit taken from the vector, A) ; finish; unwind 8"
//   sym="4 case bits, qtype, qclass, limit:usize, 2 ttl, 4 RDATA octets, probe<64" stubs="S8"
#[kani::proof]
#[kani::unwind(8)]
#[kani::stub(Writer::write, write_model)]
fn c13_prog_explicit_hint_standard() {
    let o = prog_rdata_hints::<M_STD, 0>();
    kani::cover!(!o.truncated && o.pointers == 2, "owner compressed through the explicit hint pointer");
    kani::cover!(o.truncated, "hinted record truncated and rolled back");
}

// @harness props=C12,C13 tier=thorough mem=4 t=1500 kani="--no-assertion-reach-checks" fn="Writer::add_answer_rr,Writer::add_additional_rr,Writer::add_rr,Writer::write_hinted_name,Writer::finish"
//   bound="as c13_prog_explicit_hint_standard with Hint::MostRecentNameInRdata; unwind 8"
//   sym="4 case bits, qtype, qclass, limit:usize, 2 ttl, 4 RDATA octets, probe<64" stubs="S8"
#[kani::proof]
#[kani::unwind(8)]
#[kani::stub(Writer::write, write_model)]
fn c13_prog_rdata_name_hint_standard() {
    let o = prog_rdata_hints::<M_STD, 1>();
    kani::cover!(!o.truncated && o.pointers == 2, "owner compressed through the most-recent-RDATA-name hint");
}
