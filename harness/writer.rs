// @host src/message/writer.rs
//
// C12 (the writer serialises exactly what it was given) and C13 (name
// compression only emits valid, permitted pointers).
//
// Oracles: the independent message decoder of kani_common (ref_decode_lim,
// ref_name) applied to the finished message, plus small arithmetic models of
// the documented size/limit rules written here.  Nothing is compared against
// the reader of quandary.
//
// Shapes are CONCRETE (one harness per operation program); the symbolic parts
// are the size limit (so truncation can strike at every push site), header
// fields, TTL/class/type/RDATA octets and the ASCII case bits of letters.
//
// Inputs are built on the stack so that CBMC keeps their constants:
//   * `name_view` lays out a `Name` (repr(C): n_labels, label offsets, wire
//     form) in an array literal and views it as `&Name`, exactly as
//     `Name::root()` does with its static; harness c12_inputs_wellformed
//     checks these views against `Name::try_from_uncompressed`.
//   * `rdataset_view` views `[len_lo, len_hi, rdata.., ...]` as `&RdataSet`
//     (repr(transparent) over [u8], native-endian length prefixes); the same
//     harness checks it against `RdataSetOwned::from_iter`.

use super::*;
use crate::kani_common::*;

// --------------------------------------------------------------------------
// input construction
// --------------------------------------------------------------------------

/// `repr` = [n_labels, offsets.., wire..]
fn name_view(repr: &[u8]) -> &Name {
    unsafe { &*(core::ptr::slice_from_raw_parts(repr.as_ptr(), repr.len() - 1) as *const Name) }
}

fn rdataset_view(raw: &[u8]) -> &RdataSet {
    unsafe { &*(raw as *const [u8] as *const RdataSet) }
}

/// ASCII letter `c` (given in lower case) with a symbolic case bit.
fn any_case(c: u8) -> u8 {
    if kani::any() {
        c
    } else {
        c - 32
    }
}

// --------------------------------------------------------------------------
// state snapshots: "a failed operation leaves the message unchanged"
// --------------------------------------------------------------------------

#[derive(Clone, Copy)]
struct Snap {
    cursor: usize,
    limit: usize,
    available: usize,
    rr_start: usize,
    section: Section,
    counts: [u16; 4],
    qname: Option<(u16, u8)>,
    owner: Option<(u16, u8)>,
    in_rdata: Option<(u16, u8)>,
    probe: usize,
    probe_val: u8,
}

fn prior(p: Option<PriorName>) -> Option<(u16, u8)> {
    match p {
        Some(p) => Some((p.pointer.get(), p.len)),
        None => None,
    }
}

/// `probe` is a symbolic index: checking one symbolic octet is checking all.
fn snap(w: &Writer, probe: usize) -> Snap {
    Snap {
        cursor: w.cursor,
        limit: w.limit,
        available: w.available,
        rr_start: w.rr_start,
        section: w.section,
        counts: [w.qdcount, w.ancount, w.nscount, w.arcount],
        qname: prior(w.qname),
        owner: prior(w.most_recent_owner),
        in_rdata: prior(w.most_recent_name_in_rdata),
        probe,
        probe_val: w.octets[probe],
    }
}

fn assert_unchanged(w: &Writer, s: &Snap) {
    assert!(w.cursor == s.cursor, "[C12] failed operation leaves the cursor unchanged");
    assert!(w.limit == s.limit && w.available == s.available, "[C12] failed operation leaves limit and reservation unchanged");
    assert!(w.rr_start == s.rr_start, "[C12] failed operation leaves the end of the question section unchanged");
    assert!(w.section == s.section, "[C12] failed operation leaves the section unchanged");
    assert!(
        w.qdcount == s.counts[0] && w.ancount == s.counts[1] && w.nscount == s.counts[2] && w.arcount == s.counts[3],
        "[C12] failed operation leaves the counts unchanged"
    );
    assert!(
        s.probe >= s.cursor || w.octets[s.probe] == s.probe_val,
        "[C12] failed operation leaves the octets written so far unchanged"
    );
    // compression anchors: a stale anchor would let a later name point into
    // octets that are no longer part of the message
    assert!(prior(w.qname) == s.qname, "[C13] failed operation leaves the QNAME anchor unchanged");
    assert!(prior(w.most_recent_owner) == s.owner, "[C13] failed operation leaves the owner anchor unchanged");
    assert!(
        prior(w.most_recent_name_in_rdata) == s.in_rdata,
        "[C13] failed operation leaves the RDATA-name anchor unchanged"
    );
}

fn assert_invariant(w: &Writer, buf_len: usize) {
    assert!(
        HEADER_SIZE <= w.cursor && w.cursor <= w.available && w.available <= w.limit && w.limit <= buf_len,
        "[C12] 12 <= cursor <= available <= limit <= buffer length"
    );
}

// --------------------------------------------------------------------------
// 0. the stack-built inputs are what the public constructors build
// --------------------------------------------------------------------------

const N_A: [u8; 6] = [2, 0, 2, 1, b'a', 0];
const N_B: [u8; 6] = [2, 0, 2, 1, b'b', 0];
const N_AB: [u8; 9] = [3, 0, 2, 4, 1, b'A', 1, b'b', 0];

fn same_as_parsed(repr: &[u8], n_labels: usize) {
    let v = name_view(repr);
    let wire = &repr[1 + n_labels..];
    let (parsed, used) = Name::try_from_uncompressed(wire).unwrap();
    assert!(used == wire.len(), "[C12] input sanity: wire form is one whole name");
    assert!(v.len() == parsed.len() && v.len() == n_labels, "[C12] input sanity: label count");
    assert!(v.wire_repr().len() == wire.len(), "[C12] input sanity: wire length");
    let mut i = 0;
    while i < wire.len() {
        assert!(v.wire_repr()[i] == parsed.wire_repr()[i] && v.wire_repr()[i] == wire[i], "[C12] input sanity: wire octets");
        i += 1;
    }
    let mut k = 0;
    while k < n_labels {
        assert!(
            v.wire_repr_to(k).len() == parsed.wire_repr_to(k).len(),
            "[C12] input sanity: label offsets"
        );
        k += 1;
    }
}

// @harness props=C12,C13 tier=quick mem=3 t=600 fn="Name::try_from_uncompressed,Name::wire_repr,Name::wire_repr_to,RdataSet::iter"
//   bound="the three pool names a. b. A.b. and one 2-element RDATA set; concrete; unwind 8"
//   sym="none (sanity check: stack-built Name views equal the parsed names; the RdataSet view iterates to the intended RDATA)"
#[kani::proof]
#[kani::unwind(8)]
fn c12_inputs_wellformed() {
    same_as_parsed(&N_A, 2);
    same_as_parsed(&N_B, 2);
    same_as_parsed(&N_AB, 3);
    // the writer consumes an RdataSet only through iter()
    let raw = [2u8, 0, 7, 9, 3, 0, 1, 2, 3];
    let set = rdataset_view(&raw);
    let mut it = set.iter();
    let x = it.next().unwrap().octets();
    assert!(x.len() == 2 && x[0] == 7 && x[1] == 9, "[C12] input sanity: first RDATA of the set view");
    let y = it.next().unwrap().octets();
    assert!(y.len() == 3 && y[0] == 1 && y[2] == 3, "[C12] input sanity: second RDATA of the set view");
    assert!(it.next().is_none(), "[C12] input sanity: the set view has two elements");
    kani::cover!(true, "inputs compared");
}

// --------------------------------------------------------------------------
// 1. limits, try_push, with_rollback
// --------------------------------------------------------------------------

// @harness props=C12 tier=quick mem=3 t=600 fn="Writer::new"
//   bound="64-octet buffer with arbitrary prior contents, every usize limit; unwind 14"
//   sym="buf:[u8;64], limit:usize"
#[kani::proof]
#[kani::unwind(14)]
fn c12_new_any_limit() {
    let mut buf: [u8; 64] = kani::any();
    let limit: usize = kani::any();
    let eff = if limit < 64 { limit } else { 64 };
    let probe: usize = kani::any();
    kani::assume(probe < 12);
    match Writer::new(&mut buf, limit) {
        Err(e) => {
            assert!(eff < 12, "[C12] new fails only when a header does not fit");
            assert!(e == Error::Truncation, "[C12] new fails with Truncation");
            kani::cover!(limit == 11, "limit 11 rejected");
        }
        Ok(w) => {
            assert!(eff >= 12, "[C12] new succeeds only when a header fits");
            assert!(w.limit == eff && w.available == eff && w.cursor == 12, "[C12] new: limit = min(limit, buffer length)");
            assert_invariant(&w, 64);
            assert!(w.octets[probe] == 0, "[C12] header initially zero");
            assert!(w.section == Section::Question && w.qdcount == 0 && w.ancount == 0 && w.nscount == 0 && w.arcount == 0, "[C12] new message is empty");
            // (finish() on this value is not called here: after the join of
            // the Ok/Err arms CBMC no longer knows that `tsig` is None and
            // would explore the HMAC code; finish of an empty message is
            // covered by c12_header_fields)
            core::mem::forget(w);
            kani::cover!(limit == 12, "limit 12 accepted");
            kani::cover!(limit > 64, "limit beyond the buffer clamped");
        }
    }
}

/// set_limit from a state with a question and (E) an OPT reservation, then
/// one record of known size: the limit rule, and that space accounting
/// after the change is exact in both directions.
fn set_limit_then_rr<const E: bool>() {
    let mut buf = [0u8; 64];
    let l0: usize = kani::any();
    let x: usize = kani::any();
    let probe: usize = kani::any();
    kani::assume(probe < 64);
    // concrete construction, then a symbolic limit through set_limit: with
    // cursor = 12 and nothing reserved this reaches every limit in 12..=64
    // (Writer::new with a symbolic limit is c12_new_any_limit)
    let mut w = Writer::new(&mut buf, 64).unwrap();
    w.set_limit(l0);
    assert!(w.limit == (if l0 < 12 { 12 } else if l0 > 64 { 64 } else { l0 }), "[C12] set_limit clamps to [written + reserved, buffer length]");
    let reserved = if E { 11 } else { 0 };
    if E {
        if w.set_edns(1232).is_err() {
            return;
        }
    }
    let q = Question {
        qname: name_view(&N_A).to_owned(),
        qtype: Type::A.into(),
        qclass: Class::IN.into(),
    };
    let s = snap(&w, probe);
    if w.add_question(&q).is_err() {
        assert!(s.cursor + 7 > s.available, "[C12] question that fits is not refused");
        assert_unchanged(&w, &s);
        kani::cover!(true, "question truncated");
        core::mem::forget(q);
        return;
    }
    assert!(w.cursor == 19, "[C12] question occupies 7 octets");
    assert_invariant(&w, 64);
    let old_limit = w.limit;
    w.set_limit(x);
    // "as close to new_limit as possible", never above the buffer, never
    // below what is written plus what is reserved
    let lo = 19 + reserved;
    let want = if x > 64 {
        64
    } else if x < lo {
        lo
    } else {
        x
    };
    assert!(w.limit == want, "[C12] set_limit clamps to [written + reserved, buffer length]");
    assert!(w.available == want - reserved, "[C12] set_limit keeps the reservation");
    assert!(w.cursor == 19, "[C12] set_limit does not move the cursor");
    assert_invariant(&w, 64);
    kani::cover!(x < lo && old_limit > lo, "limit lowered and clamped from below");
    kani::cover!(x > old_limit && x <= 64, "limit raised");
    // one A record owned by the root: 1 + 10 + 4 = 15 octets, incompressible
    let ttl: u32 = kani::any();
    let rd: [u8; 4] = kani::any();
    let rdata: &Rdata = (&rd).try_into().unwrap();
    let s = snap(&w, probe);
    let r = w.add_answer_rr(HintedName::new(Hint::None, Name::root()), Type::A, Class::IN, Ttl::from(ttl), rdata, None);
    let fits = 19 + 15 <= want - reserved;
    match r {
        Ok(()) => {
            assert!(fits, "[C12] a record that does not fit in the limit is refused");
            assert!(w.cursor == 34 && w.ancount == 1, "[C12] record accounted for");
        }
        Err(e) => {
            assert!(!fits, "[C12] a record whose uncompressed form fits is never truncated");
            assert!(e == Error::Truncation, "[C12] the only possible failure here is truncation");
            assert_unchanged(&w, &s);
            kani::cover!(true, "record truncated after set_limit");
        }
    }
    assert_invariant(&w, 64);
    let ok = r.is_ok();
    let limit = w.limit;
    let n = w.finish();
    assert!(n <= limit, "[C12] finished message within the limit in effect");
    assert!(n == 19 + (if ok { 15 } else { 0 }) + reserved, "[C12] finished length = written + reserved records");
    let m = ref_decode_lim(&buf, n, [1, 1, 0, 1], 3);
    assert!(m.wellformed, "[C12] finished message decodes");
    assert!(
        m.counts[0] == 1 && m.counts[1] == (ok as u16) && m.counts[2] == 0 && m.counts[3] == (E as u16),
        "[C12] header counts are those of the successful operations"
    );
    if ok {
        let rec = &m.recs[0];
        let want_ttl = if ttl > 0x7fff_ffff { 0 } else { ttl };
        assert!(rec.section == 1 && rec.rtype == 1 && rec.class == 1 && rec.ttl == want_ttl, "[C12] record fields");
        assert!(rec.rdlen == 4 && buf[rec.rd_at] == rd[0] && buf[rec.rd_at + 3] == rd[3], "[C12] record RDATA");
        assert!(buf[rec.owner_at] == 0, "[C12] root owner");
    }
    kani::cover!(ok && E, "record and OPT both present");
    core::mem::forget(q);
}

// @harness props=C12 tier=quick mem=4 t=900 fn="Writer::set_limit,Writer::add_question,Writer::add_answer_rr,Writer::add_rr,Writer::with_rollback,Writer::try_push,Writer::finish"
//   bound="buffer 64; question a. A IN; every initial limit and every set_limit argument (usize); then one 15-octet root-owned A record with symbolic TTL and RDATA; unwind 8"
//   sym="l0:usize, x:usize, ttl:u32, rdata:[u8;4], probe<64"
#[kani::proof]
#[kani::unwind(8)]
fn c12_set_limit_plain() {
    set_limit_then_rr::<false>();
}

// @harness props=C12 tier=quick mem=4 t=900 fn="Writer::set_edns,Writer::set_limit,Writer::add_question,Writer::add_answer_rr,Writer::add_rr,Writer::finish"
//   bound="as c12_set_limit_plain with an 11-octet OPT reservation made first; unwind 8"
//   sym="l0:usize, x:usize, ttl:u32, rdata:[u8;4], probe<64"
#[kani::proof]
#[kani::unwind(8)]
fn c12_set_limit_edns() {
    set_limit_then_rr::<true>();
}

// @harness props=C12 tier=quick mem=3 t=600 fn="Writer::try_push,Writer::write"
//   bound="buffer 32 with arbitrary contents; every valid (cursor, available, limit); data of every length 0..=6; unwind 8"
//   sym="buf:[u8;32], l0:usize, cursor, data:[u8;6], len<=6, probe<32"
#[kani::proof]
#[kani::unwind(8)]
fn c12_try_push_atomic() {
    let mut buf: [u8; 32] = kani::any();
    let l0: usize = kani::any();
    let mut w = Writer::new(&mut buf, 32).unwrap();
    w.set_limit(l0);
    // any cursor the invariant allows
    let c: usize = kani::any();
    kani::assume(12 <= c && c <= w.available);
    w.cursor = c;
    let data: [u8; 6] = kani::any();
    let len: usize = kani::any();
    kani::assume(len <= 6);
    let probe: usize = kani::any();
    kani::assume(probe < 32);
    let s = snap(&w, probe);
    let r = w.try_push(&data[..len]);
    match r {
        Ok(()) => {
            assert!(c + len <= s.available, "[C12] try_push never writes past the available space");
            assert!(w.cursor == c + len, "[C12] try_push advances the cursor by the data length");
            if probe < c {
                assert!(w.octets[probe] == s.probe_val, "[C12] try_push leaves earlier octets alone");
            } else if probe < c + len {
                assert!(w.octets[probe] == data[probe - c], "[C12] try_push writes the data in order");
            } else {
                assert!(w.octets[probe] == s.probe_val, "[C12] try_push leaves later octets alone");
            }
            kani::cover!(len == 6 && c + len == s.available, "push that exactly fills the space");
        }
        Err(e) => {
            assert!(e == Error::Truncation, "[C12] try_push fails with Truncation");
            assert!(c + len > s.available, "[C12] data that fits is never refused");
            assert_unchanged(&w, &s);
            assert!(w.octets[probe] == s.probe_val, "[C12] failed try_push writes nothing at all");
            kani::cover!(len == 1, "one octet too many");
        }
    }
    assert_invariant(&w, 32);
}

// @harness props=C12,C13 tier=quick mem=3 t=600 fn="Writer::with_rollback,Writer::try_push"
//   bound="buffer 32; state after new + fabricated anchors; closure that moves section, cursor and all three anchors and pushes 0..=4 octets, failing or not (symbolic); unwind 8"
//   sym="l0:usize, fail:bool, len<=4, data:[u8;4], probe<32"
#[kani::proof]
#[kani::unwind(8)]
fn c12_with_rollback_restores() {
    let mut buf: [u8; 32] = kani::any();
    let l0: usize = kani::any();
    let mut w = Writer::new(&mut buf, 32).unwrap();
    w.set_limit(l0);
    let fail: bool = kani::any();
    let data: [u8; 4] = kani::any();
    let len: usize = kani::any();
    kani::assume(len <= 4);
    let probe: usize = kani::any();
    kani::assume(probe < 32);
    let s = snap(&w, probe);
    let r: Result<u8> = w.with_rollback(|this| {
        this.section = Section::Additional;
        this.qname = Some(PriorName {
            pointer: HintPointer::new(12).unwrap(),
            len: 2,
        });
        this.most_recent_owner = this.qname;
        this.most_recent_name_in_rdata = this.qname;
        this.try_push(&data[..len])?;
        if fail {
            Err(Error::InvalidRdata)
        } else {
            Ok(7)
        }
    });
    match r {
        Ok(v) => {
            assert!(v == 7 && !fail, "[C12] with_rollback returns the closure's value");
            assert!(w.cursor == 12 + len && w.section == Section::Additional, "[C12] successful closure's effects are kept");
            kani::cover!(len == 4, "kept");
        }
        Err(e) => {
            assert!(fail || 12 + len > s.available, "[C12] with_rollback fails only if the closure does");
            assert_unchanged(&w, &s);
            kani::cover!(e == Error::Truncation, "rollback after truncation");
            kani::cover!(e == Error::InvalidRdata && len == 4, "rollback after octets were pushed");
        }
    }
    assert_invariant(&w, 32);
}

// --------------------------------------------------------------------------
// 2. header fields and the extended RCODE
// --------------------------------------------------------------------------

// @harness props=C12 tier=quick mem=3 t=600 fn="Writer::set_id,Writer::set_qr,Writer::set_opcode,Writer::set_aa,Writer::set_tc,Writer::set_rd,Writer::set_ra,Writer::set_rcode,Writer::id,Writer::qr,Writer::opcode,Writer::aa,Writer::tc,Writer::rd,Writer::ra,Writer::rcode,Writer::extended_rcode,Writer::finish"
//   bound="12-octet message; every field set twice (first to an arbitrary value, then to the final one) in a fixed order; all values of all fields; unwind 14"
//   sym="id:2xu16, opcode:2x0..15, rcode:2x0..15, six flag bits 2x"
#[kani::proof]
#[kani::unwind(14)]
fn c12_header_fields() {
    let mut buf: [u8; 12] = kani::any();
    let mut w = Writer::new(&mut buf, 12).unwrap();
    let id: [u16; 2] = kani::any();
    let op: [u8; 2] = kani::any();
    let rc: [u8; 2] = kani::any();
    let fl: [[bool; 6]; 2] = kani::any();
    kani::assume(op[0] < 16 && op[1] < 16 && rc[0] < 16 && rc[1] < 16);
    let mut k = 0;
    while k < 2 {
        // the second round runs in the opposite order, so every setter is
        // exercised both on zero and on arbitrary neighbouring bits
        if k == 0 {
            w.set_id(id[k]);
            w.set_qr(fl[k][0]);
            w.set_opcode(Opcode::try_from(op[k]).unwrap());
            w.set_aa(fl[k][1]);
            w.set_tc(fl[k][2]);
            w.set_rd(fl[k][3]);
            w.set_ra(fl[k][4]);
            w.set_rcode(Rcode::try_from(rc[k]).unwrap());
        } else {
            w.set_rcode(Rcode::try_from(rc[k]).unwrap());
            w.set_ra(fl[k][4]);
            w.set_rd(fl[k][3]);
            w.set_tc(fl[k][2]);
            w.set_aa(fl[k][1]);
            w.set_opcode(Opcode::try_from(op[k]).unwrap());
            w.set_qr(fl[k][0]);
            w.set_id(id[k]);
        }
        k += 1;
    }
    assert!(w.id() == id[1] && w.qr() == fl[1][0] && u8::from(w.opcode()) == op[1], "[C12] getters return what was set");
    assert!(w.aa() == fl[1][1] && w.tc() == fl[1][2] && w.rd() == fl[1][3] && w.ra() == fl[1][4], "[C12] getters return what was set");
    assert!(u8::from(w.rcode()) == rc[1] && u16::from(w.extended_rcode()) == rc[1] as u16, "[C12] getters return what was set");
    let n = w.finish();
    assert!(n == 12, "[C12] header-only message");
    // RFC 1035 section 4.1.1, extracted independently
    assert!(be16(&buf, 0) == id[1], "[C12] ID");
    assert!((buf[2] >> 7) == fl[1][0] as u8, "[C12] QR");
    assert!(((buf[2] >> 3) & 0xf) == op[1], "[C12] OPCODE");
    assert!(((buf[2] >> 2) & 1) == fl[1][1] as u8, "[C12] AA");
    assert!(((buf[2] >> 1) & 1) == fl[1][2] as u8, "[C12] TC");
    assert!((buf[2] & 1) == fl[1][3] as u8, "[C12] RD");
    assert!((buf[3] >> 7) == fl[1][4] as u8, "[C12] RA");
    assert!(((buf[3] >> 4) & 7) == 0, "[C12] Z bits stay zero");
    assert!((buf[3] & 0xf) == rc[1], "[C12] RCODE");
    assert!(be16(&buf, 4) == 0 && be16(&buf, 6) == 0 && be16(&buf, 8) == 0 && be16(&buf, 10) == 0, "[C12] empty counts");
    kani::cover!(op[1] == 15 && rc[1] == 15 && fl[1][0] && !fl[0][0], "all-ones fields over a cleared first round");
}

// @harness props=C12 tier=quick mem=3 t=600 fn="Writer::set_extended_rcode,Writer::extended_rcode,Writer::finish"
//   bound="12-octet non-EDNS message with an arbitrary RCODE already set; every u16 extended RCODE; unwind 14"
//   sym="first:0..15, v:u16"
#[kani::proof]
#[kani::unwind(14)]
fn c12_extended_rcode_without_edns() {
    let mut buf = [0u8; 12];
    let mut w = Writer::new(&mut buf, 12).unwrap();
    let first: u8 = kani::any();
    kani::assume(first < 16);
    w.set_rcode(Rcode::try_from(first).unwrap());
    let v: u16 = kani::any();
    let r = w.set_extended_rcode(ExtendedRcode::from(v));
    let ok = r.is_ok();
    if v >= 16 {
        assert!(!ok, "[C12] an extended RCODE of 16 or more cannot be set without EDNS");
    }
    let n = w.finish();
    assert!(n == 12, "[C12] no OPT record appears without set_edns");
    let got = (buf[3] & 0xf) as u16;
    if ok {
        assert!(got == v, "[C12] accepted extended RCODE is the header RCODE");
    } else {
        assert!(got == first as u16, "[C12] refused extended RCODE leaves the header RCODE unchanged");
    }
    kani::cover!(!ok && v == 3, "refused without EDNS");
}

/// EDNS: OPT composition for every payload size and every extended RCODE.
/// `THEN_RCODE`: a set_rcode afterwards must zero the upper eight bits.
fn edns_rcode<const THEN_RCODE: bool>() {
    let mut buf = [0u8; 32];
    let mut w = Writer::new(&mut buf, 32).unwrap();
    let payload: u16 = kani::any();
    let v: u16 = kani::any();
    let id: u16 = kani::any();
    w.set_id(id);
    assert!(w.set_edns(payload).is_ok(), "[C12] OPT reservation fits");
    assert!(w.set_edns(payload) == Err(Error::AlreadyEdns), "[C12] second set_edns refused");
    assert!(w.arcount == 1 && w.available == 21 && w.cursor == 12, "[C12] exactly one OPT reserved");
    let r = w.set_extended_rcode(ExtendedRcode::from(v));
    let mut want = 0u16;
    match r {
        Ok(()) => {
            assert!(v <= 4095, "[C12] extended RCODEs above 12 bits are refused");
            want = v;
            assert!(u16::from(w.extended_rcode()) == v, "[C12] extended_rcode() returns what was set");
        }
        Err(e) => {
            assert!(v > 4095 && e == Error::ExtendedRcodeOverflow, "[C12] every 12-bit extended RCODE is accepted with EDNS");
            kani::cover!(true, "13-bit value refused");
        }
    }
    if THEN_RCODE {
        let low: u8 = kani::any();
        kani::assume(low < 16);
        w.set_rcode(Rcode::try_from(low).unwrap());
        want = low as u16;
    }
    let n = w.finish();
    assert!(n == 23, "[C12] header plus the 11-octet OPT record");
    let m = ref_decode_lim(&buf, n, [0, 0, 0, 1], 2);
    assert!(m.wellformed, "[C12] finished EDNS message decodes");
    assert!(m.id == id && m.counts[0] == 0 && m.counts[1] == 0 && m.counts[2] == 0 && m.counts[3] == 1, "[C12] counts");
    assert!(m.n_opt == 1 && m.opt_placement_ok && m.n_recs == 1, "[C12] exactly one OPT, in the additional section");
    let opt = &m.recs[0];
    assert!(buf[opt.owner_at] == 0 && opt.rd_at == opt.owner_at + 11, "[C12] OPT owner is the root");
    assert!(opt.rtype == T_OPT && opt.class == payload && opt.rdlen == 0, "[C12] OPT class carries the payload size; no options");
    // RFC 6891 section 6.1.3: TTL = ext-rcode(8) version(8) DO(1) Z(15)
    assert!(opt.ttl & 0x00ff_ffff == 0, "[C12] EDNS version 0, no flags");
    let got = (((opt.ttl >> 24) as u16) << 4) | (m.flags & 0xf);
    assert!(got == want, "[C12] 12-bit extended RCODE = OPT TTL[31:24] << 4 | header RCODE");
    kani::cover!(r.is_ok() && v >= 2048, "extended RCODE with the top bit set");
    kani::cover!(r.is_ok() && v >= 16 && v < 2048, "extended RCODE between 16 and 2047");
}

// @harness props=C12 tier=quick mem=4 t=900 fn="Writer::set_edns,Writer::set_extended_rcode,Writer::extended_rcode,Writer::finish,Writer::add_rr,Ttl::from"
//   bound="32-octet buffer, no question; every u16 payload size, every u16 extended RCODE (all 4096 valid ones and all refused ones), every ID; unwind 8"
//   sym="payload:u16, v:u16, id:u16"
#[kani::proof]
#[kani::unwind(8)]
fn c12_edns_extended_rcode() {
    edns_rcode::<false>();
}

// @harness props=C12 tier=quick mem=4 t=900 fn="Writer::set_edns,Writer::set_extended_rcode,Writer::set_rcode,Writer::finish"
//   bound="as c12_edns_extended_rcode, followed by set_rcode(any of 16): upper bits must be cleared; unwind 8"
//   sym="payload:u16, v:u16, id:u16, low:0..15"
#[kani::proof]
#[kani::unwind(8)]
fn c12_edns_set_rcode_clears_extension() {
    edns_rcode::<true>();
}
