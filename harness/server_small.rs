// @host src/server/mod.rs
// @transform hashmap_model
//
// Shared family "server-small": the real Server::handle_message driven with
// small requests ("concrete skeleton, symbolic fields") and mock catalogs.
//
// Lessons built into the shapes below (all measured):
//  * CBMC only prunes infeasible paths by constant propagation, and constants
//    do not survive a trip through the heap (Arc, Box<Name>, Vec) or through
//    arrays of more than 64 elements.  Control flow that should be fixed in a
//    harness is therefore fixed by a *type* (catalog kinds below) or a stack
//    constant, never by kani::assume on a symbolic value.
//  * Requests are written as array literals so that their concrete octets stay
//    constants; counts in the header are concrete per shape, everything the
//    property quantifies over inside a shape (ID, flag bits, opcode, QTYPE,
//    QCLASS, OPT class/TTL, trailing octets, ...) is symbolic.

use super::*;
use crate::class::Class;
use crate::db::catalog::Entry;
use crate::db::zone::{
    Addresses, Cname, Found, GluePolicy, IteratorByNode, LookupAddrsResult, LookupAllResult,
    LookupOptions, LookupResult, NoRecords, Referral, SingleRrset, Zone,
};
use crate::kani_common::*;
use crate::rr::{Rdata, RdataSetOwned, Ttl};

pub struct MockZone {
    pub class: Class,
    pub mode: u8,
    pub has_soa: bool,
    pub a_set: RdataSetOwned,
    pub soa_set: RdataSetOwned,
    pub ttl: u32,
}

impl Zone for MockZone {
    fn name(&self) -> &Name {
        Name::root()
    }
    fn class(&self) -> Class {
        self.class
    }
    fn glue_policy(&self) -> GluePolicy {
        GluePolicy::Narrow
    }
    fn lookup(&self, _name: &Name, _rr_type: Type, _options: LookupOptions) -> LookupResult {
        match self.mode {
            0 => LookupResult::NxDomain,
            1 => LookupResult::NoRecords(NoRecords {
                source_of_synthesis: None,
            }),
            _ => LookupResult::Found(Found {
                data: SingleRrset {
                    ttl: Ttl::from(self.ttl),
                    rdatas: Cow::Borrowed(&self.a_set),
                },
                source_of_synthesis: None,
            }),
        }
    }
    fn lookup_addrs(&self, _name: &Name, _options: LookupOptions) -> LookupAddrsResult {
        LookupAddrsResult::NxDomain
    }
    fn lookup_all(&self, _name: &Name, _options: LookupOptions) -> LookupAllResult {
        LookupAllResult::NxDomain
    }
    fn soa(&self) -> Option<SingleRrset> {
        if self.has_soa {
            Some(SingleRrset {
                ttl: Ttl::from(self.ttl),
                rdatas: Cow::Borrowed(&self.soa_set),
            })
        } else {
            None
        }
    }
    fn iter_by_node(&self) -> IteratorByNode {
        Box::new(std::iter::empty())
    }
}

pub struct MockCatalog {
    pub choice: u8,
    pub loaded: Entry<MockZone, ()>,
    pub not_yet: Entry<MockZone, ()>,
    pub failed: Entry<MockZone, ()>,
}

impl Catalog for MockCatalog {
    type Metadata = ();
    type ZoneImpl = MockZone;
    fn lookup(&self, _name: &Name, _class: Class) -> Option<&Entry<MockZone, ()>> {
        match self.choice {
            0 => None,
            1 => Some(&self.not_yet),
            2 => Some(&self.failed),
            _ => Some(&self.loaded),
        }
    }
}

pub fn mock_catalog(choice: u8, mode: u8, has_soa: bool, class: Class, ttl: u32) -> MockCatalog {
    let a: &Rdata = (&[192u8, 0, 2, 1]).try_into().unwrap();
    // SOA: mname ".", rname ".", serial/refresh/retry/expire = 0, minimum = 7
    let soa: &Rdata = (&[0u8, 0, 0, 0, 0, 0, 0, 0, 0, 0, 0, 0, 0, 0, 0, 0, 0, 0, 0, 0, 0, 7])
        .try_into()
        .unwrap();
    let zone = MockZone {
        class,
        mode,
        has_soa,
        a_set: RdataSetOwned::from(a),
        soa_set: RdataSetOwned::from(soa),
        ttl,
    };
    MockCatalog {
        choice,
        loaded: Entry::Loaded(Arc::new(zone), ()),
        not_yet: Entry::NotYetLoaded(Name::root().to_owned(), class, ()),
        failed: Entry::FailedToLoad(Name::root().to_owned(), class, ()),
    }
}

pub fn empty_keys() -> TsigKeyMap {
    // stub S1 (hashmap_model): the association-list model, no RandomState
    TsigKeyMap::new()
}

pub fn mock_server(cat: MockCatalog, payload: u16) -> Server<MockCatalog> {
    Server {
        catalog: RwLock::new(Arc::new(cat)),
        edns_udp_payload_size: payload,
        rrl: None,
        tsig_keys: RwLock::new(Arc::new(empty_keys())),
    }
}

/// Stub S4: Rrl::should_slip reaches `rand` (SIMD intrinsics make
/// kani-compiler panic: intrinsics.rs:243).  RRL is off (rrl: None) in this
/// family, so the stub body is never executed; it only removes `rand` from
/// the reachable code.
pub fn should_slip_model(_rrl: &rrl::Rrl) -> bool {
    kani::any()
}

/// A zone type for catalogs that never hand out a loaded zone.
pub struct NoZone;
impl Zone for NoZone {
    fn name(&self) -> &Name {
        Name::root()
    }
    fn class(&self) -> Class {
        Class::IN
    }
    fn glue_policy(&self) -> GluePolicy {
        GluePolicy::Narrow
    }
    fn lookup(&self, _name: &Name, _rr_type: Type, _options: LookupOptions) -> LookupResult {
        LookupResult::NxDomain
    }
    fn lookup_addrs(&self, _name: &Name, _options: LookupOptions) -> LookupAddrsResult {
        LookupAddrsResult::NxDomain
    }
    fn lookup_all(&self, _name: &Name, _options: LookupOptions) -> LookupAllResult {
        LookupAllResult::NxDomain
    }
    fn iter_by_node(&self) -> IteratorByNode {
        Box::new(std::iter::empty())
    }
}

/// Catalog kinds: what `Catalog::lookup` answers for every (name, class).
pub const CAT_NONE: u8 = 0;
pub const CAT_NOT_YET: u8 = 1;
pub const CAT_FAILED: u8 = 2;

pub struct CatNone;
impl Catalog for CatNone {
    type Metadata = ();
    type ZoneImpl = NoZone;
    fn lookup(&self, _name: &Name, _class: Class) -> Option<&Entry<NoZone, ()>> {
        None
    }
}

pub struct CatPlaceholder {
    pub entry: Entry<NoZone, ()>,
}
impl Catalog for CatPlaceholder {
    type Metadata = ();
    type ZoneImpl = NoZone;
    fn lookup(&self, _name: &Name, _class: Class) -> Option<&Entry<NoZone, ()>> {
        Some(&self.entry)
    }
}

pub fn server_with<C>(cat: C, payload: u16) -> Server<C> {
    Server {
        catalog: RwLock::new(Arc::new(cat)),
        edns_udp_payload_size: payload,
        rrl: None,
        tsig_keys: RwLock::new(Arc::new(empty_keys())),
    }
}

pub const RC_FORMERR: u16 = 1;
pub const RC_SERVFAIL: u16 = 2;
pub const RC_NOTIMP: u16 = 4;
pub const RC_REFUSED: u16 = 5;
pub const RC_NOTAUTH: u16 = 9;
pub const RC_BADVERS: u16 = 16;

/// Everything the properties C01-C04, C07-C09 say about one
/// request/response pair when no loaded zone is involved.
///
/// The response of this family has a fully determined layout: header, the
/// echoed question (if the request had one parseable question) and at most
/// one OPT record.  `ql` is the concrete length of the request's question
/// (QNAME + 4), 0 if the shape has none; it lets every read of the response
/// use a concrete offset (a generic decoder walking a buffer that is symbolic
/// to CBMC exhausted memory on the OPT shapes: measured 14 GB+).
#[derive(Clone, Copy)]
pub struct Seen {
    pub responded: bool,
    pub rcode: u16,
    pub has_opt: bool,
}

pub fn check_exchange(req: &[u8], ql: usize, udp: bool, payload: u16, cat_kind: u8, r: &Response, resp: &[u8]) -> Seen {
    let n_req = req.len();
    let scan = ref_scan(req, n_req);
    let n = match r {
        Response::None => {
            assert!(!scan.respond, "[C03] a request that deserves a response got none");
            return Seen {
                responded: false,
                rcode: 0,
                has_opt: false,
            };
        }
        Response::Single(n) => *n,
    };
    assert!(
        scan.respond,
        "[C03] no response may be sent to a short message, a response, or QDCOUNT > 1"
    );
    // ---- C01 / C04: length
    let limit: usize = if !udp {
        65535
    } else if scan.opt_reached {
        let c = scan.opt_class;
        (if c < 512 { 512 } else if c > payload { payload } else { c }) as usize
    } else {
        512
    };
    assert!(n >= 12 && n <= resp.len(), "[C01] response length inside the buffer");
    assert!(n <= limit, "[C04] response exceeds the transport size limit");
    // ---- header
    let id = be16(resp, 0);
    let flags = be16(resp, 2);
    let qd = be16(resp, 4);
    let an = be16(resp, 6);
    let ns = be16(resp, 8);
    let ar = be16(resp, 10);
    // ---- C03: header echo
    assert!(id == scan.id, "[C03] response ID differs from request ID");
    assert!(flags & 0x8000 != 0, "[C03] QR not set");
    assert!(((flags >> 11) & 0xf) as u8 == scan.opcode, "[C03] opcode not echoed");
    let rd_expected = scan.opcode == 0 && scan.rd;
    assert!((flags & 0x0100 != 0) == rd_expected, "[C03] RD copied only for opcode QUERY");
    assert!(flags & 0x0080 == 0, "[C03] RA must be clear");
    assert!(flags & 0x0070 == 0, "[C03] reserved header bits must be clear");
    if !udp {
        assert!(flags & 0x0200 == 0, "[C04] TC set on a TCP response");
    }
    let q_ok = scan.qd == 1 && scan.problem != Problem::QuestionUnparseable;
    if q_ok {
        // tie the shape's constant to the independent scanner
        assert!(scan.q_at == 12 && scan.q_end == 12 + ql, "[C03] harness: question length constant disagrees with the scanner");
        assert!(qd == 1, "[C03] question not echoed");
        assert!(n >= 12 + ql, "[C03] echoed question truncated");
        if scan.q_plain {
            let mut i = 0;
            while i < ql {
                assert!(resp[12 + i] == req[12 + i], "[C03] question not echoed octet for octet");
                i += 1;
            }
        }
    } else {
        assert!(qd == 0, "[C03] a question appears that the request did not (parseably) contain");
    }
    let body = if qd == 1 { 12 + ql } else { 12 };
    // ---- sections: this family can only produce an OPT record
    let no_data = an == 0 && ns == 0;
    let aa = flags & 0x0400 != 0;
    let has_opt = ar == 1;
    let mut opt_ttl = 0u32;
    if has_opt && no_data && n == body + 11 {
        opt_ttl = be32(resp, body + 5);
    }
    let rcode: u16 = (((opt_ttl >> 24) as u16) << 4) | (flags & 0xf);
    // ---- C08
    if scan.problem != Problem::None {
        assert!(
            rcode == RC_FORMERR || rcode == RC_BADVERS || rcode == RC_NOTAUTH,
            "[C08] a malformed request was answered with an RCODE other than FORMERR (or an earlier EDNS/TSIG error)"
        );
        if !scan.badvers_first && !scan.tsig_reached {
            assert!(rcode == RC_FORMERR, "[C08] malformed request not answered with FORMERR");
            assert!(no_data, "[C08] FORMERR response carries answer or authority data");
        }
    }
    // ---- C09
    assert!(ar <= 1, "[C02] more additional records than this family can produce (OPT at most once)");
    assert!(has_opt == scan.opt_reached, "[C09] response has an OPT record iff the request's OPT was reached");
    if scan.badvers_first {
        assert!(rcode == RC_BADVERS, "[C09] EDNS version other than 0 must give BADVERS");
        assert!(no_data, "[C09] BADVERS response carries data");
    }
    if scan.problem == Problem::OptOwnerNotRoot {
        assert!(rcode == RC_FORMERR, "[C09] OPT with a non-root owner must give FORMERR");
    }
    // ---- C07 (no loaded zone in this family)
    if scan.problem == Problem::None && !scan.badvers_first && !scan.tsig_reached {
        let expect = if scan.opcode != 0 {
            RC_NOTIMP
        } else if scan.qclass == 255 || (scan.qtype >= 251 && scan.qtype <= 254) {
            RC_NOTIMP
        } else if cat_kind == CAT_NONE {
            RC_REFUSED
        } else {
            RC_SERVFAIL
        };
        assert!(rcode == expect, "[C07] wrong RCODE for an unsupported / unserved query");
        assert!(no_data && !aa, "[C07] NOTIMP/REFUSED/SERVFAIL response carries records or AA");
    }
    // ---- C02: the message is exactly header + question + (OPT), every octet accounted for
    assert!(no_data, "[C02] answer/authority counts are non-zero but this family has no zone data");
    assert!(
        n == body + if has_opt { 11 } else { 0 },
        "[C02] response length does not equal header + echoed question + counted records"
    );
    if has_opt {
        // OPT RR: root owner, TYPE 41, CLASS = payload, TTL, RDLENGTH 0
        assert!(resp[body] == 0, "[C09] OPT owner must be the root");
        assert!(be16(resp, body + 1) == T_OPT, "[C02] the additional record is not the OPT this family can produce");
        assert!(be16(resp, body + 3) == payload, "[C09] OPT class must be the server's payload size");
        assert!((opt_ttl >> 16) & 0xff == 0, "[C09] response EDNS version must be 0");
        assert!(be16(resp, body + 9) == 0, "[C02] OPT RDLENGTH does not frame its (empty) RDATA");
    }
    Seen {
        responded: true,
        rcode,
        has_opt,
    }
}

fn udp_info() -> ReceivedInfo {
    ReceivedInfo::new(IpAddr::V4(Ipv4Addr::new(192, 0, 2, 7)), Transport::Udp)
}

fn tcp_info() -> ReceivedInfo {
    ReceivedInfo::new(IpAddr::V4(Ipv4Addr::new(192, 0, 2, 7)), Transport::Tcp)
}

fn exchange_udp<C: Catalog>(cat: C, cat_kind: u8, req: &[u8], ql: usize, payload: u16) -> Seen {
    let server = server_with(cat, payload);
    let mut resp = [0u8; 512];
    let r = server.handle_message(req, udp_info(), &mut resp);
    let seen = check_exchange(req, ql, true, payload, cat_kind, &r, &resp);
    core::mem::forget(server);
    seen
}

fn placeholder(kind: u8) -> CatPlaceholder {
    let name = Name::root().to_owned();
    CatPlaceholder {
        entry: if kind == CAT_NOT_YET {
            Entry::NotYetLoaded(name, Class::IN, ())
        } else {
            Entry::FailedToLoad(name, Class::IN, ())
        },
    }
}


fn exchange_udp_big<C: Catalog>(cat: C, cat_kind: u8, req: &[u8], ql: usize, payload: u16) -> Seen {
    // payload up to 1232: the response buffer must be at least that large
    let server = server_with(cat, payload);
    let mut resp = [0u8; 1232];
    let r = server.handle_message(req, udp_info(), &mut resp);
    let seen = check_exchange(req, ql, true, payload, cat_kind, &r, &resp);
    core::mem::forget(server);
    seen
}

#[allow(dead_code)]
fn exchange_tcp<C: Catalog>(cat: C, cat_kind: u8, req: &[u8], ql: usize, payload: u16) -> Seen {
    let server = server_with(cat, payload);
    let mut resp = [0u8; 65535];
    let r = server.handle_message(req, tcp_info(), &mut resp);
    let seen = check_exchange(req, ql, false, payload, cat_kind, &r, &resp);
    core::mem::forget(server);
    seen
}


// ---------------------------------------------------------------- Q shapes

// @harness props=C01,C02,C03,C04,C07,C08,C09 panics=C01 quick=C03,C07,C01,C02 mem=4 t=900 stubs="S4" kani="--no-assertion-reach-checks"
//   fn="Server::handle_message,Server::handle_message_with_context,Server::handle_query,Reader::read_question,Writer::add_question,Writer::finish"
//   bound="UDP; header(ID, 2 flag octets symbolic; QD=1, AN=NS=AR=0) + QNAME 'a.' + symbolic QTYPE + symbolic QCLASS (19 octets); empty catalog; unwind 12"
//   sym="id:u16, flag octets (all 2^16: QR, opcode, AA, TC, RD, RA, Z, RCODE), qtype:u16, qclass:u16"
#[kani::proof]
#[kani::unwind(12)]
#[kani::stub(rrl::Rrl::should_slip, should_slip_model)]
fn srv_q_a_none() {
    let h: [u8; 4] = kani::any();
    let q: [u8; 4] = kani::any();
    let req: [u8; 19] = [
        h[0], h[1], h[2], h[3], 0, 1, 0, 0, 0, 0, 0, 0, 1, b'a', 0, q[0], q[1], q[2], q[3],
    ];
    let seen = exchange_udp(CatNone, CAT_NONE, &req, 7, 512);
    kani::cover!(seen.responded && seen.rcode == RC_NOTIMP, "NOTIMP seen");
    kani::cover!(seen.responded && seen.rcode == RC_REFUSED, "REFUSED seen");
}

// @harness props=C01,C02,C03,C04,C07,C08,C09 panics=C01 quick=C07 mem=4 t=900 stubs="S4" kani="--no-assertion-reach-checks"
//   fn="Server::handle_message,Server::handle_query"
//   bound="UDP; same 19-octet Q shape; catalog answers NotYetLoaded for every name; unwind 12"
//   sym="id, flag octets, qtype, qclass"
#[kani::proof]
#[kani::unwind(12)]
#[kani::stub(rrl::Rrl::should_slip, should_slip_model)]
fn srv_q_a_notyet() {
    let h: [u8; 4] = kani::any();
    let q: [u8; 4] = kani::any();
    let req: [u8; 19] = [
        h[0], h[1], h[2], h[3], 0, 1, 0, 0, 0, 0, 0, 0, 1, b'a', 0, q[0], q[1], q[2], q[3],
    ];
    let seen = exchange_udp(placeholder(CAT_NOT_YET), CAT_NOT_YET, &req, 7, 512);
    kani::cover!(seen.responded && seen.rcode == RC_NOTIMP, "NOTIMP seen");
    kani::cover!(seen.responded && seen.rcode == RC_SERVFAIL, "SERVFAIL seen");
}

// @harness props=C01,C02,C03,C04,C07,C08,C09 panics=C01 quick=C07 mem=4 t=900 stubs="S4" kani="--no-assertion-reach-checks"
//   fn="Server::handle_message,Server::handle_query"
//   bound="UDP; same 19-octet Q shape; catalog answers FailedToLoad for every name; unwind 12"
//   sym="id, flag octets, qtype, qclass"
#[kani::proof]
#[kani::unwind(12)]
#[kani::stub(rrl::Rrl::should_slip, should_slip_model)]
fn srv_q_a_failed() {
    let h: [u8; 4] = kani::any();
    let q: [u8; 4] = kani::any();
    let req: [u8; 19] = [
        h[0], h[1], h[2], h[3], 0, 1, 0, 0, 0, 0, 0, 0, 1, b'a', 0, q[0], q[1], q[2], q[3],
    ];
    let seen = exchange_udp(placeholder(CAT_FAILED), CAT_FAILED, &req, 7, 512);
    kani::cover!(seen.responded && seen.rcode == RC_NOTIMP, "NOTIMP seen");
    kani::cover!(seen.responded && seen.rcode == RC_SERVFAIL, "SERVFAIL seen");
}

// @harness props=C01,C02,C03,C04,C07,C08,C09 panics=C01 tier=thorough mem=4 t=900 stubs="S4" kani="--no-assertion-reach-checks"
//   fn="Server::handle_message,Server::handle_query"
//   bound="UDP; header + root QNAME + symbolic QTYPE/QCLASS (17 octets); empty catalog; unwind 12"
//   sym="id, flag octets, qtype, qclass"
#[kani::proof]
#[kani::unwind(12)]
#[kani::stub(rrl::Rrl::should_slip, should_slip_model)]
fn srv_q_root_none() {
    let h: [u8; 4] = kani::any();
    let q: [u8; 4] = kani::any();
    let req: [u8; 17] = [h[0], h[1], h[2], h[3], 0, 1, 0, 0, 0, 0, 0, 0, 0, q[0], q[1], q[2], q[3]];
    let seen = exchange_udp(CatNone, CAT_NONE, &req, 5, 512);
    kani::cover!(seen.responded && seen.rcode == RC_NOTIMP, "NOTIMP seen");
    kani::cover!(seen.responded && seen.rcode == RC_REFUSED, "REFUSED seen");
}

// @harness props=C01,C02,C03,C04,C07,C08,C09 panics=C01 quick=C03 mem=6 t=1200 stubs="S4,S7" kani="--no-assertion-reach-checks"
//   fn="Server::handle_message,Reader::read_question,Name::try_from_compressed,Writer::add_question"
//   bound="UDP; header + QNAME of two 1-octet labels whose octets are symbolic (all 256 values: mixed case, non-ASCII) + symbolic QTYPE/QCLASS (21 octets); empty catalog; unwind 12"
//   sym="id, flag octets, 2 label octets, qtype, qclass"
#[kani::proof]
#[kani::unwind(12)]
#[kani::stub(rrl::Rrl::should_slip, should_slip_model)]
#[kani::stub(arrayvec::ArrayVec::try_extend_from_slice, try_extend_model)]
fn srv_q_xy_none() {
    let h: [u8; 4] = kani::any();
    let q: [u8; 4] = kani::any();
    let x: u8 = kani::any();
    let y: u8 = kani::any();
    let req: [u8; 21] = [
        h[0], h[1], h[2], h[3], 0, 1, 0, 0, 0, 0, 0, 0, 1, x, 1, y, 0, q[0], q[1], q[2], q[3],
    ];
    let seen = exchange_udp(CatNone, CAT_NONE, &req, 9, 512);
    kani::cover!(seen.responded && seen.rcode == RC_NOTIMP, "NOTIMP seen");
    kani::cover!(seen.responded && seen.rcode == RC_REFUSED, "REFUSED seen");
}


// ------------------------------------------------- header-only and short

// @harness props=C01,C02,C03,C04,C07,C08,C09 panics=C01 quick=C01,C03,C08 mem=4 t=900 stubs="S4" kani="--no-assertion-reach-checks"
//   fn="Server::handle_message,Server::handle_message_with_context,Reader::read_question,Name::try_from_compressed"
//   bound="UDP; every 12-octet message with QDCOUNT = 1 (the question is missing): ID, flag octets and the low octets of ANCOUNT/NSCOUNT/ARCOUNT symbolic; unwind 12"
//   sym="id, flag octets, 3 count octets"
#[kani::proof]
#[kani::unwind(12)]
#[kani::stub(rrl::Rrl::should_slip, should_slip_model)]
fn srv_hdr12_qd1() {
    let h: [u8; 4] = kani::any();
    let c: [u8; 3] = kani::any();
    let req: [u8; 12] = [h[0], h[1], h[2], h[3], 0, 1, 0, c[0], 0, c[1], 0, c[2]];
    let seen = exchange_udp(CatNone, CAT_NONE, &req, 0, 512);
    kani::cover!(seen.responded && seen.rcode == RC_FORMERR, "FORMERR seen");
}

// @harness props=C01,C02,C03,C04,C07,C08,C09 panics=C01 quick=C01,C08 mem=4 t=900 stubs="S4" kani="--no-assertion-reach-checks"
//   fn="Server::handle_message,Server::handle_message_with_context,Reader::peek_rr"
//   bound="UDP; every 12-octet message with QDCOUNT = 0 and symbolic low octets of ANCOUNT/NSCOUNT/ARCOUNT (records are missing); unwind 12"
//   sym="id, flag octets, 3 count octets"
#[kani::proof]
#[kani::unwind(12)]
#[kani::stub(rrl::Rrl::should_slip, should_slip_model)]
fn srv_hdr12_qd0() {
    let h: [u8; 4] = kani::any();
    let c: [u8; 3] = kani::any();
    let req: [u8; 12] = [h[0], h[1], h[2], h[3], 0, 0, 0, c[0], 0, c[1], 0, c[2]];
    let seen = exchange_udp(CatNone, CAT_NONE, &req, 0, 512);
    kani::cover!(seen.responded && seen.rcode == RC_FORMERR, "FORMERR seen");
    kani::cover!(seen.responded && seen.rcode == RC_NOTIMP, "NOTIMP seen");
}

// @harness props=C01,C03 panics=C01 quick=C03 mem=3 t=600 stubs="S4" kani="--no-assertion-reach-checks"
//   fn="Server::handle_message" bound="UDP; every message of 11 octets and the empty message; unwind 12" sym="11 octets"
#[kani::proof]
#[kani::unwind(12)]
#[kani::stub(rrl::Rrl::should_slip, should_slip_model)]
fn srv_short() {
    let req: [u8; 11] = kani::any();
    let seen = exchange_udp(CatNone, CAT_NONE, &req, 0, 512);
    kani::cover!(!seen.responded, "no response to an 11-octet message");
    let empty: [u8; 0] = [];
    let seen2 = exchange_udp(CatNone, CAT_NONE, &empty, 0, 512);
    kani::cover!(!seen2.responded, "no response to the empty message");
}

// @harness props=C01,C02,C03,C04,C07,C08,C09 panics=C01 quick=C08,C07 mem=4 t=900 stubs="S4" kani="--no-assertion-reach-checks"
//   fn="Server::handle_message,Server::handle_query"
//   bound="UDP; 12-octet header with QD=0, AN=NS=AR=0, symbolic ID and flag octets (every opcode); empty catalog; unwind 12"
//   sym="id, flag octets"
#[kani::proof]
#[kani::unwind(12)]
#[kani::stub(rrl::Rrl::should_slip, should_slip_model)]
fn srv_qd0() {
    let h: [u8; 4] = kani::any();
    let req: [u8; 12] = [h[0], h[1], h[2], h[3], 0, 0, 0, 0, 0, 0, 0, 0];
    let seen = exchange_udp(CatNone, CAT_NONE, &req, 0, 512);
    kani::cover!(seen.responded && seen.rcode == RC_FORMERR, "FORMERR seen");
    kani::cover!(seen.responded && seen.rcode == RC_NOTIMP, "NOTIMP seen");
}

// @harness props=C01,C03 panics=C01 quick=C03 mem=4 t=900 stubs="S4" kani="--no-assertion-reach-checks"
//   fn="Server::handle_message"
//   bound="UDP; header with symbolic QDCOUNT (all u16) followed by two well-formed questions (26 octets); unwind 12"
//   sym="id, flag octets, qdcount"
#[kani::proof]
#[kani::unwind(12)]
#[kani::stub(rrl::Rrl::should_slip, should_slip_model)]
fn srv_qd2() {
    let h: [u8; 4] = kani::any();
    let req: [u8; 26] = [
        h[0], h[1], h[2], h[3], 0, 2, 0, 0, 0, 0, 0, 0, 1, b'a', 0, 0, 1, 0, 1, 1, b'b', 0, 0, 1, 0, 1,
    ];
    let seen = exchange_udp(CatNone, CAT_NONE, &req, 7, 512);
    kani::cover!(!seen.responded, "no response seen");
}

// ------------------------------------------------------ malformed shapes

// @harness props=C01,C02,C03,C04,C07,C08,C09 panics=C01 quick=C08 mem=4 t=900 stubs="S4" kani="--no-assertion-reach-checks"
//   fn="Server::handle_message,Server::handle_message_with_context,Reader::at_eom"
//   bound="UDP; 19-octet Q shape + 1 trailing octet (symbolic); QTYPE A, QCLASS IN; symbolic flag octets; empty catalog; unwind 12"
//   sym="id, flag octets, trailing octet"
#[kani::proof]
#[kani::unwind(12)]
#[kani::stub(rrl::Rrl::should_slip, should_slip_model)]
fn srv_q_junk1() {
    let h: [u8; 4] = kani::any();
    let j: u8 = kani::any();
    let req: [u8; 20] = [
        h[0], h[1], h[2], h[3], 0, 1, 0, 0, 0, 0, 0, 0, 1, b'a', 0, 0, 1, 0, 1, j,
    ];
    let seen = exchange_udp(CatNone, CAT_NONE, &req, 7, 512);
    kani::cover!(seen.responded && seen.rcode == RC_FORMERR, "FORMERR seen");
}

// @harness props=C01,C02,C03,C04,C07,C08,C09 panics=C01 tier=thorough mem=4 t=900 stubs="S4" kani="--no-assertion-reach-checks"
//   fn="Server::handle_message,Reader::at_eom"
//   bound="UDP; 19-octet Q shape + 11 trailing octets (symbolic; long enough to look like a record); empty catalog; unwind 14"
//   sym="id, flag octets, 11 trailing octets"
#[kani::proof]
#[kani::unwind(14)]
#[kani::stub(rrl::Rrl::should_slip, should_slip_model)]
fn srv_q_junk11() {
    let h: [u8; 4] = kani::any();
    let j: [u8; 11] = kani::any();
    let req: [u8; 30] = [
        h[0], h[1], h[2], h[3], 0, 1, 0, 0, 0, 0, 0, 0, 1, b'a', 0, 0, 1, 0, 1, j[0], j[1], j[2], j[3], j[4], j[5],
        j[6], j[7], j[8], j[9], j[10],
    ];
    let seen = exchange_udp(CatNone, CAT_NONE, &req, 7, 512);
    kani::cover!(seen.responded && seen.rcode == RC_FORMERR, "FORMERR seen");
}

// @harness props=C01,C02,C03,C04,C07,C08,C09 panics=C01 quick=C08,C01 mem=4 t=900 stubs="S4" kani="--no-assertion-reach-checks"
//   fn="Server::handle_message,Reader::peek_rr"
//   bound="UDP; 19-octet Q shape whose ANCOUNT/NSCOUNT/ARCOUNT low octets are symbolic (counts 0..255 each) but no record follows; empty catalog; unwind 12"
//   sym="id, flag octets, 3 count octets"
#[kani::proof]
#[kani::unwind(12)]
#[kani::stub(rrl::Rrl::should_slip, should_slip_model)]
fn srv_q_counts() {
    let h: [u8; 4] = kani::any();
    let c: [u8; 3] = kani::any();
    let req: [u8; 19] = [
        h[0], h[1], h[2], h[3], 0, 1, 0, c[0], 0, c[1], 0, c[2], 1, b'a', 0, 0, 1, 0, 1,
    ];
    let seen = exchange_udp(CatNone, CAT_NONE, &req, 7, 512);
    kani::cover!(seen.responded && seen.rcode == RC_FORMERR, "FORMERR seen");
    kani::cover!(seen.responded && seen.rcode == RC_REFUSED, "REFUSED seen");
}

// @harness props=C01,C02,C03,C04,C07,C08,C09 panics=C01 quick=C08,C01 mem=4 t=900 stubs="S4" kani="--no-assertion-reach-checks"
//   fn="Server::handle_message,Reader::peek_rr,Name::skip_compressed"
//   bound="UDP; 12-octet header claiming one answer record, followed by 1 symbolic octet (the 13-octet ANCOUNT=1 case); QD=0; unwind 12"
//   sym="id, flag octets, 1 body octet"
#[kani::proof]
#[kani::unwind(12)]
#[kani::stub(rrl::Rrl::should_slip, should_slip_model)]
fn srv_an1_len13() {
    let h: [u8; 4] = kani::any();
    let b: u8 = kani::any();
    let req: [u8; 13] = [h[0], h[1], h[2], h[3], 0, 0, 0, 1, 0, 0, 0, 0, b];
    let seen = exchange_udp(CatNone, CAT_NONE, &req, 0, 512);
    kani::cover!(seen.responded && seen.rcode == RC_FORMERR, "FORMERR seen");
}

macro_rules! rr_shape {
    ($name:ident, $an:expr, $ns:expr, $ar:expr, $t_hi:expr, $t_lo:expr, $want_a:expr, $want_b:expr) => {
        #[kani::proof]
        #[kani::unwind(12)]
        #[kani::stub(rrl::Rrl::should_slip, should_slip_model)]
        fn $name() {
            let h: [u8; 4] = kani::any();
            let c: [u8; 6] = kani::any(); // class + TTL of the record
            let req: [u8; 30] = [
                h[0], h[1], h[2], h[3], 0, 1, 0, $an, 0, $ns, 0, $ar, 1, b'a', 0, 0, 1, 0, 1, // question a. A IN
                0, $t_hi, $t_lo, c[0], c[1], c[2], c[3], c[4], c[5], 0, 0, // root owner, type, class, ttl, rdlength 0
            ];
            let seen = exchange_udp(CatNone, CAT_NONE, &req, 7, 512);
            kani::cover!(seen.responded && seen.rcode == $want_a, "first expected RCODE seen");
            kani::cover!(seen.responded && seen.rcode == $want_b, "second expected RCODE seen");
        }
    };
}

// @harness name=srv_rr_an_opt props=C01,C02,C03,C04,C07,C08,C09 panics=C01 quick=C08,C09 mem=4 t=900 stubs="S4" kani="--no-assertion-reach-checks"
//   fn="Server::handle_message,Reader::peek_rr,PeekRr::rr_type"
//   bound="UDP; Q + one OPT record (root owner, symbolic class and TTL, RDLENGTH 0) counted in the ANSWER section; empty catalog; unwind 12"
//   sym="id, flag octets, OPT class, OPT TTL"
rr_shape!(srv_rr_an_opt, 1, 0, 0, 0, 41, RC_FORMERR, RC_FORMERR);

// @harness name=srv_rr_ns_opt props=C01,C02,C03,C04,C07,C08,C09 panics=C01 tier=thorough mem=4 t=900 stubs="S4" kani="--no-assertion-reach-checks"
//   fn="Server::handle_message,Reader::peek_rr,PeekRr::rr_type"
//   bound="UDP; Q + one OPT record counted in the AUTHORITY section; unwind 12" sym="id, flag octets, OPT class, OPT TTL"
rr_shape!(srv_rr_ns_opt, 0, 1, 0, 0, 41, RC_FORMERR, RC_FORMERR);

// @harness name=srv_rr_an_tsig props=C01,C02,C03,C04,C07,C08,C09 panics=C01 quick=C08 mem=4 t=900 stubs="S4" kani="--no-assertion-reach-checks"
//   fn="Server::handle_message,Reader::peek_rr,PeekRr::rr_type"
//   bound="UDP; Q + one TSIG-typed record (root owner, symbolic class/TTL, RDLENGTH 0) counted in the ANSWER section; unwind 12"
//   sym="id, flag octets, class, TTL"
rr_shape!(srv_rr_an_tsig, 1, 0, 0, 0, 250, RC_FORMERR, RC_FORMERR);

// @harness name=srv_rr_an_a props=C01,C02,C03,C04,C07,C08,C09 panics=C01 tier=thorough mem=4 t=900 stubs="S4" kani="--no-assertion-reach-checks"
//   fn="Server::handle_message,Reader::peek_rr,PeekRr::skip"
//   bound="UDP; Q + one type-A record with RDLENGTH 0 in the answer section (skipped, not parsed); unwind 12"
//   sym="id, flag octets, class, TTL"
rr_shape!(srv_rr_an_a, 1, 0, 0, 0, 1, RC_REFUSED, RC_NOTIMP);

// @harness name=srv_rr_ar_a props=C01,C02,C03,C04,C07,C08,C09 panics=C01 quick=C07,C08 mem=4 t=900 stubs="S4" kani="--no-assertion-reach-checks"
//   fn="Server::handle_message,Reader::peek_rr,PeekRr::skip"
//   bound="UDP; Q + one type-A record with RDLENGTH 0 in the additional section; unwind 12" sym="id, flag octets, class, TTL"
rr_shape!(srv_rr_ar_a, 0, 0, 1, 0, 1, RC_REFUSED, RC_NOTIMP);

// ------------------------------------------------------------ EDNS shapes




// (A shape with four symbolic OPT RDATA octets - one option header - was tried and
// dropped: the symbolic option length makes validate_as_opt slice at a symbolic
// offset and CBMC's array post-processing ran out of memory at 21 GB.  OPT RDATA
// validation itself is decided in the C18 family.)


// @harness props=C01,C02,C03,C04,C07,C08,C09 panics=C01 quick=C08,C09 mem=6 t=1200 stubs="S4" kani="--no-assertion-reach-checks"
//   fn="Server::handle_message"
//   bound="UDP; Q + two OPT records (root owners, symbolic TTLs, RDLENGTH 0); unwind 12"
//   sym="id, flag octets, two OPT TTLs"
#[kani::proof]
#[kani::unwind(12)]
#[kani::stub(rrl::Rrl::should_slip, should_slip_model)]
fn srv_opt_opt() {
    let h: [u8; 4] = kani::any();
    let t: [u8; 8] = kani::any();
    let req: [u8; 41] = [
        h[0], h[1], h[2], h[3], 0, 1, 0, 0, 0, 0, 0, 2, 1, b'a', 0, 0, 1, 0, 1, 0, 0, 41, 2, 0, t[0], t[1], t[2],
        t[3], 0, 0, 0, 0, 41, 2, 0, t[4], t[5], t[6], t[7], 0, 0,
    ];
    let seen = exchange_udp(CatNone, CAT_NONE, &req, 7, 512);
    kani::cover!(seen.responded && seen.rcode == RC_FORMERR && seen.has_opt, "FORMERR with OPT seen");
    kani::cover!(seen.responded && seen.rcode == RC_BADVERS, "BADVERS seen");
}

// @harness props=C01,C02,C03,C04,C07,C08,C09 panics=C01 quick=C08 mem=6 t=1200 stubs="S4" kani="--no-assertion-reach-checks"
//   fn="Server::handle_message"
//   bound="UDP; Q + TSIG-typed record followed by an OPT (TSIG not last), symbolic class/TTL of the TSIG; unwind 12"
//   sym="id, flag octets, TSIG class/TTL"
#[kani::proof]
#[kani::unwind(12)]
#[kani::stub(rrl::Rrl::should_slip, should_slip_model)]
fn srv_tsig_then_opt() {
    let h: [u8; 4] = kani::any();
    let c: [u8; 6] = kani::any();
    let req: [u8; 41] = [
        h[0], h[1], h[2], h[3], 0, 1, 0, 0, 0, 0, 0, 2, 1, b'a', 0, 0, 1, 0, 1, 0, 0, 250, c[0], c[1], c[2], c[3],
        c[4], c[5], 0, 0, 0, 0, 41, 2, 0, 0, 0, 0, 0, 0, 0,
    ];
    let seen = exchange_udp(CatNone, CAT_NONE, &req, 7, 512);
    kani::cover!(seen.responded && seen.rcode == RC_FORMERR, "FORMERR seen");
}

// ------------------------------------------- EDNS shapes, concrete OPT class
//
// A symbolic advertised payload size makes the writer's size limit symbolic;
// every later push can then "fail" as far as CBMC can tell, the rollback makes
// the cursor symbolic and the solver runs out of memory (measured: > 26 GB).
// The advertised size is therefore a concrete boundary value per harness
// (0, 513, 4096, 65535 against server sizes 512 and 520) and the OPT TTL
// (extended RCODE, version, flags: all 2^32 values) stays symbolic.

macro_rules! opt_shape {
    ($name:ident, $c_hi:expr, $c_lo:expr, $payload:expr, $buf:expr) => {
        #[kani::proof]
        #[kani::unwind(12)]
        #[kani::stub(rrl::Rrl::should_slip, should_slip_model)]
        fn $name() {
            let h: [u8; 4] = kani::any();
            let t: [u8; 4] = kani::any();
            let req: [u8; 30] = [
                h[0], h[1], h[2], h[3], 0, 1, 0, 0, 0, 0, 0, 1, 1, b'a', 0, 0, 1, 0, 1, // question a. A IN
                0, 0, 41, $c_hi, $c_lo, t[0], t[1], t[2], t[3], 0, 0, // OPT: root, class, TTL, RDLENGTH 0
            ];
            let server = server_with(CatNone, $payload);
            let mut resp = [0u8; $buf];
            let r = server.handle_message(&req, udp_info(), &mut resp);
            let seen = check_exchange(&req, 7, true, $payload, CAT_NONE, &r, &resp);
            core::mem::forget(server);
            kani::cover!(seen.responded && seen.rcode == RC_BADVERS, "BADVERS seen");
            kani::cover!(seen.responded && seen.rcode == RC_REFUSED && seen.has_opt, "REFUSED with OPT seen");
            kani::cover!(seen.responded && seen.rcode == RC_NOTIMP && seen.has_opt, "NOTIMP with OPT seen");
        }
    };
}

// @harness name=srv_opt_c4096 props=C01,C02,C03,C04,C07,C08,C09 panics=C01 quick=C09,C04,C02,C03 mem=8 t=1500 stubs="S4" kani="--no-assertion-reach-checks"
//   fn="Server::handle_message,validate_opt,PeekRr::parse,PeekRr::raw_ttl,Rdata::read,Writer::set_edns,Writer::set_limit,Writer::set_extended_rcode,Writer::finish"
//   bound="UDP; Q + OPT (root owner, advertised size 4096, RDLENGTH 0) with symbolic TTL field (all 2^32: extended RCODE, version, flags incl. bit 31), symbolic ID and flag octets; server size 512; unwind 12"
//   sym="id, flag octets, OPT TTL:u32"
opt_shape!(srv_opt_c4096, 16, 0, 512, 512);

// @harness name=srv_opt_c0 props=C01,C02,C03,C04,C07,C08,C09 panics=C01 tier=thorough mem=8 t=1500 stubs="S4" kani="--no-assertion-reach-checks"
//   fn="Server::handle_message,validate_opt,Writer::set_limit"
//   bound="UDP; Q + OPT advertising size 0 (must be treated as 512), symbolic TTL/ID/flags; server size 512; unwind 12"
//   sym="id, flag octets, OPT TTL:u32"
opt_shape!(srv_opt_c0, 0, 0, 512, 512);

// @harness name=srv_opt_p520_c513 props=C01,C02,C03,C04,C07,C08,C09 panics=C01 quick=C09,C04 mem=8 t=1500 stubs="S4" kani="--no-assertion-reach-checks"
//   fn="Server::handle_message,validate_opt,Writer::set_edns,Writer::set_limit,Writer::finish"
//   bound="UDP; Q + OPT advertising 513 against a server size of 520 (negotiated limit 513, response OPT must still carry 520), symbolic TTL/ID/flags; 520-octet buffer; unwind 12"
//   sym="id, flag octets, OPT TTL:u32"
opt_shape!(srv_opt_p520_c513, 2, 1, 520, 520);

// @harness name=srv_opt_p520_c65535 props=C01,C02,C03,C04,C07,C08,C09 panics=C01 tier=thorough mem=8 t=1500 stubs="S4" kani="--no-assertion-reach-checks"
//   fn="Server::handle_message,validate_opt,Writer::set_limit"
//   bound="UDP; Q + OPT advertising 65535 against a server size of 520 (negotiated 520), symbolic TTL/ID/flags; unwind 12"
//   sym="id, flag octets, OPT TTL:u32"
opt_shape!(srv_opt_p520_c65535, 255, 255, 520, 520);

// @harness props=C01,C02,C03,C04,C07,C08,C09 panics=C01 quick=C09 mem=8 t=1500 stubs="S4" kani="--no-assertion-reach-checks"
//   fn="Server::handle_message,validate_opt,PeekRr::parse,Name::try_from_compressed"
//   bound="UDP; Q + OPT whose owner is 'a.' (not the root), advertised size 4096, symbolic TTL, RDLENGTH 0; unwind 12"
//   sym="id, flag octets, OPT TTL"
#[kani::proof]
#[kani::unwind(12)]
#[kani::stub(rrl::Rrl::should_slip, should_slip_model)]
fn srv_opt_owner_a() {
    let h: [u8; 4] = kani::any();
    let t: [u8; 4] = kani::any();
    let req: [u8; 32] = [
        h[0], h[1], h[2], h[3], 0, 1, 0, 0, 0, 0, 0, 1, 1, b'a', 0, 0, 1, 0, 1, 1, b'a', 0, 0, 41, 16, 0, t[0], t[1],
        t[2], t[3], 0, 0,
    ];
    let seen = exchange_udp(CatNone, CAT_NONE, &req, 7, 512);
    kani::cover!(seen.responded && seen.rcode == RC_FORMERR && seen.has_opt, "FORMERR with OPT seen");
}

// @harness props=C01,C02,C03,C04,C07,C08,C09 panics=C01 quick=C09,C07 mem=8 t=1500 stubs="S4" kani="--no-assertion-reach-checks"
//   fn="Server::handle_message,Server::handle_message_with_context,PeekRr::skip,validate_opt"
//   bound="UDP; Q + an ordinary type-A record (RDLENGTH 0, symbolic class/TTL) followed by an OPT (advertised 4096, symbolic TTL) in the additional section; server size 512; unwind 12"
//   sym="id, flag octets, class/TTL of the A record, OPT TTL"
#[kani::proof]
#[kani::unwind(12)]
#[kani::stub(rrl::Rrl::should_slip, should_slip_model)]
fn srv_a_then_opt() {
    let h: [u8; 4] = kani::any();
    let c: [u8; 6] = kani::any();
    let t: [u8; 4] = kani::any();
    let req: [u8; 41] = [
        h[0], h[1], h[2], h[3], 0, 1, 0, 0, 0, 0, 0, 2, 1, b'a', 0, 0, 1, 0, 1, // question a. A IN
        0, 0, 1, c[0], c[1], c[2], c[3], c[4], c[5], 0, 0, // ordinary record: root owner, type A, RDLENGTH 0
        0, 0, 41, 16, 0, t[0], t[1], t[2], t[3], 0, 0, // OPT
    ];
    let seen = exchange_udp(CatNone, CAT_NONE, &req, 7, 512);
    kani::cover!(seen.responded && seen.rcode == RC_REFUSED && seen.has_opt, "REFUSED with OPT seen");
    kani::cover!(seen.responded && seen.rcode == RC_BADVERS, "BADVERS seen");
}
