// @host src/server/rrl.rs
//
// C26 (token-bucket rule over time) and C27 (stream grouping) for response
// rate limiting.  Entry point of every "step" harness is the REAL
// `Rrl::process_response(&self, &mut Context<C>)`; the `Rrl` value is built
// here as a struct literal (real `RrlParams::new` + setters, a table of ONE
// bucket, a fixed-key `RandomState`), the `Context` from a small concrete
// request through the real `Reader::try_from`, `Reader::read_question`,
// `Writer::new`, `ReceivedInfo::new` and `Context::new`.
//
// Stubs / environment models (each is part of every claim that uses it):
//
//  S2  std::time::Instant::now -> `clock_now`: a harness clock.  The real
//      function is a clock_gettime FFI call.  The model returns
//      EPOCH + (CLOCK_SECS, CLOCK_NANOS) where EPOCH is the all-zero
//      `Instant` (tv_sec = 0, tv_nsec = 0; obtained with `mem::zeroed`, there
//      is no public constructor) and the two statics are solver variables
//      that the harness only ever moves forward.  All other `Instant` /
//      `Duration` arithmetic is std's real code.
//
//  S4  Rrl::should_slip -> `should_slip_model`.  The real body reaches
//      `rand::thread_rng()` (kani-compiler ICE, and random).  The model is
//      the source text with ONLY the rand expression replaced by a fresh
//      symbolic bool; because a stub replaces the whole function, the
//      deterministic arms (slip == 0 => false, slip == 1 => true) are a copy
//      too.  `S4_SOURCE_OK` below is computed at compile time from the host
//      module's source text; every harness carries a cover witness for it,
//      so the run is inconclusive (never a pass) if `should_slip` is not
//      character for character the text the model was copied from.
//
//  A1  `RandomState` is built by transmuting two fixed u64 keys (its only
//      constructor, `RandomState::new`, calls getrandom FFI).  Claims hold
//      for this one SipHash-1-3 key pair; the keys only influence which
//      bucket a key lands in (irrelevant: one bucket) and which distinct
//      QNAMEs collide in the 32-bit QNAME hash.
//
//  A2  Table size is 1 (`buckets.len() == 1`), so every stream maps to the
//      same bucket; collisions between different streams are therefore the
//      "forget the old entry" branch, which the harnesses do exercise.
//
//  A3  Response buffers are 64 octets (128 where records are written), not
//      the 512 / 65535 the server uses: `Writer::new(buf, 512)` limits itself
//      to min(512, buf.len()), and the limiter never looks at the limit; a
//      512-octet buffer only multiplies CBMC's work (measured: 24 s -> 2 s
//      symbolic execution for one call).
//
//  A4  Unwinding: `#[kani::unwind(N)]` is global.  A heap `Name` keeps its
//      label count and offsets in memory that CBMC does not constant-fold,
//      so every loop over labels is unrolled to the bound; bounds are
//      therefore as small as the concrete names allow (unwinding assertions
//      are on).  The pair harnesses need 11 iterations for the one loop in
//      `ReceivedInfo::new` that scans 10 address octets; it gets its own
//      bound through `--unwindset` (loop id = mangled name, which embeds the
//      toolchain's crate hashes: if it stops matching, the global bound 5
//      applies and the unwinding assertion fails => inconclusive, not pass).
//
// Time is observed relative to an origin 2^37 s before the first clock
// reading, so that every instant a harness creates is representable as a
// non-negative (secs, nanos) pair; the reference bucket does its own
// arithmetic on such pairs (no std Duration arithmetic in the oracle).
//
// Native replay (`cargo kani playback`) does not apply #[kani::stub]:
// `Instant::now` is then the real clock and `should_slip` the real function.
// The harnesses are written so that they still mean the same thing there:
// the first elapsed time is produced by back-dating the bucket relative to
// whatever `Instant::now()` returns, and `elapse` back-dates the bucket
// when it sees that the clock did not jump.  What cannot reproduce natively
// is a counterexample that depends on the exact nanosecond (the real clock
// moves a few microseconds between the harness's reading and the
// limiter's), or on the symbolic coin of slip > 1.

use super::super::{Context, ReceivedInfo, Transport};
use super::*;
use crate::class::Class;
use crate::message::tsig::PreparedTsigRr;
use crate::message::writer::{Hint, HintedName, TsigMode};
use crate::message::{ExtendedRcode, Opcode, Rcode, Reader, Writer};
use crate::name::LowercaseName;
use crate::rr::rdata::TimeSigned;
use crate::rr::{Rdata, Ttl, Type};
use std::borrow::Cow;
use std::net::{Ipv4Addr, Ipv6Addr};

// --------------------------------------------------------------------------
// S2: harness clock
// --------------------------------------------------------------------------

static mut CLOCK_SECS: u64 = 0;
static mut CLOCK_NANOS: u32 = 0;

fn zero_instant() -> Instant {
    // all-zero bit pattern: tv_sec = 0, tv_nsec = 0 (valid: nanoseconds < 10^9)
    unsafe { core::mem::zeroed() }
}

fn clock_now() -> Instant {
    unsafe { zero_instant() + Duration::new(CLOCK_SECS, CLOCK_NANOS) }
}

/// Give the harness clock an arbitrary starting value (any uptime up to
/// 2^36 s, any nanosecond phase).
fn clock_init() {
    let s: u64 = kani::any();
    let n: u32 = kani::any();
    kani::assume(s <= 1 << 36);
    kani::assume(n < 1_000_000_000);
    unsafe {
        CLOCK_SECS = s;
        CLOCK_NANOS = n;
    }
}

fn clock_advance(s: u64, n: u32) {
    unsafe {
        let mut ns = CLOCK_NANOS + n;
        let mut ss = CLOCK_SECS + s;
        if ns >= 1_000_000_000 {
            ns -= 1_000_000_000;
            ss += 1;
        }
        CLOCK_SECS = ss;
        CLOCK_NANOS = ns;
    }
}

// --------------------------------------------------------------------------
// S4: should_slip
// --------------------------------------------------------------------------

fn should_slip_model(rrl: &Rrl) -> bool {
    if rrl.params.slip == 0 {
        false
    } else if rrl.params.slip == 1 {
        true
    } else {
        kani::any()
    }
}

const HOST_SOURCE: &str = include_str!("../src/server/rrl.rs");
const SHOULD_SLIP_SOURCE: &str = "    fn should_slip(&self) -> bool {
        if self.params.slip == 0 {
            false
        } else if self.params.slip == 1 {
            true
        } else {
            rand::thread_rng().gen_range(0..self.params.slip) == 0
        }
    }
";

const fn occurrences(hay: &[u8], needle: &[u8]) -> usize {
    let mut count = 0;
    let mut i = 0;
    while i + needle.len() <= hay.len() {
        let mut j = 0;
        while j < needle.len() && hay[i + j] == needle[j] {
            j += 1;
        }
        if j == needle.len() {
            count += 1;
        }
        i += 1;
    }
    count
}

/// Whether S4 models the function that is really there.  Evaluated by rustc
/// at compile time; reported through a `kani::cover!` in every harness (a
/// failing `const _` assertion is NOT reported by kani-compiler - tried).
const S4_SOURCE_OK: bool = occurrences(HOST_SOURCE.as_bytes(), SHOULD_SLIP_SOURCE.as_bytes()) == 1
    && occurrences(HOST_SOURCE.as_bytes(), b"fn should_slip(") == 1;

// --------------------------------------------------------------------------
// A1: fixed-key RandomState
// --------------------------------------------------------------------------

fn fixed_random_state() -> RandomState {
    // every harness builds its limiter through this function exactly once
    kani::cover!(S4_SOURCE_OK, "stub S4: Rrl::should_slip still has the source text the model was copied from");
    // RandomState { k0: u64, k1: u64 }
    unsafe { core::mem::transmute::<[u64; 2], RandomState>([0x0123_4567_89ab_cdef, 0xfedc_ba98_7654_3210]) }
}

// --------------------------------------------------------------------------
// time as (secs, nanos) pairs, own arithmetic
// --------------------------------------------------------------------------

#[derive(Clone, Copy, PartialEq, Eq)]
struct T {
    s: u64,
    n: u32,
}

const ORIGIN_BACK: u64 = 1 << 37;

fn t_of(origin: Instant, i: Instant) -> T {
    let d = i.duration_since(origin);
    T { s: d.as_secs(), n: d.subsec_nanos() }
}

/// a - b for a >= b
fn t_sub(a: T, b: T) -> T {
    if a.n >= b.n {
        T { s: a.s - b.s, n: a.n - b.n }
    } else {
        T { s: a.s - b.s - 1, n: a.n + 1_000_000_000 - b.n }
    }
}

// --------------------------------------------------------------------------
// reference token bucket (the documented rule, RrlParams doc comment)
// --------------------------------------------------------------------------

struct RefBucket {
    /// responses counted against the stream (tokens used)
    count: u128,
    last_refill: T,
}

/// One response of the stream at time `now`: true = the bucket lets it out.
/// Capacity `limit` = rate x window; `rate` tokens come back per WHOLE second
/// elapsed since the last refill, and the fractional part of the elapsed time
/// is carried over to the next refill.
fn ref_step(b: &mut RefBucket, now: T, rate: u128, limit: u128) -> bool {
    let elapsed = t_sub(now, b.last_refill);
    if elapsed.s >= 1 {
        let back = rate * elapsed.s as u128;
        b.count -= if b.count < back { b.count } else { back };
        b.last_refill = t_sub(now, T { s: 0, n: elapsed.n });
    }
    if b.count < limit {
        b.count += 1;
        true
    } else {
        false
    }
}

fn ref_category(rcode: u8) -> Category {
    if rcode == 0 {
        Category::NoError
    } else if rcode == 3 {
        Category::NxDomain
    } else {
        Category::Error
    }
}

// --------------------------------------------------------------------------
// contexts
// --------------------------------------------------------------------------

/// QUERY for `a. IN A`, id 1, QDCOUNT 1 (19 octets).
const REQ_A: [u8; 19] = [0, 1, 0, 0, 0, 1, 0, 0, 0, 0, 0, 0, 1, b'a', 0, 0, 1, 0, 1];

static UNIT: () = ();

/// What the response under construction looks like when it reaches the
/// limiter.
#[derive(Clone, Copy)]
struct Shape {
    /// the response carries an OPT pseudo-RR (the request had one)
    edns: bool,
    /// the response carries a TSIG pseudo-RR (the request had one)
    tsig: bool,
    /// the question is echoed and there is one RR in each of the answer,
    /// authority and additional sections (so that "no records other than
    /// OPT/TSIG" is observable after a slip); false: header only
    records: bool,
}

fn lowercase_unchecked(name: Box<Name>) -> Box<LowercaseName> {
    unsafe { Box::from_raw(Box::into_raw(name) as *mut LowercaseName) }
}

fn name_of(wire: &[u8]) -> Box<Name> {
    Name::try_from_uncompressed_all(wire).unwrap()
}

/// What `Server::handle_message` + `handle_message_with_context` leave in a
/// context before `process_response` for a request `req` whose question
/// parses: question read, OPT reserved if `edns`, RCODE `rcode` (an extended
/// RCODE above 15 needs `edns`), wildcard source of synthesis `sos`
/// (uncompressed wire form) if any.  The response is header-only (shape
/// `Shape { edns, tsig: false, records: false }`): this builder deliberately
/// does not reference the record-writing half of `Writer`, which would
/// otherwise be compiled into every harness (several CPU minutes of CBMC
/// preprocessing each, measured).
fn mk_context_lean<'b>(
    req: &'b [u8],
    out: &'b mut [u8],
    info: ReceivedInfo,
    rcode: u16,
    edns: bool,
    sos: Option<&[u8]>,
) -> Context<'static, 'b, ()> {
    let reader = Reader::try_from(req).unwrap();
    let writer = Writer::new(out, 512).unwrap();
    let mut ctx = Context::new(&UNIT, reader, info, writer);
    let question = ctx.received.read_question().unwrap();
    if edns {
        ctx.response.set_edns(1232).unwrap();
    }
    ctx.question = Some(question);
    if let Some(w) = sos {
        ctx.source_of_synthesis = Some(Cow::Owned(name_of(w)));
    }
    if rcode < 16 {
        ctx.response.set_rcode(Rcode::try_from(rcode as u8).unwrap());
    } else {
        ctx.response.set_extended_rcode(ExtendedRcode::from(rcode)).unwrap();
    }
    ctx
}

/// As `mk_context_lean`, with the question echoed, one RR in each of the
/// answer, authority and additional sections, and OPT / TSIG pseudo-RRs
/// reserved as `shape` says.
fn mk_context_rich<'b>(
    req: &'b [u8],
    out: &'b mut [u8],
    info: ReceivedInfo,
    rcode: u8,
    shape: Shape,
) -> Context<'static, 'b, ()> {
    let reader = Reader::try_from(req).unwrap();
    let writer = Writer::new(out, 512).unwrap();
    let mut ctx = Context::new(&UNIT, reader, info, writer);
    let question = ctx.received.read_question().unwrap();
    ctx.response.add_question(&question).unwrap();
    if shape.edns {
        ctx.response.set_edns(1232).unwrap();
    }
    if shape.tsig {
        // k. and h. are already lower case; the cast is the one
        // `From<Box<Name>> for Box<LowercaseName>` performs after lowercasing
        // in place (that loop over a heap name costs CBMC > 10 M variables)
        let key_name: Box<LowercaseName> = lowercase_unchecked(name_of(&[1, b'k', 0]));
        let algorithm: Box<LowercaseName> = lowercase_unchecked(name_of(&[1, b'h', 0]));
        let zero = TimeSigned::try_from_unix_time(0).unwrap();
        ctx.response
            .set_tsig(
                TsigMode::Unsigned { algorithm },
                PreparedTsigRr {
                    key_name,
                    time_signed: zero,
                    fudge: 300,
                    original_id: 1,
                    error: ExtendedRcode::BADKEY,
                    server_time: zero,
                },
            )
            .unwrap();
    }
    let rdata: &Rdata = (&[192u8, 0, 2, 1]).try_into().unwrap();
    let ttl = Ttl::from(3600);
    // owner: the root name (no compression work; what the records are is
    // irrelevant to the limiter)
    let owner = HintedName::new(Hint::None, Name::root());
    ctx.response.add_answer_rr(owner, Type::A, Class::IN, ttl, rdata, None).unwrap();
    let owner = HintedName::new(Hint::None, Name::root());
    ctx.response.add_authority_rr(owner, Type::A, Class::IN, ttl, rdata, None).unwrap();
    let owner = HintedName::new(Hint::None, Name::root());
    ctx.response.add_additional_rr(owner, Type::A, Class::IN, ttl, rdata, None).unwrap();
    ctx.question = Some(question);
    ctx.response.set_rcode(Rcode::try_from(rcode).unwrap());
    ctx
}

#[derive(Clone, Copy, PartialEq, Eq)]
enum Outcome {
    /// not looked at by the limiter at all
    Exempt,
    Sent,
    Slipped,
    Dropped,
}

/// Classify what came out of process_response, checking that it is exactly
/// one of the well-formed outcomes for a response that went in with
/// `shape` and `send_response == send_before`.
fn outcome(ctx: &Context<()>, shape: Shape, send_before: bool, tag_c26: bool) -> Outcome {
    let pseudo = (if shape.edns { 1 } else { 0 }) + (if shape.tsig { 1 } else { 0 });
    let recs = if shape.records { 1 } else { 0 };
    let untouched = !ctx.response.tc()
        && ctx.response.ancount() == recs
        && ctx.response.nscount() == recs
        && ctx.response.arcount() == recs + pseudo;
    let emptied = ctx.response.tc()
        && ctx.response.ancount() == 0
        && ctx.response.nscount() == 0
        && ctx.response.arcount() == pseudo;
    match ctx.rrl_action {
        None => {
            check(tag_c26, ctx.send_response == send_before && untouched, 0);
            Outcome::Exempt
        }
        Some(Action::Send) => {
            check(tag_c26, send_before && ctx.send_response && untouched, 1);
            Outcome::Sent
        }
        Some(Action::Slip) => {
            check(tag_c26, send_before && ctx.send_response && emptied, 2);
            Outcome::Slipped
        }
        Some(Action::Drop) => {
            check(tag_c26, send_before && !ctx.send_response, 3);
            Outcome::Dropped
        }
    }
}

fn check(tag_c26: bool, cond: bool, which: u8) {
    if tag_c26 {
        match which {
            0 => assert!(cond, "[C26] a response the limiter does not act on is left untouched"),
            1 => assert!(cond, "[C26] a response that is let out is sent unchanged (TC clear, records kept)"),
            2 => assert!(cond, "[C26] a slipped response is sent with TC set and no records other than OPT/TSIG"),
            _ => assert!(cond, "[C26] a dropped response is not sent"),
        }
    } else {
        match which {
            0 => assert!(cond, "[C27] a response the limiter does not act on is left untouched"),
            1 => assert!(cond, "[C27] a response that is let out is sent unchanged (TC clear, records kept)"),
            2 => assert!(cond, "[C27] a slipped response is sent with TC set and no records other than OPT/TSIG"),
            _ => assert!(cond, "[C27] a dropped response is not sent"),
        }
    }
}

// --------------------------------------------------------------------------
// C26: two consecutive responses of one stream from an arbitrary bucket state
// --------------------------------------------------------------------------

const MAX_GAP_SECS: u64 = 1 << 35;

fn any_gap() -> (u64, u32) {
    let s: u64 = kani::any();
    let n: u32 = kani::any();
    kani::assume(s <= MAX_GAP_SECS);
    kani::assume(n < 1_000_000_000);
    (s, n)
}

/// Let (s, n) pass.  Under Kani the S2 clock jumps.  In native playback the
/// stub is not applied and the real clock barely moves: the missing part is
/// simulated by back-dating the bucket (and the observation origin) instead.
fn elapse(rrl: &Rrl, origin: &mut Instant, s: u64, n: u32) {
    let before = Instant::now();
    clock_advance(s, n);
    let after = Instant::now();
    let gap = Duration::new(s, n);
    let jumped = after.duration_since(before);
    if jumped < gap {
        // native playback only (dead under S2)
        let missing = gap - jumped;
        let mut e = rrl.buckets[0].lock().unwrap();
        e.last_refill = e.last_refill - missing;
        *origin = *origin - missing;
    }
}

/// `rates`/`window`: already constrained by the caller.
fn c26_two_steps(rates: [u32; 3], window: u32) {
    let slip: usize = kani::any();
    let mut params = match RrlParams::new(rates[0], rates[1], rates[2], window) {
        Ok(p) => p,
        Err(_) => {
            assert!(false, "[C26] rates and window whose products fit in u32 are accepted");
            return;
        }
    };
    params.set_slip(slip);
    params.set_size(1).unwrap();

    // ---- the stream under observation: 127.0.0.1 (default /24), QNAME a.,
    // any RCODE (hence any of the three categories)
    let rcode: u8 = kani::any();
    kani::assume(rcode < 16);
    let edns: bool = kani::any();
    let shape = Shape { edns, tsig: false, records: false };
    let category = ref_category(rcode);
    let rate = match category {
        Category::NoError => rates[0],
        Category::NxDomain => rates[1],
        Category::Error => rates[2],
    } as u128;
    let limit = rate * window as u128;
    let info = ReceivedInfo::new(IpAddr::V4(Ipv4Addr::new(127, 0, 0, 1)), Transport::Udp);

    // ---- arbitrary bucket state
    clock_init();
    let t0 = Instant::now();
    let mut origin = t0 - Duration::from_secs(ORIGIN_BACK);
    let random_state = fixed_random_state();
    let mut out1 = [0u8; 64];
    let mut ctx1 = mk_context_lean(&REQ_A, &mut out1, info, rcode as u16, edns, None);
    let stream_key = Key {
        dest: 0x7f00_0000,
        ipv6: false,
        qname_hash: if category == Category::NoError {
            random_state.hash_one(&*ctx1.question.as_ref().unwrap().qname) as u32
        } else {
            0
        },
        category,
    };
    let other_cat: u8 = kani::any();
    let bucket_key = Key {
        dest: kani::any(),
        ipv6: kani::any(),
        qname_hash: kani::any(),
        category: ref_category(other_cat),
    };
    // whether the bucket currently belongs to the stream under observation
    let ours = bucket_key == stream_key;
    let count0: u32 = kani::any();
    if ours {
        // inductive invariant of a bucket that belongs to the stream
        kani::assume(count0 as u128 <= limit);
    }
    let (s0, n0) = any_gap();
    let rrl = Rrl {
        params,
        buckets: vec![Mutex::new(Entry {
            key: bucket_key,
            count: count0,
            last_refill: t0 - Duration::new(s0, n0),
        })],
        random_state,
    };
    let mut reference = RefBucket {
        count: count0 as u128,
        last_refill: t_sub(T { s: ORIGIN_BACK, n: 0 }, T { s: s0, n: n0 }),
    };

    // ---- step 1
    let now1 = t_of(origin, Instant::now());
    if !ours {
        // first response of the stream in this table: a fresh (full) bucket
        reference = RefBucket { count: 0, last_refill: now1 };
    }
    let let_out1 = ref_step(&mut reference, now1, rate, limit);
    rrl.process_response(&mut ctx1);
    let o1 = outcome(&ctx1, shape, true, true);
    c26_compare(&rrl, origin, &reference, let_out1, o1, slip, limit);
    kani::cover!(ours && count0 as u128 == limit && o1 == Outcome::Sent, "step 1: full bucket, refill makes room, sent");
    kani::cover!(ours && o1 == Outcome::Dropped && s0 == 0, "step 1: full bucket, less than a second since refill, dropped");
    kani::cover!(ours && o1 == Outcome::Slipped && edns, "step 1: slipped, response with OPT");
    kani::cover!(!ours && o1 == Outcome::Sent, "step 1: bucket taken over from another stream");
    kani::cover!(ours && s0 > u32::MAX as u64, "step 1: idle for more than 2^32 s");
    kani::cover!(ours && count0 > 0 && rate * (s0 as u128) > u32::MAX as u128, "step 1: rate x idle seconds exceeds u32");

    // ---- step 2, a further arbitrary gap later, same category
    let (s1, n1) = any_gap();
    elapse(&rrl, &mut origin, s1, n1);
    let rcode2: u8 = kani::any();
    kani::assume(rcode2 < 16 && ref_category(rcode2) == category);
    let mut out2 = [0u8; 64];
    let mut ctx2 = mk_context_lean(&REQ_A, &mut out2, info, rcode2 as u16, edns, None);
    let now2 = t_of(origin, Instant::now());
    let before2 = reference.count;
    let let_out2 = ref_step(&mut reference, now2, rate, limit);
    rrl.process_response(&mut ctx2);
    let o2 = outcome(&ctx2, shape, true, true);
    c26_compare(&rrl, origin, &reference, let_out2, o2, slip, limit);
    kani::cover!(o1 == Outcome::Sent && o2 == Outcome::Dropped && s1 == 0, "step 2: limit reached by step 1, dropped");
    kani::cover!(o1 == Outcome::Dropped && o2 == Outcome::Sent, "step 2: sent after refill");
    kani::cover!(o2 == Outcome::Slipped && slip > 1, "step 2: slipped with slip > 1");
    kani::cover!(o2 == Outcome::Dropped && slip > 1, "step 2: dropped with slip > 1");
    kani::cover!(
        s1 >= 1 && if window >= 2 { reference.count > 1 && reference.count < before2 } else { before2 == limit && reference.count == 1 },
        "step 2: partial refill (window >= 2; with window 1 every refill is complete: full bucket emptied)"
    );
    kani::cover!(rcode2 != rcode, "step 2: another RCODE of the same category");

    core::mem::forget(ctx1);
    core::mem::forget(ctx2);
    core::mem::forget(rrl);
}

fn c26_compare(rrl: &Rrl, origin: Instant, reference: &RefBucket, let_out: bool, o: Outcome, slip: usize, limit: u128) {
    if let_out {
        assert!(o == Outcome::Sent, "[C26] the reference bucket has a token: the response is sent");
    } else if slip == 0 {
        assert!(o == Outcome::Dropped, "[C26] slip 0: a limited response is dropped");
    } else if slip == 1 {
        assert!(o == Outcome::Slipped, "[C26] slip 1: a limited response is slipped");
    } else {
        assert!(o == Outcome::Dropped || o == Outcome::Slipped, "[C26] a limited response is dropped or slipped");
    }
    let (count, last_refill) = {
        let e = rrl.buckets[0].lock().unwrap();
        (e.count, e.last_refill)
    };
    assert!(count as u128 == reference.count, "[C26] bucket count equals the reference bucket's");
    assert!(
        t_of(origin, last_refill) == reference.last_refill,
        "[C26] bucket refill time equals the reference bucket's (now minus the fractional second)"
    );
    assert!(count as u128 <= limit, "[C26] bucket count never exceeds rate x window");
}

fn any_in(lo: u32, hi: u32) -> u32 {
    let x: u32 = kani::any();
    kani::assume(x >= lo && x <= hi);
    x
}

// @harness props=C26 tier=quick mem=5 t=2400 fn="Rrl::process_response,Rrl::rate_and_limit_for_category,RrlParams::new,RrlParams::set_slip,server::rrl::subject_to_rrl,<Category as From<ExtendedRcode>>::from,Writer::set_tc"
//   bound="two consecutive UDP QUERY responses of one stream (127.0.0.1, QNAME a.); the three rates 1..=4 each, window 1..=1024, any slip (usize; the random choice for slip>1 is a symbolic bool), any RCODE 0..=15, second response any RCODE of the same category; bucket: any key (same stream or not), any count <= rate*window when it is the stream's, last refill 0..=2^35 s + any nanos before the first response; second response 0..=2^35 s + any nanos later; clock start 0..=2^36 s; table size 1; unwind 4"
//   kani="--no-assertion-reach-checks" stubs="S2,S4" sym="rates:[u32;3], window, slip:usize, rcode, rcode2, bucket key/count, (s0,n0), (s1,n1), clock"
#[kani::proof]
#[kani::unwind(4)]
#[kani::stub(std::time::Instant::now, clock_now)]
#[kani::stub(Rrl::should_slip, should_slip_model)]
fn c26_bucket_two_steps_r4() {
    c26_two_steps([any_in(1, 4), any_in(1, 4), any_in(1, 4)], any_in(1, 1024));
}

// @harness props=C26 tier=thorough mem=6 t=3400 fn="Rrl::process_response,Rrl::rate_and_limit_for_category,RrlParams::new"
//   bound="as c26_bucket_two_steps_r4 with the three rates 1..=16 each, window 1..=1024"
//   kani="--no-assertion-reach-checks" stubs="S2,S4" sym="rates:[u32;3], window, slip:usize, rcode, rcode2, bucket key/count, (s0,n0), (s1,n1), clock"
#[kani::proof]
#[kani::unwind(4)]
#[kani::stub(std::time::Instant::now, clock_now)]
#[kani::stub(Rrl::should_slip, should_slip_model)]
fn c26_bucket_two_steps_r16() {
    c26_two_steps([any_in(1, 16), any_in(1, 16), any_in(1, 16)], any_in(1, 1024));
}

// Extreme configurations, one concrete (rates, window) per harness: limits up
// to u32::MAX, where `count + 1`, `rate * window` and the refill product are
// closest to the 32-bit boundary.  (A symbolic choice among such
// configurations in ONE harness cost 1750 CPU s, one SAT call 1656 s.)

// @harness props=C26 tier=quick mem=5 t=2400 fn="Rrl::process_response,Rrl::rate_and_limit_for_category,RrlParams::new"
//   bound="as c26_bucket_two_steps_r4 with the concrete configuration rates (u32::MAX, 65535, 1000), window 1 (NOERROR capacity u32::MAX)"
//   kani="--no-assertion-reach-checks" stubs="S2,S4" sym="slip:usize, rcode, rcode2, edns, bucket key/count, (s0,n0), (s1,n1), clock"
#[kani::proof]
#[kani::unwind(4)]
#[kani::stub(std::time::Instant::now, clock_now)]
#[kani::stub(Rrl::should_slip, should_slip_model)]
fn c26_bucket_two_steps_max_rate() {
    c26_two_steps([u32::MAX, 65535, 1000], 1);
}

// @harness props=C26 tier=quick mem=5 t=2400 fn="Rrl::process_response,Rrl::rate_and_limit_for_category,RrlParams::new"
//   bound="as c26_bucket_two_steps_r4 with the concrete configuration rates (1, 1, 1), window u32::MAX (capacity u32::MAX refilled by 1 per second: partial refills up to 2^35 s)"
//   kani="--no-assertion-reach-checks" stubs="S2,S4" sym="slip:usize, rcode, rcode2, edns, bucket key/count, (s0,n0), (s1,n1), clock"
#[kani::proof]
#[kani::unwind(4)]
#[kani::stub(std::time::Instant::now, clock_now)]
#[kani::stub(Rrl::should_slip, should_slip_model)]
fn c26_bucket_two_steps_max_window() {
    c26_two_steps([1, 1, 1], u32::MAX);
}

// @harness props=C26 tier=thorough mem=5 t=2400 fn="Rrl::process_response,Rrl::rate_and_limit_for_category,RrlParams::new"
//   bound="as c26_bucket_two_steps_r4 with the concrete configuration rates (65535, 65537, 3), window 65535 (NXDOMAIN capacity 65537*65535 = u32::MAX)"
//   kani="--no-assertion-reach-checks" stubs="S2,S4" sym="slip:usize, rcode, rcode2, edns, bucket key/count, (s0,n0), (s1,n1), clock"
#[kani::proof]
#[kani::unwind(4)]
#[kani::stub(std::time::Instant::now, clock_now)]
#[kani::stub(Rrl::should_slip, should_slip_model)]
fn c26_bucket_two_steps_65537x65535() {
    c26_two_steps([65535, 65537, 3], 65535);
}

// @harness props=C26 tier=thorough mem=5 t=2400 fn="Rrl::process_response,Rrl::rate_and_limit_for_category,RrlParams::new"
//   bound="as c26_bucket_two_steps_r4 with the concrete configuration rates (1000, 1024, 1), window 4194303"
//   kani="--no-assertion-reach-checks" stubs="S2,S4" sym="slip:usize, rcode, rcode2, edns, bucket key/count, (s0,n0), (s1,n1), clock"
#[kani::proof]
#[kani::unwind(4)]
#[kani::stub(std::time::Instant::now, clock_now)]
#[kani::stub(Rrl::should_slip, should_slip_model)]
fn c26_bucket_two_steps_1000x4194303() {
    c26_two_steps([1000, 1024, 1], 4_194_303);
}

// --------------------------------------------------------------------------
// C26: what a limited response looks like (records, OPT, TSIG)
// --------------------------------------------------------------------------

/// `edns`/`tsig` are concrete per harness: with a symbolic layout the
/// writer's cursor becomes symbolic and CBMC's array encoding of the response
/// buffer exceeds 15 GB (measured).
fn c26_limited_response_shape(edns: bool, tsig: bool) {
    let slip: usize = kani::any();
    let mut params = RrlParams::new(1, 1, 1, 1).unwrap();
    params.set_slip(slip);
    let rcode: u8 = kani::any();
    kani::assume(rcode < 16);
    let shape = Shape { edns, tsig, records: true };
    let info = ReceivedInfo::new(IpAddr::V4(Ipv4Addr::new(127, 0, 0, 1)), Transport::Udp);
    clock_init();
    let t0 = Instant::now();
    let random_state = fixed_random_state();
    let mut out = [0u8; 128];
    let mut ctx = mk_context_rich(&REQ_A, &mut out, info, rcode, shape);
    let category = ref_category(rcode);
    let key = Key {
        dest: 0x7f00_0000,
        ipv6: false,
        qname_hash: if category == Category::NoError {
            random_state.hash_one(&*ctx.question.as_ref().unwrap().qname) as u32
        } else {
            0
        },
        category,
    };
    let n0: u32 = kani::any();
    kani::assume(n0 < 1_000_000_000);
    let rrl = Rrl {
        params,
        buckets: vec![Mutex::new(Entry { key, count: 1, last_refill: t0 - Duration::new(0, n0) })],
        random_state,
    };
    rrl.process_response(&mut ctx);
    // `outcome` checks the shape of whichever outcome it is
    let o = outcome(&ctx, shape, true, true);
    if slip == 0 {
        assert!(o == Outcome::Dropped, "[C26] slip 0: a limited response is dropped");
    } else if slip == 1 {
        assert!(o == Outcome::Slipped, "[C26] slip 1: a limited response is slipped");
    } else {
        assert!(o == Outcome::Dropped || o == Outcome::Slipped, "[C26] a limited response is dropped or slipped");
    }
    kani::cover!(o == Outcome::Slipped && slip == 1, "slipped with slip 1");
    kani::cover!(o == Outcome::Slipped && slip > 1, "slipped with slip > 1");
    kani::cover!(o == Outcome::Dropped && slip > 1, "dropped with slip > 1");
    kani::cover!(o == Outcome::Dropped && slip == 0 && rcode == 0, "NOERROR dropped with slip 0");
    core::mem::forget(ctx);
    core::mem::forget(rrl);
}

// @harness props=C26 tier=quick mem=4 t=1800 fn="Rrl::process_response,Writer::clear_rrs,Writer::set_tc,server::rrl::subject_to_rrl"
//   bound="one UDP QUERY response (a. IN A) with the question echoed and one A RR in each of answer/authority/additional, no OPT, no TSIG, any RCODE 0..=15, arriving at a full bucket (rate 1, window 1, count 1) 0 s + any nanos after its refill; any slip (usize); 128-octet response buffer; unwind 3"
//   kani="--no-assertion-reach-checks" stubs="S2,S4" sym="slip:usize, rcode, nanos, clock"
#[kani::proof]
#[kani::unwind(3)]
#[kani::stub(std::time::Instant::now, clock_now)]
#[kani::stub(Rrl::should_slip, should_slip_model)]
fn c26_limited_shape_plain() {
    c26_limited_response_shape(false, false);
}

// @harness props=C26 tier=quick mem=4 t=1800 fn="Rrl::process_response,Writer::clear_rrs,Writer::set_tc"
//   bound="as c26_limited_shape_plain with an OPT and a TSIG pseudo-RR reserved in the response"
//   kani="--no-assertion-reach-checks" stubs="S2,S4" sym="slip:usize, rcode, nanos, clock"
#[kani::proof]
#[kani::unwind(3)]
#[kani::stub(std::time::Instant::now, clock_now)]
#[kani::stub(Rrl::should_slip, should_slip_model)]
fn c26_limited_shape_opt_tsig() {
    c26_limited_response_shape(true, true);
}

// @harness props=C26 tier=thorough mem=4 t=1800 fn="Rrl::process_response,Writer::clear_rrs,Writer::set_tc"
//   bound="as c26_limited_shape_plain with an OPT pseudo-RR reserved in the response"
//   kani="--no-assertion-reach-checks" stubs="S2,S4" sym="slip:usize, rcode, nanos, clock"
#[kani::proof]
#[kani::unwind(3)]
#[kani::stub(std::time::Instant::now, clock_now)]
#[kani::stub(Rrl::should_slip, should_slip_model)]
fn c26_limited_shape_opt() {
    c26_limited_response_shape(true, false);
}

// @harness props=C26 tier=thorough mem=4 t=1800 fn="Rrl::process_response,Writer::clear_rrs,Writer::set_tc"
//   bound="as c26_limited_shape_plain with a TSIG pseudo-RR reserved in the response"
//   kani="--no-assertion-reach-checks" stubs="S2,S4" sym="slip:usize, rcode, nanos, clock"
#[kani::proof]
#[kani::unwind(3)]
#[kani::stub(std::time::Instant::now, clock_now)]
#[kani::stub(Rrl::should_slip, should_slip_model)]
fn c26_limited_shape_tsig() {
    c26_limited_response_shape(false, true);
}

// --------------------------------------------------------------------------
// C26: RrlParams::new accepts exactly the configurations whose bucket
// capacities rate x window fit the 32-bit counters
// --------------------------------------------------------------------------

// @harness props=C26 tier=quick mem=2 t=900 fn="RrlParams::new"
//   bound="all u32 rates and windows (full 2^128 input space)"
//   sym="noerror_rate, nxdomain_rate, error_rate, window: u32"
#[kani::proof]
fn c26_params_new_all_u32() {
    let r: [u32; 3] = [kani::any(), kani::any(), kani::any()];
    let w: u32 = kani::any();
    let fits = |x: u32| (x as u64) * (w as u64) <= u32::MAX as u64;
    let valid = r[0] != 0 && r[1] != 0 && r[2] != 0 && w != 0 && fits(r[0]) && fits(r[1]) && fits(r[2]);
    match RrlParams::new(r[0], r[1], r[2], w) {
        Ok(p) => {
            assert!(valid, "[C26] RrlParams::new rejects zero rates/window and capacities above u32::MAX");
            assert!(
                p.noerror_rate == r[0] && p.nxdomain_rate == r[1] && p.error_rate == r[2] && p.window == w,
                "[C26] RrlParams::new stores the rates and window it was given"
            );
            assert!(
                p.slip == 2 && p.ipv4_netmask == 0xffff_ff00 && p.ipv6_netmask == 0xffff_ffff_ffff_ff00 && p.size == 65_537,
                "[C26] RrlParams::new sets the documented defaults (slip 2, /24, /56, 65537 entries)"
            );
            kani::cover!(r[0] > 65536 && w > 1, "accepted large rate");
        }
        Err(_) => {
            assert!(!valid, "[C26] RrlParams::new accepts every non-zero configuration whose capacities fit u32");
            kani::cover!(r[0] != 0 && r[1] != 0 && r[2] != 0 && w != 0, "rejected for capacity overflow");
        }
    }
}

// --------------------------------------------------------------------------
// C27: reference stream classification
// --------------------------------------------------------------------------

/// RFC 4291 section 2.5.5.2 IPv4-mapped address ::ffff:a.b.c.d
fn ref_mapped(o: &[u8; 16]) -> bool {
    o[0] == 0 && o[1] == 0 && o[2] == 0 && o[3] == 0 && o[4] == 0 && o[5] == 0 && o[6] == 0 && o[7] == 0
        && o[8] == 0 && o[9] == 0 && o[10] == 0xff && o[11] == 0xff
}

/// The source of a response as the limiter must see it.
#[derive(Clone, Copy)]
struct RefSource {
    /// counts as IPv4 (IPv4, or IPv4-mapped IPv6)
    v4: bool,
    /// v4: the 32-bit address; otherwise the upper 64 bits of the address
    bits: u64,
}

fn ref_source(is_v6: bool, o: &[u8; 16]) -> RefSource {
    if !is_v6 {
        // the IPv4 address is taken from the first four octets
        RefSource { v4: true, bits: u32::from_be_bytes([o[0], o[1], o[2], o[3]]) as u64 }
    } else if ref_mapped(o) {
        RefSource { v4: true, bits: u32::from_be_bytes([o[12], o[13], o[14], o[15]]) as u64 }
    } else {
        RefSource { v4: false, bits: u64::from_be_bytes([o[0], o[1], o[2], o[3], o[4], o[5], o[6], o[7]]) }
    }
}

/// The leading `len` bits of a `width`-bit value (the configured prefix).
fn ref_prefix(bits: u64, width: u32, len: u8) -> u64 {
    if len == 0 {
        0
    } else {
        bits >> (width - len as u32)
    }
}

fn ref_same_prefix(a: RefSource, b: RefSource, v4_len: u8, v6_len: u8) -> bool {
    if a.v4 != b.v4 {
        false
    } else if a.v4 {
        ref_prefix(a.bits, 32, v4_len) == ref_prefix(b.bits, 32, v4_len)
    } else {
        ref_prefix(a.bits, 64, v6_len) == ref_prefix(b.bits, 64, v6_len)
    }
}

/// 0 = NOERROR, 1 = NXDOMAIN, 2 = every other (extended) RCODE
fn ref_category_ext(rcode: u16) -> u8 {
    if rcode == 0 {
        0
    } else if rcode == 3 {
        1
    } else {
        2
    }
}

fn ip_of(is_v6: bool, o: &[u8; 16]) -> IpAddr {
    if is_v6 {
        IpAddr::V6(Ipv6Addr::from(*o))
    } else {
        IpAddr::V4(Ipv4Addr::new(o[0], o[1], o[2], o[3]))
    }
}

// --------------------------------------------------------------------------
// C27: pairs of responses under a limit of one per stream
// --------------------------------------------------------------------------

/// One side of a pair: everything the limiter looks at, symbolic except the
/// names.
struct Side {
    is_v6: bool,
    octets: [u8; 16],
    tcp: bool,
    /// request header octets 2 and 3 with QR clear: any opcode, any flags
    flags: [u8; 2],
    id: [u8; 2],
    edns: bool,
    rcode: u16,
    /// the response was already marked "do not send" (e.g. QDCOUNT > 1)
    send: bool,
}

fn any_side() -> Side {
    let s = Side {
        is_v6: kani::any(),
        octets: kani::any(),
        tcp: kani::any(),
        flags: kani::any(),
        id: kani::any(),
        edns: kani::any(),
        rcode: kani::any(),
        send: kani::any(),
    };
    kani::assume(s.flags[0] & 0x80 == 0);
    // 12-bit extended RCODEs exist only with EDNS
    kani::assume(if s.edns { s.rcode < 4096 } else { s.rcode < 16 });
    s
}

impl Side {
    fn opcode(&self) -> u8 {
        (self.flags[0] >> 3) & 0x0f
    }
    fn exempt(&self) -> bool {
        self.tcp || self.opcode() != 0 || !self.send
    }
    fn request(&self, qname: &[u8; 5]) -> [u8; 21] {
        [
            self.id[0], self.id[1], self.flags[0], self.flags[1], 0, 1, 0, 0, 0, 0, 0, 0,
            qname[0], qname[1], qname[2], qname[3], qname[4], 0, 1, 0, 1,
        ]
    }
    fn info(&self) -> ReceivedInfo {
        ReceivedInfo::new(
            ip_of(self.is_v6, &self.octets),
            if self.tcp { Transport::Tcp } else { Transport::Udp },
        )
    }
}

/// Case-insensitive equality of two names of the shape the pair harnesses
/// use (two one-octet labels): same label lengths, same octets up to ASCII case.
fn lower_eq(a: &[u8; 5], b: &[u8; 5]) -> bool {
    use crate::kani_common::lower;
    a[0] == b[0] && lower(a[1]) == lower(b[1]) && a[2] == b[2] && lower(a[3]) == lower(b[3]) && a[4] == b[4]
}

/// Two responses, the second less than a second after the first, through a
/// limiter that allows one response per stream (all rates 1, window 1) and
/// starts in the state `Rrl::new` creates.  QNAMEs (two labels of one octet
/// each) and wildcard sources of synthesis are concrete; everything else is
/// symbolic.  `UNWIND` loops: see the harnesses.
fn c27_pair(qname1: [u8; 5], sos1: Option<[u8; 5]>, qname2: [u8; 5], sos2: Option<[u8; 5]>) {
    // the name that identifies a NOERROR stream
    let n1 = if let Some(s) = sos1 { s } else { qname1 };
    let n2 = if let Some(s) = sos2 { s } else { qname2 };
    let same_name = lower_eq(&n1, &n2);

    let v4_len: u8 = kani::any();
    let v6_len: u8 = kani::any();
    kani::assume(v4_len <= 32 && v6_len <= 64);
    let slip: usize = kani::any();
    let mut params = RrlParams::new(1, 1, 1, 1).unwrap();
    params.set_slip(slip);
    params.set_size(1).unwrap();
    assert!(params.set_ipv4_prefix_len(v4_len).is_ok(), "[C27] IPv4 prefix lengths 0..=32 are accepted");
    assert!(params.set_ipv6_prefix_len(v6_len).is_ok(), "[C27] IPv6 prefix lengths 0..=64 are accepted");

    clock_init();
    let t0 = Instant::now();
    // exactly the table Rrl::new builds for size 1
    let rrl = Rrl {
        params,
        buckets: vec![Mutex::new(Entry {
            key: Key { dest: 0, ipv6: false, qname_hash: 0, category: Category::NoError },
            count: 0,
            last_refill: t0,
        })],
        random_state: fixed_random_state(),
    };

    let a = any_side();
    let b = any_side();

    // ---- first response
    let req1 = a.request(&qname1);
    let mut out1 = [0u8; 64];
    let shape1 = Shape { edns: a.edns, tsig: false, records: false };
    let mut ctx1 = mk_context_lean(&req1, &mut out1, a.info(), a.rcode, a.edns, sos1.as_ref().map(|s| &s[..]));
    ctx1.send_response = a.send;
    rrl.process_response(&mut ctx1);
    let o1 = outcome(&ctx1, shape1, a.send, false);
    if a.exempt() {
        assert!(o1 == Outcome::Exempt, "[C27] TCP responses, non-QUERY opcodes and unsent responses are not rate limited");
    } else {
        assert!(o1 == Outcome::Sent, "[C27] the first response of a stream is sent");
    }

    // ---- second response, less than a second later (no refill)
    let gap_nanos: u32 = kani::any();
    kani::assume(gap_nanos < 1_000_000_000);
    clock_advance(0, gap_nanos);
    let req2 = b.request(&qname2);
    let mut out2 = [0u8; 64];
    let shape2 = Shape { edns: b.edns, tsig: false, records: false };
    let mut ctx2 = mk_context_lean(&req2, &mut out2, b.info(), b.rcode, b.edns, sos2.as_ref().map(|s| &s[..]));
    ctx2.send_response = b.send;
    rrl.process_response(&mut ctx2);
    let o2 = outcome(&ctx2, shape2, b.send, false);

    // ---- reference: same stream?
    let sa = ref_source(a.is_v6, &a.octets);
    let sb = ref_source(b.is_v6, &b.octets);
    let same_prefix = ref_same_prefix(sa, sb, v4_len, v6_len);
    let ca = ref_category_ext(a.rcode);
    let cb = ref_category_ext(b.rcode);
    let same_stream = same_prefix && ca == cb && (ca != 0 || same_name);
    if b.exempt() {
        assert!(o2 == Outcome::Exempt, "[C27] TCP responses, non-QUERY opcodes and unsent responses are not rate limited");
    } else if !a.exempt() && same_stream {
        assert!(o2 == Outcome::Dropped || o2 == Outcome::Slipped, "[C27] the second response of the same stream within the second is limited");
        assert!(slip != 0 || o2 == Outcome::Dropped, "[C27] slip 0: limited means dropped");
        assert!(slip != 1 || o2 == Outcome::Slipped, "[C27] slip 1: limited means slipped");
    } else {
        assert!(o2 == Outcome::Sent, "[C27] a response of a different stream (or after an exempt one) is not limited");
    }

    let limited = o2 == Outcome::Dropped || o2 == Outcome::Slipped;
    kani::cover!(
        !a.exempt() && !b.exempt() && same_prefix && ca == 0 && cb == 0 && (if same_name { limited } else { o2 == Outcome::Sent }),
        "NOERROR pair in one prefix: limited if the names are the same, sent if they differ"
    );
    kani::cover!(limited && ca == 1, "NXDOMAIN pair limited");
    kani::cover!(limited && ca == 2 && a.rcode != b.rcode, "two different error RCODEs limited as one stream");
    kani::cover!(limited && a.is_v6 != b.is_v6, "IPv4 and IPv4-mapped IPv6 source limited as one stream");
    kani::cover!(limited && !sa.v4 && sa.bits != sb.bits, "two IPv6 sources in one prefix limited");
    kani::cover!(limited && sa.v4 && sa.bits != sb.bits && v4_len > 0, "two IPv4 sources in one prefix limited");
    kani::cover!(o2 == Outcome::Sent && !a.exempt() && same_prefix && ca != cb, "same prefix, different category: sent");
    kani::cover!(o2 == Outcome::Sent && !a.exempt() && !same_prefix && ca == cb && sa.v4 == sb.v4, "same family and category, different prefix: sent");
    kani::cover!(o2 == Outcome::Sent && !a.exempt() && sa.v4 != sb.v4 && ca == cb, "different address family: sent");
    kani::cover!(o2 == Outcome::Exempt && b.tcp && !a.exempt() && same_stream, "TCP response of a limited stream: exempt");
    kani::cover!(o2 == Outcome::Exempt && !b.tcp && b.send && !a.exempt() && same_stream, "non-QUERY response of a limited stream: exempt");
    kani::cover!(o2 == Outcome::Sent && a.exempt() && same_stream, "first response exempt: it did not use the stream's token");
    kani::cover!(limited && b.rcode >= 16 && (b.rcode & 15 == 0 || b.rcode & 15 == 3), "extended RCODE whose low nibble is NOERROR/NXDOMAIN counted as error");

    core::mem::forget(ctx1);
    core::mem::forget(ctx2);
    core::mem::forget(rrl);
}

const N_XA: [u8; 5] = [1, b'x', 1, b'a', 0];
const N_XA_UPPER: [u8; 5] = [1, b'X', 1, b'A', 0];
const N_YA: [u8; 5] = [1, b'y', 1, b'a', 0];
const N_XB: [u8; 5] = [1, b'x', 1, b'b', 0];
const N_STAR_A: [u8; 5] = [1, b'*', 1, b'a', 0];
const N_STAR_A_UPPER: [u8; 5] = [1, b'*', 1, b'A', 0];

// @harness props=C27 tier=quick mem=5 t=2400 fn="Rrl::process_response,Rrl::ip_to_dest_u64,server::rrl::subject_to_rrl,<Category as From<ExtendedRcode>>::from,<Key as PartialEq>::eq,ReceivedInfo::new,RrlParams::set_ipv4_prefix_len,RrlParams::set_ipv6_prefix_len,<Name as Hash>::hash"
//   bound="two responses < 1 s apart, fresh table of size 1, rates 1 window 1; QNAMEs x.a. / x.a. (identical), no wildcard; per response: any IPv4 or any IPv6 source (all 2^32 / 2^128, incl. IPv4-mapped), UDP or TCP, any opcode and header flags, any RCODE 0..=15 or with OPT any extended RCODE 0..=4095, send_response already false or not; any prefix lengths 0..=32 / 0..=64, any slip; unwind 5 (11 for the 10-octet scan in ReceivedInfo::new)"
//   kani="--no-assertion-reach-checks" cbmc="--unwindset _RINvXs2J_NtNtCs8xvirJzNMvV_4core5slice4iterINtB7_4IterhENtNtNtNtBb_4iter6traits8iterator8Iterator3allNCNvMs0_NtCskjFBwtpsoHr_8quandary6serverNtB1J_12ReceivedInfo3new0EB1L_.0:11" stubs="S2,S4" sym="2 x (family, 16 octets, transport, flags, id, edns, rcode, send), v4_len, v6_len, slip, gap nanos, clock"
#[kani::proof]
#[kani::unwind(5)]
#[kani::stub(std::time::Instant::now, clock_now)]
#[kani::stub(Rrl::should_slip, should_slip_model)]
fn c27_pair_same_qname() {
    c27_pair(N_XA, None, N_XA, None);
}

// @harness props=C27 tier=quick mem=5 t=2400 fn="Rrl::process_response,<Name as Hash>::hash,<Label as Hash>::hash"
//   bound="as c27_pair_same_qname with QNAMEs x.a. / X.A. (same name, different case)"
//   kani="--no-assertion-reach-checks" cbmc="--unwindset _RINvXs2J_NtNtCs8xvirJzNMvV_4core5slice4iterINtB7_4IterhENtNtNtNtBb_4iter6traits8iterator8Iterator3allNCNvMs0_NtCskjFBwtpsoHr_8quandary6serverNtB1J_12ReceivedInfo3new0EB1L_.0:11" stubs="S2,S4" sym="as c27_pair_same_qname"
#[kani::proof]
#[kani::unwind(5)]
#[kani::stub(std::time::Instant::now, clock_now)]
#[kani::stub(Rrl::should_slip, should_slip_model)]
fn c27_pair_case_variant_qname() {
    c27_pair(N_XA, None, N_XA_UPPER, None);
}

// @harness props=C27 tier=quick mem=5 t=2400 fn="Rrl::process_response,<Name as Hash>::hash"
//   bound="as c27_pair_same_qname with QNAMEs x.a. / y.a. (different first label)"
//   kani="--no-assertion-reach-checks" cbmc="--unwindset _RINvXs2J_NtNtCs8xvirJzNMvV_4core5slice4iterINtB7_4IterhENtNtNtNtBb_4iter6traits8iterator8Iterator3allNCNvMs0_NtCskjFBwtpsoHr_8quandary6serverNtB1J_12ReceivedInfo3new0EB1L_.0:11" stubs="S2,S4" sym="as c27_pair_same_qname"
#[kani::proof]
#[kani::unwind(5)]
#[kani::stub(std::time::Instant::now, clock_now)]
#[kani::stub(Rrl::should_slip, should_slip_model)]
fn c27_pair_different_qname() {
    c27_pair(N_XA, None, N_YA, None);
}

// @harness props=C27 tier=thorough mem=5 t=2400 fn="Rrl::process_response,<Name as Hash>::hash"
//   bound="as c27_pair_same_qname with QNAMEs x.a. / x.b. (different last label)"
//   kani="--no-assertion-reach-checks" cbmc="--unwindset _RINvXs2J_NtNtCs8xvirJzNMvV_4core5slice4iterINtB7_4IterhENtNtNtNtBb_4iter6traits8iterator8Iterator3allNCNvMs0_NtCskjFBwtpsoHr_8quandary6serverNtB1J_12ReceivedInfo3new0EB1L_.0:11" stubs="S2,S4" sym="as c27_pair_same_qname"
#[kani::proof]
#[kani::unwind(5)]
#[kani::stub(std::time::Instant::now, clock_now)]
#[kani::stub(Rrl::should_slip, should_slip_model)]
fn c27_pair_different_parent_qname() {
    c27_pair(N_XA, None, N_XB, None);
}

// @harness props=C27 tier=quick mem=5 t=2400 fn="Rrl::process_response,<Name as Hash>::hash"
//   bound="as c27_pair_same_qname with QNAMEs x.a. / y.a., both answered from the wildcard *.a. (second source of synthesis spelled *.A.)"
//   kani="--no-assertion-reach-checks" cbmc="--unwindset _RINvXs2J_NtNtCs8xvirJzNMvV_4core5slice4iterINtB7_4IterhENtNtNtNtBb_4iter6traits8iterator8Iterator3allNCNvMs0_NtCskjFBwtpsoHr_8quandary6serverNtB1J_12ReceivedInfo3new0EB1L_.0:11" stubs="S2,S4" sym="as c27_pair_same_qname"
#[kani::proof]
#[kani::unwind(5)]
#[kani::stub(std::time::Instant::now, clock_now)]
#[kani::stub(Rrl::should_slip, should_slip_model)]
fn c27_pair_same_wildcard() {
    c27_pair(N_XA, Some(N_STAR_A), N_YA, Some(N_STAR_A_UPPER));
}

// @harness props=C27 tier=thorough mem=5 t=2400 fn="Rrl::process_response,<Name as Hash>::hash"
//   bound="as c27_pair_same_qname with QNAME x.a. twice, the first answered from the wildcard *.a., the second not synthesized"
//   kani="--no-assertion-reach-checks" cbmc="--unwindset _RINvXs2J_NtNtCs8xvirJzNMvV_4core5slice4iterINtB7_4IterhENtNtNtNtBb_4iter6traits8iterator8Iterator3allNCNvMs0_NtCskjFBwtpsoHr_8quandary6serverNtB1J_12ReceivedInfo3new0EB1L_.0:11" stubs="S2,S4" sym="as c27_pair_same_qname"
#[kani::proof]
#[kani::unwind(5)]
#[kani::stub(std::time::Instant::now, clock_now)]
#[kani::stub(Rrl::should_slip, should_slip_model)]
fn c27_pair_wildcard_vs_plain() {
    c27_pair(N_XA, Some(N_STAR_A), N_XA, None);
}

// @harness props=C27 tier=thorough mem=5 t=2400 fn="Rrl::process_response,<Name as Hash>::hash"
//   bound="as c27_pair_same_qname with QNAME *.a. asked literally, then y.a. answered from the wildcard *.a."
//   kani="--no-assertion-reach-checks" cbmc="--unwindset _RINvXs2J_NtNtCs8xvirJzNMvV_4core5slice4iterINtB7_4IterhENtNtNtNtBb_4iter6traits8iterator8Iterator3allNCNvMs0_NtCskjFBwtpsoHr_8quandary6serverNtB1J_12ReceivedInfo3new0EB1L_.0:11" stubs="S2,S4" sym="as c27_pair_same_qname"
#[kani::proof]
#[kani::unwind(5)]
#[kani::stub(std::time::Instant::now, clock_now)]
#[kani::stub(Rrl::should_slip, should_slip_model)]
fn c27_pair_literal_wildcard_qname() {
    c27_pair(N_STAR_A, None, N_YA, Some(N_STAR_A));
}

// --------------------------------------------------------------------------
// C27: the address functions alone, over all addresses
// --------------------------------------------------------------------------

// @harness props=C27 tier=quick mem=2 t=900 fn="ReceivedInfo::new"
//   bound="every IPv4 and every IPv6 address (all 2^32 / 2^128), both transports; unwind 12"
//   sym="family, octets:[u8;16], transport"
#[kani::proof]
#[kani::unwind(12)]
fn c27_received_info_new_all_addresses() {
    let is_v6: bool = kani::any();
    let o: [u8; 16] = kani::any();
    let tcp: bool = kani::any();
    let info = ReceivedInfo::new(ip_of(is_v6, &o), if tcp { Transport::Tcp } else { Transport::Udp });
    let r = ref_source(is_v6, &o);
    match info.source {
        IpAddr::V4(a) => {
            assert!(r.v4, "[C27] only IPv4 and IPv4-mapped IPv6 sources are treated as IPv4");
            assert!(u32::from(a) as u64 == r.bits, "[C27] the IPv4 source keeps its address / the mapped source yields the embedded address");
        }
        IpAddr::V6(a) => {
            assert!(!r.v4, "[C27] IPv4-mapped IPv6 sources are treated as IPv4");
            assert!(u128::from(a) == u128::from_be_bytes(o), "[C27] other IPv6 sources are unchanged");
        }
    }
    assert!((info.transport == Transport::Tcp) == tcp, "[C27] the transport is recorded as given");
    kani::cover!(is_v6 && r.v4, "IPv4-mapped source canonicalised");
    kani::cover!(is_v6 && !r.v4 && o[10] == 0xff && o[11] == 0xff, "near miss stays IPv6");
}

fn ref_mask(width: u32, len: u8) -> u64 {
    // `len` leading one bits of a `width`-bit mask
    let mut m = 0u64;
    let mut i = 0u32;
    while i < width {
        if i < len as u32 {
            m |= 1u64 << (width - 1 - i);
        }
        i += 1;
    }
    m
}

// @harness props=C27 tier=quick mem=2 t=900 fn="RrlParams::set_ipv4_prefix_len,RrlParams::set_ipv6_prefix_len,Rrl::ip_to_dest_u64"
//   bound="every prefix length 0..=255 for both setters; every IPv4 address and every IPv6 address; unwind 66"
//   sym="v4_len:u8, v6_len:u8, v4:u32, v6:u128"
#[kani::proof]
#[kani::unwind(66)]
fn c27_prefix_setters_and_masking_all_addresses() {
    let mut params = RrlParams::new(1, 1, 1, 1).unwrap();
    let v4_len: u8 = kani::any();
    let v6_len: u8 = kani::any();
    let r4 = params.set_ipv4_prefix_len(v4_len);
    if v4_len <= 32 {
        assert!(r4.is_ok(), "[C27] IPv4 prefix lengths 0..=32 are accepted");
        assert!(params.ipv4_netmask as u64 == ref_mask(32, v4_len), "[C27] the IPv4 netmask has exactly the configured number of leading ones");
    } else {
        assert!(r4 == Err(RrlParamError::InvalidIpv4PrefixLen), "[C27] IPv4 prefix lengths above 32 are rejected");
        assert!(params.ipv4_netmask == 0xffff_ff00, "[C27] a rejected IPv4 prefix length leaves the netmask unchanged");
    }
    let r6 = params.set_ipv6_prefix_len(v6_len);
    if v6_len <= 64 {
        assert!(r6.is_ok(), "[C27] IPv6 prefix lengths 0..=64 are accepted");
        assert!(params.ipv6_netmask == ref_mask(64, v6_len), "[C27] the IPv6 netmask has exactly the configured number of leading ones");
    } else {
        assert!(r6 == Err(RrlParamError::InvalidIpv6PrefixLen), "[C27] IPv6 prefix lengths above 64 are rejected");
        assert!(params.ipv6_netmask == 0xffff_ffff_ffff_ff00, "[C27] a rejected IPv6 prefix length leaves the netmask unchanged");
    }
    kani::assume(v4_len <= 32 && v6_len <= 64);
    let rrl = Rrl { params, buckets: Vec::new(), random_state: fixed_random_state() };
    // two addresses of each family: equal masked value <=> equal prefix
    let a4: u32 = kani::any();
    let b4: u32 = kani::any();
    let da = rrl.ip_to_dest_u64(IpAddr::V4(Ipv4Addr::from(a4)));
    let db = rrl.ip_to_dest_u64(IpAddr::V4(Ipv4Addr::from(b4)));
    assert!(
        (da == db) == (ref_prefix(a4 as u64, 32, v4_len) == ref_prefix(b4 as u64, 32, v4_len)),
        "[C27] two IPv4 addresses get the same destination value exactly when they share the configured prefix"
    );
    assert!(da == (a4 as u64 & ref_mask(32, v4_len)), "[C27] the IPv4 destination value is the address with the host bits cleared");
    let a6: u128 = kani::any();
    let b6: u128 = kani::any();
    let ea = rrl.ip_to_dest_u64(IpAddr::V6(Ipv6Addr::from(a6)));
    let eb = rrl.ip_to_dest_u64(IpAddr::V6(Ipv6Addr::from(b6)));
    let ha = (a6 >> 64) as u64;
    let hb = (b6 >> 64) as u64;
    assert!(
        (ea == eb) == (ref_prefix(ha, 64, v6_len) == ref_prefix(hb, 64, v6_len)),
        "[C27] two IPv6 addresses get the same destination value exactly when they share the configured prefix"
    );
    assert!(ea == (ha & ref_mask(64, v6_len)), "[C27] the IPv6 destination value is the upper half with the host bits cleared");
    kani::cover!(v4_len == 0 && da == db && a4 != b4, "prefix length 0: all IPv4 one network");
    kani::cover!(v4_len == 32 && da != db, "prefix length 32: hosts distinguished");
    kani::cover!(v6_len == 64 && ea == eb && a6 != b6, "IPv6 /64: interface identifier ignored");
    kani::cover!(v6_len == 1 && ea != eb, "IPv6 /1");
    core::mem::forget(rrl);
}
