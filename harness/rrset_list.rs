// @host src/db/rrset.rs
//
// C20 (ii): RrsetList::{add, lookup, iter} - the per-node RRset store of the
// zone tree (Vec-backed, no HashMap) - against a reference list kept in the
// harness.
//
// Every add has a CONCRETE type (one harness per type sequence over TXT, A,
// AAAA - types whose draw order differs from their sort order and which all
// compare RDATA octet-wise in class IN; which RDATA count as equal for the
// name-bearing types is property C19's business and is decided there on
// Rdata::equals / RdataSetOwned directly), a fully symbolic 32-bit TTL and a
// fully symbolic 2-octet RDATA.  A symbolic type was tried first: the
// position of the RRset in the Vec then becomes symbolic, every later
// Vec growth explores the reallocation path with a symbolic-size array copy
// and CBMC runs out of memory (3 adds: > 8 GB with CaDiCaL, and CBMC's SMT
// back end aborts with `map::at`).  For the same reason no RRset receives a
// third record in these histories (the second record already makes the
// buffer's size depend on the symbolic TTL/RDATA).  The reference is RFC 2181 section 5.2 (one
// TTL per RRset) + section 8 (TTLs with the top bit set are zero) and "an
// RRset is a set": a record whose RDATA is already present changes nothing.

use super::*;

const TYPES: [u16; 3] = [16, 1, 28]; // TXT, A, AAAA: draw order != sort order
const MAXR: usize = 4;

#[derive(Clone, Copy)]
struct RefSet {
    present: bool,
    ttl: u32,
    n: usize,
    rd: [[u8; 2]; MAXR],
}

struct RefList {
    sets: [RefSet; 3],
}

/// RFC 2181 section 8.
fn norm_ttl(raw: u32) -> u32 {
    if raw & 0x8000_0000 != 0 {
        0
    } else {
        raw
    }
}

impl RefList {
    fn new() -> Self {
        RefList { sets: [RefSet { present: false, ttl: 0, n: 0, rd: [[0; 2]; MAXR] }; 3] }
    }

    /// Ok(()) or Err(()) = TTL mismatch.
    fn add(&mut self, sel: usize, raw_ttl: u32, rd: [u8; 2]) -> Result<(), ()> {
        let s = &mut self.sets[sel];
        let ttl = norm_ttl(raw_ttl);
        if !s.present {
            s.present = true;
            s.ttl = ttl;
            s.n = 1;
            s.rd[0] = rd;
            return Ok(());
        }
        if s.ttl != ttl {
            return Err(());
        }
        let mut k = 0;
        while k < MAXR {
            if k < s.n && s.rd[k][0] == rd[0] && s.rd[k][1] == rd[1] {
                return Ok(());
            }
            k += 1;
        }
        s.rd[s.n] = rd;
        s.n += 1;
        Ok(())
    }
}

fn real_add(list: &mut RrsetList, sel: usize, raw_ttl: u32, rd: &[u8; 2]) -> Result<(), Error> {
    let r: &Rdata = match rd.try_into() {
        Ok(r) => r,
        Err(_) => {
            assert!(false, "2 octets are valid RDATA");
            return Ok(());
        }
    };
    // the type is a constant in each arm, so that the match in Rdata::equals
    // is decided by constant propagation
    match sel {
        0 => list.add(Class::IN, Type::TXT, Ttl::from(raw_ttl), r),
        1 => list.add(Class::IN, Type::A, Ttl::from(raw_ttl), r),
        _ => list.add(Class::IN, Type::AAAA, Ttl::from(raw_ttl), r),
    }
}

fn step(list: &mut RrsetList, reference: &mut RefList, sel: usize) -> (bool, bool) {
    let ttl: u32 = kani::any();
    let rd: [u8; 2] = kani::any();
    let before_n = reference.sets[sel].n;
    let want = reference.add(sel, ttl, rd);
    let got = real_add(list, sel, ttl, &rd);
    match (&got, &want) {
        (Ok(()), Ok(())) => {}
        (Err(e), Err(())) => assert!(*e == Error::TtlMismatch, "[C20] a rejected add reports TtlMismatch"),
        (Ok(()), Err(())) => assert!(false, "[C20] add accepts a record whose TTL differs from its RRset's"),
        (Err(_), Ok(())) => assert!(false, "[C20] add rejects a record whose TTL matches its RRset's (or starts a new RRset)"),
    }
    let dup = want.is_ok() && before_n > 0 && reference.sets[sel].n == before_n;
    (want.is_err(), dup)
}

fn same_set(rrset: &Rrset, s: &RefSet) {
    assert!(u32::from(rrset.ttl) == s.ttl, "[C20] the RRset has the TTL of its first record");
    let mut it = rrset.rdatas.iter();
    let mut k = 0;
    while k < MAXR {
        if k < s.n {
            match it.next() {
                Some(r) => {
                    let o = r.octets();
                    assert!(o.len() == 2 && o[0] == s.rd[k][0] && o[1] == s.rd[k][1], "[C20] the RRset holds the de-duplicated RDATA in insertion order");
                }
                None => assert!(false, "[C20] the RRset lost an RDATA that was added"),
            }
        }
        k += 1;
    }
    assert!(it.next().is_none(), "[C20] the RRset holds nothing but the de-duplicated RDATA added");
}

fn observe(list: &RrsetList, reference: &RefList) {
    // lookup of every pool type and of a type never added
    let mut sel = 0;
    while sel < 3 {
        let s = &reference.sets[sel];
        match list.lookup(Type::from(TYPES[sel])) {
            Some(rrset) => {
                assert!(s.present, "[C20] lookup finds only RRsets that were added");
                assert!(u16::from(rrset.rr_type) == TYPES[sel], "[C20] lookup returns the RRset of the requested type");
                same_set(rrset, s);
            }
            None => assert!(!s.present, "[C20] lookup finds every RRset that was added"),
        }
        sel += 1;
    }
    assert!(list.lookup(Type::NS).is_none(), "[C20] lookup of a type never added finds nothing");
    // iteration: every RRset exactly once
    let mut seen = [false; 3];
    let mut count = 0usize;
    let mut it = list.iter();
    let mut k = 0;
    while k < 4 {
        if let Some(rrset) = it.next() {
            let t = u16::from(rrset.rr_type);
            let sel = if t == TYPES[0] {
                0
            } else if t == TYPES[1] {
                1
            } else if t == TYPES[2] {
                2
            } else {
                assert!(false, "[C20] iteration yields only types that were added");
                0
            };
            assert!(!seen[sel], "[C20] iteration yields each RRset once");
            assert!(reference.sets[sel].present, "[C20] iteration yields only RRsets that were added");
            seen[sel] = true;
            same_set(rrset, &reference.sets[sel]);
            count += 1;
        }
        k += 1;
    }
    let expected = reference.sets[0].present as usize + reference.sets[1].present as usize + reference.sets[2].present as usize;
    assert!(count == expected, "[C20] iteration yields every RRset that was added");
}

/// Selector values: 0 = TXT, 1 = A, 2 = AAAA.
fn history3(t1: usize, t2: usize, t3: usize) -> ([bool; 3], [bool; 3], RefList) {
    let mut list = RrsetList::default();
    let mut reference = RefList::new();
    let (r1, d1) = step(&mut list, &mut reference, t1);
    let (r2, d2) = step(&mut list, &mut reference, t2);
    let (r3, d3) = step(&mut list, &mut reference, t3);
    observe(&list, &reference);
    core::mem::forget(list);
    ([r1, r2, r3], [d1, d2, d3], reference)
}

// @harness props=C20 tier=quick mem=2 t=900 fn="RrsetList::add,RrsetList::lookup,RrsetList::iter,RdataSetOwned::insert,RdataSet::iter"
//   bound="history of 3 adds with types TXT, A, TXT (class IN): each add has any u32 TTL and any 2-octet RDATA; then lookup of TXT, A, AAAA, NS and a full iteration; unwind 6"
//   sym="3 x (ttl:u32, rdata:[u8;2])" cbmc="--max-field-sensitivity-array-size 1024" kani="--no-assertion-reach-checks"
#[kani::proof]
#[kani::unwind(6)]
fn c20_rrsetlist_txt_a_txt() {
    let (rej, dup, reference) = history3(0, 1, 0);
    kani::cover!(rej[2], "third add rejected for its TTL (the state is observed right after a rejected add)");
    kani::cover!(dup[2], "a duplicate RDATA was silently ignored");
    kani::cover!(reference.sets[0].n == 2 && reference.sets[1].n == 1, "TXT RRset with two RDATA, A RRset inserted in front of it");
}

// @harness props=C20 tier=thorough mem=2 t=900 fn="RrsetList::add,RrsetList::lookup,RrsetList::iter,RdataSetOwned::insert,RdataSet::iter"
//   bound="history of 3 adds with types A, A, TXT; TTLs and RDATA symbolic; unwind 6"
//   sym="3 x (ttl:u32, rdata:[u8;2])" cbmc="--max-field-sensitivity-array-size 1024" kani="--no-assertion-reach-checks"
#[kani::proof]
#[kani::unwind(6)]
fn c20_rrsetlist_a_a_txt() {
    let (rej, dup, reference) = history3(1, 1, 0);
    kani::cover!(rej[1] && !rej[2], "second add rejected, third (new RRset) accepted");
    kani::cover!(dup[1], "a duplicate RDATA was silently ignored");
    kani::cover!(reference.sets[1].n == 2 && reference.sets[0].present, "A RRset with two RDATA and a TXT RRset");
    kani::cover!(reference.sets[1].ttl == 0 && reference.sets[1].n == 2, "two records whose TTLs agree after RFC 2181 normalisation");
}

// @harness props=C20 tier=thorough mem=2 t=900 fn="RrsetList::add,RrsetList::lookup,RrsetList::iter,RdataSetOwned::insert,RdataSet::iter"
//   bound="history of 3 adds with types AAAA, TXT, A (three RRsets, each new one sorts before the previous); TTLs and RDATA symbolic; unwind 6"
//   sym="3 x (ttl:u32, rdata:[u8;2])" cbmc="--max-field-sensitivity-array-size 1024" kani="--no-assertion-reach-checks"
#[kani::proof]
#[kani::unwind(6)]
fn c20_rrsetlist_aaaa_txt_a() {
    let (rej, _dup, reference) = history3(2, 0, 1);
    assert!(!rej[0] && !rej[1] && !rej[2], "[C20] the first record of an RRset is accepted with any TTL");
    kani::cover!(reference.sets[0].present && reference.sets[1].present && reference.sets[2].present, "three RRsets created in non-sorted type order");
}
