// @host src/zone_file/record.rs
//
// C23 / C24 on the private helpers of record.rs (type, TTL/class and RFC 3597
// RDATA parsing), driven on tiny inputs through the small-buffer parser of
// the zone_file family (hosted at reader.rs; both families carry C23 and C24
// harnesses, so they are always attached together).

use super::*;

/// Stub S6: error-message formatting is not the subject.
fn empty_format(_: core::fmt::Arguments) -> String {
    String::new()
}

fn ref_nibble(b: u8) -> Option<u8> {
    if b >= b'0' && b <= b'9' {
        Some(b - b'0')
    } else if b >= b'a' && b <= b'f' {
        Some(b - b'a' + 10)
    } else if b >= b'A' && b <= b'F' {
        Some(b - b'A' + 10)
    } else {
        None
    }
}

fn ref_ends_field(b: u8) -> bool {
    b == b' ' || b == b'\t' || b == b'(' || b == b')' || b == b';' || b == b'\n'
}

// @harness props=C23,C24 tier=quick mem=3 t=900 stubs="S6"
//   fn="Parser::parse_unknown_rdata_hex_digits,Parser::parse_ascii_hex_digit,Reader::read_field_octet"
//   bound="RFC 3597 hex field for a declared length of 2: 4 symbolic octets followed by a newline; Ok iff all four are hex digits (both cases), octets = the nibbles; unwind 7"
//   sym="data:[u8;4]"
#[kani::proof]
#[kani::unwind(7)]
#[kani::stub(alloc::fmt::format, empty_format)]
fn c23_hex_rdata_len2() {
    let h: [u8; 4] = kani::any();
    let line: [u8; 5] = [h[0], h[1], h[2], h[3], b'\n'];
    // the small-buffer parser of the zone_file family (`From<[u8; N]>`)
    let mut p = Parser::<_>::from(line);
    let r = p.parse_unknown_rdata_hex_digits(2);
    let n = [ref_nibble(h[0]), ref_nibble(h[1]), ref_nibble(h[2]), ref_nibble(h[3])];
    match (&r, n) {
        (Ok(rd), [Some(a), Some(b), Some(c), Some(d)]) => {
            let o = rd.octets();
            assert!(o.len() == 2, "[C23] \\# RDATA has the declared length");
            assert!(o[0] == (a << 4 | b) && o[1] == (c << 4 | d), "[C23] \\# RDATA octets are the hex digits given");
        }
        (Ok(_), _) => assert!(false, "[C24] a non-hexadecimal digit is accepted in \\# RDATA"),
        (Err(_), [Some(_), Some(_), Some(_), Some(_)]) => assert!(false, "[C23] valid hex RDATA rejected"),
        (Err(Error::Syntax(det)), _) => {
            // the first offending octet decides the kind of error: the field
            // ends there (separator, parenthesis, comment, LF, or CR LF) or
            // the octet is not a hexadecimal digit
            let k = if n[0].is_none() {
                0
            } else if n[1].is_none() {
                1
            } else if n[2].is_none() {
                2
            } else {
                3
            };
            let crlf = line[k] == b'\r' && line[k + 1] == b'\n';
            if ref_ends_field(line[k]) || crlf {
                assert!(det.kind == ErrorKind::UnexpectedEndOfHexRdata, "[C23] wrong error for short hex RDATA");
            } else {
                assert!(det.kind == ErrorKind::InvalidHexDigit, "[C23] wrong error for a bad hex digit");
            }
        }
        (Err(_), _) => assert!(false, "[C24] I/O error from a source that never fails"),
    }
    kani::cover!(matches!(&r, Ok(rd) if rd.octets()[0] == 0xaF), "mixed-case digits");
    kani::cover!(r.is_err(), "rejected");
    core::mem::forget(r);
    core::mem::forget(p);
}

fn lower(b: u8) -> u8 {
    if b >= b'A' && b <= b'Z' {
        b + 32
    } else {
        b
    }
}

fn ci4(t: &[u8; 4], m: &[u8; 4]) -> bool {
    lower(t[0]) == m[0] && lower(t[1]) == m[1] && lower(t[2]) == m[2] && lower(t[3]) == m[3]
}

// DISABLED, out of reach.  MEASURED: 3734 loop unwindings (140 s of symbolic execution), then CBMC out of memory at 10.5 GB while converting the equation.  c24_type_null covers the NULL mnemonic in every case mix at unwind 12.
// @disabled-harness props=C24 tier=quick mem=6 t=2400 stubs="S6"
//   fn="Parser::parse_type,Reader::read_field,<Type as FromStr>::from_str"
//   bound="type field of 4 symbolic octets (2^32) followed by a newline: whatever is accepted is not NULL/OPT/TSIG; NULL, TSIG (any case) and OPT + field end are rejected with their own error kinds; unwind 22 (20 mnemonics)"
//   sym="token:[u8;4]"
#[kani::proof]
#[kani::unwind(22)]
#[kani::stub(alloc::fmt::format, empty_format)]
fn c24_type_token4() {
    let t: [u8; 4] = kani::any();
    let line: [u8; 5] = [t[0], t[1], t[2], t[3], b'\n'];
    let mut p = Parser::<_>::from(line);
    let r = p.parse_type();
    match &r {
        Ok(ty) => {
            let v = u16::from(*ty);
            assert!(v != 10 && v != 41 && v != 250, "[C24] type NULL, OPT or TSIG accepted in a zone file");
            assert!(!ci4(&t, b"null") && !ci4(&t, b"tsig"), "[C24] mnemonic NULL / TSIG accepted");
        }
        Err(Error::Syntax(det)) => {
            if ci4(&t, b"null") {
                assert!(det.kind == ErrorKind::NullNotAllowed, "[C24] NULL must be rejected as not allowed");
            }
            if ci4(&t, b"tsig") {
                assert!(det.kind == ErrorKind::TsigNotAllowed, "[C24] TSIG must be rejected as not allowed");
            }
            if lower(t[0]) == b'o' && lower(t[1]) == b'p' && lower(t[2]) == b't' && (t[3] == b' ' || t[3] == b'\n') {
                assert!(det.kind == ErrorKind::OptNotAllowed, "[C24] OPT must be rejected as not allowed");
            }
            if ci4(&t, b"aaaa") || ci4(&t, b"type") {
                assert!(ci4(&t, b"type"), "[C23] AAAA rejected as a type");
            }
        }
        Err(_) => assert!(false, "[C24] I/O error from a source that never fails"),
    }
    kani::cover!(matches!(&r, Ok(ty) if *ty == Type::AAAA), "AAAA accepted");
    kani::cover!(matches!(&r, Ok(ty) if *ty == Type::MX), "a shorter mnemonic followed by a separator accepted");
    kani::cover!(matches!(&r, Err(Error::Syntax(det)) if det.kind == ErrorKind::OptNotAllowed), "OPT rejected");
    core::mem::forget(r);
    core::mem::forget(p);
}

// @harness props=C24 tier=quick mem=6 t=1500 stubs="S6"
//   fn="Parser::parse_type,Reader::read_field,<Type as FromStr>::from_str"
//   bound="type field NULL in every mix of upper and lower case (16 spellings) followed by a newline: rejected as NullNotAllowed; unwind 12 (NULL is the 10th mnemonic)"
//   sym="4 case bits"
#[kani::proof]
#[kani::unwind(12)]
#[kani::stub(alloc::fmt::format, empty_format)]
fn c24_type_null() {
    let c: [bool; 4] = kani::any();
    let line: [u8; 5] = [
        if c[0] { b'N' } else { b'n' },
        if c[1] { b'U' } else { b'u' },
        if c[2] { b'L' } else { b'l' },
        if c[3] { b'L' } else { b'l' },
        b'\n',
    ];
    let mut p = Parser::<_>::from(line);
    let r = p.parse_type();
    assert!(
        matches!(&r, Err(Error::Syntax(det)) if det.kind == ErrorKind::NullNotAllowed),
        "[C24] type NULL must be rejected in a zone file"
    );
    kani::cover!(r.is_err() && c[0] && !c[1], "mixed case");
    core::mem::forget(r);
    core::mem::forget(p);
}

// DISABLED, out of reach.  NOT MEASURED to completion: same loop structure as c24_type_token4 (all 20 mnemonics are tried before the TYPEnnn form, unwind 22).  Natively, TYPE10 / TYPE041 / TYPE250 are rejected as NULL / OPT / TSIG (checked with a unit test in a scratch copy).
// @disabled-harness props=C24,C23 tier=thorough mem=8 t=3600 stubs="S6"
//   fn="Parser::parse_type,Reader::read_field,<Type as FromStr>::from_str"
//   bound="RFC 3597 type field TYPE + 3 symbolic decimal digits + newline: accepted with the numeric value unless that value is 10, 41 or 250 (NULL, OPT, TSIG under their generic names); unwind 22"
//   sym="3 digits"
#[kani::proof]
#[kani::unwind(22)]
#[kani::stub(alloc::fmt::format, empty_format)]
fn c24_type_generic3() {
    let d: [u8; 3] = kani::any();
    kani::assume(d[0] >= b'0' && d[0] <= b'9' && d[1] >= b'0' && d[1] <= b'9' && d[2] >= b'0' && d[2] <= b'9');
    let line: [u8; 8] = [b'T', b'Y', b'P', b'E', d[0], d[1], d[2], b'\n'];
    let v = 100 * (d[0] - b'0') as u16 + 10 * (d[1] - b'0') as u16 + (d[2] - b'0') as u16;
    let mut p = Parser::<_>::from(line);
    let r = p.parse_type();
    match &r {
        Ok(ty) => {
            assert!(u16::from(*ty) == v, "[C23] TYPEnnn denotes type nnn");
            assert!(v != 10 && v != 41 && v != 250, "[C24] TYPE10 / TYPE41 / TYPE250 accepted in a zone file");
        }
        Err(_) => assert!(v == 10 || v == 41 || v == 250, "[C23] a generic type name is rejected"),
    }
    kani::cover!(matches!(&r, Ok(ty) if u16::from(*ty) == 999), "TYPE999");
    kani::cover!(r.is_err() && v == 41, "TYPE041 rejected");
    core::mem::forget(r);
    core::mem::forget(p);
}

// --------------------------------------------------------------------------
// C24 (i): totality on every input of N octets
// --------------------------------------------------------------------------

use super::super::{Line, LineContent, ParsedRr};

/// What the property says about one yielded record.
fn check_valid(rr: &ParsedRr) {
    // absolute owner: the wire form ends with the root label and the label
    // table agrees
    let w = rr.owner.wire_repr();
    assert!(w.len() >= 1 && w[w.len() - 1] == 0, "[C24] yielded owner is not an absolute name");
    let t = u16::from(rr.rr_type);
    assert!(t != 10 && t != 41 && t != 250, "[C24] yielded record has type NULL, OPT or TSIG");
    assert!(
        rr.rdata.validate(rr.class, rr.rr_type).is_ok(),
        "[C24] yielded RDATA does not validate for its class and type"
    );
}

/// Drives the iterator for at most `max_items` items: every record yielded is
/// valid, nothing follows the first error.  Returns (records, includes,
/// errors) seen.
fn drive<S: Read>(p: &mut Parser<S>, max_items: usize) -> (usize, usize, usize) {
    let mut recs = 0;
    let mut incs = 0;
    let mut errs = 0;
    let mut k = 0;
    while k < max_items {
        match p.next() {
            None => break,
            Some(Ok(line)) => {
                assert!(errs == 0, "[C24] the parser yields a line after its first error");
                assert!(line.number >= 1, "[C24] line numbers start at 1");
                match &line.content {
                    LineContent::Record(rr) => {
                        check_valid(rr);
                        recs += 1;
                    }
                    LineContent::Include(_) => incs += 1,
                }
                core::mem::forget(line);
            }
            Some(Err(e)) => {
                assert!(errs == 0, "[C24] the parser yields a second error");
                errs += 1;
                core::mem::forget(e);
            }
        }
        k += 1;
    }
    if errs > 0 {
        let after = p.next();
        assert!(after.is_none(), "[C24] the parser yields something after its first error");
    }
    (recs, incs, errs)
}


/// Stand-in for `Parser::parse_rdata` in the totality harnesses.  A record
/// needs an owner, a class (no previous record to inherit one from), a type
/// and separators - at least 6 octets - before its RDATA is looked at, so for
/// the inputs of at most 3 octets checked here parse_rdata is never reached;
/// the stub ASSERTS that (the solver checks it), which spares CBMC the
/// symbolic execution of every RDATA parser (Ipv4Addr / Ipv6Addr::from_str,
/// SOA, WKS, TXT, ...): with them the 1-octet harness ran out of memory at
/// 10.5 GB (measured).
fn rdata_unreachable<S: Read>(_p: &mut Parser<S>, _class: Class, _rr_type: Type) -> Result<Box<Rdata>> {
    assert!(false, "[C24] harness: parse_rdata reached by an input of at most 3 octets");
    Ok(Rdata::empty().to_owned())
}

fn totality<const N: usize>() {
    let data: [u8; N] = kani::any();
    let mut p = Parser::<_>::from(data);
    let (recs, _incs, errs) = drive(&mut p, 3);
    assert!(recs == 0, "[C24] a record out of at most 3 octets");
    kani::cover!(errs == 1, "some input is rejected");
    kani::cover!(errs == 0, "some input is accepted as empty");
    core::mem::forget(p);
}

// Whole-parser totality measurements (all with unwind 4, N = 1):
//  * real Parser::new (16 KiB buffer): CBMC out of memory at 6.0 GB RSS after
//    25 min of symbolic execution;
//  * 64-octet buffer, every RDATA parser reachable: out of memory at 10.5 GB
//    after 833 loop unwindings;
//  * 64-octet buffer, parse_rdata replaced by an asserted-unreachable stub
//    (the harnesses below): out of memory at 7.6 GB after 479 loop
//    unwindings.
// Reason: every `io::Result<Option<u8>>` the reader hands back loses its
// constants in CBMC, so all of the parser (name builder, integer, class and
// type parsers, directive parsers) is explored on every path and every loop
// runs to the unwind bound although a 1-octet input can reach almost none of
// it.  The harnesses are kept, disabled.

// DISABLED, out of reach.  MEASURED: out of memory at 7.6 GB after 479 loop unwindings (parse_rdata cut off); see the table above.
// @disabled-harness props=C24 tier=quick mem=6 t=3600 stubs="S6,rdata_unreachable"
//   fn="Parser::next,Parser::parse_line,Parser::parse_record_or_empty,Parser::parse_directive,Parser::parse_name,Parser::parse_ttl_and_class,Parser::parse_type,Reader::*"
//   bound="every input of exactly 1 octet (all 256) through the parser with a 64-octet initial buffer, iterated until None or 3 items; parse_rdata asserted unreachable; unwind 4"
//   sym="data:[u8;1]"
#[kani::proof]
#[kani::unwind(4)]
#[kani::stub(alloc::fmt::format, empty_format)]
#[kani::stub(Parser::parse_rdata, rdata_unreachable)]
fn c24_total_len1() {
    totality::<1>();
}

// DISABLED, out of reach.  NOT RUN: the 1-octet instance above is already out of reach.
// @disabled-harness props=C24 tier=thorough mem=8 t=7200 stubs="S6,rdata_unreachable"
//   fn="Parser::next,Parser::parse_line,Parser::parse_record_or_empty,Parser::parse_directive,Parser::parse_name,Parser::parse_ttl_and_class,Parser::parse_type,Reader::*"
//   bound="every input of exactly 2 octets through the parser with a 64-octet initial buffer, iterated until None or 3 items; parse_rdata asserted unreachable; unwind 5"
//   sym="data:[u8;2]"
#[kani::proof]
#[kani::unwind(5)]
#[kani::stub(alloc::fmt::format, empty_format)]
#[kani::stub(Parser::parse_rdata, rdata_unreachable)]
fn c24_total_len2() {
    totality::<2>();
}

// --------------------------------------------------------------------------
// C23: TTL / class fields in either order, omitted, $TTL precedence
// --------------------------------------------------------------------------

fn ttl_class_outcome<S: Read>(p: &mut Parser<S>) -> Option<(u32, u16, usize)> {
    match p.parse_ttl_and_class() {
        Ok((ttl, class)) => Some((u32::from(ttl), u16::from(class), p.reader.position().column)),
        Err(e) => {
            core::mem::forget(e);
            None
        }
    }
}

// DISABLED, out of reach.  MEASURED: 2092 loop unwindings (~40 min of symbolic execution under load), then CBMC out of memory at 10.1 GB.
// @disabled-harness props=C23 tier=quick mem=6 t=2400 stubs="S6"
//   fn="Parser::parse_ttl_and_class,Parser::parse_ttl,Parser::parse_class,Reader::read_field,Reader::skip_to_next_field,<Class as FromStr>::from_str"
//   bound="fields 'D IN A' and 'IN D A' (D one symbolic decimal digit, LF at the end), empty context: TTL D, class IN, exactly the two fields consumed (column 5); unwind 8"
//   sym="one digit"
#[kani::proof]
#[kani::unwind(8)]
#[kani::stub(alloc::fmt::format, empty_format)]
fn c23_ttl_class_both_orders() {
    let d: u8 = kani::any();
    kani::assume(d >= b'0' && d <= b'9');
    let mut p1 = Parser::<_>::from([d, b' ', b'I', b'N', b' ', b'A', b'\n']);
    let r1 = ttl_class_outcome(&mut p1);
    assert!(r1 == Some(((d - b'0') as u32, 1, 5)), "[C23] 'TTL CLASS TYPE' must give that TTL and class and consume exactly the two fields");
    let mut p2 = Parser::<_>::from([b'I', b'N', b'\t', d, b' ', b'A', b'\n']);
    let r2 = ttl_class_outcome(&mut p2);
    assert!(r2 == Some(((d - b'0') as u32, 1, 5)), "[C23] 'CLASS TTL TYPE' must give that TTL and class and consume exactly the two fields");
    kani::cover!(r1 == Some((9, 1, 5)), "TTL 9");
    core::mem::forget((p1, p2));
}

// DISABLED, out of reach.  MEASURED: 1931 loop unwindings, then CBMC out of memory at 8.9 GB.
// @disabled-harness props=C23 tier=quick mem=6 t=2400 stubs="S6"
//   fn="Parser::parse_ttl_and_class,Parser::default_or_previous_ttl"
//   bound="omitted fields: 'CH A' with $TTL default T1 and previous TTL T2 (both symbolic u32) -> TTL T1, class CH; 'A' with no $TTL, previous TTL T2 and previous class HS -> T2, HS; 'A' with an empty context -> error; unwind 8"
//   sym="two u32 TTLs"
#[kani::proof]
#[kani::unwind(8)]
#[kani::stub(alloc::fmt::format, empty_format)]
fn c23_ttl_class_omitted() {
    let t1: u32 = kani::any();
    let t2: u32 = kani::any();
    let mut p1 = Parser::<_>::from([b'C', b'H', b' ', b'A', b'\n']);
    p1.context.default_ttl = Some(Ttl::from(t1));
    p1.context.previous_ttl = Some(Ttl::from(t2));
    p1.context.previous_class = Some(Class::IN);
    let r1 = ttl_class_outcome(&mut p1);
    // Ttl::from clamps values above 2^31 - 1 to 0 (RFC 2181 section 8); what
    // matters here is WHICH of the two TTLs is used
    assert!(
        r1 == Some((u32::from(Ttl::from(t1)), 3, 4)),
        "[C23] an omitted TTL takes the $TTL default, not the previous record's TTL; an explicit class wins"
    );
    let mut p2 = Parser::<_>::from([b'A', b'\n']);
    p2.context.previous_ttl = Some(Ttl::from(t2));
    p2.context.previous_class = Some(Class::HS);
    let r2 = ttl_class_outcome(&mut p2);
    assert!(
        r2 == Some((u32::from(Ttl::from(t2)), 4, 1)),
        "[C23] omitted TTL and class are the previous record's"
    );
    let mut p3 = Parser::<_>::from([b'A', b'\n']);
    let r3 = ttl_class_outcome(&mut p3);
    assert!(r3.is_none(), "[C23] a first record without TTL and class cannot be accepted");
    kani::cover!(t1 != t2 && r1.is_some() && r2.is_some(), "two different TTLs");
    core::mem::forget((p1, p2, p3));
}

// Tried after seeded change C24-1 (generic-form RDATA of single-name types
// validated with validate_uncompressed instead of validate_uncompressed_all) and
// dropped: a harness calling Parser::parse_name_rdata on ` \# 3 hhhhhh` + LF with
// six symbolic hex-digit octets (check_backslash_hash + RDATA length field + hex
// digits + validation) timed out after 1500 s at 14.4 GB - the same wall as every
// other attempt above helper level in this parser.  C24-1 stays undetected.
