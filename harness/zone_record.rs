// @host src/zone_file/record.rs
//
// C23 / C24 on the private helpers of record.rs (type, TTL/class and RFC 3597
// RDATA parsing), driven on tiny inputs through the small-buffer parser of
// the zone_file family (hosted at reader.rs; both families carry C23 and C24
// harnesses, so they are always attached together).

use super::*;

/// Stub S6: error-message formatting is not the subject.
fn empty_format(_: core::fmt::Arguments) -> String {
    String::new()
}

fn ref_nibble(b: u8) -> Option<u8> {
    if b >= b'0' && b <= b'9' {
        Some(b - b'0')
    } else if b >= b'a' && b <= b'f' {
        Some(b - b'a' + 10)
    } else if b >= b'A' && b <= b'F' {
        Some(b - b'A' + 10)
    } else {
        None
    }
}

fn ref_ends_field(b: u8) -> bool {
    b == b' ' || b == b'\t' || b == b'(' || b == b')' || b == b';' || b == b'\n'
}

// @harness props=C23,C24 tier=quick mem=6 t=2400 stubs="S6"
//   fn="Parser::parse_unknown_rdata_hex_digits,Parser::parse_ascii_hex_digit,Reader::read_field_octet"
//   bound="RFC 3597 hex field for a declared length of 2: 4 symbolic octets followed by a newline; Ok iff all four are hex digits (both cases), octets = the nibbles; unwind 7"
//   sym="data:[u8;4]"
#[kani::proof]
#[kani::unwind(7)]
#[kani::stub(alloc::fmt::format, empty_format)]
fn c23_hex_rdata_len2() {
    let h: [u8; 4] = kani::any();
    // "\r\n" also ends a field; keep '\r' out so that the reference need not
    // look ahead (the fifth octet is '\n': h[3] == '\r' would end the field)
    kani::assume(h[3] != b'\r');
    let line: [u8; 5] = [h[0], h[1], h[2], h[3], b'\n'];
    // the small-buffer parser of the zone_file family (`From<[u8; N]>`)
    let mut p = Parser::<_>::from(line);
    let r = p.parse_unknown_rdata_hex_digits(2);
    let n = [ref_nibble(h[0]), ref_nibble(h[1]), ref_nibble(h[2]), ref_nibble(h[3])];
    match (&r, n) {
        (Ok(rd), [Some(a), Some(b), Some(c), Some(d)]) => {
            let o = rd.octets();
            assert!(o.len() == 2, "[C23] \\# RDATA has the declared length");
            assert!(o[0] == (a << 4 | b) && o[1] == (c << 4 | d), "[C23] \\# RDATA octets are the hex digits given");
        }
        (Ok(_), _) => assert!(false, "[C24] a non-hexadecimal digit is accepted in \\# RDATA"),
        (Err(_), [Some(_), Some(_), Some(_), Some(_)]) => assert!(false, "[C23] valid hex RDATA rejected"),
        (Err(Error::Syntax(det)), _) => {
            // the first offending octet decides the kind of error
            let first_bad = if n[0].is_none() {
                h[0]
            } else if n[1].is_none() {
                h[1]
            } else if n[2].is_none() {
                h[2]
            } else {
                h[3]
            };
            if ref_ends_field(first_bad) {
                assert!(det.kind == ErrorKind::UnexpectedEndOfHexRdata, "[C23] wrong error for short hex RDATA");
            } else {
                assert!(det.kind == ErrorKind::InvalidHexDigit, "[C23] wrong error for a bad hex digit");
            }
        }
        (Err(_), _) => assert!(false, "[C24] I/O error from a source that never fails"),
    }
    kani::cover!(matches!(&r, Ok(rd) if rd.octets()[0] == 0xaF), "mixed-case digits");
    kani::cover!(r.is_err(), "rejected");
    core::mem::forget(r);
    core::mem::forget(p);
}

fn lower(b: u8) -> u8 {
    if b >= b'A' && b <= b'Z' {
        b + 32
    } else {
        b
    }
}

fn ci4(t: &[u8; 4], m: &[u8; 4]) -> bool {
    lower(t[0]) == m[0] && lower(t[1]) == m[1] && lower(t[2]) == m[2] && lower(t[3]) == m[3]
}

// @harness props=C24 tier=quick mem=6 t=2400 stubs="S6"
//   fn="Parser::parse_type,Reader::read_field,<Type as FromStr>::from_str"
//   bound="type field of 4 symbolic octets (2^32) followed by a newline: whatever is accepted is not NULL/OPT/TSIG; NULL, TSIG (any case) and OPT + field end are rejected with their own error kinds; unwind 22 (20 mnemonics)"
//   sym="token:[u8;4]"
#[kani::proof]
#[kani::unwind(22)]
#[kani::stub(alloc::fmt::format, empty_format)]
fn c24_type_token4() {
    let t: [u8; 4] = kani::any();
    let line: [u8; 5] = [t[0], t[1], t[2], t[3], b'\n'];
    let mut p = Parser::<_>::from(line);
    let r = p.parse_type();
    match &r {
        Ok(ty) => {
            let v = u16::from(*ty);
            assert!(v != 10 && v != 41 && v != 250, "[C24] type NULL, OPT or TSIG accepted in a zone file");
            assert!(!ci4(&t, b"null") && !ci4(&t, b"tsig"), "[C24] mnemonic NULL / TSIG accepted");
        }
        Err(Error::Syntax(det)) => {
            if ci4(&t, b"null") {
                assert!(det.kind == ErrorKind::NullNotAllowed, "[C24] NULL must be rejected as not allowed");
            }
            if ci4(&t, b"tsig") {
                assert!(det.kind == ErrorKind::TsigNotAllowed, "[C24] TSIG must be rejected as not allowed");
            }
            if lower(t[0]) == b'o' && lower(t[1]) == b'p' && lower(t[2]) == b't' && (t[3] == b' ' || t[3] == b'\n') {
                assert!(det.kind == ErrorKind::OptNotAllowed, "[C24] OPT must be rejected as not allowed");
            }
            if ci4(&t, b"aaaa") || ci4(&t, b"type") {
                assert!(ci4(&t, b"type"), "[C23] AAAA rejected as a type");
            }
        }
        Err(_) => assert!(false, "[C24] I/O error from a source that never fails"),
    }
    kani::cover!(matches!(&r, Ok(ty) if *ty == Type::AAAA), "AAAA accepted");
    kani::cover!(matches!(&r, Ok(ty) if *ty == Type::MX), "a shorter mnemonic followed by a separator accepted");
    kani::cover!(matches!(&r, Err(Error::Syntax(det)) if det.kind == ErrorKind::OptNotAllowed), "OPT rejected");
    core::mem::forget(r);
    core::mem::forget(p);
}

// @harness props=C24,C23 tier=thorough mem=8 t=3600 stubs="S6"
//   fn="Parser::parse_type,Reader::read_field,<Type as FromStr>::from_str"
//   bound="RFC 3597 type field TYPE + 3 symbolic decimal digits + newline: accepted with the numeric value unless that value is 10, 41 or 250 (NULL, OPT, TSIG under their generic names); unwind 22"
//   sym="3 digits"
#[kani::proof]
#[kani::unwind(22)]
#[kani::stub(alloc::fmt::format, empty_format)]
fn c24_type_generic3() {
    let d: [u8; 3] = kani::any();
    kani::assume(d[0] >= b'0' && d[0] <= b'9' && d[1] >= b'0' && d[1] <= b'9' && d[2] >= b'0' && d[2] <= b'9');
    let line: [u8; 8] = [b'T', b'Y', b'P', b'E', d[0], d[1], d[2], b'\n'];
    let v = 100 * (d[0] - b'0') as u16 + 10 * (d[1] - b'0') as u16 + (d[2] - b'0') as u16;
    let mut p = Parser::<_>::from(line);
    let r = p.parse_type();
    match &r {
        Ok(ty) => {
            assert!(u16::from(*ty) == v, "[C23] TYPEnnn denotes type nnn");
            assert!(v != 10 && v != 41 && v != 250, "[C24] TYPE10 / TYPE41 / TYPE250 accepted in a zone file");
        }
        Err(_) => assert!(v == 10 || v == 41 || v == 250, "[C23] a generic type name is rejected"),
    }
    kani::cover!(matches!(&r, Ok(ty) if u16::from(*ty) == 999), "TYPE999");
    kani::cover!(r.is_err() && v == 41, "TYPE041 rejected");
    core::mem::forget(r);
    core::mem::forget(p);
}
