// @host src/name/builder.rs
//
// C16 (d): the NameBuilder length boundaries (63-octet label, 255-octet name,
// 128 labels) by ONE-STEP INDUCTION over the builder's representation.
//
// Each harness starts from an ARBITRARY builder state that satisfies the
// representation invariant INV below (lengths fully symbolic: wire length
// 1..=255, 1..=128 labels, current label 0..=63 octets; all buffer contents
// symbolic), performs one operation and asserts
//   * the operation succeeds exactly when the result stays within the limits,
//   * on error the state is unchanged,
//   * on success the state is the expected one and INV holds again.
// `NameBuilder::new()` is shown to satisfy INV.  Since every reachable state
// is produced from new() by these operations, INV holds in all reachable
// states, and the acceptance conditions proved from INV hold at every step -
// including the 63/64, 255/256 and 127/128-label boundaries, which no bounded
// unrolling from new() could reach.
//
// INV has a "shape" part over lengths and indices and a per-label part that is
// universally quantified over the finished labels.  The quantifier is handled
// with one symbolic label index k: P(k) is assumed before and P(k) asserted
// after, for arbitrary k; P_after(k) only needs P_before(k) and the shape part.
// A counterexample that starts in an unreachable state would mean INV is too
// weak, not that quandary is wrong (none occurs).

use super::*;
use crate::kani_common::try_extend_model;

/// The raw parts of a builder state; `Copy`, so the state before an operation
/// stays available without cloning the builder.
#[derive(Clone, Copy)]
struct Raw {
    wire: [u8; MAX_WIRE_LEN],
    w: usize,
    offs: [u8; MAX_N_LABELS],
    n: usize,
    label_start: usize,
    label_len: u8,
}

/// Shape part of the representation invariant.
fn inv_shape(b: &NameBuilder) -> bool {
    let w = b.wire_repr.len();
    let n = b.label_offsets.len();
    w >= 1
        && w <= MAX_WIRE_LEN
        && n >= 1
        && n <= MAX_N_LABELS
        && b.label_len as usize <= MAX_LABEL_LEN
        && b.label_start < w
        && b.label_start + 1 + b.label_len as usize == w
        && b.label_offsets[n - 1] as usize == b.label_start
        && b.label_offsets[0] == 0
        // every finished label occupies at least two octets
        && b.label_start >= 2 * (n - 1)
        // the length octet of the label under construction is still zero
        && b.wire_repr[b.label_start] == 0
}

/// Per-label part: finished label k (k + 1 < number of labels) is a well
/// formed wire label that ends where label k + 1 starts, at or before the
/// label under construction.
fn inv_label(b: &NameBuilder, k: usize) -> bool {
    let n = b.label_offsets.len();
    if k >= MAX_N_LABELS || k + 1 >= n {
        return true;
    }
    let o = b.label_offsets[k] as usize;
    let next = b.label_offsets[k + 1] as usize;
    if o >= b.label_start || next > b.label_start {
        return false;
    }
    let l = b.wire_repr[o] as usize;
    l >= 1 && l <= MAX_LABEL_LEN && next == o + 1 + l
}

/// An arbitrary builder state: all lengths and contents symbolic.
fn any_raw() -> Raw {
    let r = Raw {
        wire: kani::any(),
        w: kani::any(),
        offs: kani::any(),
        n: kani::any(),
        label_start: kani::any(),
        label_len: kani::any(),
    };
    kani::assume(r.w >= 1 && r.w <= MAX_WIRE_LEN);
    kani::assume(r.n >= 1 && r.n <= MAX_N_LABELS);
    r
}

fn build(r: &Raw) -> NameBuilder {
    let mut wire_repr = ArrayVec::from(r.wire);
    let mut label_offsets = ArrayVec::from(r.offs);
    unsafe {
        // u8 elements: nothing to drop, every prefix of the array is initialised
        wire_repr.set_len(r.w);
        label_offsets.set_len(r.n);
    }
    NameBuilder {
        wire_repr,
        label_offsets,
        label_start: r.label_start,
        label_len: r.label_len,
    }
}

/// (state before the operation, builder in that state), INV assumed with the
/// per-label part instantiated at k.
fn any_valid_builder(k: usize) -> (Raw, NameBuilder) {
    let r = any_raw();
    let b = build(&r);
    kani::assume(inv_shape(&b));
    kani::assume(inv_label(&b, k));
    (r, b)
}

/// Everything observable about the state is the same as in `old`, looked at
/// through one symbolic wire index and one symbolic label index.
fn unchanged(b: &NameBuilder, old: &Raw, i: usize, j: usize) -> bool {
    b.wire_repr.len() == old.w
        && b.label_offsets.len() == old.n
        && b.label_start == old.label_start
        && b.label_len == old.label_len
        && (i >= old.w || b.wire_repr[i] == old.wire[i])
        && (j >= old.n || b.label_offsets[j] == old.offs[j])
}

// @harness props=C16 tier=quick mem=2 t=600 fn="NameBuilder::new,NameBuilder::is_fully_qualified,NameBuilder::finish"
//   bound="the initial state (concrete); base case of the induction" sym="k:usize"
#[kani::proof]
#[kani::unwind(4)]
fn c16_builder_new_satisfies_inv() {
    let b = NameBuilder::new();
    let k: usize = kani::any();
    assert!(inv_shape(&b), "[C16] NameBuilder::new() satisfies the representation invariant");
    assert!(inv_label(&b, k), "[C16] NameBuilder::new() satisfies the per-label invariant");
    assert!(b.is_fully_qualified(), "[C16] a new builder holds the root name");
    match b.finish() {
        Ok(name) => {
            assert!(name.wire_repr().len() == 1 && name.wire_repr()[0] == 0, "[C16] a new builder finishes as the root name");
            assert!(name.len() == 1, "[C16] the root name has one label");
            kani::cover!(true, "root built");
        }
        Err(_) => assert!(false, "[C16] a new builder finishes as the root name"),
    }
}

// @harness props=C16 tier=quick mem=3 t=1200 fn="NameBuilder::try_push"
//   bound="one try_push from every state satisfying INV: wire length 1..=255, 1..=128 labels, current label 0..=63 octets, all contents symbolic; no loops"
//   sym="wire:[u8;255], offs:[u8;128], w, n, label_start, label_len, octet, k, i, j"
#[kani::proof]
#[kani::unwind(2)]
fn c16_builder_step_try_push() {
    let k: usize = kani::any();
    let i: usize = kani::any();
    let j: usize = kani::any();
    let (old, mut b) = any_valid_builder(k);
    let octet: u8 = kani::any();
    let r = b.try_push(octet);
    let w = old.w;
    let fits = (old.label_len as usize) + 1 <= 63 && w + 1 <= 255;
    assert!(r.is_ok() == fits, "[C16] try_push succeeds exactly when label <= 63 and name <= 255 octets afterwards");
    if r.is_ok() {
        assert!(b.wire_repr.len() == w + 1, "[C16] try_push appends one octet");
        assert!(b.wire_repr[w] == octet, "[C16] try_push appends the given octet");
        assert!(i >= w || b.wire_repr[i] == old.wire[i], "[C16] try_push keeps the earlier octets");
        assert!(b.label_len == old.label_len + 1, "[C16] try_push extends the current label by one");
        assert!(b.label_start == old.label_start, "[C16] try_push stays in the current label");
        assert!(b.label_offsets.len() == old.n, "[C16] try_push adds no label");
        assert!(
            j >= old.n || b.label_offsets[j] == old.offs[j],
            "[C16] try_push keeps the label offsets"
        );
        assert!(!b.is_fully_qualified(), "[C16] a name whose last label is not empty is not fully qualified");
    } else {
        assert!(unchanged(&b, &old, i, j), "[C16] a failed try_push leaves the builder unchanged");
    }
    assert!(inv_shape(&b), "[C16] try_push preserves the representation invariant");
    assert!(inv_label(&b, k), "[C16] try_push preserves the per-label invariant");
    kani::cover!(r.is_ok() && old.label_len == 62, "63rd octet of a label accepted");
    kani::cover!(r.is_err() && old.label_len == 63 && w < 200, "64th octet of a label rejected");
    kani::cover!(r.is_ok() && w == 254, "255th octet of the name accepted");
    kani::cover!(r.is_err() && w == 255 && old.label_len < 63, "256th octet of the name rejected");
    kani::cover!(r.is_err() && w == 255 && old.n == 128, "push into the 128th label rejected");
}

// @harness props=C16 tier=quick mem=3 t=1200 fn="NameBuilder::next_label,NameBuilder::update_label_len"
//   bound="one next_label from every state satisfying INV: wire length 1..=255, 1..=128 labels, current label 0..=63 octets, all contents symbolic; no loops"
//   sym="wire:[u8;255], offs:[u8;128], w, n, label_start, label_len, k, i, j"
#[kani::proof]
#[kani::unwind(2)]
fn c16_builder_step_next_label() {
    let k: usize = kani::any();
    let i: usize = kani::any();
    let j: usize = kani::any();
    let (old, mut b) = any_valid_builder(k);
    let r = b.next_label();
    let w = old.w;
    let n = old.n;
    // the finished label must not be empty and its successor's length octet must fit
    let fits = old.label_len >= 1 && w + 1 <= 255;
    assert!(r.is_ok() == fits, "[C16] next_label succeeds exactly after a non-empty label when one more octet fits");
    if r.is_ok() {
        assert!(n <= 127, "[C16] a name within 255 octets has at most 128 labels");
        assert!(b.wire_repr.len() == w + 1, "[C16] next_label appends the new label's length octet");
        assert!(b.wire_repr[w] == 0, "[C16] the new label starts empty");
        assert!(
            b.wire_repr[old.label_start] == old.label_len,
            "[C16] next_label writes the finished label's length octet"
        );
        assert!(
            i >= w || i == old.label_start || b.wire_repr[i] == old.wire[i],
            "[C16] next_label keeps the other octets"
        );
        assert!(b.label_start == w && b.label_len == 0, "[C16] next_label starts the new label at the end");
        assert!(b.label_offsets.len() == n + 1, "[C16] next_label adds one label");
        assert!(b.label_offsets[n] as usize == w, "[C16] next_label records the new label's offset");
        assert!(j >= n || b.label_offsets[j] == old.offs[j], "[C16] next_label keeps the earlier label offsets");
        assert!(b.is_fully_qualified(), "[C16] a name whose last label is empty is fully qualified");
        // the label just finished becomes a finished label
        assert!(inv_label(&b, n - 1), "[C16] the finished label is well formed");
    } else {
        assert!(unchanged(&b, &old, i, j), "[C16] a failed next_label leaves the builder unchanged");
    }
    assert!(inv_shape(&b), "[C16] next_label preserves the representation invariant");
    assert!(inv_label(&b, k), "[C16] next_label preserves the per-label invariant");
    kani::cover!(r.is_ok() && w == 254 && n == 127, "128th label (the root of a 255-octet name of 127 one-octet labels) started");
    kani::cover!(r.is_ok() && old.label_len == 63, "63-octet label finished");
    kani::cover!(r.is_err() && old.label_len == 0 && w < 255, "empty interior label rejected");
    kani::cover!(r.is_err() && w == 255 && old.label_len > 0, "label that would end at octet 256 rejected");
}

/// One try_push_slice of `data[..len]` from an arbitrary valid state; the full
/// contract.  `len` may be symbolic (bounded by the caller's assumptions).
fn step_try_push_slice(data: &[u8; 64], len: usize) {
    let k: usize = kani::any();
    let i: usize = kani::any();
    let j: usize = kani::any();
    let (old, mut b) = any_valid_builder(k);
    let r = b.try_push_slice(&data[..len]);
    let w = old.w;
    let fits = (old.label_len as usize) + len <= 63 && w + len <= 255;
    assert!(r.is_ok() == fits, "[C16] try_push_slice succeeds exactly when label <= 63 and name <= 255 octets afterwards");
    if r.is_ok() {
        assert!(b.wire_repr.len() == w + len, "[C16] try_push_slice appends all octets");
        let p: usize = kani::any();
        if p < len {
            assert!(b.wire_repr[w + p] == data[p], "[C16] try_push_slice appends the given octets in order");
        }
        assert!(i >= w || b.wire_repr[i] == old.wire[i], "[C16] try_push_slice keeps the earlier octets");
        assert!(b.label_len as usize == old.label_len as usize + len, "[C16] try_push_slice extends the current label");
        assert!(b.label_start == old.label_start, "[C16] try_push_slice stays in the current label");
        assert!(b.label_offsets.len() == old.n, "[C16] try_push_slice adds no label");
        assert!(
            j >= old.n || b.label_offsets[j] == old.offs[j],
            "[C16] try_push_slice keeps the label offsets"
        );
    } else {
        assert!(unchanged(&b, &old, i, j), "[C16] a failed try_push_slice leaves the builder unchanged");
    }
    assert!(inv_shape(&b), "[C16] try_push_slice preserves the representation invariant");
    assert!(inv_label(&b, k), "[C16] try_push_slice preserves the per-label invariant");
    kani::cover!(r.is_ok() && len == 3 && old.label_len == 60, "slice ending at octet 63 of the label accepted");
    kani::cover!(r.is_err() && len == 3 && old.label_len == 61 && w < 100, "slice ending at octet 64 of the label rejected");
    kani::cover!(r.is_ok() && w + len == 255 && len == 2, "slice ending at octet 255 of the name accepted");
    kani::cover!(r.is_err() && w + len == 256 && len == 2 && old.label_len < 10, "slice ending at octet 256 of the name rejected");
    kani::cover!(r.is_ok() && len == 0, "empty slice accepted");
}

// @harness props=C16 tier=thorough mem=3 t=1500 fn="NameBuilder::try_push_slice"
//   bound="one try_push_slice of every slice of 0..=3 octets (symbolic length and contents) from every state satisfying INV; unwind 5"
//   sym="wire:[u8;255], offs:[u8;128], w, n, label_start, label_len, data:[u8;64], len<=3, k, i, j, p"
//   stubs="S7"
#[kani::proof]
#[kani::unwind(5)]
#[kani::stub(arrayvec::ArrayVec::try_extend_from_slice, try_extend_model)]
fn c16_builder_step_try_push_slice_small() {
    let data: [u8; 64] = kani::any();
    let len: usize = kani::any();
    kani::assume(len <= 3);
    step_try_push_slice(&data, len);
}

// @harness props=C16 tier=thorough mem=3 t=1200 fn="NameBuilder::try_push_slice"
//   bound="every slice of 0..=64 octets (symbolic length) from every state satisfying INV in which the slice must be REJECTED (label > 63 or name > 255 afterwards): rejected and state unchanged; unwind 66"
//   sym="wire:[u8;255], offs:[u8;128], w, n, label_start, label_len, data:[u8;64], len<=64, k, i, j"
//   stubs="S7"
#[kani::proof]
#[kani::unwind(66)]
#[kani::stub(arrayvec::ArrayVec::try_extend_from_slice, try_extend_model)]
fn c16_builder_step_try_push_slice_too_long() {
    let k: usize = kani::any();
    let i: usize = kani::any();
    let j: usize = kani::any();
    let (old, mut b) = any_valid_builder(k);
    let data: [u8; 64] = kani::any();
    let len: usize = kani::any();
    kani::assume(len <= 64);
    kani::assume((old.label_len as usize) + len > 63 || old.w + len > 255);
    let r = b.try_push_slice(&data[..len]);
    assert!(r.is_err(), "[C16] try_push_slice rejects a slice that makes the label > 63 or the name > 255 octets");
    assert!(unchanged(&b, &old, i, j), "[C16] a failed try_push_slice leaves the builder unchanged");
    kani::cover!(old.label_len == 0 && len == 64 && old.w < 100, "a 64-octet label rejected");
    kani::cover!(old.label_len == 1 && len == 63 && old.w < 100, "63 more octets after one rejected");
    kani::cover!(old.w + len == 256 && old.label_len as usize + len <= 63 && len == 40, "slice ending at octet 256 rejected");
}

// @harness props=C16 tier=thorough mem=6 t=3400 fn="NameBuilder::try_push_slice"
//   bound="one try_push_slice of a slice of exactly 63 octets (symbolic contents) from every state satisfying INV; unwind 66"
//   sym="wire:[u8;255], offs:[u8;128], w, n, label_start, label_len, data:[u8;64], k, i, j, p"
//   stubs="S7"
#[kani::proof]
#[kani::unwind(66)]
#[kani::stub(arrayvec::ArrayVec::try_extend_from_slice, try_extend_model)]
fn c16_builder_step_try_push_slice_63() {
    let data: [u8; 64] = kani::any();
    step_try_push_slice_63(&data);
}

fn step_try_push_slice_63(data: &[u8; 64]) {
    let k: usize = kani::any();
    let i: usize = kani::any();
    let j: usize = kani::any();
    let (old, mut b) = any_valid_builder(k);
    let r = b.try_push_slice(&data[..63]);
    let fits = old.label_len == 0 && old.w + 63 <= 255;
    assert!(r.is_ok() == fits, "[C16] a 63-octet slice is accepted exactly into an empty label when the name stays <= 255 octets");
    if r.is_ok() {
        assert!(b.wire_repr.len() == old.w + 63, "[C16] try_push_slice appends all octets");
        let p: usize = kani::any();
        if p < 63 {
            assert!(b.wire_repr[old.w + p] == data[p], "[C16] try_push_slice appends the given octets in order");
        }
        assert!(i >= old.w || b.wire_repr[i] == old.wire[i], "[C16] try_push_slice keeps the earlier octets");
        assert!(b.label_len == 63 && b.label_start == old.label_start, "[C16] try_push_slice extends the current label");
        assert!(b.label_offsets.len() == old.n, "[C16] try_push_slice adds no label");
        kani::cover!(old.w == 192, "63-octet label ending at octet 255 accepted");
        kani::cover!(old.w == 1, "63-octet first label accepted");
    } else {
        assert!(unchanged(&b, &old, i, j), "[C16] a failed try_push_slice leaves the builder unchanged");
        kani::cover!(old.label_len == 0 && old.w == 193, "63-octet label ending at octet 256 rejected");
    }
    assert!(inv_shape(&b), "[C16] try_push_slice preserves the representation invariant");
    assert!(inv_label(&b, k), "[C16] try_push_slice preserves the per-label invariant");
}

// @harness props=C16 tier=quick mem=3 t=900 fn="NameBuilder::finish,new_boxed_name,Name::initialize_into"
//   bound="finish from every state satisfying INV: wire length 1..=255, 1..=128 labels, all contents symbolic (the boxed name has a symbolic size); no loops"
//   sym="wire:[u8;255], offs:[u8;128], w, n, label_start, label_len, k, i, j"
#[kani::proof]
#[kani::unwind(2)]
fn c16_builder_finish() {
    let k: usize = kani::any();
    let i: usize = kani::any();
    let j: usize = kani::any();
    let (old, b) = any_valid_builder(k);
    let r = b.finish();
    assert!(r.is_ok() == (old.label_len == 0), "[C16] finish succeeds exactly when the last label is the root label");
    if let Ok(name) = r {
        let wire = name.wire_repr();
        assert!(wire.len() == old.w, "[C16] finish yields a name of the built length");
        assert!(wire.len() <= 255, "[C16] a finished name has at most 255 octets");
        assert!(wire[old.w - 1] == 0, "[C16] a finished name ends with the root label");
        assert!(i >= old.w || wire[i] == old.wire[i], "[C16] finish yields the built octets");
        assert!(name.len() == old.n, "[C16] finish yields the built number of labels");
        assert!(name.len() <= 128, "[C16] a finished name has at most 128 labels");
        assert!(
            j >= old.n || name.label_offsets()[j] == old.offs[j],
            "[C16] finish yields the built label offsets"
        );
        if k < MAX_N_LABELS && k + 1 < old.n {
            // finished label k, through the public accessors
            let l = name[k].octets().len();
            assert!(l >= 1 && l <= 63, "[C16] every non-root label of a finished name has 1..=63 octets");
            assert!(
                name.wire_repr_from(k + 1).len() + 1 + l == name.wire_repr_from(k).len(),
                "[C16] label k+1 of a finished name starts right after label k"
            );
        }
        kani::cover!(old.w == 255 && old.n == 128, "255-octet name of 128 labels finished");
        kani::cover!(old.w == 255 && old.n == 5, "255-octet name of 4 long labels finished");
        kani::cover!(old.w == 1, "root finished");
        std::mem::forget(name);
    } else {
        kani::cover!(old.label_len == 63, "relative name rejected");
    }
}

fn suffix_case(sw: &[u8], sn: usize) {
    let k: usize = kani::any();
    let i: usize = kani::any();
    let j: usize = kani::any();
    let (old, b) = any_valid_builder(k);
    let suffix = match Name::try_from_uncompressed_all(sw) {
        Ok(s) => s,
        Err(_) => {
            assert!(false, "harness built an invalid suffix");
            return;
        }
    };
    let r = b.finish_with_suffix(&suffix);
    let fits = old.label_len >= 1 && old.w + sw.len() <= 255;
    assert!(
        r.is_ok() == fits,
        "[C16] finish_with_suffix succeeds exactly after a non-empty label when the whole name has <= 255 octets"
    );
    if let Ok(name) = r {
        let wire = name.wire_repr();
        assert!(wire.len() == old.w + sw.len(), "[C16] finish_with_suffix appends the suffix");
        assert!(
            wire[old.label_start] == old.label_len,
            "[C16] finish_with_suffix writes the last label's length octet"
        );
        assert!(
            i >= old.w || i == old.label_start || wire[i] == old.wire[i],
            "[C16] finish_with_suffix keeps the built octets"
        );
        let mut p = 0;
        while p < sw.len() {
            assert!(wire[old.w + p] == sw[p], "[C16] finish_with_suffix appends the suffix octets in order");
            p += 1;
        }
        assert!(name.len() == old.n + sn, "[C16] finish_with_suffix appends the suffix labels");
        assert!(name.len() <= 128, "[C16] a finished name has at most 128 labels");
        assert!(
            j >= old.n || name.label_offsets()[j] == old.offs[j],
            "[C16] finish_with_suffix keeps the built label offsets"
        );
        let mut q = 0;
        while q < sn {
            assert!(
                name.label_offsets()[old.n + q] as usize == old.w + suffix.label_offsets()[q] as usize,
                "[C16] finish_with_suffix shifts the suffix label offsets"
            );
            q += 1;
        }
        kani::cover!(old.w + sw.len() == 255, "255-octet name finished with a suffix");
        kani::cover!(old.n + sn == 128, "128-label name finished with a suffix");
        std::mem::forget(name);
    } else {
        kani::cover!(old.label_len >= 1 && old.w + sw.len() == 256, "256-octet name rejected");
        kani::cover!(old.label_len == 0, "suffix after an empty label rejected");
    }
    std::mem::forget(suffix);
}

// @harness props=C16 tier=thorough mem=6 t=3400 fn="NameBuilder::finish_with_suffix,NameBuilder::update_label_len,new_boxed_name,Name::labels"
//   bound="finish_with_suffix from every state satisfying INV, suffix one of: root, (1), (3), (1,1) octet labels with symbolic octets; unwind 8"
//   sym="wire:[u8;255], offs:[u8;128], w, n, label_start, label_len, shape<4, x:[u8;3], k, i, j"
//   stubs="S7"
#[kani::proof]
#[kani::unwind(8)]
#[kani::stub(arrayvec::ArrayVec::try_extend_from_slice, try_extend_model)]
fn c16_builder_finish_with_suffix() {
    let x: [u8; 3] = kani::any();
    let s: u8 = kani::any();
    kani::assume(s < 4);
    match s {
        0 => suffix_case(&[0], 1),
        1 => suffix_case(&[1, x[0], 0], 2),
        2 => suffix_case(&[3, x[0], x[1], x[2], 0], 2),
        _ => suffix_case(&[1, x[0], 1, x[1], 0], 3),
    }
}
