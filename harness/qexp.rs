// @host src/name/mod.rs
// temporary experiments (agent-c05); will be removed
use super::*;

fn name_view(repr: &[u8]) -> &Name {
    unsafe { &*(core::ptr::slice_from_raw_parts(repr.as_ptr(), repr.len() - 1) as *const Name) }
}
const R_A: [u8; 6] = [2, 0, 2, 1, b'a', 0];
const R_BA: [u8; 9] = [3, 0, 2, 4, 1, b'b', 1, b'a', 0];

// @harness name=c05x_heap_heap props=C05 tier=thorough mem=3 t=600 kani="--no-assertion-reach-checks" cbmc="--max-field-sensitivity-array-size 256"
#[kani::proof]
#[kani::unwind(7)]
fn c05x_heap_heap() {
    let raw = [1u8, b'b', 1, b'a', 0];
    let n = Name::try_from_uncompressed_all(&raw).unwrap();
    let raw2 = [1u8, b'a', 0];
    let m = Name::try_from_uncompressed_all(&raw2).unwrap();
    assert!(n.eq_or_subdomain_of(&m), "[C05] x");
    kani::cover!(true, "x");
}

// @harness name=c05x_view_view props=C05 tier=thorough mem=3 t=600 kani="--no-assertion-reach-checks" cbmc="--max-field-sensitivity-array-size 256"
#[kani::proof]
#[kani::unwind(7)]
fn c05x_view_view() {
    let a = name_view(&R_A);
    let ba = name_view(&R_BA);
    assert!(ba.eq_or_subdomain_of(a), "[C05] x");
    kani::cover!(true, "x");
}

// @harness name=c05x_view_local props=C05 tier=thorough mem=3 t=600 kani="--no-assertion-reach-checks" cbmc="--max-field-sensitivity-array-size 256"
#[kani::proof]
#[kani::unwind(7)]
fn c05x_view_local() {
    let ra: [u8; 6] = [2, 0, 2, 1, b'a', 0];
    let rba: [u8; 9] = [3, 0, 2, 4, 1, b'b', 1, b'a', 0];
    let a = name_view(&ra);
    let ba = name_view(&rba);
    assert!(ba.eq_or_subdomain_of(a), "[C05] x");
    kani::cover!(true, "x");
}

// @harness name=c05x_heap_eq props=C05 tier=thorough mem=3 t=600 kani="--no-assertion-reach-checks" cbmc="--max-field-sensitivity-array-size 256"
#[kani::proof]
#[kani::unwind(7)]
fn c05x_heap_eq() {
    let raw = [1u8, b'a', 0];
    let n = Name::try_from_uncompressed_all(&raw).unwrap();
    let m = Name::try_from_uncompressed_all(&raw).unwrap();
    assert!(*n == *m, "[C05] x");
    kani::cover!(true, "x");
}
