// @host src/name/mod.rs
// temporary experiments (agent-c05); will be removed
use super::*;

// @harness name=c05x_v1 props=C05 tier=thorough mem=3 t=600 kani="--no-assertion-reach-checks" cbmc="--max-field-sensitivity-array-size 256"
#[kani::proof]
#[kani::unwind(7)]
fn c05x_v1() {
    let raw = [1u8, b'a', 0];
    let n = Name::try_from_uncompressed_all(&raw).unwrap();
    let m = Name::try_from_uncompressed_all(&raw).unwrap();
    assert!(n[0] == m[0], "[C05] x");
    kani::cover!(true, "x");
}

// @harness name=c05x_v2 props=C05 tier=thorough mem=3 t=600 kani="--no-assertion-reach-checks" cbmc="--max-field-sensitivity-array-size 256"
#[kani::proof]
#[kani::unwind(7)]
fn c05x_v2() {
    let raw = [1u8, b'a', 0];
    let n = Name::try_from_uncompressed_all(&raw).unwrap();
    let m = Name::try_from_uncompressed_all(&raw).unwrap();
    assert!(n[0].octets().eq_ignore_ascii_case(m[0].octets()), "[C05] x");
    kani::cover!(true, "x");
}

// @harness name=c05x_v3 props=C05 tier=thorough mem=3 t=600 kani="--no-assertion-reach-checks" cbmc="--max-field-sensitivity-array-size 256"
#[kani::proof]
#[kani::unwind(7)]
fn c05x_v3() {
    let raw = [1u8, b'a', 0];
    let n = Name::try_from_uncompressed_all(&raw).unwrap();
    let m = Name::try_from_uncompressed_all(&raw).unwrap();
    assert!(n.labels().zip(m.labels()).all(|(a, b)| a.octets().len() == b.octets().len()), "[C05] x");
    kani::cover!(true, "x");
}

// @harness name=c05x_v4 props=C05 tier=thorough mem=3 t=600 kani="--no-assertion-reach-checks" cbmc="--max-field-sensitivity-array-size 256"
#[kani::proof]
#[kani::unwind(7)]
fn c05x_v4() {
    let x = [b'a'];
    let y = [b'A'];
    assert!(x[..].eq_ignore_ascii_case(&y[..]), "[C05] x");
    kani::cover!(true, "x");
}

// @harness name=c05x_v5 props=C05 tier=thorough mem=3 t=600 kani="--no-assertion-reach-checks" cbmc="--max-field-sensitivity-array-size 256"
#[kani::proof]
#[kani::unwind(7)]
fn c05x_v5() {
    let raw = [1u8, b'a', 0];
    let n = Name::try_from_uncompressed_all(&raw).unwrap();
    let y = [b'A'];
    assert!(n[0].octets().eq_ignore_ascii_case(&y[..]), "[C05] x");
    kani::cover!(true, "x");
}
