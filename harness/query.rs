// @host src/server/query.rs
//
// C05 (answer assembly given the outcomes of zone lookups) and the truncation
// part of C04, on the real `Server::handle_non_axfr_query`, `answer`,
// `answer_any`, `do_cname`, `follow_cname_1/2`, `do_referral`,
// `do_additional_section_processing`, `add_negative_caching_soa`,
// `add_additional_addresses` and the real `Writer`.
//
// Shape of every harness:
//   * a concrete request (header + question) is read with the real Reader,
//     the question is echoed with the real Writer into a response buffer of
//     64 octets;
//   * the zone is a SCRIPTED mock (stub M1): the k-th call of `lookup`
//     returns the k-th scripted outcome, the k-th call of `lookup_addrs` the
//     k-th scripted address answer.  The outcome KINDS are stack constants (so CBMC's
//     control flow is fixed), the DATA in them (TTLs, address octets, SOA
//     MINIMUM, presence of A/AAAA) is symbolic.  Every call asserts that the
//     name (and the LookupOptions that matter) the real code asked for is the
//     one the script expects, so a script is a faithful description of a zone
//     "as a function from names to outcomes";
//   * the reference (written here from RFC 1034 section 4.3.2 steps 3/4/6,
//     RFC 6604, RFC 2308 section 3, RFC 2181 sections 8/9) turns the same
//     scenario into the expected RCODE, AA and record multiset;
//   * the finished message is decoded by kani_common::ref_decode_lim and
//     compared record by record (owner names decompressed and
//     compared case-insensitively, RDATA names decompressed) as a multiset.
//
// Inputs (names, RDATA sets) are stack-built views, as in the writer family;
// harness c05_inputs_wellformed ties the views to the public constructors.
//
// Cost control (all of it checked, none of it assumed):
//   * the QNAME handed to the code is a stack view (see `run`), which keeps
//     the echo of the question concrete;
//   * which address RRsets exist, and the size limit, are concrete per run
//     (symbolic ones make the writer's cursor symbolic after a join and CBMC
//     then explores the name compressor over an unknown message);
//   * the annotations carry `--unwindset` bounds for the loops of the name
//     compressor, of `<[u8]>::eq_ignore_ascii_case` and of `do_referral`
//     (names here have <= 3 one-octet labels, <= 2 NS RDATA).  Unwinding
//     assertions stay on: a bound that is too small is an inconclusive run,
//     never a pass.  The loop names contain the crate disambiguator of
//     quandary 0.1.0 and of the pinned core; if either changes, CBMC ignores
//     the unknown names and falls back to the harness-wide bound (slower,
//     still sound).
//
// Every harness runs with `--no-assertion-reach-checks`: Kani's per-assert
// reachability covers each cost one full JSON trace (measured: 322 s / 4.3 GB
// against 25 s / 0.5 GB for the same harness); vacuity is guarded by the
// explicit kani::cover! witnesses instead.

use super::*;
use crate::db::catalog::Entry;
use crate::db::zone::{
    Addresses, Cname, Found, GluePolicy, IteratedRrset, IteratorByNode, NoRecords, Referral,
};
use crate::kani_common::*;
use crate::message::tsig::{Algorithm, PreparedTsigRr};
use crate::message::Reader;
use crate::rr::{RdataSet, RdataSetOwned};
use core::cell::Cell;
use std::borrow::Cow;
use std::net::{IpAddr, Ipv4Addr};

// --------------------------------------------------------------------------
// stack-built inputs
// --------------------------------------------------------------------------

/// `repr` = [n_labels, label offsets.., wire form..] (the layout of `Name`,
/// repr(C): n_labels, then the unsized data = offsets followed by the wire).
fn name_view(repr: &[u8]) -> &Name {
    unsafe { &*(core::ptr::slice_from_raw_parts(repr.as_ptr(), repr.len() - 1) as *const Name) }
}

/// `raw` = [len_lo, len_hi, rdata.., len_lo, len_hi, rdata..] (RdataSet is
/// repr(transparent) over [u8] with native-endian length prefixes).
fn rdataset_view(raw: &[u8]) -> &RdataSet {
    unsafe { &*(raw as *const [u8] as *const RdataSet) }
}

/// A pool name: its `Name` layout and where the wire form starts in it.
#[derive(Clone, Copy)]
pub struct PN {
    repr: &'static [u8],
    wire_at: usize,
}

impl PN {
    fn name(&self) -> &'static Name {
        name_view(self.repr)
    }
    fn wire(&self) -> &'static [u8] {
        &self.repr[self.wire_at..]
    }
}

const R_ROOT: [u8; 3] = [1, 0, 0];
const R_A: [u8; 6] = [2, 0, 2, 1, b'a', 0];
const R_B: [u8; 6] = [2, 0, 2, 1, b'b', 0];
const R_C: [u8; 6] = [2, 0, 2, 1, b'c', 0];
const R_D: [u8; 6] = [2, 0, 2, 1, b'd', 0];
const R_E: [u8; 6] = [2, 0, 2, 1, b'e', 0];
const R_F: [u8; 6] = [2, 0, 2, 1, b'f', 0];
const R_G: [u8; 6] = [2, 0, 2, 1, b'g', 0];
const R_H: [u8; 6] = [2, 0, 2, 1, b'h', 0];
const R_I: [u8; 6] = [2, 0, 2, 1, b'i', 0];
const R_J: [u8; 6] = [2, 0, 2, 1, b'j', 0];
const R_BA: [u8; 9] = [3, 0, 2, 4, 1, b'b', 1, b'a', 0];
const R_STAR: [u8; 6] = [2, 0, 2, 1, b'*', 0];

const P_ROOT: PN = PN { repr: &R_ROOT, wire_at: 2 };
const P_A: PN = PN { repr: &R_A, wire_at: 3 };
const P_B: PN = PN { repr: &R_B, wire_at: 3 };
const P_C: PN = PN { repr: &R_C, wire_at: 3 };
const P_D: PN = PN { repr: &R_D, wire_at: 3 };
const P_E: PN = PN { repr: &R_E, wire_at: 3 };
const P_F: PN = PN { repr: &R_F, wire_at: 3 };
const P_G: PN = PN { repr: &R_G, wire_at: 3 };
const P_H: PN = PN { repr: &R_H, wire_at: 3 };
const P_I: PN = PN { repr: &R_I, wire_at: 3 };
const P_J: PN = PN { repr: &R_J, wire_at: 3 };
const P_BA: PN = PN { repr: &R_BA, wire_at: 4 };
const P_STAR: PN = PN { repr: &R_STAR, wire_at: 3 };

/// Case-insensitive comparison of two wire-form names.
fn wire_eq(a: &[u8], b: &[u8]) -> bool {
    if a.len() != b.len() {
        return false;
    }
    let mut i = 0;
    while i < b.len() {
        if lower(a[i]) != lower(b[i]) {
            return false;
        }
        i += 1;
    }
    true
}

/// Case-insensitive comparison of a quandary `Name` with a wire form.
fn name_is(name: &Name, wire: &[u8]) -> bool {
    wire_eq(name.wire_repr(), wire)
}

// RDATA set layouts (one RDATA each unless said otherwise)

/// SOA: MNAME ".", RNAME ".", SERIAL/REFRESH/RETRY/EXPIRE with the given low
/// octets, MINIMUM = `m` (22 octets).
fn soa_raw(w: [u8; 4], m: [u8; 4]) -> [u8; 24] {
    let l = 22u16.to_ne_bytes();
    [
        l[0], l[1], 0, 0, 0, 0, 0, w[0], 0, 0, 0, w[1], 0, 0, 0, w[2], 0, 0, 0, w[3], m[0], m[1], m[2], m[3],
    ]
}

fn a_raw(o: [u8; 4]) -> [u8; 6] {
    let l = 4u16.to_ne_bytes();
    [l[0], l[1], o[0], o[1], o[2], o[3]]
}

/// two 4-octet RDATA
fn a2_raw(o: [u8; 4], p: [u8; 4]) -> [u8; 12] {
    let l = 4u16.to_ne_bytes();
    [l[0], l[1], o[0], o[1], o[2], o[3], l[0], l[1], p[0], p[1], p[2], p[3]]
}

fn aaaa_raw(o: [u8; 16]) -> [u8; 18] {
    let l = 16u16.to_ne_bytes();
    [
        l[0], l[1], o[0], o[1], o[2], o[3], o[4], o[5], o[6], o[7], o[8], o[9], o[10], o[11], o[12], o[13], o[14], o[15],
    ]
}

/// RDATA = the single-label name `<c>.` (CNAME, NS)
fn name1_raw(c: u8) -> [u8; 5] {
    let l = 3u16.to_ne_bytes();
    [l[0], l[1], 1, c, 0]
}

/// RDATA = the name `b.a.`
fn name_ba_raw() -> [u8; 7] {
    let l = 5u16.to_ne_bytes();
    [l[0], l[1], 1, b'b', 1, b'a', 0]
}

/// two NS RDATA: `a.` and `c.`
fn ns_a_c_raw() -> [u8; 10] {
    let l = 3u16.to_ne_bytes();
    [l[0], l[1], 1, b'a', 0, l[0], l[1], 1, b'c', 0]
}

/// MX: preference + the name `b.`
fn mx_b_raw(p: [u8; 2]) -> [u8; 7] {
    let l = 5u16.to_ne_bytes();
    [l[0], l[1], p[0], p[1], 1, b'b', 0]
}

/// SRV: priority, weight, port + the name `b.`
fn srv_b_raw(p: [u8; 6]) -> [u8; 11] {
    let l = 9u16.to_ne_bytes();
    [l[0], l[1], p[0], p[1], p[2], p[3], p[4], p[5], 1, b'b', 0]
}

const NO_RD: [u8; 2] = [0, 0];

// --------------------------------------------------------------------------
// the scripted zone (stub M1)
// --------------------------------------------------------------------------

#[derive(Clone, Copy, PartialEq, Eq)]
pub enum Out {
    Found,
    Cname,
    Referral,
    NoRecords,
    NxDomain,
    /// the name is not in this zone
    WrongZone,
}

/// One scripted `lookup` call: the name the zone is asked about, what the
/// zone answers, and the data of that answer.
#[derive(Clone, Copy)]
pub struct Step<'d> {
    name: PN,
    out: Out,
    ttl: u32,
    /// Found: the RRset; Cname: the CNAME RRset; Referral: the NS RRset
    rd: &'d RdataSet,
    /// Referral: the delegation point
    child: PN,
    /// wildcard source of synthesis reported with the outcome
    synth: bool,
}

/// What the zone knows about the addresses of one name.
pub struct AStep<'d> {
    name: PN,
    /// false: the name does not exist
    exists: bool,
    /// the name lies below a zone cut: it is only visible to a lookup with
    /// `search_below_cuts` (a lookup without it gets a Referral)
    below_cut: bool,
    has_a: bool,
    a_ttl: u32,
    a_rd: &'d RdataSet,
    has_aaaa: bool,
    aaaa_ttl: u32,
    aaaa_rd: &'d RdataSet,
    asked: Cell<bool>,
}

pub const MAX_STEPS: usize = 10;

pub struct MockZone<'d> {
    apex: PN,
    class: Class,
    steps: [Step<'d>; MAX_STEPS],
    n_steps: usize,
    calls: Cell<usize>,
    asteps: [AStep<'d>; 2],
    n_asteps: usize,
    acalls: Cell<usize>,
    // lookup_all
    all_out: Out,
    all_name: PN,
    all_sets: [(u16, u32, &'d RdataSet); 2],
    n_all: usize,
    all_calls: Cell<usize>,
    // soa()
    has_soa: bool,
    soa_ttl: u32,
    soa_rd: &'d RdataSet,
}

#[derive(Debug)]
pub struct AllIter<'d> {
    sets: [(u16, u32, &'d RdataSet); 2],
    n: usize,
    i: usize,
}

impl<'d> Iterator for AllIter<'d> {
    type Item = IteratedRrset<'d>;
    fn next(&mut self) -> Option<IteratedRrset<'d>> {
        if self.i < self.n {
            let (t, ttl, rd) = self.sets[self.i];
            self.i += 1;
            Some(IteratedRrset {
                rr_type: Type::from(t),
                ttl: Ttl::from(ttl),
                rdatas: Cow::Borrowed(rd),
            })
        } else {
            None
        }
    }
}

impl<'d> MockZone<'d> {
    fn addr_answer(&self, i: usize, options: &LookupOptions) -> LookupAddrsResult {
        let s = &self.asteps[i];
        assert!(!s.asked.get(), "[C05] the addresses of one name are looked up twice");
        s.asked.set(true);
        assert!(!options.unchecked, "[C05] a name taken from RDATA may lie outside the zone: the lookup must be checked");
        if s.below_cut && !options.search_below_cuts {
            // what a zone does with a name below a cut
            return LookupAddrsResult::Referral(Referral {
                child_zone: Cow::Borrowed(P_A.name()),
                ns_rrset: SingleRrset {
                    ttl: Ttl::from(0),
                    rdatas: Cow::Borrowed(s.a_rd),
                },
            });
        }
        if !s.exists {
            return LookupAddrsResult::NxDomain;
        }
        LookupAddrsResult::Found(Found {
            data: Addresses {
                a_rrset: if s.has_a {
                    Some(SingleRrset {
                        ttl: Ttl::from(s.a_ttl),
                        rdatas: Cow::Borrowed(s.a_rd),
                    })
                } else {
                    None
                },
                aaaa_rrset: if s.has_aaaa {
                    Some(SingleRrset {
                        ttl: Ttl::from(s.aaaa_ttl),
                        rdatas: Cow::Borrowed(s.aaaa_rd),
                    })
                } else {
                    None
                },
            },
            source_of_synthesis: None,
        })
    }
}

impl<'d> Zone for MockZone<'d> {
    fn name(&self) -> &Name {
        self.apex.name()
    }
    fn class(&self) -> Class {
        self.class
    }
    fn glue_policy(&self) -> GluePolicy {
        GluePolicy::Narrow
    }
    fn lookup(&self, name: &Name, _rr_type: Type, options: LookupOptions) -> LookupResult {
        let k = self.calls.get();
        self.calls.set(k + 1);
        assert!(k < self.n_steps, "[C05] more zone lookups than the resolution algorithm needs for this zone");
        let s = &self.steps[k];
        assert!(name_is(name, s.name.wire()), "[C05] the zone is asked about a name other than QNAME / the CNAME target");
        assert!(!options.search_below_cuts, "[C05] answer lookups must respect zone cuts");
        if k > 0 {
            assert!(!options.unchecked, "[C05] a CNAME target may lie outside the zone: the restart lookup must be checked");
        }
        let synth = if s.synth { Some(Cow::Borrowed(P_STAR.name())) } else { None };
        match s.out {
            Out::Found => LookupResult::Found(Found {
                data: SingleRrset {
                    ttl: Ttl::from(s.ttl),
                    rdatas: Cow::Borrowed(s.rd),
                },
                source_of_synthesis: synth,
            }),
            Out::Cname => LookupResult::Cname(Cname {
                rrset: SingleRrset {
                    ttl: Ttl::from(s.ttl),
                    rdatas: Cow::Borrowed(s.rd),
                },
                source_of_synthesis: synth,
            }),
            Out::Referral => LookupResult::Referral(Referral {
                child_zone: Cow::Borrowed(s.child.name()),
                ns_rrset: SingleRrset {
                    ttl: Ttl::from(s.ttl),
                    rdatas: Cow::Borrowed(s.rd),
                },
            }),
            Out::NoRecords => LookupResult::NoRecords(NoRecords {
                source_of_synthesis: synth,
            }),
            Out::NxDomain => LookupResult::NxDomain,
            Out::WrongZone => LookupResult::WrongZone,
        }
    }
    fn lookup_addrs(&self, name: &Name, options: LookupOptions) -> LookupAddrsResult {
        // answered in script order (a comparison of the heap-allocated name
        // with the script would be a symbolic branch for CBMC); a different
        // order in the real code fails the name assertion, it cannot pass
        let k = self.acalls.get();
        self.acalls.set(k + 1);
        assert!(k < self.n_asteps, "[C05] more address lookups than there are name-server / exchange names");
        if self.n_asteps == 1 {
            // (index kept concrete; `addr_answer` refuses a second lookup)
            assert!(name_is(name, self.asteps[0].name.wire()), "[C05] address lookup for a name that is not the expected name-server / exchange target");
            return self.addr_answer(0, &options);
        }
        assert!(name_is(name, self.asteps[k].name.wire()), "[C05] address lookup for a name that is not the expected name-server / exchange target");
        self.addr_answer(k, &options)
    }
    fn lookup_all(&self, name: &Name, options: LookupOptions) -> LookupAllResult {
        let k = self.all_calls.get();
        self.all_calls.set(k + 1);
        assert!(k == 0, "[C05] ANY needs exactly one lookup_all");
        assert!(name_is(name, self.all_name.wire()), "[C05] lookup_all for a name other than QNAME");
        assert!(!options.search_below_cuts, "[C05] answer lookups must respect zone cuts");
        match self.all_out {
            Out::Found => LookupAllResult::Found(Found {
                data: Box::new(AllIter {
                    sets: self.all_sets,
                    n: self.n_all,
                    i: 0,
                }),
                source_of_synthesis: None,
            }),
            Out::Referral => LookupAllResult::Referral(Referral {
                child_zone: Cow::Borrowed(self.steps[0].child.name()),
                ns_rrset: SingleRrset {
                    ttl: Ttl::from(self.steps[0].ttl),
                    rdatas: Cow::Borrowed(self.steps[0].rd),
                },
            }),
            Out::NxDomain => LookupAllResult::NxDomain,
            _ => LookupAllResult::WrongZone,
        }
    }
    fn soa(&self) -> Option<SingleRrset> {
        if self.has_soa {
            Some(SingleRrset {
                ttl: Ttl::from(self.soa_ttl),
                rdatas: Cow::Borrowed(self.soa_rd),
            })
        } else {
            None
        }
    }
    fn iter_by_node(&self) -> IteratorByNode {
        Box::new(std::iter::empty())
    }
}

pub struct Cat<'d>(core::marker::PhantomData<&'d ()>);

impl<'d> Catalog for Cat<'d> {
    type Metadata = ();
    type ZoneImpl = MockZone<'d>;
    fn lookup(&self, _name: &Name, _class: Class) -> Option<&Entry<MockZone<'d>, ()>> {
        None
    }
}

fn no_step<'d>() -> Step<'d> {
    Step {
        name: P_ROOT,
        out: Out::NxDomain,
        ttl: 0,
        rd: rdataset_view(&NO_RD),
        child: P_ROOT,
        synth: false,
    }
}

fn no_astep<'d>() -> AStep<'d> {
    AStep {
        name: P_ROOT,
        exists: false,
        below_cut: false,
        has_a: false,
        a_ttl: 0,
        a_rd: rdataset_view(&NO_RD),
        has_aaaa: false,
        aaaa_ttl: 0,
        aaaa_rd: rdataset_view(&NO_RD),
        asked: Cell::new(false),
    }
}

/// A zone (apex = root, class IN) with no scripted outcome yet.
fn blank_zone<'d>(soa_ttl: u32, soa_rd: &'d RdataSet) -> MockZone<'d> {
    MockZone {
        apex: P_ROOT,
        class: Class::IN,
        steps: [no_step(); MAX_STEPS],
        n_steps: 0,
        calls: Cell::new(0),
        asteps: [no_astep(), no_astep()],
        n_asteps: 0,
        acalls: Cell::new(0),
        all_out: Out::NxDomain,
        all_name: P_ROOT,
        all_sets: [(0, 0, rdataset_view(&NO_RD)), (0, 0, rdataset_view(&NO_RD))],
        n_all: 0,
        all_calls: Cell::new(0),
        has_soa: true,
        soa_ttl,
        soa_rd,
    }
}

/// The symbolic address data of one name.
#[derive(Clone, Copy)]
pub struct AddrData {
    has_a: bool,
    a_ttl: u32,
    a: [u8; 4],
    has_aaaa: bool,
    aaaa_ttl: u32,
    aaaa: [u8; 16],
}

fn any_addr() -> AddrData {
    AddrData {
        has_a: kani::any(),
        a_ttl: kani::any(),
        a: kani::any(),
        has_aaaa: kani::any(),
        aaaa_ttl: kani::any(),
        aaaa: kani::any(),
    }
}

/// Which address RRsets exist is concrete per run (a symbolic presence makes
/// the writer's cursor symbolic at the join and CBMC then explores the name
/// compressor over an unknown message: measured, does not finish); TTLs and
/// address octets are symbolic.
fn addr_with(has_a: bool, has_aaaa: bool) -> AddrData {
    let mut d = any_addr();
    d.has_a = has_a;
    d.has_aaaa = has_aaaa;
    d
}

fn astep_of<'d>(name: PN, below_cut: bool, d: &AddrData, a_rd: &'d RdataSet, aaaa_rd: &'d RdataSet) -> AStep<'d> {
    AStep {
        name,
        exists: true,
        below_cut,
        has_a: d.has_a,
        a_ttl: d.a_ttl,
        a_rd,
        has_aaaa: d.has_aaaa,
        aaaa_ttl: d.aaaa_ttl,
        aaaa_rd,
        asked: Cell::new(false),
    }
}

// --------------------------------------------------------------------------
// the reference: expected responses
// --------------------------------------------------------------------------

pub const RC_NOERROR: u16 = 0;
pub const RC_SERVFAIL: u16 = 2;
pub const RC_NXDOMAIN: u16 = 3;

pub const MAX_EXP: usize = 8;

/// An expected record in canonical (uncompressed) form.  RDATA =
/// `n_lead` raw octets, then `n_names` domain names, then `n_words` 32-bit
/// words.
#[derive(Clone, Copy)]
pub struct Exp {
    section: u8,
    owner: &'static [u8],
    rtype: u16,
    ttl: u32,
    lead: [u8; 6],
    n_lead: usize,
    names: [&'static [u8]; 2],
    n_names: usize,
    words: [u32; 5],
    n_words: usize,
    /// may be left out when the complete response does not fit (RFC 2181
    /// section 9; glue of in-bailiwick name servers is never optional)
    optional: bool,
}

const ROOT_WIRE: [u8; 1] = [0];

fn exp_blank() -> Exp {
    Exp {
        section: 0,
        owner: &ROOT_WIRE,
        rtype: 0,
        ttl: 0,
        lead: [0; 6],
        n_lead: 0,
        names: [&ROOT_WIRE, &ROOT_WIRE],
        n_names: 0,
        words: [0; 5],
        n_words: 0,
        optional: false,
    }
}

pub struct Expect {
    rcode: u16,
    aa: bool,
    recs: [Exp; MAX_EXP],
    n: usize,
    /// octets of header + question + all non-optional records / + all records,
    /// in the encoding with every repeated name compressed (what the writer
    /// produces for these scenarios; checked against the real length whenever
    /// the complete response is produced)
    mandatory_size: usize,
    complete_size: usize,
}

impl Expect {
    fn new(question_end: usize) -> Expect {
        Expect {
            rcode: RC_NOERROR,
            aa: false,
            recs: [exp_blank(); MAX_EXP],
            n: 0,
            mandatory_size: question_end,
            complete_size: question_end,
        }
    }
    /// `size`: octets of the record on the wire
    fn push(&mut self, e: Exp, size: usize) {
        assert!(self.n < MAX_EXP, "[C05] harness: expected-record table too small");
        self.recs[self.n] = e;
        self.n += 1;
        self.complete_size += size;
        if !e.optional {
            self.mandatory_size += size;
        }
    }
    /// server failure: no data, not authoritative
    fn servfail(question_end: usize) -> Expect {
        let mut e = Expect::new(question_end);
        e.rcode = RC_SERVFAIL;
        e
    }
}

/// RFC 2181 section 8: a TTL is an unsigned number of at most 2^31 - 1; a
/// value with the most significant bit set is treated as zero.
fn ttl_value(raw: u32) -> u32 {
    if raw > 0x7fff_ffff {
        0
    } else {
        raw
    }
}

fn word(o: [u8; 4]) -> u32 {
    ((o[0] as u32) << 24) | ((o[1] as u32) << 16) | ((o[2] as u32) << 8) | o[3] as u32
}

/// record with 4 octets of RDATA (A; the 4-octet TXT of the ANY harnesses)
fn exp_a(section: u8, owner: &'static [u8], rtype: u16, ttl: u32, o: [u8; 4]) -> Exp {
    let mut e = exp_blank();
    e.section = section;
    e.owner = owner;
    e.rtype = rtype;
    e.ttl = ttl_value(ttl);
    e.words[0] = word(o);
    e.n_words = 1;
    e
}

fn exp_aaaa(section: u8, owner: &'static [u8], ttl: u32, o: [u8; 16]) -> Exp {
    let mut e = exp_blank();
    e.section = section;
    e.owner = owner;
    e.rtype = T_AAAA;
    e.ttl = ttl_value(ttl);
    e.words[0] = word([o[0], o[1], o[2], o[3]]);
    e.words[1] = word([o[4], o[5], o[6], o[7]]);
    e.words[2] = word([o[8], o[9], o[10], o[11]]);
    e.words[3] = word([o[12], o[13], o[14], o[15]]);
    e.n_words = 4;
    e
}

/// record whose RDATA is one domain name (NS, CNAME)
fn exp_name(section: u8, owner: &'static [u8], rtype: u16, ttl: u32, target: &'static [u8]) -> Exp {
    let mut e = exp_blank();
    e.section = section;
    e.owner = owner;
    e.rtype = rtype;
    e.ttl = ttl_value(ttl);
    e.names[0] = target;
    e.n_names = 1;
    e
}

/// record whose RDATA is `n_lead` fixed octets followed by one domain name
/// (MX: 2, SRV: 6, NS: 0)
fn exp_lead_name(section: u8, owner: &'static [u8], rtype: u16, ttl: u32, lead: [u8; 6], n_lead: usize, target: &'static [u8]) -> Exp {
    let mut e = exp_name(section, owner, rtype, ttl, target);
    e.lead = lead;
    e.n_lead = n_lead;
    e
}

/// SOA data of the zone: TTL of the SOA record, the four low octets of
/// SERIAL..EXPIRE, MINIMUM.
#[derive(Clone, Copy)]
pub struct SoaData {
    ttl: u32,
    w: [u8; 4],
    m: [u8; 4],
}

fn any_soa() -> SoaData {
    SoaData {
        ttl: kani::any(),
        w: kani::any(),
        m: kani::any(),
    }
}

/// octets of the SOA record of this family on the wire: root owner, 10 fixed
/// octets, 22 octets of RDATA
const SOA_REC: usize = 33;
/// address records whose owner is a compression pointer
const A_REC: usize = 16;
const AAAA_REC: usize = 28;

/// The negative-caching SOA (RFC 2308 section 3): owner = zone apex,
/// TTL = min(TTL of the SOA record, SOA MINIMUM).
fn exp_soa(apex: &'static [u8], d: &SoaData) -> Exp {
    let minimum = u32::from_be_bytes(d.m);
    let mut e = exp_blank();
    e.section = 2;
    e.owner = apex;
    e.rtype = T_SOA;
    let t = ttl_value(d.ttl);
    e.ttl = if minimum < t { minimum } else { t };
    e.names = [&ROOT_WIRE, &ROOT_WIRE];
    e.n_names = 2;
    e.words = [d.w[0] as u32, d.w[1] as u32, d.w[2] as u32, d.w[3] as u32, minimum];
    e.n_words = 5;
    e
}

/// Address records of `owner` for the additional section (RFC 1034 4.3.2
/// step 6, RFC 3596 section 3: A, and AAAA in class IN).
fn push_addrs(ex: &mut Expect, owner: &'static [u8], d: &AddrData, optional: bool) {
    if d.has_a {
        let mut e = exp_a(3, owner, T_A, d.a_ttl, d.a);
        e.optional = optional;
        ex.push(e, A_REC);
    }
    if d.has_aaaa {
        let mut e = exp_aaaa(3, owner, d.aaaa_ttl, d.aaaa);
        e.optional = optional;
        ex.push(e, AAAA_REC);
    }
}

/// How a CNAME chain ends.
#[derive(Clone, Copy)]
pub enum Final {
    FoundA { ttl: u32, o: [u8; 4] },
    NoRecords,
    NxDomain,
    /// the last target is not a name of this zone
    OutOfZone,
}

/// RFC 1034 section 4.3.2 step 3a for a chain of CNAMEs inside one zone:
/// QNAME -> t[0] -> t[1] ... -> t[n-1], then `fin` at t[n-1] (at QNAME when
/// n = 0).  RFC 6604: RCODE from the last lookup, AA from the first owner.
/// A target that is QNAME or an earlier target is a loop; a ninth link is
/// too long; both are server failures.
/// `sizes[i]`: wire octets of the i-th CNAME record.
fn ref_chain(
    qend: usize,
    qname: PN,
    targets: &[PN],
    ttls: &[u32],
    sizes: &[usize],
    n: usize,
    fin: Final,
    soa: &SoaData,
) -> Expect {
    let mut ex = Expect::new(qend);
    ex.aa = true;
    let mut owner = qname;
    let mut i = 0;
    while i < n {
        let t = targets[i];
        if i >= 8 {
            return Expect::servfail(qend);
        }
        if wire_eq(t.wire(), qname.wire()) {
            return Expect::servfail(qend);
        }
        let mut k = 0;
        while k < i {
            if wire_eq(t.wire(), targets[k].wire()) {
                return Expect::servfail(qend);
            }
            k += 1;
        }
        ex.push(exp_name(1, owner.wire(), T_CNAME, ttls[i], t.wire()), sizes[i]);
        owner = t;
        i += 1;
    }
    match fin {
        Final::FoundA { ttl, o } => ex.push(exp_a(1, owner.wire(), T_A, ttl, o), A_REC),
        Final::NoRecords => ex.push(exp_soa(P_ROOT.wire(), soa), SOA_REC),
        Final::NxDomain => {
            ex.rcode = RC_NXDOMAIN;
            ex.push(exp_soa(P_ROOT.wire(), soa), SOA_REC);
        }
        Final::OutOfZone => {}
    }
    ex
}

// --------------------------------------------------------------------------
// comparing the finished message with the expectation
// --------------------------------------------------------------------------

/// Does the (possibly compressed) name at `at` in msg[..end] decode to `wire`
/// (case-insensitively)?  Returns the octets it occupies at `at`, 0 = no.
///
/// RFC 1035 section 4.1.4, written for comparison against a KNOWN name: the
/// walk follows the message (labels, and pointers that must point strictly
/// before the chunk of labels they end) and compares label by label with the
/// expected wire form, so every inner loop has a concrete bound.  At most 5
/// labels/pointers are followed; a name needing more is reported as "no",
/// which makes the caller's assertion fail (never pass).
fn msg_name_is(msg: &[u8], end: usize, at: usize, wire: &[u8]) -> usize {
    let mut pos = at;
    let mut chunk_start = at;
    let mut w = 0usize;
    let mut first_chunk = 0usize;
    let mut jumped = false;
    let mut steps = 0;
    while steps < 5 {
        steps += 1;
        if pos >= end {
            return 0;
        }
        let b = msg[pos];
        if b >= 0xc0 {
            if pos + 1 >= end {
                return 0;
            }
            let target = (((b & 0x3f) as usize) << 8) | msg[pos + 1] as usize;
            if target >= chunk_start {
                return 0;
            }
            if !jumped {
                first_chunk = pos + 2 - at;
                jumped = true;
            }
            pos = target;
            chunk_start = target;
        } else if b > 63 {
            return 0;
        } else {
            if w >= wire.len() {
                return 0;
            }
            let el = wire[w] as usize;
            if b as usize != el {
                return 0;
            }
            if pos + 1 + el > end {
                return 0;
            }
            let mut i = 0;
            while i < el {
                if lower(msg[pos + 1 + i]) != lower(wire[w + 1 + i]) {
                    return 0;
                }
                i += 1;
            }
            pos += 1 + el;
            w += 1 + el;
            if el == 0 {
                if !jumped {
                    first_chunk = pos - at;
                }
                return if w == wire.len() { first_chunk } else { 0 };
            }
        }
    }
    0
}

fn rec_matches(msg: &[u8], n: usize, r: &RefRec, e: &Exp) -> bool {
    if r.section != e.section || r.rtype != e.rtype || r.class != 1 || r.ttl != e.ttl {
        return false;
    }
    if msg_name_is(msg, n, r.owner_at, e.owner) == 0 {
        return false;
    }
    let rd_end = r.rd_at + r.rdlen;
    let mut pos = r.rd_at;
    let mut i = 0;
    while i < e.n_lead {
        if pos >= rd_end || msg[pos] != e.lead[i] {
            return false;
        }
        pos += 1;
        i += 1;
    }
    let mut k = 0;
    while k < e.n_names {
        if pos >= rd_end {
            return false;
        }
        // a name inside RDATA must end inside the RDATA; what it points to
        // may be anywhere earlier in the message
        let used = msg_name_is(msg, n, pos, e.names[k]);
        if used == 0 || pos + used > rd_end {
            return false;
        }
        pos += used;
        k += 1;
    }
    let mut j = 0;
    while j < e.n_words {
        if pos + 4 > rd_end || be32(msg, pos) != e.words[j] {
            return false;
        }
        pos += 4;
        j += 1;
    }
    pos == rd_end
}

/// two expected records that no decoded record can tell apart
fn exp_same(a: &Exp, b: &Exp) -> bool {
    if a.section != b.section || a.rtype != b.rtype || a.ttl != b.ttl {
        return false;
    }
    if a.n_lead != b.n_lead || a.n_names != b.n_names || a.n_words != b.n_words {
        return false;
    }
    if !wire_eq(a.owner, b.owner) {
        return false;
    }
    let mut l = 0;
    while l < a.n_lead {
        if a.lead[l] != b.lead[l] {
            return false;
        }
        l += 1;
    }
    let mut k = 0;
    while k < a.n_names {
        if !wire_eq(a.names[k], b.names[k]) {
            return false;
        }
        k += 1;
    }
    let mut j = 0;
    while j < a.n_words {
        if a.words[j] != b.words[j] {
            return false;
        }
        j += 1;
    }
    true
}

pub const COMPLETE: u8 = 0;
pub const TRUNCATED: u8 = 1;
pub const TCP_FAILED: u8 = 2;
pub const PARTIAL: u8 = 3;

/// C05 + C04 for one finished response `resp[..n]` produced under size
/// limit `limit` over UDP or TCP, against the reference `ex`.
///
///  * complete response fits            -> RCODE, AA and the record multiset
///                                         equal the reference, TC clear;
///  * otherwise, TC set                 -> UDP only, no records at all;
///  * otherwise, TC clear               -> either (TCP only) a server failure
///    without records because mandatory records do not fit, or every
///    mandatory record present, optional ones possibly missing, nothing else.
///
/// Returns which of the cases applied: COMPLETE, TRUNCATED, TCP_FAILED,
/// PARTIAL (optional records missing, TC clear).
fn check_response(resp: &[u8], n: usize, ex: &Expect, udp: bool, limit: usize) -> u8 {
    // concrete caps: a response with more records in a section than the
    // reference has is reported as not decodable (why = 21), never accepted
    let mut caps = [1usize, 0, 0, 0];
    let mut c = 0;
    while c < ex.n {
        caps[ex.recs[c].section as usize] += 1;
        c += 1;
    }
    let m = ref_decode_lim(resp, n, caps, 6);
    assert!(m.wellformed, "[C05] the response does not decode (independent decoder)");
    assert!(m.counts[0] == 1, "[C05] the question is echoed");
    assert!(m.n_recs <= MAXREC, "[C05] harness: more records than the decoder stores");
    assert!(n <= limit, "[C04] response longer than the size limit");
    let rcode = m.flags & 0xf;
    let aa = m.flags & 0x0400 != 0;
    let tc = m.flags & 0x0200 != 0;
    let fits = ex.complete_size <= limit;
    if !udp {
        assert!(!tc, "[C04] TC set on a TCP response");
    }
    if tc {
        assert!(!fits, "[C04] TC set although the complete response fits");
        assert!(m.n_recs == 0, "[C04] a truncated response carries answer, authority or additional records");
        return TRUNCATED;
    }
    if !udp && !fits && rcode == RC_SERVFAIL && ex.rcode != RC_SERVFAIL {
        // TCP and the answer cannot be sent: nothing to fall back to
        assert!(ex.mandatory_size > limit, "[C04] TCP server failure although every mandatory record fits");
        assert!(m.n_recs == 0 && !aa, "[C04] TCP server failure carries records or AA");
        return TCP_FAILED;
    }
    assert!(rcode == ex.rcode, "[C05] RCODE differs from the reference");
    assert!(aa == ex.aa, "[C05] AA differs from the reference");
    if fits {
        assert!(m.n_recs == ex.n, "[C05] number of records differs from the reference");
        assert!(
            m.counts[1] as usize == caps[1] && m.counts[2] as usize == caps[2] && m.counts[3] as usize == caps[3],
            "[C05] number of records in a section differs from the reference"
        );
        assert!(n == ex.complete_size, "[C04] harness: size model of the complete response disagrees with the writer");
        // The section of the j-th decoded record is now known from its
        // position: compare every expected record with the decoded records
        // of its own section only (as a multiset within the section).
        let mut i = 0;
        while i < ex.n {
            let e = &ex.recs[i];
            let mut want = 0;
            let mut k = 0;
            while k < ex.n {
                if exp_same(e, &ex.recs[k]) {
                    want += 1;
                }
                k += 1;
            }
            let sec = e.section as usize;
            let start = if sec == 1 { 0 } else if sec == 2 { caps[1] } else { caps[1] + caps[2] };
            let mut have = 0;
            let mut j = start;
            while j < start + caps[sec] {
                assert!(m.recs[j].section == e.section, "[C05] harness: decoded record is in the section its position says");
                if rec_matches(resp, n, &m.recs[j], e) {
                    have += 1;
                }
                j += 1;
            }
            assert!(have == want, "[C05,C04] a mandatory record of the reference answer is missing, duplicated or differs (section, owner, type, TTL or RDATA)");
            i += 1;
        }
        return COMPLETE;
    }
    assert!(m.n_recs <= ex.n, "[C05] more records than the reference");
    // The complete response does not fit and TC is clear: every mandatory
    // record with its multiplicity, optional ones possibly missing, and
    // nothing else.  (Decoded records beyond ex.n cannot exist: the decoder's
    // caps reject them.)
    let mut i = 0;
    while i < ex.n {
        let e = &ex.recs[i];
        let mut want = 0;
        let mut k = 0;
        while k < ex.n {
            if exp_same(e, &ex.recs[k]) {
                want += 1;
            }
            k += 1;
        }
        let mut have = 0;
        let mut j = 0;
        while j < ex.n {
            if j < m.n_recs && rec_matches(resp, n, &m.recs[j], e) {
                have += 1;
            }
            j += 1;
        }
        if !e.optional {
            assert!(have == want, "[C05,C04] a mandatory record of the reference answer is missing, duplicated or differs (section, owner, type, TTL or RDATA)");
        } else {
            assert!(have <= want, "[C05] an optional record is duplicated");
        }
        i += 1;
    }
    let mut j = 0;
    while j < ex.n {
        if j < m.n_recs {
            let mut hit = false;
            let mut i = 0;
            while i < ex.n {
                if rec_matches(resp, n, &m.recs[j], &ex.recs[i]) {
                    hit = true;
                }
                i += 1;
            }
            assert!(hit, "[C05] a record that is not in the reference answer");
        }
        j += 1;
    }
    PARTIAL
}

// --------------------------------------------------------------------------
// driving the real code
// --------------------------------------------------------------------------

// Stubs "T0": the three TSIG signing routines are replaced by bodies that
// fail when executed.  No TSIG is configured in this family, so they are
// never executed (a reached stub is a reported failure, not an assumption);
// the stubs only remove hmac/sha1/sha2 from the statically reachable code.
pub fn no_sign_request(_rr: &PreparedTsigRr, _m: &[u8], _a: Algorithm, _k: &[u8]) -> (Box<Rdata>, Box<[u8]>) {
    panic!("[C05] harness: TSIG signing reached although no TSIG is configured")
}

pub fn no_sign_chained(_rr: &PreparedTsigRr, _m: &[u8], _p: &[u8], _a: Algorithm, _k: &[u8]) -> (Box<Rdata>, Box<[u8]>) {
    panic!("[C05] harness: TSIG signing reached although no TSIG is configured")
}

macro_rules! proof {
    ($name:ident, $unwind:literal, $body:expr) => {
        #[kani::proof]
        #[kani::unwind($unwind)]
        #[kani::stub(crate::message::tsig::PreparedTsigRr::sign_request, no_sign_request)]
        #[kani::stub(crate::message::tsig::PreparedTsigRr::sign_response, no_sign_chained)]
        #[kani::stub(crate::message::tsig::PreparedTsigRr::sign_subsequent, no_sign_chained)]
        fn $name() {
            $body
        }
    };
}

// Stub "N1" (referral harnesses only): `Name::eq_or_subdomain_of` is replaced
// by the same relation computed on the two wire forms.  Reason (measured): the
// real one compares labels from the root, and the comparison of the two empty
// root labels through `<[u8]>::eq_ignore_ascii_case` is not constant-folded by
// CBMC, so "is this name server inside the delegated zone" becomes a symbolic
// branch, both address loops of do_referral are explored with an unknown
// message, and the run exhausts 15 GB.  Harness c05_subdomain_model shows
// that the model and the real method agree on every (name, zone) pair that
// occurs in the referral harnesses, with the names built the way do_referral
// builds them.
pub fn subdomain_model(this: &Name, other: &Name) -> bool {
    let a = this.wire_repr();
    let b = other.wire_repr();
    if b.len() > a.len() {
        return false;
    }
    let skip = a.len() - b.len();
    // the suffix must start at a label boundary of `this`
    let mut pos = 0;
    let mut steps = 0;
    while pos < skip && steps < 4 {
        pos += 1 + a[pos] as usize;
        steps += 1;
    }
    if pos != skip {
        return false;
    }
    let mut i = 0;
    while i < b.len() {
        if lower(a[skip + i]) != lower(b[i]) {
            return false;
        }
        i += 1;
    }
    true
}

macro_rules! proof_ref {
    ($name:ident, $unwind:literal, $body:expr) => {
        #[kani::proof]
        #[kani::unwind($unwind)]
        #[kani::stub(crate::message::tsig::PreparedTsigRr::sign_request, no_sign_request)]
        #[kani::stub(crate::message::tsig::PreparedTsigRr::sign_response, no_sign_chained)]
        #[kani::stub(crate::message::tsig::PreparedTsigRr::sign_subsequent, no_sign_chained)]
        #[kani::stub(crate::name::Name::eq_or_subdomain_of, subdomain_model)]
        fn $name() {
            $body
        }
    };
}

/// Runs `Server::handle_non_axfr_query` for the question in `req` against
/// `zone`, writing into `resp` with the given size limit.  Returns the length
/// of the finished message.
///
/// `qname`: the QNAME of `req` as a pool name.  The Question handed to the
/// code is the one the real Reader parsed from `req`, except that its
/// `Box<Name>` points at the stack-built view of the same name (checked to be
/// equal) instead of a heap copy: CBMC keeps the constants of the view, so
/// echoing the question stays concrete.  The box is never dropped.
fn run<'d>(zone: &MockZone<'d>, req: &[u8], qname: PN, udp: bool, limit: usize, resp: &mut [u8]) -> usize {
    // `handle_non_axfr_query` is a method of Server but never reads `self`
    // (query.rs:81-108: it only dispatches on the question and maps the
    // error of answer/answer_any).  The Server value is therefore never
    // constructed (its TSIG key table is a std HashMap, whose RandomState is
    // out of CBMC's reach); the method gets a reference to the unconstructed
    // slot.  Would the method read a field, CBMC would see an unconstrained
    // value there, never a convenient one.
    let slot = core::mem::MaybeUninit::<Server<Cat<'d>>>::uninit();
    let server: &Server<Cat<'d>> = unsafe { &*slot.as_ptr() };
    let cat = Cat(core::marker::PhantomData);
    let info = super::super::ReceivedInfo::new(
        IpAddr::V4(Ipv4Addr::new(192, 0, 2, 7)),
        if udp { Transport::Udp } else { Transport::Tcp },
    );
    let mut context = Context::new(&cat, Reader::try_from(req).unwrap(), info, Writer::new(resp, limit).unwrap());
    let parsed = context.received.read_question().unwrap();
    assert!(name_is(&parsed.qname, qname.wire()), "[C05] harness: QNAME of the request is the pool name");
    let q = crate::message::Question {
        qname: unsafe { Box::from_raw(qname.name() as *const Name as *mut Name) },
        qtype: parsed.qtype,
        qclass: parsed.qclass,
    };
    core::mem::forget(parsed);
    context.response.add_question(&q).unwrap();
    context.question = Some(q);
    server.handle_non_axfr_query(zone, &mut context);
    let Context { response, question, .. } = context;
    let n = response.finish();
    core::mem::forget(question);
    n
}

/// header (ID 0x1234, RD) + question `a. <qtype> IN`; the question ends at 19
fn req_a(qtype: u16) -> [u8; 19] {
    [0x12, 0x34, 0x01, 0, 0, 1, 0, 0, 0, 0, 0, 0, 1, b'a', 0, (qtype >> 8) as u8, qtype as u8, 0, 1]
}
const QEND_A: usize = 19;

/// header + question `. <qtype> IN`; the question ends at 17
fn req_root(qtype: u16) -> [u8; 17] {
    [0x12, 0x34, 0x01, 0, 0, 1, 0, 0, 0, 0, 0, 0, 0, (qtype >> 8) as u8, qtype as u8, 0, 1]
}
const QEND_ROOT: usize = 17;

/// a symbolic size limit between "the question fits" and the buffer size
fn any_limit(qend: usize, max: usize) -> usize {
    let l: usize = kani::any();
    kani::assume(l >= qend && l <= max);
    l
}

// --------------------------------------------------------------------------
// 0. inputs
// --------------------------------------------------------------------------

fn model_agrees(target: &[u8], zone: PN, expect: bool) {
    // the name server name as do_referral obtains it: parsed from NS RDATA
    let ns = Name::try_from_uncompressed_all(target).unwrap();
    let real = ns.eq_or_subdomain_of(zone.name());
    assert!(real == subdomain_model(&ns, zone.name()), "[C05] stub N1: model and Name::eq_or_subdomain_of disagree");
    assert!(real == expect, "[C05] harness: in-bailiwick status of a scenario is not what the harness states");
}

// @harness name=c05_subdomain_model props=C05 tier=quick mem=3 t=900 kani="--no-assertion-reach-checks" cbmc="--max-field-sensitivity-array-size 256 --unwindset _RNCNvMs_NtNtCskjFBwtpsoHr_8quandary7message6writerNtB6_6Writer30write_compressed_unhinted_name0Ba_.0:4,_RNCNvMs_NtNtCskjFBwtpsoHr_8quandary7message6writerNtB6_6Writer30write_compressed_unhinted_names_0Ba_.0:4,_RNvMs_NtNtCskjFBwtpsoHr_8quandary7message6writerNtB4_6Writer30write_compressed_unhinted_name.0:4,_RNvMs_NtNtCskjFBwtpsoHr_8quandary7message6writerNtB4_6Writer30write_compressed_unhinted_name.1:4,_RINvNvMNtNtCs8xvirJzNMvV_4core5slice5asciiSh27eq_ignore_ascii_case_chunks21eq_ignore_ascii_innerKj10_ECskjFBwtpsoHr_8quandary.0:3,_RNvMNtNtCs8xvirJzNMvV_4core5slice5asciiSh27eq_ignore_ascii_case_simpleCskjFBwtpsoHr_8quandary.0:3,_RINvMNtNtCs8xvirJzNMvV_4core5slice5asciiSh27eq_ignore_ascii_case_chunksKj10_ECskjFBwtpsoHr_8quandary.0:3,_RNvNtNtCskjFBwtpsoHr_8quandary4name4wire23parse_uncompressed_name.0:5,_RNvMs_NtCskjFBwtpsoHr_8quandary4nameNtB4_4Name15initialize_into.0:5,_RINvNtCs8xvirJzNMvV_4core3ptr9drop_glueSTjINtNtCs6xMQmN1AWUs_5alloc5boxed3BoxNtNtCskjFBwtpsoHr_8quandary4name4NameEEEB1h_.0:3,_RINvNtNtCskjFBwtpsoHr_8quandary6server5query11do_referralNtNtB2_10kani_query8MockZoneEB6_.0:2,_RINvNtNtCskjFBwtpsoHr_8quandary6server5query11do_referralNtNtB2_10kani_query8MockZoneEB6_.1:2,_RINvNtNtCskjFBwtpsoHr_8quandary6server5query11do_referralNtNtB2_10kani_query8MockZoneEB6_.2:2"
//   fn="Name::eq_or_subdomain_of,Name::try_from_uncompressed_all"
//   bound="the (name server, cut) pairs of the referral harnesses: (b.a., a.) (c., a.) (a., a.) (b., b.) and (a., b.a.) (., a.); concrete; unwind 7"
//   sym="none (justifies stub N1)"
#[kani::proof]
#[kani::unwind(7)]
fn c05_subdomain_model() {
    model_agrees(P_BA.wire(), P_A, true);
    model_agrees(P_C.wire(), P_A, false);
    model_agrees(P_A.wire(), P_A, true);
    model_agrees(P_B.wire(), P_B, true);
    model_agrees(P_A.wire(), P_BA, false);
    model_agrees(P_ROOT.wire(), P_A, false);
    kani::cover!(true, "pairs compared");
}

fn same_as_parsed(p: PN, n_labels: usize) {
    let v = p.name();
    let wire = p.wire();
    let (parsed, used) = Name::try_from_uncompressed(wire).unwrap();
    assert!(used == wire.len(), "[C05] input sanity: wire form is one whole name");
    assert!(v.len() == parsed.len() && v.len() == n_labels, "[C05] input sanity: label count");
    assert!(v.wire_repr().len() == wire.len(), "[C05] input sanity: wire length");
    let mut i = 0;
    while i < wire.len() {
        assert!(v.wire_repr()[i] == parsed.wire_repr()[i] && v.wire_repr()[i] == wire[i], "[C05] input sanity: wire octets");
        i += 1;
    }
    let mut k = 0;
    while k < n_labels {
        assert!(v.wire_repr_to(k).len() == parsed.wire_repr_to(k).len(), "[C05] input sanity: label offsets");
        k += 1;
    }
}

/// the RDATA set view `raw` iterates to exactly the RDATA `want`
fn set_is(raw: &[u8], want: &[&[u8]]) {
    let set = rdataset_view(raw);
    let mut it = set.iter();
    let mut k = 0;
    while k < want.len() {
        let x = it.next().unwrap().octets();
        assert!(x.len() == want[k].len(), "[C05] input sanity: RDATA length in a set view");
        let i: usize = kani::any();
        kani::assume(i < want[k].len());
        assert!(x[i] == want[k][i], "[C05] input sanity: RDATA octets in a set view");
        k += 1;
    }
    assert!(it.next().is_none(), "[C05] input sanity: number of RDATA in a set view");
}

// @harness name=c05_inputs_wellformed props=C05 tier=quick mem=3 t=600 kani="--no-assertion-reach-checks" cbmc="--max-field-sensitivity-array-size 256 --unwindset _RNCNvMs_NtNtCskjFBwtpsoHr_8quandary7message6writerNtB6_6Writer30write_compressed_unhinted_name0Ba_.0:4,_RNCNvMs_NtNtCskjFBwtpsoHr_8quandary7message6writerNtB6_6Writer30write_compressed_unhinted_names_0Ba_.0:4,_RNvMs_NtNtCskjFBwtpsoHr_8quandary7message6writerNtB4_6Writer30write_compressed_unhinted_name.0:4,_RNvMs_NtNtCskjFBwtpsoHr_8quandary7message6writerNtB4_6Writer30write_compressed_unhinted_name.1:4,_RINvNvMNtNtCs8xvirJzNMvV_4core5slice5asciiSh27eq_ignore_ascii_case_chunks21eq_ignore_ascii_innerKj10_ECskjFBwtpsoHr_8quandary.0:3,_RNvMNtNtCs8xvirJzNMvV_4core5slice5asciiSh27eq_ignore_ascii_case_simpleCskjFBwtpsoHr_8quandary.0:3,_RINvMNtNtCs8xvirJzNMvV_4core5slice5asciiSh27eq_ignore_ascii_case_chunksKj10_ECskjFBwtpsoHr_8quandary.0:3,_RNvNtNtCskjFBwtpsoHr_8quandary4name4wire23parse_uncompressed_name.0:5,_RNvMs_NtCskjFBwtpsoHr_8quandary4nameNtB4_4Name15initialize_into.0:5,_RINvNtCs8xvirJzNMvV_4core3ptr9drop_glueSTjINtNtCs6xMQmN1AWUs_5alloc5boxed3BoxNtNtCskjFBwtpsoHr_8quandary4name4NameEEEB1h_.0:3,_RINvNtNtCskjFBwtpsoHr_8quandary6server5query11do_referralNtNtB2_10kani_query8MockZoneEB6_.0:2,_RINvNtNtCskjFBwtpsoHr_8quandary6server5query11do_referralNtNtB2_10kani_query8MockZoneEB6_.1:2,_RINvNtNtCskjFBwtpsoHr_8quandary6server5query11do_referralNtNtB2_10kani_query8MockZoneEB6_.2:2"
//   fn="Name::try_from_uncompressed,Name::wire_repr,Name::wire_repr_to,RdataSet::iter,RdataSetOwned::from"
//   bound="the pool names . a. .. j. b.a. *. and every RDATA set layout used by the family; concrete shapes; unwind 8"
//   sym="SOA words and MINIMUM, A/AAAA octets, MX preference (layout check only)"
#[kani::proof]
#[kani::unwind(8)]
fn c05_inputs_wellformed() {
    same_as_parsed(P_ROOT, 1);
    same_as_parsed(P_A, 2);
    same_as_parsed(P_B, 2);
    same_as_parsed(P_C, 2);
    same_as_parsed(P_D, 2);
    same_as_parsed(P_E, 2);
    same_as_parsed(P_F, 2);
    same_as_parsed(P_G, 2);
    same_as_parsed(P_H, 2);
    same_as_parsed(P_I, 2);
    same_as_parsed(P_J, 2);
    same_as_parsed(P_BA, 3);
    same_as_parsed(P_STAR, 2);
    assert!(P_ROOT.name().is_root() && P_ROOT.name().wire_repr().len() == 1, "[C05] input sanity: root");
    let w: [u8; 4] = kani::any();
    let m: [u8; 4] = kani::any();
    let raw = soa_raw(w, m);
    let soa = [0u8, 0, 0, 0, 0, w[0], 0, 0, 0, w[1], 0, 0, 0, w[2], 0, 0, 0, w[3], m[0], m[1], m[2], m[3]];
    set_is(&raw, &[&soa]);
    // ... and the view is what the public constructor builds
    let rd: &Rdata = (&raw[2..]).try_into().unwrap();
    let owned = RdataSetOwned::from(rd);
    let y = owned.iter().next().unwrap().octets();
    let i: usize = kani::any();
    kani::assume(i < 22);
    assert!(y.len() == 22 && y[i] == soa[i], "[C05] input sanity: SOA set view equals RdataSetOwned::from");
    let o: [u8; 4] = kani::any();
    let p: [u8; 4] = kani::any();
    set_is(&a_raw(o), &[&o]);
    set_is(&a2_raw(o, p), &[&o, &p]);
    let q: [u8; 16] = kani::any();
    set_is(&aaaa_raw(q), &[&q]);
    set_is(&name1_raw(b'b'), &[P_B.wire()]);
    set_is(&name_ba_raw(), &[P_BA.wire()]);
    set_is(&ns_a_c_raw(), &[P_A.wire(), P_C.wire()]);
    let pr: [u8; 2] = kani::any();
    set_is(&mx_b_raw(pr), &[&[pr[0], pr[1], 1, b'b', 0]]);
    let sv: [u8; 6] = kani::any();
    set_is(&srv_b_raw(sv), &[&[sv[0], sv[1], sv[2], sv[3], sv[4], sv[5], 1, b'b', 0]]);
    kani::cover!(true, "inputs compared");
}

// --------------------------------------------------------------------------
// 1. negative answers (RFC 2308)
// --------------------------------------------------------------------------

/// The negative-caching SOA when MINIMUM has its top bit set is ambiguous:
/// read literally the property gives min(TTL, MINIMUM) = TTL; read with
/// RFC 2181 section 8 (such a value counts as zero) it gives 0.  Both are
/// accepted, and nothing else: the expectation follows the response only in
/// the choice between these two values.  `ttl_at`: where the TTL of the SOA
/// record is in the response.
fn soa_expectation(resp: &[u8], ttl_at: usize, soa: &SoaData) -> Exp {
    let mut e = exp_soa(P_ROOT.wire(), soa);
    if u32::from_be_bytes(soa.m) > 0x7fff_ffff && be32(resp, ttl_at) == 0 {
        e.ttl = 0;
    }
    e
}

fn negative(out: Out) {
    let soa = any_soa();
    let raw = soa_raw(soa.w, soa.m);
    let mut zone = blank_zone(soa.ttl, rdataset_view(&raw));
    zone.steps[0] = Step { name: P_A, out, synth: kani::any(), ..no_step() };
    zone.n_steps = 1;
    let req = req_a(T_A);
    let mut resp = [0u8; 64];
    let n = run(&zone, &req, P_A, true, 64, &mut resp);

    // reference: RFC 1034 4.3.2 step 3c / RFC 2308 sections 2 and 3
    let mut ex = Expect::new(QEND_A);
    ex.aa = true;
    ex.rcode = if out == Out::NxDomain { RC_NXDOMAIN } else { RC_NOERROR };
    ex.push(soa_expectation(&resp, QEND_A + 1 + 4, &soa), SOA_REC);
    check_response(&resp, n, &ex, true, 64);
    assert!(zone.calls.get() == 1, "[C05] exactly one lookup");
    let minimum = u32::from_be_bytes(soa.m);
    kani::cover!(ttl_value(soa.ttl) < minimum && minimum <= 0x7fff_ffff, "SOA TTL below MINIMUM");
    kani::cover!(ttl_value(soa.ttl) > minimum, "SOA TTL above MINIMUM");
    kani::cover!(minimum > 0x7fff_ffff, "MINIMUM with the top bit set");
}

// @harness name=c05_neg_nxdomain props=C05 panics=C05,C01 tier=quick mem=2 t=900 kani="--no-assertion-reach-checks" cbmc="--max-field-sensitivity-array-size 256 --unwindset _RNCNvMs_NtNtCskjFBwtpsoHr_8quandary7message6writerNtB6_6Writer30write_compressed_unhinted_name0Ba_.0:4,_RNCNvMs_NtNtCskjFBwtpsoHr_8quandary7message6writerNtB6_6Writer30write_compressed_unhinted_names_0Ba_.0:4,_RNvMs_NtNtCskjFBwtpsoHr_8quandary7message6writerNtB4_6Writer30write_compressed_unhinted_name.0:4,_RNvMs_NtNtCskjFBwtpsoHr_8quandary7message6writerNtB4_6Writer30write_compressed_unhinted_name.1:4,_RINvNvMNtNtCs8xvirJzNMvV_4core5slice5asciiSh27eq_ignore_ascii_case_chunks21eq_ignore_ascii_innerKj10_ECskjFBwtpsoHr_8quandary.0:3,_RNvMNtNtCs8xvirJzNMvV_4core5slice5asciiSh27eq_ignore_ascii_case_simpleCskjFBwtpsoHr_8quandary.0:3,_RINvMNtNtCs8xvirJzNMvV_4core5slice5asciiSh27eq_ignore_ascii_case_chunksKj10_ECskjFBwtpsoHr_8quandary.0:3,_RNvNtNtCskjFBwtpsoHr_8quandary4name4wire23parse_uncompressed_name.0:5,_RNvMs_NtCskjFBwtpsoHr_8quandary4nameNtB4_4Name15initialize_into.0:5,_RINvNtCs8xvirJzNMvV_4core3ptr9drop_glueSTjINtNtCs6xMQmN1AWUs_5alloc5boxed3BoxNtNtCskjFBwtpsoHr_8quandary4name4NameEEEB1h_.0:3,_RINvNtNtCskjFBwtpsoHr_8quandary6server5query11do_referralNtNtB2_10kani_query8MockZoneEB6_.0:2,_RINvNtNtCskjFBwtpsoHr_8quandary6server5query11do_referralNtNtB2_10kani_query8MockZoneEB6_.1:2,_RINvNtNtCskjFBwtpsoHr_8quandary6server5query11do_referralNtNtB2_10kani_query8MockZoneEB6_.2:2" stubs="M1,T0"
//   fn="Server::handle_non_axfr_query,answer,add_negative_caching_soa,read_soa_minimum,Writer::add_authority_rr,Writer::finish"
//   bound="UDP, limit 64; question a. A IN; zone apex root, class IN; lookup(a.) = NxDomain; SOA RDATA 22 octets (MNAME ., RNAME ., low octets of 4 words symbolic, MINIMUM full u32; MINIMUM >= 2^31: TTL 0 or min() both accepted); unwind 7"
//   sym="soa_ttl:u32, minimum:u32, 4 SOA octets, synth:bool"
proof!(c05_neg_nxdomain, 7, negative(Out::NxDomain));

// @harness name=c05_neg_norecords props=C05 panics=C05,C01 tier=thorough mem=2 t=900 kani="--no-assertion-reach-checks" cbmc="--max-field-sensitivity-array-size 256 --unwindset _RNCNvMs_NtNtCskjFBwtpsoHr_8quandary7message6writerNtB6_6Writer30write_compressed_unhinted_name0Ba_.0:4,_RNCNvMs_NtNtCskjFBwtpsoHr_8quandary7message6writerNtB6_6Writer30write_compressed_unhinted_names_0Ba_.0:4,_RNvMs_NtNtCskjFBwtpsoHr_8quandary7message6writerNtB4_6Writer30write_compressed_unhinted_name.0:4,_RNvMs_NtNtCskjFBwtpsoHr_8quandary7message6writerNtB4_6Writer30write_compressed_unhinted_name.1:4,_RINvNvMNtNtCs8xvirJzNMvV_4core5slice5asciiSh27eq_ignore_ascii_case_chunks21eq_ignore_ascii_innerKj10_ECskjFBwtpsoHr_8quandary.0:3,_RNvMNtNtCs8xvirJzNMvV_4core5slice5asciiSh27eq_ignore_ascii_case_simpleCskjFBwtpsoHr_8quandary.0:3,_RINvMNtNtCs8xvirJzNMvV_4core5slice5asciiSh27eq_ignore_ascii_case_chunksKj10_ECskjFBwtpsoHr_8quandary.0:3,_RNvNtNtCskjFBwtpsoHr_8quandary4name4wire23parse_uncompressed_name.0:5,_RNvMs_NtCskjFBwtpsoHr_8quandary4nameNtB4_4Name15initialize_into.0:5,_RINvNtCs8xvirJzNMvV_4core3ptr9drop_glueSTjINtNtCs6xMQmN1AWUs_5alloc5boxed3BoxNtNtCskjFBwtpsoHr_8quandary4name4NameEEEB1h_.0:3,_RINvNtNtCskjFBwtpsoHr_8quandary6server5query11do_referralNtNtB2_10kani_query8MockZoneEB6_.0:2,_RINvNtNtCskjFBwtpsoHr_8quandary6server5query11do_referralNtNtB2_10kani_query8MockZoneEB6_.1:2,_RINvNtNtCskjFBwtpsoHr_8quandary6server5query11do_referralNtNtB2_10kani_query8MockZoneEB6_.2:2" stubs="M1,T0"
//   fn="Server::handle_non_axfr_query,answer,add_negative_caching_soa,read_soa_minimum,Writer::add_authority_rr,Writer::finish"
//   bound="as c05_neg_nxdomain with lookup(a.) = NoRecords (possibly wildcard-synthesized); unwind 7"
//   sym="soa_ttl:u32, minimum:u32, 4 SOA octets, synth:bool"
proof!(c05_neg_norecords, 7, negative(Out::NoRecords));

/// A zone whose SOA cannot be used: none at all, or RDATA that is not
/// <name><name><20 octets>.  The reference: a server failure.
fn bad_soa(has_soa: bool, raw: &[u8], out: Out) {
    let mut zone = blank_zone(kani::any(), rdataset_view(raw));
    zone.has_soa = has_soa;
    zone.steps[0] = Step { name: P_A, out, ..no_step() };
    zone.n_steps = 1;
    let req = req_a(T_A);
    let mut resp = [0u8; 64];
    let n = run(&zone, &req, P_A, true, 64, &mut resp);
    let ex = Expect::servfail(QEND_A);
    check_response(&resp, n, &ex, true, 64);
    kani::cover!(n == QEND_A, "empty server failure");
}

// @harness name=c05_neg_no_soa props=C05 panics=C05,C01 tier=thorough mem=2 t=900 kani="--no-assertion-reach-checks" cbmc="--max-field-sensitivity-array-size 256 --unwindset _RNCNvMs_NtNtCskjFBwtpsoHr_8quandary7message6writerNtB6_6Writer30write_compressed_unhinted_name0Ba_.0:4,_RNCNvMs_NtNtCskjFBwtpsoHr_8quandary7message6writerNtB6_6Writer30write_compressed_unhinted_names_0Ba_.0:4,_RNvMs_NtNtCskjFBwtpsoHr_8quandary7message6writerNtB4_6Writer30write_compressed_unhinted_name.0:4,_RNvMs_NtNtCskjFBwtpsoHr_8quandary7message6writerNtB4_6Writer30write_compressed_unhinted_name.1:4,_RINvNvMNtNtCs8xvirJzNMvV_4core5slice5asciiSh27eq_ignore_ascii_case_chunks21eq_ignore_ascii_innerKj10_ECskjFBwtpsoHr_8quandary.0:3,_RNvMNtNtCs8xvirJzNMvV_4core5slice5asciiSh27eq_ignore_ascii_case_simpleCskjFBwtpsoHr_8quandary.0:3,_RINvMNtNtCs8xvirJzNMvV_4core5slice5asciiSh27eq_ignore_ascii_case_chunksKj10_ECskjFBwtpsoHr_8quandary.0:3,_RNvNtNtCskjFBwtpsoHr_8quandary4name4wire23parse_uncompressed_name.0:5,_RNvMs_NtCskjFBwtpsoHr_8quandary4nameNtB4_4Name15initialize_into.0:5,_RINvNtCs8xvirJzNMvV_4core3ptr9drop_glueSTjINtNtCs6xMQmN1AWUs_5alloc5boxed3BoxNtNtCskjFBwtpsoHr_8quandary4name4NameEEEB1h_.0:3,_RINvNtNtCskjFBwtpsoHr_8quandary6server5query11do_referralNtNtB2_10kani_query8MockZoneEB6_.0:2,_RINvNtNtCskjFBwtpsoHr_8quandary6server5query11do_referralNtNtB2_10kani_query8MockZoneEB6_.1:2,_RINvNtNtCskjFBwtpsoHr_8quandary6server5query11do_referralNtNtB2_10kani_query8MockZoneEB6_.2:2" stubs="M1,T0"
//   fn="Server::handle_non_axfr_query,answer,add_negative_caching_soa"
//   bound="UDP, limit 64; question a. A IN; NxDomain and NoRecords in a zone whose soa() is None; unwind 7" sym="none"
proof!(c05_neg_no_soa, 7, {
    let raw = soa_raw([0; 4], [0; 4]);
    bad_soa(false, &raw, Out::NxDomain);
    bad_soa(false, &raw, Out::NoRecords);
});

// @harness name=c05_neg_soa_short props=C05 panics=C05,C01 tier=thorough mem=2 t=900 kani="--no-assertion-reach-checks" cbmc="--max-field-sensitivity-array-size 256 --unwindset _RNCNvMs_NtNtCskjFBwtpsoHr_8quandary7message6writerNtB6_6Writer30write_compressed_unhinted_name0Ba_.0:4,_RNCNvMs_NtNtCskjFBwtpsoHr_8quandary7message6writerNtB6_6Writer30write_compressed_unhinted_names_0Ba_.0:4,_RNvMs_NtNtCskjFBwtpsoHr_8quandary7message6writerNtB4_6Writer30write_compressed_unhinted_name.0:4,_RNvMs_NtNtCskjFBwtpsoHr_8quandary7message6writerNtB4_6Writer30write_compressed_unhinted_name.1:4,_RINvNvMNtNtCs8xvirJzNMvV_4core5slice5asciiSh27eq_ignore_ascii_case_chunks21eq_ignore_ascii_innerKj10_ECskjFBwtpsoHr_8quandary.0:3,_RNvMNtNtCs8xvirJzNMvV_4core5slice5asciiSh27eq_ignore_ascii_case_simpleCskjFBwtpsoHr_8quandary.0:3,_RINvMNtNtCs8xvirJzNMvV_4core5slice5asciiSh27eq_ignore_ascii_case_chunksKj10_ECskjFBwtpsoHr_8quandary.0:3,_RNvNtNtCskjFBwtpsoHr_8quandary4name4wire23parse_uncompressed_name.0:5,_RNvMs_NtCskjFBwtpsoHr_8quandary4nameNtB4_4Name15initialize_into.0:5,_RINvNtCs8xvirJzNMvV_4core3ptr9drop_glueSTjINtNtCs6xMQmN1AWUs_5alloc5boxed3BoxNtNtCskjFBwtpsoHr_8quandary4name4NameEEEB1h_.0:3,_RINvNtNtCskjFBwtpsoHr_8quandary6server5query11do_referralNtNtB2_10kani_query8MockZoneEB6_.0:2,_RINvNtNtCskjFBwtpsoHr_8quandary6server5query11do_referralNtNtB2_10kani_query8MockZoneEB6_.1:2,_RINvNtNtCskjFBwtpsoHr_8quandary6server5query11do_referralNtNtB2_10kani_query8MockZoneEB6_.2:2" stubs="M1,T0"
//   fn="Server::handle_non_axfr_query,answer,add_negative_caching_soa,read_soa_minimum"
//   bound="UDP, limit 64; NxDomain; SOA RDATA of 21 octets (one short) and of 23 octets (one too many), contents symbolic after the two root names; unwind 7"
//   sym="19 / 21 RDATA octets"
proof!(c05_neg_soa_short, 7, {
    let x: [u8; 21] = kani::any();
    let l = 21u16.to_ne_bytes();
    let short = [
        l[0], l[1], 0, 0, x[0], x[1], x[2], x[3], x[4], x[5], x[6], x[7], x[8], x[9], x[10], x[11], x[12], x[13], x[14], x[15], x[16], x[17], x[18],
    ];
    bad_soa(true, &short, Out::NxDomain);
    let l = 23u16.to_ne_bytes();
    let long = [
        l[0], l[1], 0, 0, x[0], x[1], x[2], x[3], x[4], x[5], x[6], x[7], x[8], x[9], x[10], x[11], x[12], x[13], x[14], x[15], x[16], x[17], x[18],
        x[19], x[20],
    ];
    bad_soa(true, &long, Out::NxDomain);
});

// @harness name=c05_neg_soa_badname props=C05 panics=C05,C01 tier=thorough mem=2 t=900 kani="--no-assertion-reach-checks" cbmc="--max-field-sensitivity-array-size 256 --unwindset _RNCNvMs_NtNtCskjFBwtpsoHr_8quandary7message6writerNtB6_6Writer30write_compressed_unhinted_name0Ba_.0:4,_RNCNvMs_NtNtCskjFBwtpsoHr_8quandary7message6writerNtB6_6Writer30write_compressed_unhinted_names_0Ba_.0:4,_RNvMs_NtNtCskjFBwtpsoHr_8quandary7message6writerNtB4_6Writer30write_compressed_unhinted_name.0:4,_RNvMs_NtNtCskjFBwtpsoHr_8quandary7message6writerNtB4_6Writer30write_compressed_unhinted_name.1:4,_RINvNvMNtNtCs8xvirJzNMvV_4core5slice5asciiSh27eq_ignore_ascii_case_chunks21eq_ignore_ascii_innerKj10_ECskjFBwtpsoHr_8quandary.0:3,_RNvMNtNtCs8xvirJzNMvV_4core5slice5asciiSh27eq_ignore_ascii_case_simpleCskjFBwtpsoHr_8quandary.0:3,_RINvMNtNtCs8xvirJzNMvV_4core5slice5asciiSh27eq_ignore_ascii_case_chunksKj10_ECskjFBwtpsoHr_8quandary.0:3,_RNvNtNtCskjFBwtpsoHr_8quandary4name4wire23parse_uncompressed_name.0:5,_RNvMs_NtCskjFBwtpsoHr_8quandary4nameNtB4_4Name15initialize_into.0:5,_RINvNtCs8xvirJzNMvV_4core3ptr9drop_glueSTjINtNtCs6xMQmN1AWUs_5alloc5boxed3BoxNtNtCskjFBwtpsoHr_8quandary4name4NameEEEB1h_.0:3,_RINvNtNtCskjFBwtpsoHr_8quandary6server5query11do_referralNtNtB2_10kani_query8MockZoneEB6_.0:2,_RINvNtNtCskjFBwtpsoHr_8quandary6server5query11do_referralNtNtB2_10kani_query8MockZoneEB6_.1:2,_RINvNtNtCskjFBwtpsoHr_8quandary6server5query11do_referralNtNtB2_10kani_query8MockZoneEB6_.2:2" stubs="M1,T0"
//   fn="Server::handle_non_axfr_query,answer,add_negative_caching_soa,read_soa_minimum,Name::validate_uncompressed"
//   bound="UDP, limit 64; NoRecords; three SOA RDATA of 22 octets: MNAME starting with label length 64 (too long), MNAME starting with 0xc0 (a compression pointer), RNAME whose label runs past the end; unwind 7"
//   sym="SOA TTL"
proof!(c05_neg_soa_badname, 7, {
    let l = 22u16.to_ne_bytes();
    let long_label = [l[0], l[1], 64, 0, 0, 0, 0, 0, 0, 0, 0, 0, 0, 0, 0, 0, 0, 0, 0, 0, 0, 0, 0, 0];
    bad_soa(true, &long_label, Out::NoRecords);
    let pointer = [l[0], l[1], 0xc0, 0, 0, 0, 0, 0, 0, 0, 0, 0, 0, 0, 0, 0, 0, 0, 0, 0, 0, 0, 0, 0];
    bad_soa(true, &pointer, Out::NoRecords);
    let bad_rname = [l[0], l[1], 0, 63, 0, 0, 0, 0, 0, 0, 0, 0, 0, 0, 0, 0, 0, 0, 0, 0, 0, 0, 0, 0];
    bad_soa(true, &bad_rname, Out::NoRecords);
});

// --------------------------------------------------------------------------
// 2. positive answers (RFC 1034 4.3.2 steps 3a, 4, 6)
// --------------------------------------------------------------------------

// @harness name=c05_found_a props=C05 panics=C05,C01 tier=quick mem=2 t=900 kani="--no-assertion-reach-checks" cbmc="--max-field-sensitivity-array-size 256 --unwindset _RNCNvMs_NtNtCskjFBwtpsoHr_8quandary7message6writerNtB6_6Writer30write_compressed_unhinted_name0Ba_.0:4,_RNCNvMs_NtNtCskjFBwtpsoHr_8quandary7message6writerNtB6_6Writer30write_compressed_unhinted_names_0Ba_.0:4,_RNvMs_NtNtCskjFBwtpsoHr_8quandary7message6writerNtB4_6Writer30write_compressed_unhinted_name.0:4,_RNvMs_NtNtCskjFBwtpsoHr_8quandary7message6writerNtB4_6Writer30write_compressed_unhinted_name.1:4,_RINvNvMNtNtCs8xvirJzNMvV_4core5slice5asciiSh27eq_ignore_ascii_case_chunks21eq_ignore_ascii_innerKj10_ECskjFBwtpsoHr_8quandary.0:3,_RNvMNtNtCs8xvirJzNMvV_4core5slice5asciiSh27eq_ignore_ascii_case_simpleCskjFBwtpsoHr_8quandary.0:3,_RINvMNtNtCs8xvirJzNMvV_4core5slice5asciiSh27eq_ignore_ascii_case_chunksKj10_ECskjFBwtpsoHr_8quandary.0:3,_RNvNtNtCskjFBwtpsoHr_8quandary4name4wire23parse_uncompressed_name.0:5,_RNvMs_NtCskjFBwtpsoHr_8quandary4nameNtB4_4Name15initialize_into.0:5,_RINvNtCs8xvirJzNMvV_4core3ptr9drop_glueSTjINtNtCs6xMQmN1AWUs_5alloc5boxed3BoxNtNtCskjFBwtpsoHr_8quandary4name4NameEEEB1h_.0:3,_RINvNtNtCskjFBwtpsoHr_8quandary6server5query11do_referralNtNtB2_10kani_query8MockZoneEB6_.0:2,_RINvNtNtCskjFBwtpsoHr_8quandary6server5query11do_referralNtNtB2_10kani_query8MockZoneEB6_.1:2,_RINvNtNtCskjFBwtpsoHr_8quandary6server5query11do_referralNtNtB2_10kani_query8MockZoneEB6_.2:2" stubs="M1,T0"
//   fn="Server::handle_non_axfr_query,answer,do_additional_section_processing,Writer::add_answer_rrset,Writer::finish"
//   bound="UDP, limit 64; question a. A IN; lookup(a.) = Found(A RRset of one RDATA), synthesized from *. or not; unwind 7"
//   sym="ttl:u32, 4 RDATA octets, synth:bool"
proof!(c05_found_a, 7, {
    let ttl: u32 = kani::any();
    let o: [u8; 4] = kani::any();
    let araw = a_raw(o);
    let sraw = soa_raw([0; 4], [0; 4]);
    let mut zone = blank_zone(0, rdataset_view(&sraw));
    zone.steps[0] = Step { name: P_A, out: Out::Found, ttl, rd: rdataset_view(&araw), synth: kani::any(), ..no_step() };
    zone.n_steps = 1;
    let req = req_a(T_A);
    let mut resp = [0u8; 64];
    let n = run(&zone, &req, P_A, true, 64, &mut resp);

    // reference: the RRset with owner QNAME (also for a wildcard match), AA
    let mut ex = Expect::new(QEND_A);
    ex.aa = true;
    ex.push(exp_a(1, P_A.wire(), T_A, ttl, o), A_REC);
    check_response(&resp, n, &ex, true, 64);
    assert!(zone.calls.get() == 1, "[C05] exactly one lookup");
    kani::cover!(ttl == 3600 && o[0] == 192, "ordinary answer");
    kani::cover!(ttl > 0x7fff_ffff, "TTL with the top bit set");
});

// @harness name=c05_found_a2 props=C05 panics=C05,C01 tier=thorough mem=2 t=900 kani="--no-assertion-reach-checks" cbmc="--max-field-sensitivity-array-size 256 --unwindset _RNCNvMs_NtNtCskjFBwtpsoHr_8quandary7message6writerNtB6_6Writer30write_compressed_unhinted_name0Ba_.0:4,_RNCNvMs_NtNtCskjFBwtpsoHr_8quandary7message6writerNtB6_6Writer30write_compressed_unhinted_names_0Ba_.0:4,_RNvMs_NtNtCskjFBwtpsoHr_8quandary7message6writerNtB4_6Writer30write_compressed_unhinted_name.0:4,_RNvMs_NtNtCskjFBwtpsoHr_8quandary7message6writerNtB4_6Writer30write_compressed_unhinted_name.1:4,_RINvNvMNtNtCs8xvirJzNMvV_4core5slice5asciiSh27eq_ignore_ascii_case_chunks21eq_ignore_ascii_innerKj10_ECskjFBwtpsoHr_8quandary.0:3,_RNvMNtNtCs8xvirJzNMvV_4core5slice5asciiSh27eq_ignore_ascii_case_simpleCskjFBwtpsoHr_8quandary.0:3,_RINvMNtNtCs8xvirJzNMvV_4core5slice5asciiSh27eq_ignore_ascii_case_chunksKj10_ECskjFBwtpsoHr_8quandary.0:3,_RNvNtNtCskjFBwtpsoHr_8quandary4name4wire23parse_uncompressed_name.0:5,_RNvMs_NtCskjFBwtpsoHr_8quandary4nameNtB4_4Name15initialize_into.0:5,_RINvNtCs8xvirJzNMvV_4core3ptr9drop_glueSTjINtNtCs6xMQmN1AWUs_5alloc5boxed3BoxNtNtCskjFBwtpsoHr_8quandary4name4NameEEEB1h_.0:3,_RINvNtNtCskjFBwtpsoHr_8quandary6server5query11do_referralNtNtB2_10kani_query8MockZoneEB6_.0:2,_RINvNtNtCskjFBwtpsoHr_8quandary6server5query11do_referralNtNtB2_10kani_query8MockZoneEB6_.1:2,_RINvNtNtCskjFBwtpsoHr_8quandary6server5query11do_referralNtNtB2_10kani_query8MockZoneEB6_.2:2" stubs="M1,T0"
//   fn="Server::handle_non_axfr_query,answer,Writer::add_answer_rrset,Writer::add_rrset"
//   bound="UDP, limit 64; question a. A IN; lookup(a.) = Found(A RRset of two RDATA, equal or not); unwind 7"
//   sym="ttl:u32, 8 RDATA octets"
proof!(c05_found_a2, 7, {
    let ttl: u32 = kani::any();
    let o: [u8; 4] = kani::any();
    let p: [u8; 4] = kani::any();
    let araw = a2_raw(o, p);
    let sraw = soa_raw([0; 4], [0; 4]);
    let mut zone = blank_zone(0, rdataset_view(&sraw));
    zone.steps[0] = Step { name: P_A, out: Out::Found, ttl, rd: rdataset_view(&araw), ..no_step() };
    zone.n_steps = 1;
    let req = req_a(T_A);
    let mut resp = [0u8; 64];
    let n = run(&zone, &req, P_A, true, 64, &mut resp);
    let mut ex = Expect::new(QEND_A);
    ex.aa = true;
    ex.push(exp_a(1, P_A.wire(), T_A, ttl, o), A_REC);
    ex.push(exp_a(1, P_A.wire(), T_A, ttl, p), A_REC);
    check_response(&resp, n, &ex, true, 64);
    kani::cover!(word(o) != word(p), "two different addresses");
});

/// Found(<rtype> RRset whose one RDATA names 'b.') with additional-section
/// processing (RFC 1035 3.3.9/3.3.11, RFC 2782).  `rtype`: T_MX (2 octets
/// before the name), T_SRV (6), T_NS (0).  `presence`: which of A / AAAA the
/// target has.
fn found_target(rtype: u16, udp: bool, limit: usize, has_a: bool, has_aaaa: bool) -> (u8, usize) {
    let ttl: u32 = kani::any();
    let lead: [u8; 6] = kani::any();
    let d = addr_with(has_a, has_aaaa);
    let mraw = mx_b_raw([lead[0], lead[1]]);
    let sraw_ = srv_b_raw(lead);
    let nraw = name1_raw(b'b');
    let a4 = a_raw(d.a);
    let a6 = aaaa_raw(d.aaaa);
    let sraw = soa_raw([0; 4], [0; 4]);
    let mut zone = blank_zone(0, rdataset_view(&sraw));
    let (rd, n_lead) = if rtype == T_MX {
        (rdataset_view(&mraw), 2)
    } else if rtype == T_SRV {
        (rdataset_view(&sraw_), 6)
    } else {
        (rdataset_view(&nraw), 0)
    };
    zone.steps[0] = Step { name: P_A, out: Out::Found, ttl, rd, ..no_step() };
    zone.n_steps = 1;
    zone.asteps[0] = astep_of(P_B, false, &d, rdataset_view(&a4), rdataset_view(&a6));
    zone.n_asteps = 1;
    let req = req_a(rtype);
    let mut resp = [0u8; 64];
    let n = run(&zone, &req, P_A, udp, limit, &mut resp);

    // reference: the RRset; addresses of the target are useful additional
    // data, optional (RFC 2181 section 9)
    let mut ex = Expect::new(QEND_A);
    ex.aa = true;
    // owner pointer + 10 + fixed octets + 'b.' written out
    ex.push(exp_lead_name(1, P_A.wire(), rtype, ttl, lead, n_lead, P_B.wire()), 2 + 10 + n_lead + 3);
    push_addrs(&mut ex, P_B.wire(), &d, true);
    (check_response(&resp, n, &ex, udp, limit), n)
}

// @harness name=c05_found_mx props=C05,C04 panics=C05,C01 tier=quick mem=2 t=1800 kani="--no-assertion-reach-checks" cbmc="--max-field-sensitivity-array-size 256 --unwindset _RNCNvMs_NtNtCskjFBwtpsoHr_8quandary7message6writerNtB6_6Writer30write_compressed_unhinted_name0Ba_.0:4,_RNCNvMs_NtNtCskjFBwtpsoHr_8quandary7message6writerNtB6_6Writer30write_compressed_unhinted_names_0Ba_.0:4,_RNvMs_NtNtCskjFBwtpsoHr_8quandary7message6writerNtB4_6Writer30write_compressed_unhinted_name.0:4,_RNvMs_NtNtCskjFBwtpsoHr_8quandary7message6writerNtB4_6Writer30write_compressed_unhinted_name.1:4,_RINvNvMNtNtCs8xvirJzNMvV_4core5slice5asciiSh27eq_ignore_ascii_case_chunks21eq_ignore_ascii_innerKj10_ECskjFBwtpsoHr_8quandary.0:3,_RNvMNtNtCs8xvirJzNMvV_4core5slice5asciiSh27eq_ignore_ascii_case_simpleCskjFBwtpsoHr_8quandary.0:3,_RINvMNtNtCs8xvirJzNMvV_4core5slice5asciiSh27eq_ignore_ascii_case_chunksKj10_ECskjFBwtpsoHr_8quandary.0:3,_RNvNtNtCskjFBwtpsoHr_8quandary4name4wire23parse_uncompressed_name.0:5,_RNvMs_NtCskjFBwtpsoHr_8quandary4nameNtB4_4Name15initialize_into.0:5,_RINvNtCs8xvirJzNMvV_4core3ptr9drop_glueSTjINtNtCs6xMQmN1AWUs_5alloc5boxed3BoxNtNtCskjFBwtpsoHr_8quandary4name4NameEEEB1h_.0:3,_RINvNtNtCskjFBwtpsoHr_8quandary6server5query11do_referralNtNtB2_10kani_query8MockZoneEB6_.0:2,_RINvNtNtCskjFBwtpsoHr_8quandary6server5query11do_referralNtNtB2_10kani_query8MockZoneEB6_.1:2,_RINvNtNtCskjFBwtpsoHr_8quandary6server5query11do_referralNtNtB2_10kani_query8MockZoneEB6_.2:2" stubs="M1,T0"
//   fn="Server::handle_non_axfr_query,answer,do_additional_section_processing,add_additional_addresses,execute_allowing_truncation,read_name_from_rdata,Writer::add_answer_rrset,Writer::add_additional_rrset"
//   bound="UDP, limit 64; question a. MX IN; lookup(a.) = Found(MX .. b.); lookup_addrs(b.) = Found with an A: 52 octets, complete; unwind 7"
//   sym="TTL of the RRset, fixed RDATA octets, TTLs and octets of the address records"
proof!(c05_found_mx, 7, {
    let (case, n) = found_target(T_MX, true, 64, true, false);
    kani::cover!(case == COMPLETE && n == 52, "MX answer with the A of the exchange");
});

// @harness name=c05_found_mx_both props=C05,C04 panics=C05,C01 tier=thorough mem=2 t=1800 kani="--no-assertion-reach-checks" cbmc="--max-field-sensitivity-array-size 256 --unwindset _RNCNvMs_NtNtCskjFBwtpsoHr_8quandary7message6writerNtB6_6Writer30write_compressed_unhinted_name0Ba_.0:4,_RNCNvMs_NtNtCskjFBwtpsoHr_8quandary7message6writerNtB6_6Writer30write_compressed_unhinted_names_0Ba_.0:4,_RNvMs_NtNtCskjFBwtpsoHr_8quandary7message6writerNtB4_6Writer30write_compressed_unhinted_name.0:4,_RNvMs_NtNtCskjFBwtpsoHr_8quandary7message6writerNtB4_6Writer30write_compressed_unhinted_name.1:4,_RINvNvMNtNtCs8xvirJzNMvV_4core5slice5asciiSh27eq_ignore_ascii_case_chunks21eq_ignore_ascii_innerKj10_ECskjFBwtpsoHr_8quandary.0:3,_RNvMNtNtCs8xvirJzNMvV_4core5slice5asciiSh27eq_ignore_ascii_case_simpleCskjFBwtpsoHr_8quandary.0:3,_RINvMNtNtCs8xvirJzNMvV_4core5slice5asciiSh27eq_ignore_ascii_case_chunksKj10_ECskjFBwtpsoHr_8quandary.0:3,_RNvNtNtCskjFBwtpsoHr_8quandary4name4wire23parse_uncompressed_name.0:5,_RNvMs_NtCskjFBwtpsoHr_8quandary4nameNtB4_4Name15initialize_into.0:5,_RINvNtCs8xvirJzNMvV_4core3ptr9drop_glueSTjINtNtCs6xMQmN1AWUs_5alloc5boxed3BoxNtNtCskjFBwtpsoHr_8quandary4name4NameEEEB1h_.0:3,_RINvNtNtCskjFBwtpsoHr_8quandary6server5query11do_referralNtNtB2_10kani_query8MockZoneEB6_.0:2,_RINvNtNtCskjFBwtpsoHr_8quandary6server5query11do_referralNtNtB2_10kani_query8MockZoneEB6_.1:2,_RINvNtNtCskjFBwtpsoHr_8quandary6server5query11do_referralNtNtB2_10kani_query8MockZoneEB6_.2:2" stubs="M1,T0"
//   fn="Server::handle_non_axfr_query,answer,do_additional_section_processing,add_additional_addresses,execute_allowing_truncation,read_name_from_rdata,Writer::add_answer_rrset,Writer::add_additional_rrset"
//   bound="UDP, limit 64; question a. MX IN; lookup(a.) = Found(MX .. b.); lookup_addrs(b.) = Found with A and AAAA: 80 octets needed: the AAAA is optional data and is dropped, no TC; unwind 7"
//   sym="TTL of the RRset, fixed RDATA octets, TTLs and octets of the address records"
proof!(c05_found_mx_both, 7, {
    let (case, n) = found_target(T_MX, true, 64, true, true);
    kani::cover!(case == PARTIAL && n == 52, "AAAA of the exchange dropped without TC");
});

// @harness name=c05_found_mx_aaaa props=C05,C04 panics=C05,C01 tier=thorough mem=2 t=1800 kani="--no-assertion-reach-checks" cbmc="--max-field-sensitivity-array-size 256 --unwindset _RNCNvMs_NtNtCskjFBwtpsoHr_8quandary7message6writerNtB6_6Writer30write_compressed_unhinted_name0Ba_.0:4,_RNCNvMs_NtNtCskjFBwtpsoHr_8quandary7message6writerNtB6_6Writer30write_compressed_unhinted_names_0Ba_.0:4,_RNvMs_NtNtCskjFBwtpsoHr_8quandary7message6writerNtB4_6Writer30write_compressed_unhinted_name.0:4,_RNvMs_NtNtCskjFBwtpsoHr_8quandary7message6writerNtB4_6Writer30write_compressed_unhinted_name.1:4,_RINvNvMNtNtCs8xvirJzNMvV_4core5slice5asciiSh27eq_ignore_ascii_case_chunks21eq_ignore_ascii_innerKj10_ECskjFBwtpsoHr_8quandary.0:3,_RNvMNtNtCs8xvirJzNMvV_4core5slice5asciiSh27eq_ignore_ascii_case_simpleCskjFBwtpsoHr_8quandary.0:3,_RINvMNtNtCs8xvirJzNMvV_4core5slice5asciiSh27eq_ignore_ascii_case_chunksKj10_ECskjFBwtpsoHr_8quandary.0:3,_RNvNtNtCskjFBwtpsoHr_8quandary4name4wire23parse_uncompressed_name.0:5,_RNvMs_NtCskjFBwtpsoHr_8quandary4nameNtB4_4Name15initialize_into.0:5,_RINvNtCs8xvirJzNMvV_4core3ptr9drop_glueSTjINtNtCs6xMQmN1AWUs_5alloc5boxed3BoxNtNtCskjFBwtpsoHr_8quandary4name4NameEEEB1h_.0:3,_RINvNtNtCskjFBwtpsoHr_8quandary6server5query11do_referralNtNtB2_10kani_query8MockZoneEB6_.0:2,_RINvNtNtCskjFBwtpsoHr_8quandary6server5query11do_referralNtNtB2_10kani_query8MockZoneEB6_.1:2,_RINvNtNtCskjFBwtpsoHr_8quandary6server5query11do_referralNtNtB2_10kani_query8MockZoneEB6_.2:2" stubs="M1,T0"
//   fn="Server::handle_non_axfr_query,answer,do_additional_section_processing,add_additional_addresses,execute_allowing_truncation,read_name_from_rdata,Writer::add_answer_rrset,Writer::add_additional_rrset"
//   bound="UDP, limit 64; question a. MX IN; lookup(a.) = Found(MX .. b.); lookup_addrs(b.) = Found with an AAAA: 64 octets, fits exactly; unwind 7"
//   sym="TTL of the RRset, fixed RDATA octets, TTLs and octets of the address records"
proof!(c05_found_mx_aaaa, 7, {
    let (case, n) = found_target(T_MX, true, 64, false, true);
    kani::cover!(case == COMPLETE && n == 64, "MX answer with the AAAA of the exchange");
});

// @harness name=c05_found_mx_none props=C05,C04 panics=C05,C01 tier=thorough mem=2 t=1800 kani="--no-assertion-reach-checks" cbmc="--max-field-sensitivity-array-size 256 --unwindset _RNCNvMs_NtNtCskjFBwtpsoHr_8quandary7message6writerNtB6_6Writer30write_compressed_unhinted_name0Ba_.0:4,_RNCNvMs_NtNtCskjFBwtpsoHr_8quandary7message6writerNtB6_6Writer30write_compressed_unhinted_names_0Ba_.0:4,_RNvMs_NtNtCskjFBwtpsoHr_8quandary7message6writerNtB4_6Writer30write_compressed_unhinted_name.0:4,_RNvMs_NtNtCskjFBwtpsoHr_8quandary7message6writerNtB4_6Writer30write_compressed_unhinted_name.1:4,_RINvNvMNtNtCs8xvirJzNMvV_4core5slice5asciiSh27eq_ignore_ascii_case_chunks21eq_ignore_ascii_innerKj10_ECskjFBwtpsoHr_8quandary.0:3,_RNvMNtNtCs8xvirJzNMvV_4core5slice5asciiSh27eq_ignore_ascii_case_simpleCskjFBwtpsoHr_8quandary.0:3,_RINvMNtNtCs8xvirJzNMvV_4core5slice5asciiSh27eq_ignore_ascii_case_chunksKj10_ECskjFBwtpsoHr_8quandary.0:3,_RNvNtNtCskjFBwtpsoHr_8quandary4name4wire23parse_uncompressed_name.0:5,_RNvMs_NtCskjFBwtpsoHr_8quandary4nameNtB4_4Name15initialize_into.0:5,_RINvNtCs8xvirJzNMvV_4core3ptr9drop_glueSTjINtNtCs6xMQmN1AWUs_5alloc5boxed3BoxNtNtCskjFBwtpsoHr_8quandary4name4NameEEEB1h_.0:3,_RINvNtNtCskjFBwtpsoHr_8quandary6server5query11do_referralNtNtB2_10kani_query8MockZoneEB6_.0:2,_RINvNtNtCskjFBwtpsoHr_8quandary6server5query11do_referralNtNtB2_10kani_query8MockZoneEB6_.1:2,_RINvNtNtCskjFBwtpsoHr_8quandary6server5query11do_referralNtNtB2_10kani_query8MockZoneEB6_.2:2" stubs="M1,T0"
//   fn="Server::handle_non_axfr_query,answer,do_additional_section_processing,add_additional_addresses,execute_allowing_truncation,read_name_from_rdata,Writer::add_answer_rrset,Writer::add_additional_rrset"
//   bound="UDP, limit 64; question a. MX IN; lookup(a.) = Found(MX .. b.); lookup_addrs(b.) = Found with no address record: 36 octets, no additional data; unwind 7"
//   sym="TTL of the RRset, fixed RDATA octets, TTLs and octets of the address records"
proof!(c05_found_mx_none, 7, {
    let (case, n) = found_target(T_MX, true, 64, false, false);
    kani::cover!(case == COMPLETE && n == 36, "MX answer without additional data");
});

// @harness name=c05_found_ns props=C05,C04 panics=C05,C01 tier=thorough mem=2 t=1800 kani="--no-assertion-reach-checks" cbmc="--max-field-sensitivity-array-size 256 --unwindset _RNCNvMs_NtNtCskjFBwtpsoHr_8quandary7message6writerNtB6_6Writer30write_compressed_unhinted_name0Ba_.0:4,_RNCNvMs_NtNtCskjFBwtpsoHr_8quandary7message6writerNtB6_6Writer30write_compressed_unhinted_names_0Ba_.0:4,_RNvMs_NtNtCskjFBwtpsoHr_8quandary7message6writerNtB4_6Writer30write_compressed_unhinted_name.0:4,_RNvMs_NtNtCskjFBwtpsoHr_8quandary7message6writerNtB4_6Writer30write_compressed_unhinted_name.1:4,_RINvNvMNtNtCs8xvirJzNMvV_4core5slice5asciiSh27eq_ignore_ascii_case_chunks21eq_ignore_ascii_innerKj10_ECskjFBwtpsoHr_8quandary.0:3,_RNvMNtNtCs8xvirJzNMvV_4core5slice5asciiSh27eq_ignore_ascii_case_simpleCskjFBwtpsoHr_8quandary.0:3,_RINvMNtNtCs8xvirJzNMvV_4core5slice5asciiSh27eq_ignore_ascii_case_chunksKj10_ECskjFBwtpsoHr_8quandary.0:3,_RNvNtNtCskjFBwtpsoHr_8quandary4name4wire23parse_uncompressed_name.0:5,_RNvMs_NtCskjFBwtpsoHr_8quandary4nameNtB4_4Name15initialize_into.0:5,_RINvNtCs8xvirJzNMvV_4core3ptr9drop_glueSTjINtNtCs6xMQmN1AWUs_5alloc5boxed3BoxNtNtCskjFBwtpsoHr_8quandary4name4NameEEEB1h_.0:3,_RINvNtNtCskjFBwtpsoHr_8quandary6server5query11do_referralNtNtB2_10kani_query8MockZoneEB6_.0:2,_RINvNtNtCskjFBwtpsoHr_8quandary6server5query11do_referralNtNtB2_10kani_query8MockZoneEB6_.1:2,_RINvNtNtCskjFBwtpsoHr_8quandary6server5query11do_referralNtNtB2_10kani_query8MockZoneEB6_.2:2" stubs="M1,T0"
//   fn="Server::handle_non_axfr_query,answer,do_additional_section_processing,add_additional_addresses,execute_allowing_truncation,read_name_from_rdata,Writer::add_answer_rrset,Writer::add_additional_rrset"
//   bound="UDP, limit 64; question a. NS IN; lookup(a.) = Found(NS .. b.); lookup_addrs(b.) = Found with an A: authoritative NS RRset (e.g. at the apex), 50 octets; unwind 7"
//   sym="TTL of the RRset, fixed RDATA octets, TTLs and octets of the address records"
proof!(c05_found_ns, 7, {
    let (case, n) = found_target(T_NS, true, 64, true, false);
    kani::cover!(case == COMPLETE && n == 50, "NS answer with the A of the server");
});

// @harness name=c05_found_srv props=C05,C04 panics=C05,C01 tier=thorough mem=2 t=1800 kani="--no-assertion-reach-checks" cbmc="--max-field-sensitivity-array-size 256 --unwindset _RNCNvMs_NtNtCskjFBwtpsoHr_8quandary7message6writerNtB6_6Writer30write_compressed_unhinted_name0Ba_.0:4,_RNCNvMs_NtNtCskjFBwtpsoHr_8quandary7message6writerNtB6_6Writer30write_compressed_unhinted_names_0Ba_.0:4,_RNvMs_NtNtCskjFBwtpsoHr_8quandary7message6writerNtB4_6Writer30write_compressed_unhinted_name.0:4,_RNvMs_NtNtCskjFBwtpsoHr_8quandary7message6writerNtB4_6Writer30write_compressed_unhinted_name.1:4,_RINvNvMNtNtCs8xvirJzNMvV_4core5slice5asciiSh27eq_ignore_ascii_case_chunks21eq_ignore_ascii_innerKj10_ECskjFBwtpsoHr_8quandary.0:3,_RNvMNtNtCs8xvirJzNMvV_4core5slice5asciiSh27eq_ignore_ascii_case_simpleCskjFBwtpsoHr_8quandary.0:3,_RINvMNtNtCs8xvirJzNMvV_4core5slice5asciiSh27eq_ignore_ascii_case_chunksKj10_ECskjFBwtpsoHr_8quandary.0:3,_RNvNtNtCskjFBwtpsoHr_8quandary4name4wire23parse_uncompressed_name.0:5,_RNvMs_NtCskjFBwtpsoHr_8quandary4nameNtB4_4Name15initialize_into.0:5,_RINvNtCs8xvirJzNMvV_4core3ptr9drop_glueSTjINtNtCs6xMQmN1AWUs_5alloc5boxed3BoxNtNtCskjFBwtpsoHr_8quandary4name4NameEEEB1h_.0:3,_RINvNtNtCskjFBwtpsoHr_8quandary6server5query11do_referralNtNtB2_10kani_query8MockZoneEB6_.0:2,_RINvNtNtCskjFBwtpsoHr_8quandary6server5query11do_referralNtNtB2_10kani_query8MockZoneEB6_.1:2,_RINvNtNtCskjFBwtpsoHr_8quandary6server5query11do_referralNtNtB2_10kani_query8MockZoneEB6_.2:2" stubs="M1,T0"
//   fn="Server::handle_non_axfr_query,answer,do_additional_section_processing,add_additional_addresses,execute_allowing_truncation,read_name_from_rdata,Writer::add_answer_rrset,Writer::add_additional_rrset"
//   bound="UDP, limit 64; question a. SRV IN; lookup(a.) = Found(SRV .. b.); lookup_addrs(b.) = Found with an A: 56 octets; unwind 7"
//   sym="TTL of the RRset, fixed RDATA octets, TTLs and octets of the address records"
proof!(c05_found_srv, 7, {
    let (case, n) = found_target(T_SRV, true, 64, true, false);
    kani::cover!(case == COMPLETE && n == 56, "SRV answer with the A of the target");
});

// @harness name=c05_found_mx_badrdata props=C05 panics=C05,C01 tier=thorough mem=2 t=900 kani="--no-assertion-reach-checks" cbmc="--max-field-sensitivity-array-size 256 --unwindset _RNCNvMs_NtNtCskjFBwtpsoHr_8quandary7message6writerNtB6_6Writer30write_compressed_unhinted_name0Ba_.0:4,_RNCNvMs_NtNtCskjFBwtpsoHr_8quandary7message6writerNtB6_6Writer30write_compressed_unhinted_names_0Ba_.0:4,_RNvMs_NtNtCskjFBwtpsoHr_8quandary7message6writerNtB4_6Writer30write_compressed_unhinted_name.0:4,_RNvMs_NtNtCskjFBwtpsoHr_8quandary7message6writerNtB4_6Writer30write_compressed_unhinted_name.1:4,_RINvNvMNtNtCs8xvirJzNMvV_4core5slice5asciiSh27eq_ignore_ascii_case_chunks21eq_ignore_ascii_innerKj10_ECskjFBwtpsoHr_8quandary.0:3,_RNvMNtNtCs8xvirJzNMvV_4core5slice5asciiSh27eq_ignore_ascii_case_simpleCskjFBwtpsoHr_8quandary.0:3,_RINvMNtNtCs8xvirJzNMvV_4core5slice5asciiSh27eq_ignore_ascii_case_chunksKj10_ECskjFBwtpsoHr_8quandary.0:3,_RNvNtNtCskjFBwtpsoHr_8quandary4name4wire23parse_uncompressed_name.0:5,_RNvMs_NtCskjFBwtpsoHr_8quandary4nameNtB4_4Name15initialize_into.0:5,_RINvNtCs8xvirJzNMvV_4core3ptr9drop_glueSTjINtNtCs6xMQmN1AWUs_5alloc5boxed3BoxNtNtCskjFBwtpsoHr_8quandary4name4NameEEEB1h_.0:3,_RINvNtNtCskjFBwtpsoHr_8quandary6server5query11do_referralNtNtB2_10kani_query8MockZoneEB6_.0:2,_RINvNtNtCskjFBwtpsoHr_8quandary6server5query11do_referralNtNtB2_10kani_query8MockZoneEB6_.1:2,_RINvNtNtCskjFBwtpsoHr_8quandary6server5query11do_referralNtNtB2_10kani_query8MockZoneEB6_.2:2" stubs="M1,T0"
//   fn="Server::handle_non_axfr_query,answer,Writer::add_answer_rrset,Writer::add_rr,Rdata::components"
//   bound="UDP, limit 64; question a. MX IN; lookup(a.) = Found(MX RDATA of one octet, and MX RDATA whose exchange name is cut short); unwind 7"
//   sym="RDATA octets"
proof!(c05_found_mx_badrdata, 7, {
    let x: [u8; 2] = kani::any();
    let sraw = soa_raw([0; 4], [0; 4]);
    let l = 1u16.to_ne_bytes();
    let one = [l[0], l[1], x[0]];
    let l = 4u16.to_ne_bytes();
    let cut = [l[0], l[1], x[0], x[1], 3, b'b'];
    let mut k = 0;
    while k < 2 {
        let mut zone = blank_zone(0, rdataset_view(&sraw));
        let rd = if k == 0 { rdataset_view(&one) } else { rdataset_view(&cut) };
        zone.steps[0] = Step { name: P_A, out: Out::Found, ttl: 1, rd, ..no_step() };
        zone.n_steps = 1;
        let req = req_a(T_MX);
        let mut resp = [0u8; 64];
        let n = run(&zone, &req, P_A, true, 64, &mut resp);
        // reference: data that cannot be put on the wire is a server failure
        let ex = Expect::servfail(QEND_A);
        check_response(&resp, n, &ex, true, 64);
        k += 1;
    }
    kani::cover!(true, "both malformed RRsets answered");
});

// --------------------------------------------------------------------------
// 3. CNAME chains (RFC 1034 3.6.2 / 4.3.2 step 3a, RFC 6604)
// --------------------------------------------------------------------------

/// QNAME -> targets[0] -> ... inside the zone, ending with `fin`.  Single-
/// label names only; `raws[i]` is the CNAME RDATA set of link i.
/// `BUF`: response buffer size; `root_q`: QNAME is the root (else `a.`).
fn chain<const BUF: usize>(root_q: bool, targets: &[PN], raws: &[[u8; 5]], n: usize, fin: Final, udp: bool, limit: usize) {
    let soa = any_soa();
    let sraw = soa_raw(soa.w, soa.m);
    let araw = match fin {
        Final::FoundA { o, .. } => a_raw(o),
        _ => a_raw([0; 4]),
    };
    let mut zone = blank_zone(soa.ttl, rdataset_view(&sraw));
    let qname = if root_q { P_ROOT } else { P_A };
    let qend = if root_q { QEND_ROOT } else { QEND_A };
    let mut ttls = [0u32; MAX_STEPS];
    let mut sizes = [0usize; MAX_STEPS];
    let mut owner = qname;
    let mut i = 0;
    while i < n {
        ttls[i] = kani::any();
        zone.steps[i] = Step { name: owner, out: Out::Cname, ttl: ttls[i], rd: rdataset_view(&raws[i]), ..no_step() };
        // owner: the root is written out (1 octet), any other owner is a
        // pointer to its earlier occurrence; the target is written out
        sizes[i] = (if owner.wire().len() == 1 { 1 } else { 2 }) + 10 + 3;
        owner = targets[i];
        i += 1;
    }
    let last = match fin {
        Final::FoundA { ttl, .. } => Step { name: owner, out: Out::Found, ttl, rd: rdataset_view(&araw), ..no_step() },
        Final::NoRecords => Step { name: owner, out: Out::NoRecords, ..no_step() },
        Final::NxDomain => Step { name: owner, out: Out::NxDomain, ..no_step() },
        Final::OutOfZone => Step { name: owner, out: Out::WrongZone, ..no_step() },
    };
    zone.steps[n] = last;
    zone.n_steps = n + 1;
    let mut resp = [0u8; BUF];
    let n_resp = if root_q {
        run(&zone, &req_root(T_A), P_ROOT, udp, limit, &mut resp)
    } else {
        run(&zone, &req_a(T_A), P_A, udp, limit, &mut resp)
    };
    let mut ex = ref_chain(qend, qname, targets, &ttls, &sizes, n, fin, &soa);
    if ex.n > 0 && ex.recs[ex.n - 1].rtype == T_SOA {
        let at = ex.complete_size - SOA_REC + 1 + 4;
        if at + 4 <= BUF {
            ex.recs[ex.n - 1] = soa_expectation(&resp, at, &soa);
        }
    }
    check_response(&resp, n_resp, &ex, udp, limit);
}

// @harness name=c05_cname_found props=C05 panics=C05,C01 tier=quick mem=2 t=1200 kani="--no-assertion-reach-checks" cbmc="--max-field-sensitivity-array-size 256 --unwindset _RNCNvMs_NtNtCskjFBwtpsoHr_8quandary7message6writerNtB6_6Writer30write_compressed_unhinted_name0Ba_.0:4,_RNCNvMs_NtNtCskjFBwtpsoHr_8quandary7message6writerNtB6_6Writer30write_compressed_unhinted_names_0Ba_.0:4,_RNvMs_NtNtCskjFBwtpsoHr_8quandary7message6writerNtB4_6Writer30write_compressed_unhinted_name.0:4,_RNvMs_NtNtCskjFBwtpsoHr_8quandary7message6writerNtB4_6Writer30write_compressed_unhinted_name.1:4,_RINvNvMNtNtCs8xvirJzNMvV_4core5slice5asciiSh27eq_ignore_ascii_case_chunks21eq_ignore_ascii_innerKj10_ECskjFBwtpsoHr_8quandary.0:3,_RNvMNtNtCs8xvirJzNMvV_4core5slice5asciiSh27eq_ignore_ascii_case_simpleCskjFBwtpsoHr_8quandary.0:3,_RINvMNtNtCs8xvirJzNMvV_4core5slice5asciiSh27eq_ignore_ascii_case_chunksKj10_ECskjFBwtpsoHr_8quandary.0:3,_RNvNtNtCskjFBwtpsoHr_8quandary4name4wire23parse_uncompressed_name.0:5,_RNvMs_NtCskjFBwtpsoHr_8quandary4nameNtB4_4Name15initialize_into.0:5,_RINvNtCs8xvirJzNMvV_4core3ptr9drop_glueSTjINtNtCs6xMQmN1AWUs_5alloc5boxed3BoxNtNtCskjFBwtpsoHr_8quandary4name4NameEEEB1h_.0:3,_RINvNtNtCskjFBwtpsoHr_8quandary6server5query11do_referralNtNtB2_10kani_query8MockZoneEB6_.0:2,_RINvNtNtCskjFBwtpsoHr_8quandary6server5query11do_referralNtNtB2_10kani_query8MockZoneEB6_.1:2,_RINvNtNtCskjFBwtpsoHr_8quandary6server5query11do_referralNtNtB2_10kani_query8MockZoneEB6_.2:2" stubs="M1,T0"
//   fn="Server::handle_non_axfr_query,answer,do_cname,follow_cname_1,follow_cname_2,Writer::add_answer_rr,Writer::add_answer_rrset"
//   bound="UDP, limit 64; question a. A IN; a. CNAME b.; lookup(b.) = Found(one A); unwind 7"
//   sym="2 TTLs, 4 RDATA octets"
proof!(c05_cname_found, 7, {
    let fin = Final::FoundA { ttl: kani::any(), o: kani::any() };
    chain::<64>(false, &[P_B], &[name1_raw(b'b')], 1, fin, true, 64);
    kani::cover!(true, "CNAME followed to an address");
});

// @harness name=c05_cname_nxdomain props=C05 panics=C05,C01 tier=thorough mem=2 t=1200 kani="--no-assertion-reach-checks" cbmc="--max-field-sensitivity-array-size 256 --unwindset _RNCNvMs_NtNtCskjFBwtpsoHr_8quandary7message6writerNtB6_6Writer30write_compressed_unhinted_name0Ba_.0:4,_RNCNvMs_NtNtCskjFBwtpsoHr_8quandary7message6writerNtB6_6Writer30write_compressed_unhinted_names_0Ba_.0:4,_RNvMs_NtNtCskjFBwtpsoHr_8quandary7message6writerNtB4_6Writer30write_compressed_unhinted_name.0:4,_RNvMs_NtNtCskjFBwtpsoHr_8quandary7message6writerNtB4_6Writer30write_compressed_unhinted_name.1:4,_RINvNvMNtNtCs8xvirJzNMvV_4core5slice5asciiSh27eq_ignore_ascii_case_chunks21eq_ignore_ascii_innerKj10_ECskjFBwtpsoHr_8quandary.0:3,_RNvMNtNtCs8xvirJzNMvV_4core5slice5asciiSh27eq_ignore_ascii_case_simpleCskjFBwtpsoHr_8quandary.0:3,_RINvMNtNtCs8xvirJzNMvV_4core5slice5asciiSh27eq_ignore_ascii_case_chunksKj10_ECskjFBwtpsoHr_8quandary.0:3,_RNvNtNtCskjFBwtpsoHr_8quandary4name4wire23parse_uncompressed_name.0:5,_RNvMs_NtCskjFBwtpsoHr_8quandary4nameNtB4_4Name15initialize_into.0:5,_RINvNtCs8xvirJzNMvV_4core3ptr9drop_glueSTjINtNtCs6xMQmN1AWUs_5alloc5boxed3BoxNtNtCskjFBwtpsoHr_8quandary4name4NameEEEB1h_.0:3,_RINvNtNtCskjFBwtpsoHr_8quandary6server5query11do_referralNtNtB2_10kani_query8MockZoneEB6_.0:2,_RINvNtNtCskjFBwtpsoHr_8quandary6server5query11do_referralNtNtB2_10kani_query8MockZoneEB6_.1:2,_RINvNtNtCskjFBwtpsoHr_8quandary6server5query11do_referralNtNtB2_10kani_query8MockZoneEB6_.2:2" stubs="M1,T0"
//   fn="Server::handle_non_axfr_query,answer,do_cname,follow_cname_1,follow_cname_2,add_negative_caching_soa"
//   bound="UDP, limit 64; question . A IN (QNAME = apex, so that CNAME + SOA fit in 64 octets); . CNAME b.; lookup(b.) = NxDomain; RFC 6604: NXDOMAIN; unwind 7"
//   sym="CNAME TTL, SOA TTL, MINIMUM, 4 SOA octets"
proof!(c05_cname_nxdomain, 7, {
    chain::<64>(true, &[P_B], &[name1_raw(b'b')], 1, Final::NxDomain, true, 64);
    kani::cover!(true, "CNAME to a name that does not exist");
});

// @harness name=c05_cname_norecords props=C05 panics=C05,C01 tier=thorough mem=2 t=1200 kani="--no-assertion-reach-checks" cbmc="--max-field-sensitivity-array-size 256 --unwindset _RNCNvMs_NtNtCskjFBwtpsoHr_8quandary7message6writerNtB6_6Writer30write_compressed_unhinted_name0Ba_.0:4,_RNCNvMs_NtNtCskjFBwtpsoHr_8quandary7message6writerNtB6_6Writer30write_compressed_unhinted_names_0Ba_.0:4,_RNvMs_NtNtCskjFBwtpsoHr_8quandary7message6writerNtB4_6Writer30write_compressed_unhinted_name.0:4,_RNvMs_NtNtCskjFBwtpsoHr_8quandary7message6writerNtB4_6Writer30write_compressed_unhinted_name.1:4,_RINvNvMNtNtCs8xvirJzNMvV_4core5slice5asciiSh27eq_ignore_ascii_case_chunks21eq_ignore_ascii_innerKj10_ECskjFBwtpsoHr_8quandary.0:3,_RNvMNtNtCs8xvirJzNMvV_4core5slice5asciiSh27eq_ignore_ascii_case_simpleCskjFBwtpsoHr_8quandary.0:3,_RINvMNtNtCs8xvirJzNMvV_4core5slice5asciiSh27eq_ignore_ascii_case_chunksKj10_ECskjFBwtpsoHr_8quandary.0:3,_RNvNtNtCskjFBwtpsoHr_8quandary4name4wire23parse_uncompressed_name.0:5,_RNvMs_NtCskjFBwtpsoHr_8quandary4nameNtB4_4Name15initialize_into.0:5,_RINvNtCs8xvirJzNMvV_4core3ptr9drop_glueSTjINtNtCs6xMQmN1AWUs_5alloc5boxed3BoxNtNtCskjFBwtpsoHr_8quandary4name4NameEEEB1h_.0:3,_RINvNtNtCskjFBwtpsoHr_8quandary6server5query11do_referralNtNtB2_10kani_query8MockZoneEB6_.0:2,_RINvNtNtCskjFBwtpsoHr_8quandary6server5query11do_referralNtNtB2_10kani_query8MockZoneEB6_.1:2,_RINvNtNtCskjFBwtpsoHr_8quandary6server5query11do_referralNtNtB2_10kani_query8MockZoneEB6_.2:2" stubs="M1,T0"
//   fn="Server::handle_non_axfr_query,answer,do_cname,follow_cname_1,follow_cname_2,add_negative_caching_soa"
//   bound="as c05_cname_nxdomain with lookup(b.) = NoRecords: NOERROR; unwind 7"
//   sym="CNAME TTL, SOA TTL, MINIMUM, 4 SOA octets"
proof!(c05_cname_norecords, 7, {
    chain::<64>(true, &[P_B], &[name1_raw(b'b')], 1, Final::NoRecords, true, 64);
    kani::cover!(true, "CNAME to a name without the type");
});

// @harness name=c05_cname_out_of_zone props=C05 panics=C05,C01 tier=thorough mem=2 t=1200 kani="--no-assertion-reach-checks" cbmc="--max-field-sensitivity-array-size 256 --unwindset _RNCNvMs_NtNtCskjFBwtpsoHr_8quandary7message6writerNtB6_6Writer30write_compressed_unhinted_name0Ba_.0:4,_RNCNvMs_NtNtCskjFBwtpsoHr_8quandary7message6writerNtB6_6Writer30write_compressed_unhinted_names_0Ba_.0:4,_RNvMs_NtNtCskjFBwtpsoHr_8quandary7message6writerNtB4_6Writer30write_compressed_unhinted_name.0:4,_RNvMs_NtNtCskjFBwtpsoHr_8quandary7message6writerNtB4_6Writer30write_compressed_unhinted_name.1:4,_RINvNvMNtNtCs8xvirJzNMvV_4core5slice5asciiSh27eq_ignore_ascii_case_chunks21eq_ignore_ascii_innerKj10_ECskjFBwtpsoHr_8quandary.0:3,_RNvMNtNtCs8xvirJzNMvV_4core5slice5asciiSh27eq_ignore_ascii_case_simpleCskjFBwtpsoHr_8quandary.0:3,_RINvMNtNtCs8xvirJzNMvV_4core5slice5asciiSh27eq_ignore_ascii_case_chunksKj10_ECskjFBwtpsoHr_8quandary.0:3,_RNvNtNtCskjFBwtpsoHr_8quandary4name4wire23parse_uncompressed_name.0:5,_RNvMs_NtCskjFBwtpsoHr_8quandary4nameNtB4_4Name15initialize_into.0:5,_RINvNtCs8xvirJzNMvV_4core3ptr9drop_glueSTjINtNtCs6xMQmN1AWUs_5alloc5boxed3BoxNtNtCskjFBwtpsoHr_8quandary4name4NameEEEB1h_.0:3,_RINvNtNtCskjFBwtpsoHr_8quandary6server5query11do_referralNtNtB2_10kani_query8MockZoneEB6_.0:2,_RINvNtNtCskjFBwtpsoHr_8quandary6server5query11do_referralNtNtB2_10kani_query8MockZoneEB6_.1:2,_RINvNtNtCskjFBwtpsoHr_8quandary6server5query11do_referralNtNtB2_10kani_query8MockZoneEB6_.2:2" stubs="M1,T0"
//   fn="Server::handle_non_axfr_query,answer,do_cname,follow_cname_1,follow_cname_2"
//   bound="UDP, limit 64; question a. A IN; a. CNAME c. where c. is not in the zone (lookup = WrongZone): the CNAME alone, NOERROR, AA; unwind 7"
//   sym="CNAME TTL"
proof!(c05_cname_out_of_zone, 7, {
    chain::<64>(false, &[P_C], &[name1_raw(b'c')], 1, Final::OutOfZone, true, 64);
    kani::cover!(true, "CNAME leaving the zone");
});

// @harness name=c05_cname_chain2 props=C05 panics=C05,C01 tier=thorough mem=8 t=2400 kani="--no-assertion-reach-checks" cbmc="--max-field-sensitivity-array-size 256 --unwindset _RNCNvMs_NtNtCskjFBwtpsoHr_8quandary7message6writerNtB6_6Writer30write_compressed_unhinted_name0Ba_.0:4,_RNCNvMs_NtNtCskjFBwtpsoHr_8quandary7message6writerNtB6_6Writer30write_compressed_unhinted_names_0Ba_.0:4,_RNvMs_NtNtCskjFBwtpsoHr_8quandary7message6writerNtB4_6Writer30write_compressed_unhinted_name.0:4,_RNvMs_NtNtCskjFBwtpsoHr_8quandary7message6writerNtB4_6Writer30write_compressed_unhinted_name.1:4,_RINvNvMNtNtCs8xvirJzNMvV_4core5slice5asciiSh27eq_ignore_ascii_case_chunks21eq_ignore_ascii_innerKj10_ECskjFBwtpsoHr_8quandary.0:3,_RNvMNtNtCs8xvirJzNMvV_4core5slice5asciiSh27eq_ignore_ascii_case_simpleCskjFBwtpsoHr_8quandary.0:3,_RINvMNtNtCs8xvirJzNMvV_4core5slice5asciiSh27eq_ignore_ascii_case_chunksKj10_ECskjFBwtpsoHr_8quandary.0:3,_RNvNtNtCskjFBwtpsoHr_8quandary4name4wire23parse_uncompressed_name.0:5,_RNvMs_NtCskjFBwtpsoHr_8quandary4nameNtB4_4Name15initialize_into.0:5,_RINvNtCs8xvirJzNMvV_4core3ptr9drop_glueSTjINtNtCs6xMQmN1AWUs_5alloc5boxed3BoxNtNtCskjFBwtpsoHr_8quandary4name4NameEEEB1h_.0:3,_RINvNtNtCskjFBwtpsoHr_8quandary6server5query11do_referralNtNtB2_10kani_query8MockZoneEB6_.0:2,_RINvNtNtCskjFBwtpsoHr_8quandary6server5query11do_referralNtNtB2_10kani_query8MockZoneEB6_.1:2,_RINvNtNtCskjFBwtpsoHr_8quandary6server5query11do_referralNtNtB2_10kani_query8MockZoneEB6_.2:2" stubs="M1,T0"
//   fn="Server::handle_non_axfr_query,answer,do_cname,follow_cname_1,follow_cname_2"
//   bound="UDP, limit 64; question . A IN; . CNAME a., a. CNAME b., b. A; unwind 7"
//   sym="3 TTLs, 4 RDATA octets"
proof!(c05_cname_chain2, 7, {
    let fin = Final::FoundA { ttl: kani::any(), o: kani::any() };
    chain::<64>(true, &[P_A, P_B], &[name1_raw(b'a'), name1_raw(b'b')], 2, fin, true, 64);
    kani::cover!(true, "two links followed");
});

// @harness name=c05_cname_loop1 props=C05 panics=C05,C01 tier=quick mem=2 t=1200 kani="--no-assertion-reach-checks" cbmc="--max-field-sensitivity-array-size 256 --unwindset _RNCNvMs_NtNtCskjFBwtpsoHr_8quandary7message6writerNtB6_6Writer30write_compressed_unhinted_name0Ba_.0:4,_RNCNvMs_NtNtCskjFBwtpsoHr_8quandary7message6writerNtB6_6Writer30write_compressed_unhinted_names_0Ba_.0:4,_RNvMs_NtNtCskjFBwtpsoHr_8quandary7message6writerNtB4_6Writer30write_compressed_unhinted_name.0:4,_RNvMs_NtNtCskjFBwtpsoHr_8quandary7message6writerNtB4_6Writer30write_compressed_unhinted_name.1:4,_RINvNvMNtNtCs8xvirJzNMvV_4core5slice5asciiSh27eq_ignore_ascii_case_chunks21eq_ignore_ascii_innerKj10_ECskjFBwtpsoHr_8quandary.0:3,_RNvMNtNtCs8xvirJzNMvV_4core5slice5asciiSh27eq_ignore_ascii_case_simpleCskjFBwtpsoHr_8quandary.0:3,_RINvMNtNtCs8xvirJzNMvV_4core5slice5asciiSh27eq_ignore_ascii_case_chunksKj10_ECskjFBwtpsoHr_8quandary.0:3,_RNvNtNtCskjFBwtpsoHr_8quandary4name4wire23parse_uncompressed_name.0:5,_RNvMs_NtCskjFBwtpsoHr_8quandary4nameNtB4_4Name15initialize_into.0:5,_RINvNtCs8xvirJzNMvV_4core3ptr9drop_glueSTjINtNtCs6xMQmN1AWUs_5alloc5boxed3BoxNtNtCskjFBwtpsoHr_8quandary4name4NameEEEB1h_.0:3,_RINvNtNtCskjFBwtpsoHr_8quandary6server5query11do_referralNtNtB2_10kani_query8MockZoneEB6_.0:2,_RINvNtNtCskjFBwtpsoHr_8quandary6server5query11do_referralNtNtB2_10kani_query8MockZoneEB6_.1:2,_RINvNtNtCskjFBwtpsoHr_8quandary6server5query11do_referralNtNtB2_10kani_query8MockZoneEB6_.2:2" stubs="M1,T0"
//   fn="Server::handle_non_axfr_query,answer,do_cname,follow_cname_1"
//   bound="UDP, limit 64; question a. A IN; a. CNAME a.: SERVFAIL, no records, AA clear; unwind 7"
//   sym="CNAME TTL"
proof!(c05_cname_loop1, 7, {
    chain::<64>(false, &[P_A], &[name1_raw(b'a')], 1, Final::NxDomain, true, 64);
    kani::cover!(true, "self loop answered");
});

// @harness name=c05_cname_loop2 props=C05 panics=C05,C01 tier=thorough mem=4 t=1800 kani="--no-assertion-reach-checks" cbmc="--max-field-sensitivity-array-size 256 --unwindset _RNCNvMs_NtNtCskjFBwtpsoHr_8quandary7message6writerNtB6_6Writer30write_compressed_unhinted_name0Ba_.0:4,_RNCNvMs_NtNtCskjFBwtpsoHr_8quandary7message6writerNtB6_6Writer30write_compressed_unhinted_names_0Ba_.0:4,_RNvMs_NtNtCskjFBwtpsoHr_8quandary7message6writerNtB4_6Writer30write_compressed_unhinted_name.0:4,_RNvMs_NtNtCskjFBwtpsoHr_8quandary7message6writerNtB4_6Writer30write_compressed_unhinted_name.1:4,_RINvNvMNtNtCs8xvirJzNMvV_4core5slice5asciiSh27eq_ignore_ascii_case_chunks21eq_ignore_ascii_innerKj10_ECskjFBwtpsoHr_8quandary.0:3,_RNvMNtNtCs8xvirJzNMvV_4core5slice5asciiSh27eq_ignore_ascii_case_simpleCskjFBwtpsoHr_8quandary.0:3,_RINvMNtNtCs8xvirJzNMvV_4core5slice5asciiSh27eq_ignore_ascii_case_chunksKj10_ECskjFBwtpsoHr_8quandary.0:3,_RNvNtNtCskjFBwtpsoHr_8quandary4name4wire23parse_uncompressed_name.0:5,_RNvMs_NtCskjFBwtpsoHr_8quandary4nameNtB4_4Name15initialize_into.0:5,_RINvNtCs8xvirJzNMvV_4core3ptr9drop_glueSTjINtNtCs6xMQmN1AWUs_5alloc5boxed3BoxNtNtCskjFBwtpsoHr_8quandary4name4NameEEEB1h_.0:3,_RINvNtNtCskjFBwtpsoHr_8quandary6server5query11do_referralNtNtB2_10kani_query8MockZoneEB6_.0:2,_RINvNtNtCskjFBwtpsoHr_8quandary6server5query11do_referralNtNtB2_10kani_query8MockZoneEB6_.1:2,_RINvNtNtCskjFBwtpsoHr_8quandary6server5query11do_referralNtNtB2_10kani_query8MockZoneEB6_.2:2" stubs="M1,T0"
//   fn="Server::handle_non_axfr_query,answer,do_cname,follow_cname_1,follow_cname_2"
//   bound="UDP, limit 64; question a. A IN; a. CNAME b., b. CNAME a.: SERVFAIL, no records, AA clear; unwind 7"
//   sym="CNAME TTLs"
proof!(c05_cname_loop2, 7, {
    chain::<64>(false, &[P_B, P_A], &[name1_raw(b'b'), name1_raw(b'a')], 2, Final::NxDomain, true, 64);
    kani::cover!(true, "two-link loop answered");
});

// @harness name=c05_cname_loop2b props=C05 panics=C05,C01 tier=thorough mem=4 t=1800 kani="--no-assertion-reach-checks" cbmc="--max-field-sensitivity-array-size 256 --unwindset _RNCNvMs_NtNtCskjFBwtpsoHr_8quandary7message6writerNtB6_6Writer30write_compressed_unhinted_name0Ba_.0:4,_RNCNvMs_NtNtCskjFBwtpsoHr_8quandary7message6writerNtB6_6Writer30write_compressed_unhinted_names_0Ba_.0:4,_RNvMs_NtNtCskjFBwtpsoHr_8quandary7message6writerNtB4_6Writer30write_compressed_unhinted_name.0:4,_RNvMs_NtNtCskjFBwtpsoHr_8quandary7message6writerNtB4_6Writer30write_compressed_unhinted_name.1:4,_RINvNvMNtNtCs8xvirJzNMvV_4core5slice5asciiSh27eq_ignore_ascii_case_chunks21eq_ignore_ascii_innerKj10_ECskjFBwtpsoHr_8quandary.0:3,_RNvMNtNtCs8xvirJzNMvV_4core5slice5asciiSh27eq_ignore_ascii_case_simpleCskjFBwtpsoHr_8quandary.0:3,_RINvMNtNtCs8xvirJzNMvV_4core5slice5asciiSh27eq_ignore_ascii_case_chunksKj10_ECskjFBwtpsoHr_8quandary.0:3,_RNvNtNtCskjFBwtpsoHr_8quandary4name4wire23parse_uncompressed_name.0:5,_RNvMs_NtCskjFBwtpsoHr_8quandary4nameNtB4_4Name15initialize_into.0:5,_RINvNtCs8xvirJzNMvV_4core3ptr9drop_glueSTjINtNtCs6xMQmN1AWUs_5alloc5boxed3BoxNtNtCskjFBwtpsoHr_8quandary4name4NameEEEB1h_.0:3,_RINvNtNtCskjFBwtpsoHr_8quandary6server5query11do_referralNtNtB2_10kani_query8MockZoneEB6_.0:2,_RINvNtNtCskjFBwtpsoHr_8quandary6server5query11do_referralNtNtB2_10kani_query8MockZoneEB6_.1:2,_RINvNtNtCskjFBwtpsoHr_8quandary6server5query11do_referralNtNtB2_10kani_query8MockZoneEB6_.2:2" stubs="M1,T0"
//   fn="Server::handle_non_axfr_query,answer,do_cname,follow_cname_1,follow_cname_2"
//   bound="UDP, limit 64; question a. A IN; a. CNAME b., b. CNAME b.: SERVFAIL, no records, AA clear; unwind 7"
//   sym="CNAME TTLs"
proof!(c05_cname_loop2b, 7, {
    chain::<64>(false, &[P_B, P_B], &[name1_raw(b'b'), name1_raw(b'b')], 2, Final::NxDomain, true, 64);
    kani::cover!(true, "loop at the second link answered");
});

// @harness name=c05_cname_badrdata props=C05 panics=C05,C01 tier=thorough mem=2 t=1200 kani="--no-assertion-reach-checks" cbmc="--max-field-sensitivity-array-size 256 --unwindset _RNCNvMs_NtNtCskjFBwtpsoHr_8quandary7message6writerNtB6_6Writer30write_compressed_unhinted_name0Ba_.0:4,_RNCNvMs_NtNtCskjFBwtpsoHr_8quandary7message6writerNtB6_6Writer30write_compressed_unhinted_names_0Ba_.0:4,_RNvMs_NtNtCskjFBwtpsoHr_8quandary7message6writerNtB4_6Writer30write_compressed_unhinted_name.0:4,_RNvMs_NtNtCskjFBwtpsoHr_8quandary7message6writerNtB4_6Writer30write_compressed_unhinted_name.1:4,_RINvNvMNtNtCs8xvirJzNMvV_4core5slice5asciiSh27eq_ignore_ascii_case_chunks21eq_ignore_ascii_innerKj10_ECskjFBwtpsoHr_8quandary.0:3,_RNvMNtNtCs8xvirJzNMvV_4core5slice5asciiSh27eq_ignore_ascii_case_simpleCskjFBwtpsoHr_8quandary.0:3,_RINvMNtNtCs8xvirJzNMvV_4core5slice5asciiSh27eq_ignore_ascii_case_chunksKj10_ECskjFBwtpsoHr_8quandary.0:3,_RNvNtNtCskjFBwtpsoHr_8quandary4name4wire23parse_uncompressed_name.0:5,_RNvMs_NtCskjFBwtpsoHr_8quandary4nameNtB4_4Name15initialize_into.0:5,_RINvNtCs8xvirJzNMvV_4core3ptr9drop_glueSTjINtNtCs6xMQmN1AWUs_5alloc5boxed3BoxNtNtCskjFBwtpsoHr_8quandary4name4NameEEEB1h_.0:3,_RINvNtNtCskjFBwtpsoHr_8quandary6server5query11do_referralNtNtB2_10kani_query8MockZoneEB6_.0:2,_RINvNtNtCskjFBwtpsoHr_8quandary6server5query11do_referralNtNtB2_10kani_query8MockZoneEB6_.1:2,_RINvNtNtCskjFBwtpsoHr_8quandary6server5query11do_referralNtNtB2_10kani_query8MockZoneEB6_.2:2" stubs="M1,T0"
//   fn="Server::handle_non_axfr_query,answer,do_cname,follow_cname_1,Name::try_from_uncompressed_all"
//   bound="UDP, limit 64; question a. A IN; lookup(a.) = Cname whose RDATA is not one whole name (label cut short; name followed by an extra octet); unwind 7"
//   sym="RDATA octets"
proof!(c05_cname_badrdata, 7, {
    let x: u8 = kani::any();
    let sraw = soa_raw([0; 4], [0; 4]);
    let l = 2u16.to_ne_bytes();
    let cut = [l[0], l[1], 3, x];
    let l = 4u16.to_ne_bytes();
    let extra = [l[0], l[1], 1, b'b', 0, x];
    let mut k = 0;
    while k < 2 {
        let mut zone = blank_zone(0, rdataset_view(&sraw));
        let rd = if k == 0 { rdataset_view(&cut) } else { rdataset_view(&extra) };
        zone.steps[0] = Step { name: P_A, out: Out::Cname, ttl: 1, rd, ..no_step() };
        zone.n_steps = 1;
        let req = req_a(T_A);
        let mut resp = [0u8; 64];
        let n = run(&zone, &req, P_A, true, 64, &mut resp);
        let ex = Expect::servfail(QEND_A);
        check_response(&resp, n, &ex, true, 64);
        k += 1;
    }
    kani::cover!(true, "both malformed CNAMEs answered");
});

// --------------------------------------------------------------------------
// 4. referrals (RFC 1034 4.3.2 step 3b; glue: RFC 1034 4.2.1)
// --------------------------------------------------------------------------

/// question a. A IN; a. is a delegation point.  `in_bailiwick`: its one name
/// server is b.a. (glue, below the cut, mandatory), else c. (a name of the
/// parent zone: useful but optional).
fn referral(in_bailiwick: bool, any_q: bool, udp: bool, limit: usize, has_a: bool, has_aaaa: bool) -> (u8, usize) {
    referral_x(in_bailiwick, false, any_q, udp, limit, has_a, has_aaaa)
}

/// `sibling`: the out-of-bailiwick name server c. lies below ANOTHER zone cut
/// of the same parent (sibling glue): the zone only shows its addresses to a
/// lookup with `search_below_cuts`.
fn referral_x(in_bailiwick: bool, sibling: bool, any_q: bool, udp: bool, limit: usize, has_a: bool, has_aaaa: bool) -> (u8, usize) {
    let ttl: u32 = kani::any();
    let d = addr_with(has_a, has_aaaa);
    let ns_in = name_ba_raw();
    let ns_out = name1_raw(b'c');
    let a4 = a_raw(d.a);
    let a6 = aaaa_raw(d.aaaa);
    let sraw = soa_raw([0; 4], [0; 4]);
    let mut zone = blank_zone(0, rdataset_view(&sraw));
    let rd = if in_bailiwick { rdataset_view(&ns_in) } else { rdataset_view(&ns_out) };
    zone.steps[0] = Step { name: P_A, out: Out::Referral, ttl, rd, child: P_A, ..no_step() };
    zone.n_steps = 1;
    zone.all_out = Out::Referral;
    zone.all_name = P_A;
    let target = if in_bailiwick { P_BA } else { P_C };
    zone.asteps[0] = astep_of(target, in_bailiwick || sibling, &d, rdataset_view(&a4), rdataset_view(&a6));
    zone.n_asteps = 1;
    let req = req_a(if any_q { 255 } else { T_A });
    let mut resp = [0u8; 64];
    let n = run(&zone, &req, P_A, udp, limit, &mut resp);

    // reference: not authoritative, NS RRset of the cut in the authority
    // section, addresses of the name server in the additional section
    let mut ex = Expect::new(QEND_A);
    // NS: owner a. = pointer to QNAME; RDATA b.a. = label + pointer, c. = written out
    ex.push(exp_name(2, P_A.wire(), T_NS, ttl, target.wire()), 2 + 10 + if in_bailiwick { 4 } else { 3 });
    push_addrs(&mut ex, target.wire(), &d, !in_bailiwick);
    (check_response(&resp, n, &ex, udp, limit), n)
}

// @harness name=c05_referral_glue props=C05,C04 panics=C05,C01 tier=quick mem=2 t=1800 kani="--no-assertion-reach-checks" cbmc="--max-field-sensitivity-array-size 256 --unwindset _RNCNvMs_NtNtCskjFBwtpsoHr_8quandary7message6writerNtB6_6Writer30write_compressed_unhinted_name0Ba_.0:4,_RNCNvMs_NtNtCskjFBwtpsoHr_8quandary7message6writerNtB6_6Writer30write_compressed_unhinted_names_0Ba_.0:4,_RNvMs_NtNtCskjFBwtpsoHr_8quandary7message6writerNtB4_6Writer30write_compressed_unhinted_name.0:4,_RNvMs_NtNtCskjFBwtpsoHr_8quandary7message6writerNtB4_6Writer30write_compressed_unhinted_name.1:4,_RINvNvMNtNtCs8xvirJzNMvV_4core5slice5asciiSh27eq_ignore_ascii_case_chunks21eq_ignore_ascii_innerKj10_ECskjFBwtpsoHr_8quandary.0:3,_RNvMNtNtCs8xvirJzNMvV_4core5slice5asciiSh27eq_ignore_ascii_case_simpleCskjFBwtpsoHr_8quandary.0:3,_RINvMNtNtCs8xvirJzNMvV_4core5slice5asciiSh27eq_ignore_ascii_case_chunksKj10_ECskjFBwtpsoHr_8quandary.0:3,_RNvNtNtCskjFBwtpsoHr_8quandary4name4wire23parse_uncompressed_name.0:5,_RNvMs_NtCskjFBwtpsoHr_8quandary4nameNtB4_4Name15initialize_into.0:5,_RINvNtCs8xvirJzNMvV_4core3ptr9drop_glueSTjINtNtCs6xMQmN1AWUs_5alloc5boxed3BoxNtNtCskjFBwtpsoHr_8quandary4name4NameEEEB1h_.0:3,_RINvNtNtCskjFBwtpsoHr_8quandary6server5query11do_referralNtNtB2_10kani_query8MockZoneEB6_.0:2,_RINvNtNtCskjFBwtpsoHr_8quandary6server5query11do_referralNtNtB2_10kani_query8MockZoneEB6_.1:2,_RINvNtNtCskjFBwtpsoHr_8quandary6server5query11do_referralNtNtB2_10kani_query8MockZoneEB6_.2:2" stubs="M1,T0,N1"
//   fn="Server::handle_non_axfr_query,answer,do_referral,add_additional_addresses,execute_allowing_truncation,read_name_from_rdata,Name::eq_or_subdomain_of,Writer::add_authority_rrset,Writer::add_additional_rrset"
//   bound="UDP, limit 64; question a. A IN; Referral(cut a., NS b.a. (in bailiwick: glue, visible only below the cut, mandatory)); the name server has an A: 51 octets, complete; unwind 7"
//   sym="NS TTL, TTLs and octets of the address records"
proof_ref!(c05_referral_glue, 7, {
    let (case, n) = referral(true, false, true, 64, true, false);
    kani::cover!(case == COMPLETE && n == 51, "referral with glue A");
    let _ = n;
});

// @harness name=c05_referral_glue_both props=C05,C04 panics=C05,C01 tier=thorough mem=2 t=1800 kani="--no-assertion-reach-checks" cbmc="--max-field-sensitivity-array-size 256 --unwindset _RNCNvMs_NtNtCskjFBwtpsoHr_8quandary7message6writerNtB6_6Writer30write_compressed_unhinted_name0Ba_.0:4,_RNCNvMs_NtNtCskjFBwtpsoHr_8quandary7message6writerNtB6_6Writer30write_compressed_unhinted_names_0Ba_.0:4,_RNvMs_NtNtCskjFBwtpsoHr_8quandary7message6writerNtB4_6Writer30write_compressed_unhinted_name.0:4,_RNvMs_NtNtCskjFBwtpsoHr_8quandary7message6writerNtB4_6Writer30write_compressed_unhinted_name.1:4,_RINvNvMNtNtCs8xvirJzNMvV_4core5slice5asciiSh27eq_ignore_ascii_case_chunks21eq_ignore_ascii_innerKj10_ECskjFBwtpsoHr_8quandary.0:3,_RNvMNtNtCs8xvirJzNMvV_4core5slice5asciiSh27eq_ignore_ascii_case_simpleCskjFBwtpsoHr_8quandary.0:3,_RINvMNtNtCs8xvirJzNMvV_4core5slice5asciiSh27eq_ignore_ascii_case_chunksKj10_ECskjFBwtpsoHr_8quandary.0:3,_RNvNtNtCskjFBwtpsoHr_8quandary4name4wire23parse_uncompressed_name.0:5,_RNvMs_NtCskjFBwtpsoHr_8quandary4nameNtB4_4Name15initialize_into.0:5,_RINvNtCs8xvirJzNMvV_4core3ptr9drop_glueSTjINtNtCs6xMQmN1AWUs_5alloc5boxed3BoxNtNtCskjFBwtpsoHr_8quandary4name4NameEEEB1h_.0:3,_RINvNtNtCskjFBwtpsoHr_8quandary6server5query11do_referralNtNtB2_10kani_query8MockZoneEB6_.0:2,_RINvNtNtCskjFBwtpsoHr_8quandary6server5query11do_referralNtNtB2_10kani_query8MockZoneEB6_.1:2,_RINvNtNtCskjFBwtpsoHr_8quandary6server5query11do_referralNtNtB2_10kani_query8MockZoneEB6_.2:2" stubs="M1,T0,N1"
//   fn="Server::handle_non_axfr_query,answer,do_referral,add_additional_addresses,execute_allowing_truncation,read_name_from_rdata,Name::eq_or_subdomain_of,Writer::add_authority_rrset,Writer::add_additional_rrset"
//   bound="UDP, limit 64; question a. A IN; Referral(cut a., NS b.a. (in bailiwick: glue, visible only below the cut, mandatory)); the name server has A and AAAA: 79 octets needed: must be truncated, never sent without the glue; unwind 7"
//   sym="NS TTL, TTLs and octets of the address records"
proof_ref!(c05_referral_glue_both, 7, {
    let (case, n) = referral(true, false, true, 64, true, true);
    kani::cover!(case == TRUNCATED, "glue does not fit: truncated");
    let _ = n;
});

// @harness name=c05_referral_glue_aaaa props=C05,C04 panics=C05,C01 tier=thorough mem=2 t=1800 kani="--no-assertion-reach-checks" cbmc="--max-field-sensitivity-array-size 256 --unwindset _RNCNvMs_NtNtCskjFBwtpsoHr_8quandary7message6writerNtB6_6Writer30write_compressed_unhinted_name0Ba_.0:4,_RNCNvMs_NtNtCskjFBwtpsoHr_8quandary7message6writerNtB6_6Writer30write_compressed_unhinted_names_0Ba_.0:4,_RNvMs_NtNtCskjFBwtpsoHr_8quandary7message6writerNtB4_6Writer30write_compressed_unhinted_name.0:4,_RNvMs_NtNtCskjFBwtpsoHr_8quandary7message6writerNtB4_6Writer30write_compressed_unhinted_name.1:4,_RINvNvMNtNtCs8xvirJzNMvV_4core5slice5asciiSh27eq_ignore_ascii_case_chunks21eq_ignore_ascii_innerKj10_ECskjFBwtpsoHr_8quandary.0:3,_RNvMNtNtCs8xvirJzNMvV_4core5slice5asciiSh27eq_ignore_ascii_case_simpleCskjFBwtpsoHr_8quandary.0:3,_RINvMNtNtCs8xvirJzNMvV_4core5slice5asciiSh27eq_ignore_ascii_case_chunksKj10_ECskjFBwtpsoHr_8quandary.0:3,_RNvNtNtCskjFBwtpsoHr_8quandary4name4wire23parse_uncompressed_name.0:5,_RNvMs_NtCskjFBwtpsoHr_8quandary4nameNtB4_4Name15initialize_into.0:5,_RINvNtCs8xvirJzNMvV_4core3ptr9drop_glueSTjINtNtCs6xMQmN1AWUs_5alloc5boxed3BoxNtNtCskjFBwtpsoHr_8quandary4name4NameEEEB1h_.0:3,_RINvNtNtCskjFBwtpsoHr_8quandary6server5query11do_referralNtNtB2_10kani_query8MockZoneEB6_.0:2,_RINvNtNtCskjFBwtpsoHr_8quandary6server5query11do_referralNtNtB2_10kani_query8MockZoneEB6_.1:2,_RINvNtNtCskjFBwtpsoHr_8quandary6server5query11do_referralNtNtB2_10kani_query8MockZoneEB6_.2:2" stubs="M1,T0,N1"
//   fn="Server::handle_non_axfr_query,answer,do_referral,add_additional_addresses,execute_allowing_truncation,read_name_from_rdata,Name::eq_or_subdomain_of,Writer::add_authority_rrset,Writer::add_additional_rrset"
//   bound="UDP, limit 64; question a. A IN; Referral(cut a., NS b.a. (in bailiwick: glue, visible only below the cut, mandatory)); the name server has an AAAA: 63 octets, complete; unwind 7"
//   sym="NS TTL, TTLs and octets of the address records"
proof_ref!(c05_referral_glue_aaaa, 7, {
    let (case, n) = referral(true, false, true, 64, false, true);
    kani::cover!(case == COMPLETE && n == 63, "referral with glue AAAA");
    let _ = n;
});

// @harness name=c05_referral_glue_none props=C05,C04 panics=C05,C01 tier=thorough mem=2 t=1800 kani="--no-assertion-reach-checks" cbmc="--max-field-sensitivity-array-size 256 --unwindset _RNCNvMs_NtNtCskjFBwtpsoHr_8quandary7message6writerNtB6_6Writer30write_compressed_unhinted_name0Ba_.0:4,_RNCNvMs_NtNtCskjFBwtpsoHr_8quandary7message6writerNtB6_6Writer30write_compressed_unhinted_names_0Ba_.0:4,_RNvMs_NtNtCskjFBwtpsoHr_8quandary7message6writerNtB4_6Writer30write_compressed_unhinted_name.0:4,_RNvMs_NtNtCskjFBwtpsoHr_8quandary7message6writerNtB4_6Writer30write_compressed_unhinted_name.1:4,_RINvNvMNtNtCs8xvirJzNMvV_4core5slice5asciiSh27eq_ignore_ascii_case_chunks21eq_ignore_ascii_innerKj10_ECskjFBwtpsoHr_8quandary.0:3,_RNvMNtNtCs8xvirJzNMvV_4core5slice5asciiSh27eq_ignore_ascii_case_simpleCskjFBwtpsoHr_8quandary.0:3,_RINvMNtNtCs8xvirJzNMvV_4core5slice5asciiSh27eq_ignore_ascii_case_chunksKj10_ECskjFBwtpsoHr_8quandary.0:3,_RNvNtNtCskjFBwtpsoHr_8quandary4name4wire23parse_uncompressed_name.0:5,_RNvMs_NtCskjFBwtpsoHr_8quandary4nameNtB4_4Name15initialize_into.0:5,_RINvNtCs8xvirJzNMvV_4core3ptr9drop_glueSTjINtNtCs6xMQmN1AWUs_5alloc5boxed3BoxNtNtCskjFBwtpsoHr_8quandary4name4NameEEEB1h_.0:3,_RINvNtNtCskjFBwtpsoHr_8quandary6server5query11do_referralNtNtB2_10kani_query8MockZoneEB6_.0:2,_RINvNtNtCskjFBwtpsoHr_8quandary6server5query11do_referralNtNtB2_10kani_query8MockZoneEB6_.1:2,_RINvNtNtCskjFBwtpsoHr_8quandary6server5query11do_referralNtNtB2_10kani_query8MockZoneEB6_.2:2" stubs="M1,T0,N1"
//   fn="Server::handle_non_axfr_query,answer,do_referral,add_additional_addresses,execute_allowing_truncation,read_name_from_rdata,Name::eq_or_subdomain_of,Writer::add_authority_rrset,Writer::add_additional_rrset"
//   bound="UDP, limit 64; question a. A IN; Referral(cut a., NS b.a. (in bailiwick: glue, visible only below the cut, mandatory)); the name server has no address record: 35 octets; unwind 7"
//   sym="NS TTL, TTLs and octets of the address records"
proof_ref!(c05_referral_glue_none, 7, {
    let (case, n) = referral(true, false, true, 64, false, false);
    kani::cover!(case == COMPLETE && n == 35, "referral without addresses");
    let _ = n;
});

// @harness name=c05_referral_out props=C05,C04 panics=C05,C01 tier=thorough mem=2 t=1800 kani="--no-assertion-reach-checks" cbmc="--max-field-sensitivity-array-size 256 --unwindset _RNCNvMs_NtNtCskjFBwtpsoHr_8quandary7message6writerNtB6_6Writer30write_compressed_unhinted_name0Ba_.0:4,_RNCNvMs_NtNtCskjFBwtpsoHr_8quandary7message6writerNtB6_6Writer30write_compressed_unhinted_names_0Ba_.0:4,_RNvMs_NtNtCskjFBwtpsoHr_8quandary7message6writerNtB4_6Writer30write_compressed_unhinted_name.0:4,_RNvMs_NtNtCskjFBwtpsoHr_8quandary7message6writerNtB4_6Writer30write_compressed_unhinted_name.1:4,_RINvNvMNtNtCs8xvirJzNMvV_4core5slice5asciiSh27eq_ignore_ascii_case_chunks21eq_ignore_ascii_innerKj10_ECskjFBwtpsoHr_8quandary.0:3,_RNvMNtNtCs8xvirJzNMvV_4core5slice5asciiSh27eq_ignore_ascii_case_simpleCskjFBwtpsoHr_8quandary.0:3,_RINvMNtNtCs8xvirJzNMvV_4core5slice5asciiSh27eq_ignore_ascii_case_chunksKj10_ECskjFBwtpsoHr_8quandary.0:3,_RNvNtNtCskjFBwtpsoHr_8quandary4name4wire23parse_uncompressed_name.0:5,_RNvMs_NtCskjFBwtpsoHr_8quandary4nameNtB4_4Name15initialize_into.0:5,_RINvNtCs8xvirJzNMvV_4core3ptr9drop_glueSTjINtNtCs6xMQmN1AWUs_5alloc5boxed3BoxNtNtCskjFBwtpsoHr_8quandary4name4NameEEEB1h_.0:3,_RINvNtNtCskjFBwtpsoHr_8quandary6server5query11do_referralNtNtB2_10kani_query8MockZoneEB6_.0:2,_RINvNtNtCskjFBwtpsoHr_8quandary6server5query11do_referralNtNtB2_10kani_query8MockZoneEB6_.1:2,_RINvNtNtCskjFBwtpsoHr_8quandary6server5query11do_referralNtNtB2_10kani_query8MockZoneEB6_.2:2" stubs="M1,T0,N1"
//   fn="Server::handle_non_axfr_query,answer,do_referral,add_additional_addresses,execute_allowing_truncation,read_name_from_rdata,Name::eq_or_subdomain_of,Writer::add_authority_rrset,Writer::add_additional_rrset"
//   bound="UDP, limit 64; question a. A IN; Referral(cut a., NS c. (a name of the parent zone: addresses optional)); the name server has an A: 50 octets, complete; unwind 7"
//   sym="NS TTL, TTLs and octets of the address records"
proof_ref!(c05_referral_out, 7, {
    let (case, n) = referral(false, false, true, 64, true, false);
    kani::cover!(case == COMPLETE && n == 50, "referral with the A of an out-of-bailiwick server");
    let _ = n;
});

// @harness name=c05_referral_sibling props=C05,C04 panics=C05,C01 tier=quick mem=4 t=1800 kani="--no-assertion-reach-checks" cbmc="--max-field-sensitivity-array-size 256 --unwindset _RNCNvMs_NtNtCskjFBwtpsoHr_8quandary7message6writerNtB6_6Writer30write_compressed_unhinted_name0Ba_.0:4,_RNCNvMs_NtNtCskjFBwtpsoHr_8quandary7message6writerNtB6_6Writer30write_compressed_unhinted_names_0Ba_.0:4,_RNvMs_NtNtCskjFBwtpsoHr_8quandary7message6writerNtB4_6Writer30write_compressed_unhinted_name.0:4,_RNvMs_NtNtCskjFBwtpsoHr_8quandary7message6writerNtB4_6Writer30write_compressed_unhinted_name.1:4,_RINvNvMNtNtCs8xvirJzNMvV_4core5slice5asciiSh27eq_ignore_ascii_case_chunks21eq_ignore_ascii_innerKj10_ECskjFBwtpsoHr_8quandary.0:3,_RNvMNtNtCs8xvirJzNMvV_4core5slice5asciiSh27eq_ignore_ascii_case_simpleCskjFBwtpsoHr_8quandary.0:3,_RINvMNtNtCs8xvirJzNMvV_4core5slice5asciiSh27eq_ignore_ascii_case_chunksKj10_ECskjFBwtpsoHr_8quandary.0:3,_RNvNtNtCskjFBwtpsoHr_8quandary4name4wire23parse_uncompressed_name.0:5,_RNvMs_NtCskjFBwtpsoHr_8quandary4nameNtB4_4Name15initialize_into.0:5,_RINvNtCs8xvirJzNMvV_4core3ptr9drop_glueSTjINtNtCs6xMQmN1AWUs_5alloc5boxed3BoxNtNtCskjFBwtpsoHr_8quandary4name4NameEEEB1h_.0:3,_RINvNtNtCskjFBwtpsoHr_8quandary6server5query11do_referralNtNtB2_10kani_query8MockZoneEB6_.0:2,_RINvNtNtCskjFBwtpsoHr_8quandary6server5query11do_referralNtNtB2_10kani_query8MockZoneEB6_.1:2,_RINvNtNtCskjFBwtpsoHr_8quandary6server5query11do_referralNtNtB2_10kani_query8MockZoneEB6_.2:2" stubs="M1,T0,N1"
//   fn="Server::handle_non_axfr_query,answer,do_referral,add_additional_addresses,execute_allowing_truncation,read_name_from_rdata,Name::eq_or_subdomain_of,Writer::add_authority_rrset,Writer::add_additional_rrset"
//   bound="UDP, limit 64; question a. A IN; Referral(cut a., NS c.) where c. lies below ANOTHER cut of the parent zone (sibling glue): the zone answers its address lookup with a Referral unless search_below_cuts is set; c. has an A: 50 octets, complete (the address fits, so it must be there); unwind 7"
//   sym="NS TTL, TTL and octets of the A record"
proof_ref!(c05_referral_sibling, 7, {
    let (case, n) = referral_x(false, true, false, true, 64, true, false);
    kani::cover!(case == COMPLETE && n == 50, "referral with sibling glue");
});

// @harness name=c05_referral_out_both props=C05,C04 panics=C05,C01 tier=thorough mem=2 t=1800 kani="--no-assertion-reach-checks" cbmc="--max-field-sensitivity-array-size 256 --unwindset _RNCNvMs_NtNtCskjFBwtpsoHr_8quandary7message6writerNtB6_6Writer30write_compressed_unhinted_name0Ba_.0:4,_RNCNvMs_NtNtCskjFBwtpsoHr_8quandary7message6writerNtB6_6Writer30write_compressed_unhinted_names_0Ba_.0:4,_RNvMs_NtNtCskjFBwtpsoHr_8quandary7message6writerNtB4_6Writer30write_compressed_unhinted_name.0:4,_RNvMs_NtNtCskjFBwtpsoHr_8quandary7message6writerNtB4_6Writer30write_compressed_unhinted_name.1:4,_RINvNvMNtNtCs8xvirJzNMvV_4core5slice5asciiSh27eq_ignore_ascii_case_chunks21eq_ignore_ascii_innerKj10_ECskjFBwtpsoHr_8quandary.0:3,_RNvMNtNtCs8xvirJzNMvV_4core5slice5asciiSh27eq_ignore_ascii_case_simpleCskjFBwtpsoHr_8quandary.0:3,_RINvMNtNtCs8xvirJzNMvV_4core5slice5asciiSh27eq_ignore_ascii_case_chunksKj10_ECskjFBwtpsoHr_8quandary.0:3,_RNvNtNtCskjFBwtpsoHr_8quandary4name4wire23parse_uncompressed_name.0:5,_RNvMs_NtCskjFBwtpsoHr_8quandary4nameNtB4_4Name15initialize_into.0:5,_RINvNtCs8xvirJzNMvV_4core3ptr9drop_glueSTjINtNtCs6xMQmN1AWUs_5alloc5boxed3BoxNtNtCskjFBwtpsoHr_8quandary4name4NameEEEB1h_.0:3,_RINvNtNtCskjFBwtpsoHr_8quandary6server5query11do_referralNtNtB2_10kani_query8MockZoneEB6_.0:2,_RINvNtNtCskjFBwtpsoHr_8quandary6server5query11do_referralNtNtB2_10kani_query8MockZoneEB6_.1:2,_RINvNtNtCskjFBwtpsoHr_8quandary6server5query11do_referralNtNtB2_10kani_query8MockZoneEB6_.2:2" stubs="M1,T0,N1"
//   fn="Server::handle_non_axfr_query,answer,do_referral,add_additional_addresses,execute_allowing_truncation,read_name_from_rdata,Name::eq_or_subdomain_of,Writer::add_authority_rrset,Writer::add_additional_rrset"
//   bound="UDP, limit 64; question a. A IN; Referral(cut a., NS c. (a name of the parent zone: addresses optional)); the name server has A and AAAA: 78 octets needed: optional data dropped without TC; unwind 7"
//   sym="NS TTL, TTLs and octets of the address records"
proof_ref!(c05_referral_out_both, 7, {
    let (case, n) = referral(false, false, true, 64, true, true);
    kani::cover!(case == PARTIAL, "optional address dropped without TC");
    let _ = n;
});

/// Two name servers: a. itself (in bailiwick: glue A mandatory) and c.
/// (parent zone: optional).  With both A records the response would be 80
/// octets: the glue must stay, the other address may go.
fn referral_2ns(udp: bool, limit: usize, has_o: bool) -> (u8, usize) {
    let ttl: u32 = kani::any();
    let g: [u8; 4] = kani::any();
    let g_ttl: u32 = kani::any();
    let o: [u8; 4] = kani::any();
    let o_ttl: u32 = kani::any();
    let ns = ns_a_c_raw();
    let ga = a_raw(g);
    let oa = a_raw(o);
    let sraw = soa_raw([0; 4], [0; 4]);
    let mut zone = blank_zone(0, rdataset_view(&sraw));
    zone.steps[0] = Step { name: P_A, out: Out::Referral, ttl, rd: rdataset_view(&ns), child: P_A, ..no_step() };
    zone.n_steps = 1;
    let gd = AddrData { has_a: true, a_ttl: g_ttl, a: g, has_aaaa: false, aaaa_ttl: 0, aaaa: [0; 16] };
    let od = AddrData { has_a: has_o, a_ttl: o_ttl, a: o, has_aaaa: false, aaaa_ttl: 0, aaaa: [0; 16] };
    zone.asteps[0] = astep_of(P_A, true, &gd, rdataset_view(&ga), rdataset_view(&NO_RD));
    zone.asteps[1] = astep_of(P_C, false, &od, rdataset_view(&oa), rdataset_view(&NO_RD));
    zone.n_asteps = 2;
    let req = req_a(T_A);
    let mut resp = [0u8; 64];
    let n = run(&zone, &req, P_A, udp, limit, &mut resp);

    let mut ex = Expect::new(QEND_A);
    // NS a.: owner pointer, RDATA pointer; NS c.: owner pointer, RDATA written out
    ex.push(exp_name(2, P_A.wire(), T_NS, ttl, P_A.wire()), 14);
    ex.push(exp_name(2, P_A.wire(), T_NS, ttl, P_C.wire()), 15);
    push_addrs(&mut ex, P_A.wire(), &gd, false);
    push_addrs(&mut ex, P_C.wire(), &od, true);
    (check_response(&resp, n, &ex, udp, limit), n)
}

// @harness name=c05_referral_2ns props=C05,C04 panics=C05,C01 tier=thorough mem=2 t=1800 kani="--no-assertion-reach-checks" cbmc="--max-field-sensitivity-array-size 256 --unwindset _RNCNvMs_NtNtCskjFBwtpsoHr_8quandary7message6writerNtB6_6Writer30write_compressed_unhinted_name0Ba_.0:4,_RNCNvMs_NtNtCskjFBwtpsoHr_8quandary7message6writerNtB6_6Writer30write_compressed_unhinted_names_0Ba_.0:4,_RNvMs_NtNtCskjFBwtpsoHr_8quandary7message6writerNtB4_6Writer30write_compressed_unhinted_name.0:4,_RNvMs_NtNtCskjFBwtpsoHr_8quandary7message6writerNtB4_6Writer30write_compressed_unhinted_name.1:4,_RINvNvMNtNtCs8xvirJzNMvV_4core5slice5asciiSh27eq_ignore_ascii_case_chunks21eq_ignore_ascii_innerKj10_ECskjFBwtpsoHr_8quandary.0:3,_RNvMNtNtCs8xvirJzNMvV_4core5slice5asciiSh27eq_ignore_ascii_case_simpleCskjFBwtpsoHr_8quandary.0:3,_RINvMNtNtCs8xvirJzNMvV_4core5slice5asciiSh27eq_ignore_ascii_case_chunksKj10_ECskjFBwtpsoHr_8quandary.0:3,_RNvNtNtCskjFBwtpsoHr_8quandary4name4wire23parse_uncompressed_name.0:5,_RNvMs_NtCskjFBwtpsoHr_8quandary4nameNtB4_4Name15initialize_into.0:5,_RINvNtCs8xvirJzNMvV_4core3ptr9drop_glueSTjINtNtCs6xMQmN1AWUs_5alloc5boxed3BoxNtNtCskjFBwtpsoHr_8quandary4name4NameEEEB1h_.0:3,_RINvNtNtCskjFBwtpsoHr_8quandary6server5query11do_referralNtNtB2_10kani_query8MockZoneEB6_.0:3,_RINvNtNtCskjFBwtpsoHr_8quandary6server5query11do_referralNtNtB2_10kani_query8MockZoneEB6_.1:2,_RINvNtNtCskjFBwtpsoHr_8quandary6server5query11do_referralNtNtB2_10kani_query8MockZoneEB6_.2:2" stubs="M1,T0,N1"
//   fn="Server::handle_non_axfr_query,answer,do_referral,add_additional_addresses,execute_allowing_truncation,read_name_from_rdata,Name::eq_or_subdomain_of,Writer::add_authority_rrset,Writer::add_additional_rrset"
//   bound="UDP, limit 64; question a. A IN; Referral(cut a., NS {a., c.}); glue A of a. present, c. without address: 64 octets, complete; address lookups answered in the order glue, others; unwind 7"
//   sym="NS TTL, glue TTL, 4 address octets"
proof_ref!(c05_referral_2ns, 7, {
    let (case, n) = referral_2ns(true, 64, false);
    kani::cover!(case == COMPLETE && n == 64, "complete referral");
});

// @harness name=c05_referral_2ns_drop props=C05,C04 panics=C05,C01 tier=thorough mem=2 t=1800 kani="--no-assertion-reach-checks" cbmc="--max-field-sensitivity-array-size 256 --unwindset _RNCNvMs_NtNtCskjFBwtpsoHr_8quandary7message6writerNtB6_6Writer30write_compressed_unhinted_name0Ba_.0:4,_RNCNvMs_NtNtCskjFBwtpsoHr_8quandary7message6writerNtB6_6Writer30write_compressed_unhinted_names_0Ba_.0:4,_RNvMs_NtNtCskjFBwtpsoHr_8quandary7message6writerNtB4_6Writer30write_compressed_unhinted_name.0:4,_RNvMs_NtNtCskjFBwtpsoHr_8quandary7message6writerNtB4_6Writer30write_compressed_unhinted_name.1:4,_RINvNvMNtNtCs8xvirJzNMvV_4core5slice5asciiSh27eq_ignore_ascii_case_chunks21eq_ignore_ascii_innerKj10_ECskjFBwtpsoHr_8quandary.0:3,_RNvMNtNtCs8xvirJzNMvV_4core5slice5asciiSh27eq_ignore_ascii_case_simpleCskjFBwtpsoHr_8quandary.0:3,_RINvMNtNtCs8xvirJzNMvV_4core5slice5asciiSh27eq_ignore_ascii_case_chunksKj10_ECskjFBwtpsoHr_8quandary.0:3,_RNvNtNtCskjFBwtpsoHr_8quandary4name4wire23parse_uncompressed_name.0:5,_RNvMs_NtCskjFBwtpsoHr_8quandary4nameNtB4_4Name15initialize_into.0:5,_RINvNtCs8xvirJzNMvV_4core3ptr9drop_glueSTjINtNtCs6xMQmN1AWUs_5alloc5boxed3BoxNtNtCskjFBwtpsoHr_8quandary4name4NameEEEB1h_.0:3,_RINvNtNtCskjFBwtpsoHr_8quandary6server5query11do_referralNtNtB2_10kani_query8MockZoneEB6_.0:3,_RINvNtNtCskjFBwtpsoHr_8quandary6server5query11do_referralNtNtB2_10kani_query8MockZoneEB6_.1:2,_RINvNtNtCskjFBwtpsoHr_8quandary6server5query11do_referralNtNtB2_10kani_query8MockZoneEB6_.2:2" stubs="M1,T0,N1"
//   fn="Server::handle_non_axfr_query,answer,do_referral,add_additional_addresses,execute_allowing_truncation,read_name_from_rdata,Name::eq_or_subdomain_of,Writer::add_authority_rrset,Writer::add_additional_rrset"
//   bound="UDP, limit 64; Referral(cut a., NS {a., c.}); glue A of a. and an A of c.: 80 octets needed; the glue must stay, the other address may go; unwind 7"
//   sym="NS TTL, 2 address TTLs, 8 address octets"
proof_ref!(c05_referral_2ns_drop, 7, {
    let (case, n) = referral_2ns(true, 64, true);
    kani::cover!(case == PARTIAL && n == 64, "glue kept, other address dropped");
});

// @harness name=c05_referral_badns props=C05 panics=C05,C01 tier=thorough mem=2 t=1200 kani="--no-assertion-reach-checks" cbmc="--max-field-sensitivity-array-size 256 --unwindset _RNCNvMs_NtNtCskjFBwtpsoHr_8quandary7message6writerNtB6_6Writer30write_compressed_unhinted_name0Ba_.0:4,_RNCNvMs_NtNtCskjFBwtpsoHr_8quandary7message6writerNtB6_6Writer30write_compressed_unhinted_names_0Ba_.0:4,_RNvMs_NtNtCskjFBwtpsoHr_8quandary7message6writerNtB4_6Writer30write_compressed_unhinted_name.0:4,_RNvMs_NtNtCskjFBwtpsoHr_8quandary7message6writerNtB4_6Writer30write_compressed_unhinted_name.1:4,_RINvNvMNtNtCs8xvirJzNMvV_4core5slice5asciiSh27eq_ignore_ascii_case_chunks21eq_ignore_ascii_innerKj10_ECskjFBwtpsoHr_8quandary.0:3,_RNvMNtNtCs8xvirJzNMvV_4core5slice5asciiSh27eq_ignore_ascii_case_simpleCskjFBwtpsoHr_8quandary.0:3,_RINvMNtNtCs8xvirJzNMvV_4core5slice5asciiSh27eq_ignore_ascii_case_chunksKj10_ECskjFBwtpsoHr_8quandary.0:3,_RNvNtNtCskjFBwtpsoHr_8quandary4name4wire23parse_uncompressed_name.0:5,_RNvMs_NtCskjFBwtpsoHr_8quandary4nameNtB4_4Name15initialize_into.0:5,_RINvNtCs8xvirJzNMvV_4core3ptr9drop_glueSTjINtNtCs6xMQmN1AWUs_5alloc5boxed3BoxNtNtCskjFBwtpsoHr_8quandary4name4NameEEEB1h_.0:3,_RINvNtNtCskjFBwtpsoHr_8quandary6server5query11do_referralNtNtB2_10kani_query8MockZoneEB6_.0:2,_RINvNtNtCskjFBwtpsoHr_8quandary6server5query11do_referralNtNtB2_10kani_query8MockZoneEB6_.1:2,_RINvNtNtCskjFBwtpsoHr_8quandary6server5query11do_referralNtNtB2_10kani_query8MockZoneEB6_.2:2" stubs="M1,T0,N1"
//   fn="Server::handle_non_axfr_query,answer,do_referral,read_name_from_rdata,Writer::add_authority_rrset"
//   bound="UDP, limit 64; question a. A IN; Referral whose NS RDATA is not one whole name (label cut short; name followed by an extra octet): SERVFAIL, no records; unwind 7"
//   sym="RDATA octets"
proof_ref!(c05_referral_badns, 7, {
    let x: u8 = kani::any();
    let sraw = soa_raw([0; 4], [0; 4]);
    let l = 2u16.to_ne_bytes();
    let cut = [l[0], l[1], 3, x];
    let l = 4u16.to_ne_bytes();
    let extra = [l[0], l[1], 1, b'b', 0, x];
    let mut k = 0;
    while k < 2 {
        let mut zone = blank_zone(0, rdataset_view(&sraw));
        let rd = if k == 0 { rdataset_view(&cut) } else { rdataset_view(&extra) };
        zone.steps[0] = Step { name: P_A, out: Out::Referral, ttl: 1, rd, child: P_A, ..no_step() };
        zone.n_steps = 1;
        let req = req_a(T_A);
        let mut resp = [0u8; 64];
        let n = run(&zone, &req, P_A, true, 64, &mut resp);
        let ex = Expect::servfail(QEND_A);
        check_response(&resp, n, &ex, true, 64);
        k += 1;
    }
    kani::cover!(true, "both malformed NS sets answered");
});

// @harness name=c05_cname_referral props=C05 panics=C05,C01 tier=thorough mem=3 t=1800 kani="--no-assertion-reach-checks" cbmc="--max-field-sensitivity-array-size 256 --unwindset _RNCNvMs_NtNtCskjFBwtpsoHr_8quandary7message6writerNtB6_6Writer30write_compressed_unhinted_name0Ba_.0:4,_RNCNvMs_NtNtCskjFBwtpsoHr_8quandary7message6writerNtB6_6Writer30write_compressed_unhinted_names_0Ba_.0:4,_RNvMs_NtNtCskjFBwtpsoHr_8quandary7message6writerNtB4_6Writer30write_compressed_unhinted_name.0:4,_RNvMs_NtNtCskjFBwtpsoHr_8quandary7message6writerNtB4_6Writer30write_compressed_unhinted_name.1:4,_RINvNvMNtNtCs8xvirJzNMvV_4core5slice5asciiSh27eq_ignore_ascii_case_chunks21eq_ignore_ascii_innerKj10_ECskjFBwtpsoHr_8quandary.0:3,_RNvMNtNtCs8xvirJzNMvV_4core5slice5asciiSh27eq_ignore_ascii_case_simpleCskjFBwtpsoHr_8quandary.0:3,_RINvMNtNtCs8xvirJzNMvV_4core5slice5asciiSh27eq_ignore_ascii_case_chunksKj10_ECskjFBwtpsoHr_8quandary.0:3,_RNvNtNtCskjFBwtpsoHr_8quandary4name4wire23parse_uncompressed_name.0:5,_RNvMs_NtCskjFBwtpsoHr_8quandary4nameNtB4_4Name15initialize_into.0:5,_RINvNtCs8xvirJzNMvV_4core3ptr9drop_glueSTjINtNtCs6xMQmN1AWUs_5alloc5boxed3BoxNtNtCskjFBwtpsoHr_8quandary4name4NameEEEB1h_.0:3,_RINvNtNtCskjFBwtpsoHr_8quandary6server5query11do_referralNtNtB2_10kani_query8MockZoneEB6_.0:2,_RINvNtNtCskjFBwtpsoHr_8quandary6server5query11do_referralNtNtB2_10kani_query8MockZoneEB6_.1:2,_RINvNtNtCskjFBwtpsoHr_8quandary6server5query11do_referralNtNtB2_10kani_query8MockZoneEB6_.2:2" stubs="M1,T0,N1"
//   fn="Server::handle_non_axfr_query,answer,do_cname,follow_cname_1,follow_cname_2,do_referral,add_additional_addresses"
//   bound="UDP, limit 64; question a. A IN; a. CNAME b.; lookup(b.) = Referral(cut b., NS b.) with glue A of b. (complete response exactly 64 octets); AA set (first owner is authoritative); unwind 7"
//   sym="3 TTLs, 4 address octets"
proof_ref!(c05_cname_referral, 7, {
    let c_ttl: u32 = kani::any();
    let ttl: u32 = kani::any();
    let g: [u8; 4] = kani::any();
    let g_ttl: u32 = kani::any();
    let cn = name1_raw(b'b');
    let ns = name1_raw(b'b');
    let ga = a_raw(g);
    let sraw = soa_raw([0; 4], [0; 4]);
    let mut zone = blank_zone(0, rdataset_view(&sraw));
    zone.steps[0] = Step { name: P_A, out: Out::Cname, ttl: c_ttl, rd: rdataset_view(&cn), ..no_step() };
    zone.steps[1] = Step { name: P_B, out: Out::Referral, ttl, rd: rdataset_view(&ns), child: P_B, ..no_step() };
    zone.n_steps = 2;
    let gd = AddrData { has_a: true, a_ttl: g_ttl, a: g, has_aaaa: false, aaaa_ttl: 0, aaaa: [0; 16] };
    zone.asteps[0] = astep_of(P_B, true, &gd, rdataset_view(&ga), rdataset_view(&NO_RD));
    zone.n_asteps = 1;
    let req = req_a(T_A);
    let mut resp = [0u8; 64];
    let n = run(&zone, &req, P_A, true, 64, &mut resp);
    let mut ex = Expect::new(QEND_A);
    ex.aa = true;
    ex.push(exp_name(1, P_A.wire(), T_CNAME, c_ttl, P_B.wire()), 15);
    ex.push(exp_name(2, P_B.wire(), T_NS, ttl, P_B.wire()), 14);
    push_addrs(&mut ex, P_B.wire(), &gd, false);
    check_response(&resp, n, &ex, true, 64);
    kani::cover!(n == 64, "CNAME into a delegation");
});

// --------------------------------------------------------------------------
// 5. QTYPE * (RFC 1034 4.3.2 step 4 "all RRs")
// --------------------------------------------------------------------------

/// question a. * IN; the node a. has `k` RRsets (A, 4-octet TXT).
fn any_query(k: usize) {
    let soa = any_soa();
    let sraw = soa_raw(soa.w, soa.m);
    let t1: u32 = kani::any();
    let t2: u32 = kani::any();
    let o: [u8; 4] = kani::any();
    let x: [u8; 3] = kani::any();
    let txt = [3, x[0], x[1], x[2]];
    let araw = a_raw(o);
    let traw = a_raw(txt);
    let mut zone = blank_zone(soa.ttl, rdataset_view(&sraw));
    zone.all_out = Out::Found;
    zone.all_name = P_A;
    zone.all_sets = [(T_A, t1, rdataset_view(&araw)), (T_TXT, t2, rdataset_view(&traw))];
    zone.n_all = k;
    let req = req_a(255);
    let mut resp = [0u8; 64];
    let n = run(&zone, &req, P_A, true, 64, &mut resp);
    let mut ex = Expect::new(QEND_A);
    ex.aa = true;
    if k == 0 {
        // an empty non-terminal: NOERROR, no data
        ex.push(soa_expectation(&resp, QEND_A + 1 + 4, &soa), SOA_REC);
    }
    if k >= 1 {
        ex.push(exp_a(1, P_A.wire(), T_A, t1, o), A_REC);
    }
    if k >= 2 {
        ex.push(exp_a(1, P_A.wire(), T_TXT, t2, txt), A_REC);
    }
    check_response(&resp, n, &ex, true, 64);
    assert!(zone.calls.get() == 0 && zone.all_calls.get() == 1, "[C05] ANY is answered from one lookup_all");
}

// @harness name=c05_any_0 props=C05 panics=C05,C01 tier=thorough mem=2 t=1200 kani="--no-assertion-reach-checks" cbmc="--max-field-sensitivity-array-size 256 --unwindset _RNCNvMs_NtNtCskjFBwtpsoHr_8quandary7message6writerNtB6_6Writer30write_compressed_unhinted_name0Ba_.0:4,_RNCNvMs_NtNtCskjFBwtpsoHr_8quandary7message6writerNtB6_6Writer30write_compressed_unhinted_names_0Ba_.0:4,_RNvMs_NtNtCskjFBwtpsoHr_8quandary7message6writerNtB4_6Writer30write_compressed_unhinted_name.0:4,_RNvMs_NtNtCskjFBwtpsoHr_8quandary7message6writerNtB4_6Writer30write_compressed_unhinted_name.1:4,_RINvNvMNtNtCs8xvirJzNMvV_4core5slice5asciiSh27eq_ignore_ascii_case_chunks21eq_ignore_ascii_innerKj10_ECskjFBwtpsoHr_8quandary.0:3,_RNvMNtNtCs8xvirJzNMvV_4core5slice5asciiSh27eq_ignore_ascii_case_simpleCskjFBwtpsoHr_8quandary.0:3,_RINvMNtNtCs8xvirJzNMvV_4core5slice5asciiSh27eq_ignore_ascii_case_chunksKj10_ECskjFBwtpsoHr_8quandary.0:3,_RNvNtNtCskjFBwtpsoHr_8quandary4name4wire23parse_uncompressed_name.0:5,_RNvMs_NtCskjFBwtpsoHr_8quandary4nameNtB4_4Name15initialize_into.0:5,_RINvNtCs8xvirJzNMvV_4core3ptr9drop_glueSTjINtNtCs6xMQmN1AWUs_5alloc5boxed3BoxNtNtCskjFBwtpsoHr_8quandary4name4NameEEEB1h_.0:3,_RINvNtNtCskjFBwtpsoHr_8quandary6server5query11do_referralNtNtB2_10kani_query8MockZoneEB6_.0:2,_RINvNtNtCskjFBwtpsoHr_8quandary6server5query11do_referralNtNtB2_10kani_query8MockZoneEB6_.1:2,_RINvNtNtCskjFBwtpsoHr_8quandary6server5query11do_referralNtNtB2_10kani_query8MockZoneEB6_.2:2" stubs="M1,T0"
//   fn="Server::handle_non_axfr_query,answer_any,add_negative_caching_soa"
//   bound="UDP, limit 64; question a. * IN; lookup_all(a.) = Found with no RRset (empty non-terminal): NOERROR + SOA; unwind 7"
//   sym="SOA TTL, MINIMUM, 4 SOA octets"
proof!(c05_any_0, 7, {
    any_query(0);
    kani::cover!(true, "ANY at an empty node");
});

// @harness name=c05_any_1 props=C05 panics=C05,C01 tier=thorough mem=2 t=1200 kani="--no-assertion-reach-checks" cbmc="--max-field-sensitivity-array-size 256 --unwindset _RNCNvMs_NtNtCskjFBwtpsoHr_8quandary7message6writerNtB6_6Writer30write_compressed_unhinted_name0Ba_.0:4,_RNCNvMs_NtNtCskjFBwtpsoHr_8quandary7message6writerNtB6_6Writer30write_compressed_unhinted_names_0Ba_.0:4,_RNvMs_NtNtCskjFBwtpsoHr_8quandary7message6writerNtB4_6Writer30write_compressed_unhinted_name.0:4,_RNvMs_NtNtCskjFBwtpsoHr_8quandary7message6writerNtB4_6Writer30write_compressed_unhinted_name.1:4,_RINvNvMNtNtCs8xvirJzNMvV_4core5slice5asciiSh27eq_ignore_ascii_case_chunks21eq_ignore_ascii_innerKj10_ECskjFBwtpsoHr_8quandary.0:3,_RNvMNtNtCs8xvirJzNMvV_4core5slice5asciiSh27eq_ignore_ascii_case_simpleCskjFBwtpsoHr_8quandary.0:3,_RINvMNtNtCs8xvirJzNMvV_4core5slice5asciiSh27eq_ignore_ascii_case_chunksKj10_ECskjFBwtpsoHr_8quandary.0:3,_RNvNtNtCskjFBwtpsoHr_8quandary4name4wire23parse_uncompressed_name.0:5,_RNvMs_NtCskjFBwtpsoHr_8quandary4nameNtB4_4Name15initialize_into.0:5,_RINvNtCs8xvirJzNMvV_4core3ptr9drop_glueSTjINtNtCs6xMQmN1AWUs_5alloc5boxed3BoxNtNtCskjFBwtpsoHr_8quandary4name4NameEEEB1h_.0:3,_RINvNtNtCskjFBwtpsoHr_8quandary6server5query11do_referralNtNtB2_10kani_query8MockZoneEB6_.0:2,_RINvNtNtCskjFBwtpsoHr_8quandary6server5query11do_referralNtNtB2_10kani_query8MockZoneEB6_.1:2,_RINvNtNtCskjFBwtpsoHr_8quandary6server5query11do_referralNtNtB2_10kani_query8MockZoneEB6_.2:2" stubs="M1,T0"
//   fn="Server::handle_non_axfr_query,answer_any,Writer::add_answer_rrset"
//   bound="UDP, limit 64; question a. * IN; the node has one RRset (A); unwind 7" sym="TTL, 4 octets"
proof!(c05_any_1, 7, {
    any_query(1);
    kani::cover!(true, "ANY with one RRset");
});

// @harness name=c05_any_2 props=C05 panics=C05,C01 tier=thorough mem=2 t=1200 kani="--no-assertion-reach-checks" cbmc="--max-field-sensitivity-array-size 256 --unwindset _RNCNvMs_NtNtCskjFBwtpsoHr_8quandary7message6writerNtB6_6Writer30write_compressed_unhinted_name0Ba_.0:4,_RNCNvMs_NtNtCskjFBwtpsoHr_8quandary7message6writerNtB6_6Writer30write_compressed_unhinted_names_0Ba_.0:4,_RNvMs_NtNtCskjFBwtpsoHr_8quandary7message6writerNtB4_6Writer30write_compressed_unhinted_name.0:4,_RNvMs_NtNtCskjFBwtpsoHr_8quandary7message6writerNtB4_6Writer30write_compressed_unhinted_name.1:4,_RINvNvMNtNtCs8xvirJzNMvV_4core5slice5asciiSh27eq_ignore_ascii_case_chunks21eq_ignore_ascii_innerKj10_ECskjFBwtpsoHr_8quandary.0:3,_RNvMNtNtCs8xvirJzNMvV_4core5slice5asciiSh27eq_ignore_ascii_case_simpleCskjFBwtpsoHr_8quandary.0:3,_RINvMNtNtCs8xvirJzNMvV_4core5slice5asciiSh27eq_ignore_ascii_case_chunksKj10_ECskjFBwtpsoHr_8quandary.0:3,_RNvNtNtCskjFBwtpsoHr_8quandary4name4wire23parse_uncompressed_name.0:5,_RNvMs_NtCskjFBwtpsoHr_8quandary4nameNtB4_4Name15initialize_into.0:5,_RINvNtCs8xvirJzNMvV_4core3ptr9drop_glueSTjINtNtCs6xMQmN1AWUs_5alloc5boxed3BoxNtNtCskjFBwtpsoHr_8quandary4name4NameEEEB1h_.0:3,_RINvNtNtCskjFBwtpsoHr_8quandary6server5query11do_referralNtNtB2_10kani_query8MockZoneEB6_.0:2,_RINvNtNtCskjFBwtpsoHr_8quandary6server5query11do_referralNtNtB2_10kani_query8MockZoneEB6_.1:2,_RINvNtNtCskjFBwtpsoHr_8quandary6server5query11do_referralNtNtB2_10kani_query8MockZoneEB6_.2:2" stubs="M1,T0"
//   fn="Server::handle_non_axfr_query,answer_any,Writer::add_answer_rrset"
//   bound="UDP, limit 64; question a. * IN; the node has two RRsets (A, TXT of one 3-octet string); unwind 7" sym="2 TTLs, 7 octets"
proof!(c05_any_2, 7, {
    any_query(2);
    kani::cover!(true, "ANY with two RRsets");
});

// @harness name=c05_any_nxdomain props=C05 panics=C05,C01 tier=thorough mem=2 t=1200 kani="--no-assertion-reach-checks" cbmc="--max-field-sensitivity-array-size 256 --unwindset _RNCNvMs_NtNtCskjFBwtpsoHr_8quandary7message6writerNtB6_6Writer30write_compressed_unhinted_name0Ba_.0:4,_RNCNvMs_NtNtCskjFBwtpsoHr_8quandary7message6writerNtB6_6Writer30write_compressed_unhinted_names_0Ba_.0:4,_RNvMs_NtNtCskjFBwtpsoHr_8quandary7message6writerNtB4_6Writer30write_compressed_unhinted_name.0:4,_RNvMs_NtNtCskjFBwtpsoHr_8quandary7message6writerNtB4_6Writer30write_compressed_unhinted_name.1:4,_RINvNvMNtNtCs8xvirJzNMvV_4core5slice5asciiSh27eq_ignore_ascii_case_chunks21eq_ignore_ascii_innerKj10_ECskjFBwtpsoHr_8quandary.0:3,_RNvMNtNtCs8xvirJzNMvV_4core5slice5asciiSh27eq_ignore_ascii_case_simpleCskjFBwtpsoHr_8quandary.0:3,_RINvMNtNtCs8xvirJzNMvV_4core5slice5asciiSh27eq_ignore_ascii_case_chunksKj10_ECskjFBwtpsoHr_8quandary.0:3,_RNvNtNtCskjFBwtpsoHr_8quandary4name4wire23parse_uncompressed_name.0:5,_RNvMs_NtCskjFBwtpsoHr_8quandary4nameNtB4_4Name15initialize_into.0:5,_RINvNtCs8xvirJzNMvV_4core3ptr9drop_glueSTjINtNtCs6xMQmN1AWUs_5alloc5boxed3BoxNtNtCskjFBwtpsoHr_8quandary4name4NameEEEB1h_.0:3,_RINvNtNtCskjFBwtpsoHr_8quandary6server5query11do_referralNtNtB2_10kani_query8MockZoneEB6_.0:2,_RINvNtNtCskjFBwtpsoHr_8quandary6server5query11do_referralNtNtB2_10kani_query8MockZoneEB6_.1:2,_RINvNtNtCskjFBwtpsoHr_8quandary6server5query11do_referralNtNtB2_10kani_query8MockZoneEB6_.2:2" stubs="M1,T0"
//   fn="Server::handle_non_axfr_query,answer_any,add_negative_caching_soa"
//   bound="UDP, limit 64; question a. * IN; lookup_all(a.) = NxDomain: NXDOMAIN + SOA; unwind 7"
//   sym="SOA TTL, MINIMUM, 4 SOA octets"
proof!(c05_any_nxdomain, 7, {
    let soa = any_soa();
    let sraw = soa_raw(soa.w, soa.m);
    let mut zone = blank_zone(soa.ttl, rdataset_view(&sraw));
    zone.all_out = Out::NxDomain;
    zone.all_name = P_A;
    let req = req_a(255);
    let mut resp = [0u8; 64];
    let n = run(&zone, &req, P_A, true, 64, &mut resp);
    let mut ex = Expect::new(QEND_A);
    ex.aa = true;
    ex.rcode = RC_NXDOMAIN;
    ex.push(soa_expectation(&resp, QEND_A + 1 + 4, &soa), SOA_REC);
    check_response(&resp, n, &ex, true, 64);
    kani::cover!(true, "ANY for a name that does not exist");
});

// --------------------------------------------------------------------------
// 6. C04: truncation.  The size limit is CONCRETE per run and swept over a
//    list of values (a symbolic limit makes the writer's cursor symbolic
//    after the first fallible push and CBMC then explores the name
//    compressor over an unknown message: measured, does not finish).  The
//    thorough harnesses sweep every limit from "the question just fits" (19)
//    to the buffer size (64); the quick ones the values around each
//    threshold.
// --------------------------------------------------------------------------

macro_rules! at_limits {
    ($f:expr; $($l:literal)*) => {{
        let f = $f;
        $( f($l); )*
    }};
}

/// Found(one A): 35 octets are needed.
fn trunc_found(udp: bool, limit: usize) {
    let ttl: u32 = kani::any();
    let o: [u8; 4] = kani::any();
    let araw = a_raw(o);
    let sraw = soa_raw([0; 4], [0; 4]);
    let mut zone = blank_zone(0, rdataset_view(&sraw));
    zone.steps[0] = Step { name: P_A, out: Out::Found, ttl, rd: rdataset_view(&araw), ..no_step() };
    zone.n_steps = 1;
    let req = req_a(T_A);
    let mut resp = [0u8; 64];
    let n = run(&zone, &req, P_A, udp, limit, &mut resp);
    let mut ex = Expect::new(QEND_A);
    ex.aa = true;
    ex.push(exp_a(1, P_A.wire(), T_A, ttl, o), A_REC);
    let case = check_response(&resp, n, &ex, udp, limit);
    assert!(
        if limit >= 35 { case == COMPLETE } else if udp { case == TRUNCATED } else { case == TCP_FAILED },
        "[C04] complete from 35 octets on; below: TC (UDP) / server failure (TCP)"
    );
}

// @harness name=c04_trunc_found_q props=C04,C05 panics=C04,C01 tier=quick mem=4 t=2400 kani="--no-assertion-reach-checks" cbmc="--max-field-sensitivity-array-size 256 --unwindset _RNCNvMs_NtNtCskjFBwtpsoHr_8quandary7message6writerNtB6_6Writer30write_compressed_unhinted_name0Ba_.0:4,_RNCNvMs_NtNtCskjFBwtpsoHr_8quandary7message6writerNtB6_6Writer30write_compressed_unhinted_names_0Ba_.0:4,_RNvMs_NtNtCskjFBwtpsoHr_8quandary7message6writerNtB4_6Writer30write_compressed_unhinted_name.0:4,_RNvMs_NtNtCskjFBwtpsoHr_8quandary7message6writerNtB4_6Writer30write_compressed_unhinted_name.1:4,_RINvNvMNtNtCs8xvirJzNMvV_4core5slice5asciiSh27eq_ignore_ascii_case_chunks21eq_ignore_ascii_innerKj10_ECskjFBwtpsoHr_8quandary.0:3,_RNvMNtNtCs8xvirJzNMvV_4core5slice5asciiSh27eq_ignore_ascii_case_simpleCskjFBwtpsoHr_8quandary.0:3,_RINvMNtNtCs8xvirJzNMvV_4core5slice5asciiSh27eq_ignore_ascii_case_chunksKj10_ECskjFBwtpsoHr_8quandary.0:3,_RNvNtNtCskjFBwtpsoHr_8quandary4name4wire23parse_uncompressed_name.0:5,_RNvMs_NtCskjFBwtpsoHr_8quandary4nameNtB4_4Name15initialize_into.0:5,_RINvNtCs8xvirJzNMvV_4core3ptr9drop_glueSTjINtNtCs6xMQmN1AWUs_5alloc5boxed3BoxNtNtCskjFBwtpsoHr_8quandary4name4NameEEEB1h_.0:3,_RINvNtNtCskjFBwtpsoHr_8quandary6server5query11do_referralNtNtB2_10kani_query8MockZoneEB6_.0:2,_RINvNtNtCskjFBwtpsoHr_8quandary6server5query11do_referralNtNtB2_10kani_query8MockZoneEB6_.1:2,_RINvNtNtCskjFBwtpsoHr_8quandary6server5query11do_referralNtNtB2_10kani_query8MockZoneEB6_.2:2" stubs="M1,T0"
//   fn="Server::handle_non_axfr_query,answer,Writer::add_answer_rrset,Writer::try_push,Writer::with_rollback,Writer::clear_rrs,Writer::set_tc"
//   bound="UDP and TCP context; size limits 19, 34, 35, 64; question a. A IN; Found(one A): 35 octets needed; below: UDP TC and no records / TCP SERVFAIL without records and TC clear; from 35: the complete answer on both; unwind 7"
//   sym="ttl, 4 RDATA octets per run"
proof!(c04_trunc_found_q, 7, {
    at_limits!(|l| trunc_found(true, l); 19 34 35 64);
    at_limits!(|l| trunc_found(false, l); 19 34 35 64);
    kani::cover!(true, "boundary limits done");
});

// @harness name=c04_found_udp_a props=C04,C05 panics=C04,C01 tier=thorough mem=4 t=2400 kani="--no-assertion-reach-checks" cbmc="--max-field-sensitivity-array-size 256 --unwindset _RNCNvMs_NtNtCskjFBwtpsoHr_8quandary7message6writerNtB6_6Writer30write_compressed_unhinted_name0Ba_.0:4,_RNCNvMs_NtNtCskjFBwtpsoHr_8quandary7message6writerNtB6_6Writer30write_compressed_unhinted_names_0Ba_.0:4,_RNvMs_NtNtCskjFBwtpsoHr_8quandary7message6writerNtB4_6Writer30write_compressed_unhinted_name.0:4,_RNvMs_NtNtCskjFBwtpsoHr_8quandary7message6writerNtB4_6Writer30write_compressed_unhinted_name.1:4,_RINvNvMNtNtCs8xvirJzNMvV_4core5slice5asciiSh27eq_ignore_ascii_case_chunks21eq_ignore_ascii_innerKj10_ECskjFBwtpsoHr_8quandary.0:3,_RNvMNtNtCs8xvirJzNMvV_4core5slice5asciiSh27eq_ignore_ascii_case_simpleCskjFBwtpsoHr_8quandary.0:3,_RINvMNtNtCs8xvirJzNMvV_4core5slice5asciiSh27eq_ignore_ascii_case_chunksKj10_ECskjFBwtpsoHr_8quandary.0:3,_RNvNtNtCskjFBwtpsoHr_8quandary4name4wire23parse_uncompressed_name.0:5,_RNvMs_NtCskjFBwtpsoHr_8quandary4nameNtB4_4Name15initialize_into.0:5,_RINvNtCs8xvirJzNMvV_4core3ptr9drop_glueSTjINtNtCs6xMQmN1AWUs_5alloc5boxed3BoxNtNtCskjFBwtpsoHr_8quandary4name4NameEEEB1h_.0:3,_RINvNtNtCskjFBwtpsoHr_8quandary6server5query11do_referralNtNtB2_10kani_query8MockZoneEB6_.0:2,_RINvNtNtCskjFBwtpsoHr_8quandary6server5query11do_referralNtNtB2_10kani_query8MockZoneEB6_.1:2,_RINvNtNtCskjFBwtpsoHr_8quandary6server5query11do_referralNtNtB2_10kani_query8MockZoneEB6_.2:2" stubs="M1,T0"
//   fn="Server::handle_non_axfr_query,answer,Writer::add_answer_rrset,Writer::try_push,Writer::with_rollback,Writer::clear_rrs,Writer::set_tc"
//   bound="UDP; question a. A IN; Found(one A): 35 octets needed; every size limit 19..=30 (one run each); unwind 7"
//   sym="ttl, 4 RDATA octets per run"
proof!(c04_found_udp_a, 7, {
    at_limits!(|l| trunc_found(true, l); 19 20 21 22 23 24 25 26 27 28 29 30);
    kani::cover!(true, "limits 19..=30 done");
});

// @harness name=c04_found_udp_b props=C04,C05 panics=C04,C01 tier=thorough mem=4 t=2400 kani="--no-assertion-reach-checks" cbmc="--max-field-sensitivity-array-size 256 --unwindset _RNCNvMs_NtNtCskjFBwtpsoHr_8quandary7message6writerNtB6_6Writer30write_compressed_unhinted_name0Ba_.0:4,_RNCNvMs_NtNtCskjFBwtpsoHr_8quandary7message6writerNtB6_6Writer30write_compressed_unhinted_names_0Ba_.0:4,_RNvMs_NtNtCskjFBwtpsoHr_8quandary7message6writerNtB4_6Writer30write_compressed_unhinted_name.0:4,_RNvMs_NtNtCskjFBwtpsoHr_8quandary7message6writerNtB4_6Writer30write_compressed_unhinted_name.1:4,_RINvNvMNtNtCs8xvirJzNMvV_4core5slice5asciiSh27eq_ignore_ascii_case_chunks21eq_ignore_ascii_innerKj10_ECskjFBwtpsoHr_8quandary.0:3,_RNvMNtNtCs8xvirJzNMvV_4core5slice5asciiSh27eq_ignore_ascii_case_simpleCskjFBwtpsoHr_8quandary.0:3,_RINvMNtNtCs8xvirJzNMvV_4core5slice5asciiSh27eq_ignore_ascii_case_chunksKj10_ECskjFBwtpsoHr_8quandary.0:3,_RNvNtNtCskjFBwtpsoHr_8quandary4name4wire23parse_uncompressed_name.0:5,_RNvMs_NtCskjFBwtpsoHr_8quandary4nameNtB4_4Name15initialize_into.0:5,_RINvNtCs8xvirJzNMvV_4core3ptr9drop_glueSTjINtNtCs6xMQmN1AWUs_5alloc5boxed3BoxNtNtCskjFBwtpsoHr_8quandary4name4NameEEEB1h_.0:3,_RINvNtNtCskjFBwtpsoHr_8quandary6server5query11do_referralNtNtB2_10kani_query8MockZoneEB6_.0:2,_RINvNtNtCskjFBwtpsoHr_8quandary6server5query11do_referralNtNtB2_10kani_query8MockZoneEB6_.1:2,_RINvNtNtCskjFBwtpsoHr_8quandary6server5query11do_referralNtNtB2_10kani_query8MockZoneEB6_.2:2" stubs="M1,T0"
//   fn="Server::handle_non_axfr_query,answer,Writer::add_answer_rrset,Writer::try_push,Writer::with_rollback,Writer::clear_rrs,Writer::set_tc"
//   bound="UDP; question a. A IN; Found(one A): 35 octets needed; every size limit 31..=42 (one run each); unwind 7"
//   sym="ttl, 4 RDATA octets per run"
proof!(c04_found_udp_b, 7, {
    at_limits!(|l| trunc_found(true, l); 31 32 33 34 35 36 37 38 39 40 41 42);
    kani::cover!(true, "limits 31..=42 done");
});

// @harness name=c04_found_udp_c props=C04,C05 panics=C04,C01 tier=thorough mem=4 t=2400 kani="--no-assertion-reach-checks" cbmc="--max-field-sensitivity-array-size 256 --unwindset _RNCNvMs_NtNtCskjFBwtpsoHr_8quandary7message6writerNtB6_6Writer30write_compressed_unhinted_name0Ba_.0:4,_RNCNvMs_NtNtCskjFBwtpsoHr_8quandary7message6writerNtB6_6Writer30write_compressed_unhinted_names_0Ba_.0:4,_RNvMs_NtNtCskjFBwtpsoHr_8quandary7message6writerNtB4_6Writer30write_compressed_unhinted_name.0:4,_RNvMs_NtNtCskjFBwtpsoHr_8quandary7message6writerNtB4_6Writer30write_compressed_unhinted_name.1:4,_RINvNvMNtNtCs8xvirJzNMvV_4core5slice5asciiSh27eq_ignore_ascii_case_chunks21eq_ignore_ascii_innerKj10_ECskjFBwtpsoHr_8quandary.0:3,_RNvMNtNtCs8xvirJzNMvV_4core5slice5asciiSh27eq_ignore_ascii_case_simpleCskjFBwtpsoHr_8quandary.0:3,_RINvMNtNtCs8xvirJzNMvV_4core5slice5asciiSh27eq_ignore_ascii_case_chunksKj10_ECskjFBwtpsoHr_8quandary.0:3,_RNvNtNtCskjFBwtpsoHr_8quandary4name4wire23parse_uncompressed_name.0:5,_RNvMs_NtCskjFBwtpsoHr_8quandary4nameNtB4_4Name15initialize_into.0:5,_RINvNtCs8xvirJzNMvV_4core3ptr9drop_glueSTjINtNtCs6xMQmN1AWUs_5alloc5boxed3BoxNtNtCskjFBwtpsoHr_8quandary4name4NameEEEB1h_.0:3,_RINvNtNtCskjFBwtpsoHr_8quandary6server5query11do_referralNtNtB2_10kani_query8MockZoneEB6_.0:2,_RINvNtNtCskjFBwtpsoHr_8quandary6server5query11do_referralNtNtB2_10kani_query8MockZoneEB6_.1:2,_RINvNtNtCskjFBwtpsoHr_8quandary6server5query11do_referralNtNtB2_10kani_query8MockZoneEB6_.2:2" stubs="M1,T0"
//   fn="Server::handle_non_axfr_query,answer,Writer::add_answer_rrset,Writer::try_push,Writer::with_rollback,Writer::clear_rrs,Writer::set_tc"
//   bound="UDP; question a. A IN; Found(one A): 35 octets needed; every size limit 43..=54 (one run each); unwind 7"
//   sym="ttl, 4 RDATA octets per run"
proof!(c04_found_udp_c, 7, {
    at_limits!(|l| trunc_found(true, l); 43 44 45 46 47 48 49 50 51 52 53 54);
    kani::cover!(true, "limits 43..=54 done");
});

// @harness name=c04_found_udp_d props=C04,C05 panics=C04,C01 tier=thorough mem=4 t=2400 kani="--no-assertion-reach-checks" cbmc="--max-field-sensitivity-array-size 256 --unwindset _RNCNvMs_NtNtCskjFBwtpsoHr_8quandary7message6writerNtB6_6Writer30write_compressed_unhinted_name0Ba_.0:4,_RNCNvMs_NtNtCskjFBwtpsoHr_8quandary7message6writerNtB6_6Writer30write_compressed_unhinted_names_0Ba_.0:4,_RNvMs_NtNtCskjFBwtpsoHr_8quandary7message6writerNtB4_6Writer30write_compressed_unhinted_name.0:4,_RNvMs_NtNtCskjFBwtpsoHr_8quandary7message6writerNtB4_6Writer30write_compressed_unhinted_name.1:4,_RINvNvMNtNtCs8xvirJzNMvV_4core5slice5asciiSh27eq_ignore_ascii_case_chunks21eq_ignore_ascii_innerKj10_ECskjFBwtpsoHr_8quandary.0:3,_RNvMNtNtCs8xvirJzNMvV_4core5slice5asciiSh27eq_ignore_ascii_case_simpleCskjFBwtpsoHr_8quandary.0:3,_RINvMNtNtCs8xvirJzNMvV_4core5slice5asciiSh27eq_ignore_ascii_case_chunksKj10_ECskjFBwtpsoHr_8quandary.0:3,_RNvNtNtCskjFBwtpsoHr_8quandary4name4wire23parse_uncompressed_name.0:5,_RNvMs_NtCskjFBwtpsoHr_8quandary4nameNtB4_4Name15initialize_into.0:5,_RINvNtCs8xvirJzNMvV_4core3ptr9drop_glueSTjINtNtCs6xMQmN1AWUs_5alloc5boxed3BoxNtNtCskjFBwtpsoHr_8quandary4name4NameEEEB1h_.0:3,_RINvNtNtCskjFBwtpsoHr_8quandary6server5query11do_referralNtNtB2_10kani_query8MockZoneEB6_.0:2,_RINvNtNtCskjFBwtpsoHr_8quandary6server5query11do_referralNtNtB2_10kani_query8MockZoneEB6_.1:2,_RINvNtNtCskjFBwtpsoHr_8quandary6server5query11do_referralNtNtB2_10kani_query8MockZoneEB6_.2:2" stubs="M1,T0"
//   fn="Server::handle_non_axfr_query,answer,Writer::add_answer_rrset,Writer::try_push,Writer::with_rollback,Writer::clear_rrs,Writer::set_tc"
//   bound="UDP; question a. A IN; Found(one A): 35 octets needed; every size limit 55..=64 (one run each); unwind 7"
//   sym="ttl, 4 RDATA octets per run"
proof!(c04_found_udp_d, 7, {
    at_limits!(|l| trunc_found(true, l); 55 56 57 58 59 60 61 62 63 64);
    kani::cover!(true, "limits 55..=64 done");
});

// @harness name=c04_found_tcp_a props=C04,C05 panics=C04,C01 tier=thorough mem=4 t=2400 kani="--no-assertion-reach-checks" cbmc="--max-field-sensitivity-array-size 256 --unwindset _RNCNvMs_NtNtCskjFBwtpsoHr_8quandary7message6writerNtB6_6Writer30write_compressed_unhinted_name0Ba_.0:4,_RNCNvMs_NtNtCskjFBwtpsoHr_8quandary7message6writerNtB6_6Writer30write_compressed_unhinted_names_0Ba_.0:4,_RNvMs_NtNtCskjFBwtpsoHr_8quandary7message6writerNtB4_6Writer30write_compressed_unhinted_name.0:4,_RNvMs_NtNtCskjFBwtpsoHr_8quandary7message6writerNtB4_6Writer30write_compressed_unhinted_name.1:4,_RINvNvMNtNtCs8xvirJzNMvV_4core5slice5asciiSh27eq_ignore_ascii_case_chunks21eq_ignore_ascii_innerKj10_ECskjFBwtpsoHr_8quandary.0:3,_RNvMNtNtCs8xvirJzNMvV_4core5slice5asciiSh27eq_ignore_ascii_case_simpleCskjFBwtpsoHr_8quandary.0:3,_RINvMNtNtCs8xvirJzNMvV_4core5slice5asciiSh27eq_ignore_ascii_case_chunksKj10_ECskjFBwtpsoHr_8quandary.0:3,_RNvNtNtCskjFBwtpsoHr_8quandary4name4wire23parse_uncompressed_name.0:5,_RNvMs_NtCskjFBwtpsoHr_8quandary4nameNtB4_4Name15initialize_into.0:5,_RINvNtCs8xvirJzNMvV_4core3ptr9drop_glueSTjINtNtCs6xMQmN1AWUs_5alloc5boxed3BoxNtNtCskjFBwtpsoHr_8quandary4name4NameEEEB1h_.0:3,_RINvNtNtCskjFBwtpsoHr_8quandary6server5query11do_referralNtNtB2_10kani_query8MockZoneEB6_.0:2,_RINvNtNtCskjFBwtpsoHr_8quandary6server5query11do_referralNtNtB2_10kani_query8MockZoneEB6_.1:2,_RINvNtNtCskjFBwtpsoHr_8quandary6server5query11do_referralNtNtB2_10kani_query8MockZoneEB6_.2:2" stubs="M1,T0"
//   fn="Server::handle_non_axfr_query,answer,Writer::add_answer_rrset,Writer::try_push,Writer::with_rollback,Writer::clear_rrs,Writer::set_tc"
//   bound="TCP context (a small limit stands for an answer beyond 65535 octets); Found(one A): below 35 SERVFAIL without records, TC clear; every size limit 19..=30 (one run each); unwind 7"
//   sym="ttl, 4 RDATA octets per run"
proof!(c04_found_tcp_a, 7, {
    at_limits!(|l| trunc_found(false, l); 19 20 21 22 23 24 25 26 27 28 29 30);
    kani::cover!(true, "limits 19..=30 done");
});

// @harness name=c04_found_tcp_b props=C04,C05 panics=C04,C01 tier=thorough mem=4 t=2400 kani="--no-assertion-reach-checks" cbmc="--max-field-sensitivity-array-size 256 --unwindset _RNCNvMs_NtNtCskjFBwtpsoHr_8quandary7message6writerNtB6_6Writer30write_compressed_unhinted_name0Ba_.0:4,_RNCNvMs_NtNtCskjFBwtpsoHr_8quandary7message6writerNtB6_6Writer30write_compressed_unhinted_names_0Ba_.0:4,_RNvMs_NtNtCskjFBwtpsoHr_8quandary7message6writerNtB4_6Writer30write_compressed_unhinted_name.0:4,_RNvMs_NtNtCskjFBwtpsoHr_8quandary7message6writerNtB4_6Writer30write_compressed_unhinted_name.1:4,_RINvNvMNtNtCs8xvirJzNMvV_4core5slice5asciiSh27eq_ignore_ascii_case_chunks21eq_ignore_ascii_innerKj10_ECskjFBwtpsoHr_8quandary.0:3,_RNvMNtNtCs8xvirJzNMvV_4core5slice5asciiSh27eq_ignore_ascii_case_simpleCskjFBwtpsoHr_8quandary.0:3,_RINvMNtNtCs8xvirJzNMvV_4core5slice5asciiSh27eq_ignore_ascii_case_chunksKj10_ECskjFBwtpsoHr_8quandary.0:3,_RNvNtNtCskjFBwtpsoHr_8quandary4name4wire23parse_uncompressed_name.0:5,_RNvMs_NtCskjFBwtpsoHr_8quandary4nameNtB4_4Name15initialize_into.0:5,_RINvNtCs8xvirJzNMvV_4core3ptr9drop_glueSTjINtNtCs6xMQmN1AWUs_5alloc5boxed3BoxNtNtCskjFBwtpsoHr_8quandary4name4NameEEEB1h_.0:3,_RINvNtNtCskjFBwtpsoHr_8quandary6server5query11do_referralNtNtB2_10kani_query8MockZoneEB6_.0:2,_RINvNtNtCskjFBwtpsoHr_8quandary6server5query11do_referralNtNtB2_10kani_query8MockZoneEB6_.1:2,_RINvNtNtCskjFBwtpsoHr_8quandary6server5query11do_referralNtNtB2_10kani_query8MockZoneEB6_.2:2" stubs="M1,T0"
//   fn="Server::handle_non_axfr_query,answer,Writer::add_answer_rrset,Writer::try_push,Writer::with_rollback,Writer::clear_rrs,Writer::set_tc"
//   bound="TCP context (a small limit stands for an answer beyond 65535 octets); Found(one A): below 35 SERVFAIL without records, TC clear; every size limit 31..=42 (one run each); unwind 7"
//   sym="ttl, 4 RDATA octets per run"
proof!(c04_found_tcp_b, 7, {
    at_limits!(|l| trunc_found(false, l); 31 32 33 34 35 36 37 38 39 40 41 42);
    kani::cover!(true, "limits 31..=42 done");
});

// @harness name=c04_found_tcp_c props=C04,C05 panics=C04,C01 tier=thorough mem=4 t=2400 kani="--no-assertion-reach-checks" cbmc="--max-field-sensitivity-array-size 256 --unwindset _RNCNvMs_NtNtCskjFBwtpsoHr_8quandary7message6writerNtB6_6Writer30write_compressed_unhinted_name0Ba_.0:4,_RNCNvMs_NtNtCskjFBwtpsoHr_8quandary7message6writerNtB6_6Writer30write_compressed_unhinted_names_0Ba_.0:4,_RNvMs_NtNtCskjFBwtpsoHr_8quandary7message6writerNtB4_6Writer30write_compressed_unhinted_name.0:4,_RNvMs_NtNtCskjFBwtpsoHr_8quandary7message6writerNtB4_6Writer30write_compressed_unhinted_name.1:4,_RINvNvMNtNtCs8xvirJzNMvV_4core5slice5asciiSh27eq_ignore_ascii_case_chunks21eq_ignore_ascii_innerKj10_ECskjFBwtpsoHr_8quandary.0:3,_RNvMNtNtCs8xvirJzNMvV_4core5slice5asciiSh27eq_ignore_ascii_case_simpleCskjFBwtpsoHr_8quandary.0:3,_RINvMNtNtCs8xvirJzNMvV_4core5slice5asciiSh27eq_ignore_ascii_case_chunksKj10_ECskjFBwtpsoHr_8quandary.0:3,_RNvNtNtCskjFBwtpsoHr_8quandary4name4wire23parse_uncompressed_name.0:5,_RNvMs_NtCskjFBwtpsoHr_8quandary4nameNtB4_4Name15initialize_into.0:5,_RINvNtCs8xvirJzNMvV_4core3ptr9drop_glueSTjINtNtCs6xMQmN1AWUs_5alloc5boxed3BoxNtNtCskjFBwtpsoHr_8quandary4name4NameEEEB1h_.0:3,_RINvNtNtCskjFBwtpsoHr_8quandary6server5query11do_referralNtNtB2_10kani_query8MockZoneEB6_.0:2,_RINvNtNtCskjFBwtpsoHr_8quandary6server5query11do_referralNtNtB2_10kani_query8MockZoneEB6_.1:2,_RINvNtNtCskjFBwtpsoHr_8quandary6server5query11do_referralNtNtB2_10kani_query8MockZoneEB6_.2:2" stubs="M1,T0"
//   fn="Server::handle_non_axfr_query,answer,Writer::add_answer_rrset,Writer::try_push,Writer::with_rollback,Writer::clear_rrs,Writer::set_tc"
//   bound="TCP context (a small limit stands for an answer beyond 65535 octets); Found(one A): below 35 SERVFAIL without records, TC clear; every size limit 43..=54 (one run each); unwind 7"
//   sym="ttl, 4 RDATA octets per run"
proof!(c04_found_tcp_c, 7, {
    at_limits!(|l| trunc_found(false, l); 43 44 45 46 47 48 49 50 51 52 53 54);
    kani::cover!(true, "limits 43..=54 done");
});

// @harness name=c04_found_tcp_d props=C04,C05 panics=C04,C01 tier=thorough mem=4 t=2400 kani="--no-assertion-reach-checks" cbmc="--max-field-sensitivity-array-size 256 --unwindset _RNCNvMs_NtNtCskjFBwtpsoHr_8quandary7message6writerNtB6_6Writer30write_compressed_unhinted_name0Ba_.0:4,_RNCNvMs_NtNtCskjFBwtpsoHr_8quandary7message6writerNtB6_6Writer30write_compressed_unhinted_names_0Ba_.0:4,_RNvMs_NtNtCskjFBwtpsoHr_8quandary7message6writerNtB4_6Writer30write_compressed_unhinted_name.0:4,_RNvMs_NtNtCskjFBwtpsoHr_8quandary7message6writerNtB4_6Writer30write_compressed_unhinted_name.1:4,_RINvNvMNtNtCs8xvirJzNMvV_4core5slice5asciiSh27eq_ignore_ascii_case_chunks21eq_ignore_ascii_innerKj10_ECskjFBwtpsoHr_8quandary.0:3,_RNvMNtNtCs8xvirJzNMvV_4core5slice5asciiSh27eq_ignore_ascii_case_simpleCskjFBwtpsoHr_8quandary.0:3,_RINvMNtNtCs8xvirJzNMvV_4core5slice5asciiSh27eq_ignore_ascii_case_chunksKj10_ECskjFBwtpsoHr_8quandary.0:3,_RNvNtNtCskjFBwtpsoHr_8quandary4name4wire23parse_uncompressed_name.0:5,_RNvMs_NtCskjFBwtpsoHr_8quandary4nameNtB4_4Name15initialize_into.0:5,_RINvNtCs8xvirJzNMvV_4core3ptr9drop_glueSTjINtNtCs6xMQmN1AWUs_5alloc5boxed3BoxNtNtCskjFBwtpsoHr_8quandary4name4NameEEEB1h_.0:3,_RINvNtNtCskjFBwtpsoHr_8quandary6server5query11do_referralNtNtB2_10kani_query8MockZoneEB6_.0:2,_RINvNtNtCskjFBwtpsoHr_8quandary6server5query11do_referralNtNtB2_10kani_query8MockZoneEB6_.1:2,_RINvNtNtCskjFBwtpsoHr_8quandary6server5query11do_referralNtNtB2_10kani_query8MockZoneEB6_.2:2" stubs="M1,T0"
//   fn="Server::handle_non_axfr_query,answer,Writer::add_answer_rrset,Writer::try_push,Writer::with_rollback,Writer::clear_rrs,Writer::set_tc"
//   bound="TCP context (a small limit stands for an answer beyond 65535 octets); Found(one A): below 35 SERVFAIL without records, TC clear; every size limit 55..=64 (one run each); unwind 7"
//   sym="ttl, 4 RDATA octets per run"
proof!(c04_found_tcp_d, 7, {
    at_limits!(|l| trunc_found(false, l); 55 56 57 58 59 60 61 62 63 64);
    kani::cover!(true, "limits 55..=64 done");
});

/// NxDomain: 52 octets are needed.
fn trunc_neg(udp: bool, limit: usize) {
    let soa = any_soa();
    let raw = soa_raw(soa.w, soa.m);
    let mut zone = blank_zone(soa.ttl, rdataset_view(&raw));
    zone.steps[0] = Step { name: P_A, out: Out::NxDomain, ..no_step() };
    zone.n_steps = 1;
    let req = req_a(T_A);
    let mut resp = [0u8; 64];
    let n = run(&zone, &req, P_A, udp, limit, &mut resp);
    let mut ex = Expect::new(QEND_A);
    ex.aa = true;
    ex.rcode = RC_NXDOMAIN;
    ex.push(soa_expectation(&resp, QEND_A + 1 + 4, &soa), SOA_REC);
    let case = check_response(&resp, n, &ex, udp, limit);
    assert!(
        if limit >= 52 { case == COMPLETE } else { case == TRUNCATED },
        "[C04] negative answer: complete from 52 octets on, TC below"
    );
}

// @harness name=c04_neg_udp props=C04,C05 panics=C04,C01 tier=thorough mem=6 t=3600 kani="--no-assertion-reach-checks" cbmc="--max-field-sensitivity-array-size 256 --unwindset _RNCNvMs_NtNtCskjFBwtpsoHr_8quandary7message6writerNtB6_6Writer30write_compressed_unhinted_name0Ba_.0:4,_RNCNvMs_NtNtCskjFBwtpsoHr_8quandary7message6writerNtB6_6Writer30write_compressed_unhinted_names_0Ba_.0:4,_RNvMs_NtNtCskjFBwtpsoHr_8quandary7message6writerNtB4_6Writer30write_compressed_unhinted_name.0:4,_RNvMs_NtNtCskjFBwtpsoHr_8quandary7message6writerNtB4_6Writer30write_compressed_unhinted_name.1:4,_RINvNvMNtNtCs8xvirJzNMvV_4core5slice5asciiSh27eq_ignore_ascii_case_chunks21eq_ignore_ascii_innerKj10_ECskjFBwtpsoHr_8quandary.0:3,_RNvMNtNtCs8xvirJzNMvV_4core5slice5asciiSh27eq_ignore_ascii_case_simpleCskjFBwtpsoHr_8quandary.0:3,_RINvMNtNtCs8xvirJzNMvV_4core5slice5asciiSh27eq_ignore_ascii_case_chunksKj10_ECskjFBwtpsoHr_8quandary.0:3,_RNvNtNtCskjFBwtpsoHr_8quandary4name4wire23parse_uncompressed_name.0:5,_RNvMs_NtCskjFBwtpsoHr_8quandary4nameNtB4_4Name15initialize_into.0:5,_RINvNtCs8xvirJzNMvV_4core3ptr9drop_glueSTjINtNtCs6xMQmN1AWUs_5alloc5boxed3BoxNtNtCskjFBwtpsoHr_8quandary4name4NameEEEB1h_.0:3,_RINvNtNtCskjFBwtpsoHr_8quandary6server5query11do_referralNtNtB2_10kani_query8MockZoneEB6_.0:2,_RINvNtNtCskjFBwtpsoHr_8quandary6server5query11do_referralNtNtB2_10kani_query8MockZoneEB6_.1:2,_RINvNtNtCskjFBwtpsoHr_8quandary6server5query11do_referralNtNtB2_10kani_query8MockZoneEB6_.2:2" stubs="M1,T0"
//   fn="Server::handle_non_axfr_query,answer,add_negative_caching_soa,Writer::add_authority_rr,Writer::try_push,Writer::with_rollback,Writer::clear_rrs,Writer::set_tc"
//   bound="UDP; question a. A IN; NxDomain: 52 octets needed (SOA with two root names); size limits 19 20 30 31 51 52 64; unwind 7"
//   sym="SOA TTL, MINIMUM, 4 SOA octets per run"
proof!(c04_neg_udp, 7, {
    at_limits!(|l| trunc_neg(true, l); 19 20 30 31 51 52 64);
    kani::cover!(true, "limits done");
});

/// Referral(cut a., NS b.a.) with glue: NS needs 35 octets, + A 51,
/// + AAAA 63, both 79.  A referral is sent with all its glue or not at all.
fn trunc_glue(udp: bool, limit: usize, has_a: bool, has_aaaa: bool) {
    let (case, n) = referral(true, false, udp, limit, has_a, has_aaaa);
    let need = 35 + if has_a { 16 } else { 0 } + if has_aaaa { 28 } else { 0 };
    assert!(
        if limit >= need { case == COMPLETE && n == need } else if udp { case == TRUNCATED } else { case == TCP_FAILED },
        "[C04] a referral must carry all in-bailiwick glue or be truncated (UDP) / fail (TCP)"
    );
}

// @harness name=c04_glue_q props=C04,C05 panics=C04,C01 tier=quick mem=4 t=2400 kani="--no-assertion-reach-checks" cbmc="--max-field-sensitivity-array-size 256 --unwindset _RNCNvMs_NtNtCskjFBwtpsoHr_8quandary7message6writerNtB6_6Writer30write_compressed_unhinted_name0Ba_.0:4,_RNCNvMs_NtNtCskjFBwtpsoHr_8quandary7message6writerNtB6_6Writer30write_compressed_unhinted_names_0Ba_.0:4,_RNvMs_NtNtCskjFBwtpsoHr_8quandary7message6writerNtB4_6Writer30write_compressed_unhinted_name.0:4,_RNvMs_NtNtCskjFBwtpsoHr_8quandary7message6writerNtB4_6Writer30write_compressed_unhinted_name.1:4,_RINvNvMNtNtCs8xvirJzNMvV_4core5slice5asciiSh27eq_ignore_ascii_case_chunks21eq_ignore_ascii_innerKj10_ECskjFBwtpsoHr_8quandary.0:3,_RNvMNtNtCs8xvirJzNMvV_4core5slice5asciiSh27eq_ignore_ascii_case_simpleCskjFBwtpsoHr_8quandary.0:3,_RINvMNtNtCs8xvirJzNMvV_4core5slice5asciiSh27eq_ignore_ascii_case_chunksKj10_ECskjFBwtpsoHr_8quandary.0:3,_RNvNtNtCskjFBwtpsoHr_8quandary4name4wire23parse_uncompressed_name.0:5,_RNvMs_NtCskjFBwtpsoHr_8quandary4nameNtB4_4Name15initialize_into.0:5,_RINvNtCs8xvirJzNMvV_4core3ptr9drop_glueSTjINtNtCs6xMQmN1AWUs_5alloc5boxed3BoxNtNtCskjFBwtpsoHr_8quandary4name4NameEEEB1h_.0:3,_RINvNtNtCskjFBwtpsoHr_8quandary6server5query11do_referralNtNtB2_10kani_query8MockZoneEB6_.0:2,_RINvNtNtCskjFBwtpsoHr_8quandary6server5query11do_referralNtNtB2_10kani_query8MockZoneEB6_.1:2,_RINvNtNtCskjFBwtpsoHr_8quandary6server5query11do_referralNtNtB2_10kani_query8MockZoneEB6_.2:2" stubs="M1,T0,N1"
//   fn="Server::handle_non_axfr_query,answer,do_referral,add_additional_addresses,execute_allowing_truncation,Writer::add_authority_rrset,Writer::add_additional_rrset,Writer::with_rollback,Writer::clear_rrs,Writer::set_tc"
//   bound="UDP; question a. A IN; Referral(cut a., NS b.a.) with glue A: NS record ends at 35, glue record at 51; size limits 34 50 51: below 51 TC and no records, never a referral without its glue; unwind 7"
//   sym="NS TTL, TTLs and octets of the address records per run"
proof_ref!(c04_glue_q, 7, {
    at_limits!(|l| trunc_glue(true, l, true, false); 34 50 51);
    kani::cover!(true, "boundary limits done");
});

// @harness name=c04_glue_a_udp_a props=C04,C05 panics=C04,C01 tier=thorough mem=6 t=3600 kani="--no-assertion-reach-checks" cbmc="--max-field-sensitivity-array-size 256 --unwindset _RNCNvMs_NtNtCskjFBwtpsoHr_8quandary7message6writerNtB6_6Writer30write_compressed_unhinted_name0Ba_.0:4,_RNCNvMs_NtNtCskjFBwtpsoHr_8quandary7message6writerNtB6_6Writer30write_compressed_unhinted_names_0Ba_.0:4,_RNvMs_NtNtCskjFBwtpsoHr_8quandary7message6writerNtB4_6Writer30write_compressed_unhinted_name.0:4,_RNvMs_NtNtCskjFBwtpsoHr_8quandary7message6writerNtB4_6Writer30write_compressed_unhinted_name.1:4,_RINvNvMNtNtCs8xvirJzNMvV_4core5slice5asciiSh27eq_ignore_ascii_case_chunks21eq_ignore_ascii_innerKj10_ECskjFBwtpsoHr_8quandary.0:3,_RNvMNtNtCs8xvirJzNMvV_4core5slice5asciiSh27eq_ignore_ascii_case_simpleCskjFBwtpsoHr_8quandary.0:3,_RINvMNtNtCs8xvirJzNMvV_4core5slice5asciiSh27eq_ignore_ascii_case_chunksKj10_ECskjFBwtpsoHr_8quandary.0:3,_RNvNtNtCskjFBwtpsoHr_8quandary4name4wire23parse_uncompressed_name.0:5,_RNvMs_NtCskjFBwtpsoHr_8quandary4nameNtB4_4Name15initialize_into.0:5,_RINvNtCs8xvirJzNMvV_4core3ptr9drop_glueSTjINtNtCs6xMQmN1AWUs_5alloc5boxed3BoxNtNtCskjFBwtpsoHr_8quandary4name4NameEEEB1h_.0:3,_RINvNtNtCskjFBwtpsoHr_8quandary6server5query11do_referralNtNtB2_10kani_query8MockZoneEB6_.0:2,_RINvNtNtCskjFBwtpsoHr_8quandary6server5query11do_referralNtNtB2_10kani_query8MockZoneEB6_.1:2,_RINvNtNtCskjFBwtpsoHr_8quandary6server5query11do_referralNtNtB2_10kani_query8MockZoneEB6_.2:2" stubs="M1,T0,N1"
//   fn="Server::handle_non_axfr_query,answer,do_referral,add_additional_addresses,execute_allowing_truncation,Writer::add_authority_rrset,Writer::add_additional_rrset,Writer::with_rollback,Writer::clear_rrs,Writer::set_tc"
//   bound="UDP; Referral(cut a., NS b.a.) with glue A (51 octets needed): TC and no records below, never a referral without its glue; every size limit 19..=30 (one run each); unwind 7"
//   sym="NS TTL, TTLs and octets of the address records per run"
proof_ref!(c04_glue_a_udp_a, 7, {
    at_limits!(|l| trunc_glue(true, l, true, false); 19 20 21 22 23 24 25 26 27 28 29 30);
    kani::cover!(true, "limits 19..=30 done");
});

// @harness name=c04_glue_a_udp_b props=C04,C05 panics=C04,C01 tier=thorough mem=6 t=3600 kani="--no-assertion-reach-checks" cbmc="--max-field-sensitivity-array-size 256 --unwindset _RNCNvMs_NtNtCskjFBwtpsoHr_8quandary7message6writerNtB6_6Writer30write_compressed_unhinted_name0Ba_.0:4,_RNCNvMs_NtNtCskjFBwtpsoHr_8quandary7message6writerNtB6_6Writer30write_compressed_unhinted_names_0Ba_.0:4,_RNvMs_NtNtCskjFBwtpsoHr_8quandary7message6writerNtB4_6Writer30write_compressed_unhinted_name.0:4,_RNvMs_NtNtCskjFBwtpsoHr_8quandary7message6writerNtB4_6Writer30write_compressed_unhinted_name.1:4,_RINvNvMNtNtCs8xvirJzNMvV_4core5slice5asciiSh27eq_ignore_ascii_case_chunks21eq_ignore_ascii_innerKj10_ECskjFBwtpsoHr_8quandary.0:3,_RNvMNtNtCs8xvirJzNMvV_4core5slice5asciiSh27eq_ignore_ascii_case_simpleCskjFBwtpsoHr_8quandary.0:3,_RINvMNtNtCs8xvirJzNMvV_4core5slice5asciiSh27eq_ignore_ascii_case_chunksKj10_ECskjFBwtpsoHr_8quandary.0:3,_RNvNtNtCskjFBwtpsoHr_8quandary4name4wire23parse_uncompressed_name.0:5,_RNvMs_NtCskjFBwtpsoHr_8quandary4nameNtB4_4Name15initialize_into.0:5,_RINvNtCs8xvirJzNMvV_4core3ptr9drop_glueSTjINtNtCs6xMQmN1AWUs_5alloc5boxed3BoxNtNtCskjFBwtpsoHr_8quandary4name4NameEEEB1h_.0:3,_RINvNtNtCskjFBwtpsoHr_8quandary6server5query11do_referralNtNtB2_10kani_query8MockZoneEB6_.0:2,_RINvNtNtCskjFBwtpsoHr_8quandary6server5query11do_referralNtNtB2_10kani_query8MockZoneEB6_.1:2,_RINvNtNtCskjFBwtpsoHr_8quandary6server5query11do_referralNtNtB2_10kani_query8MockZoneEB6_.2:2" stubs="M1,T0,N1"
//   fn="Server::handle_non_axfr_query,answer,do_referral,add_additional_addresses,execute_allowing_truncation,Writer::add_authority_rrset,Writer::add_additional_rrset,Writer::with_rollback,Writer::clear_rrs,Writer::set_tc"
//   bound="UDP; Referral(cut a., NS b.a.) with glue A (51 octets needed): TC and no records below, never a referral without its glue; every size limit 31..=42 (one run each); unwind 7"
//   sym="NS TTL, TTLs and octets of the address records per run"
proof_ref!(c04_glue_a_udp_b, 7, {
    at_limits!(|l| trunc_glue(true, l, true, false); 31 32 33 34 35 36 37 38 39 40 41 42);
    kani::cover!(true, "limits 31..=42 done");
});

// @harness name=c04_glue_a_udp_c props=C04,C05 panics=C04,C01 tier=thorough mem=6 t=3600 kani="--no-assertion-reach-checks" cbmc="--max-field-sensitivity-array-size 256 --unwindset _RNCNvMs_NtNtCskjFBwtpsoHr_8quandary7message6writerNtB6_6Writer30write_compressed_unhinted_name0Ba_.0:4,_RNCNvMs_NtNtCskjFBwtpsoHr_8quandary7message6writerNtB6_6Writer30write_compressed_unhinted_names_0Ba_.0:4,_RNvMs_NtNtCskjFBwtpsoHr_8quandary7message6writerNtB4_6Writer30write_compressed_unhinted_name.0:4,_RNvMs_NtNtCskjFBwtpsoHr_8quandary7message6writerNtB4_6Writer30write_compressed_unhinted_name.1:4,_RINvNvMNtNtCs8xvirJzNMvV_4core5slice5asciiSh27eq_ignore_ascii_case_chunks21eq_ignore_ascii_innerKj10_ECskjFBwtpsoHr_8quandary.0:3,_RNvMNtNtCs8xvirJzNMvV_4core5slice5asciiSh27eq_ignore_ascii_case_simpleCskjFBwtpsoHr_8quandary.0:3,_RINvMNtNtCs8xvirJzNMvV_4core5slice5asciiSh27eq_ignore_ascii_case_chunksKj10_ECskjFBwtpsoHr_8quandary.0:3,_RNvNtNtCskjFBwtpsoHr_8quandary4name4wire23parse_uncompressed_name.0:5,_RNvMs_NtCskjFBwtpsoHr_8quandary4nameNtB4_4Name15initialize_into.0:5,_RINvNtCs8xvirJzNMvV_4core3ptr9drop_glueSTjINtNtCs6xMQmN1AWUs_5alloc5boxed3BoxNtNtCskjFBwtpsoHr_8quandary4name4NameEEEB1h_.0:3,_RINvNtNtCskjFBwtpsoHr_8quandary6server5query11do_referralNtNtB2_10kani_query8MockZoneEB6_.0:2,_RINvNtNtCskjFBwtpsoHr_8quandary6server5query11do_referralNtNtB2_10kani_query8MockZoneEB6_.1:2,_RINvNtNtCskjFBwtpsoHr_8quandary6server5query11do_referralNtNtB2_10kani_query8MockZoneEB6_.2:2" stubs="M1,T0,N1"
//   fn="Server::handle_non_axfr_query,answer,do_referral,add_additional_addresses,execute_allowing_truncation,Writer::add_authority_rrset,Writer::add_additional_rrset,Writer::with_rollback,Writer::clear_rrs,Writer::set_tc"
//   bound="UDP; Referral(cut a., NS b.a.) with glue A (51 octets needed): TC and no records below, never a referral without its glue; every size limit 43..=54 (one run each); unwind 7"
//   sym="NS TTL, TTLs and octets of the address records per run"
proof_ref!(c04_glue_a_udp_c, 7, {
    at_limits!(|l| trunc_glue(true, l, true, false); 43 44 45 46 47 48 49 50 51 52 53 54);
    kani::cover!(true, "limits 43..=54 done");
});

// @harness name=c04_glue_a_udp_d props=C04,C05 panics=C04,C01 tier=thorough mem=6 t=3600 kani="--no-assertion-reach-checks" cbmc="--max-field-sensitivity-array-size 256 --unwindset _RNCNvMs_NtNtCskjFBwtpsoHr_8quandary7message6writerNtB6_6Writer30write_compressed_unhinted_name0Ba_.0:4,_RNCNvMs_NtNtCskjFBwtpsoHr_8quandary7message6writerNtB6_6Writer30write_compressed_unhinted_names_0Ba_.0:4,_RNvMs_NtNtCskjFBwtpsoHr_8quandary7message6writerNtB4_6Writer30write_compressed_unhinted_name.0:4,_RNvMs_NtNtCskjFBwtpsoHr_8quandary7message6writerNtB4_6Writer30write_compressed_unhinted_name.1:4,_RINvNvMNtNtCs8xvirJzNMvV_4core5slice5asciiSh27eq_ignore_ascii_case_chunks21eq_ignore_ascii_innerKj10_ECskjFBwtpsoHr_8quandary.0:3,_RNvMNtNtCs8xvirJzNMvV_4core5slice5asciiSh27eq_ignore_ascii_case_simpleCskjFBwtpsoHr_8quandary.0:3,_RINvMNtNtCs8xvirJzNMvV_4core5slice5asciiSh27eq_ignore_ascii_case_chunksKj10_ECskjFBwtpsoHr_8quandary.0:3,_RNvNtNtCskjFBwtpsoHr_8quandary4name4wire23parse_uncompressed_name.0:5,_RNvMs_NtCskjFBwtpsoHr_8quandary4nameNtB4_4Name15initialize_into.0:5,_RINvNtCs8xvirJzNMvV_4core3ptr9drop_glueSTjINtNtCs6xMQmN1AWUs_5alloc5boxed3BoxNtNtCskjFBwtpsoHr_8quandary4name4NameEEEB1h_.0:3,_RINvNtNtCskjFBwtpsoHr_8quandary6server5query11do_referralNtNtB2_10kani_query8MockZoneEB6_.0:2,_RINvNtNtCskjFBwtpsoHr_8quandary6server5query11do_referralNtNtB2_10kani_query8MockZoneEB6_.1:2,_RINvNtNtCskjFBwtpsoHr_8quandary6server5query11do_referralNtNtB2_10kani_query8MockZoneEB6_.2:2" stubs="M1,T0,N1"
//   fn="Server::handle_non_axfr_query,answer,do_referral,add_additional_addresses,execute_allowing_truncation,Writer::add_authority_rrset,Writer::add_additional_rrset,Writer::with_rollback,Writer::clear_rrs,Writer::set_tc"
//   bound="UDP; Referral(cut a., NS b.a.) with glue A (51 octets needed): TC and no records below, never a referral without its glue; every size limit 55..=64 (one run each); unwind 7"
//   sym="NS TTL, TTLs and octets of the address records per run"
proof_ref!(c04_glue_a_udp_d, 7, {
    at_limits!(|l| trunc_glue(true, l, true, false); 55 56 57 58 59 60 61 62 63 64);
    kani::cover!(true, "limits 55..=64 done");
});

// @harness name=c04_glue_a_tcp props=C04,C05 panics=C04,C01 tier=thorough mem=6 t=3600 kani="--no-assertion-reach-checks" cbmc="--max-field-sensitivity-array-size 256 --unwindset _RNCNvMs_NtNtCskjFBwtpsoHr_8quandary7message6writerNtB6_6Writer30write_compressed_unhinted_name0Ba_.0:4,_RNCNvMs_NtNtCskjFBwtpsoHr_8quandary7message6writerNtB6_6Writer30write_compressed_unhinted_names_0Ba_.0:4,_RNvMs_NtNtCskjFBwtpsoHr_8quandary7message6writerNtB4_6Writer30write_compressed_unhinted_name.0:4,_RNvMs_NtNtCskjFBwtpsoHr_8quandary7message6writerNtB4_6Writer30write_compressed_unhinted_name.1:4,_RINvNvMNtNtCs8xvirJzNMvV_4core5slice5asciiSh27eq_ignore_ascii_case_chunks21eq_ignore_ascii_innerKj10_ECskjFBwtpsoHr_8quandary.0:3,_RNvMNtNtCs8xvirJzNMvV_4core5slice5asciiSh27eq_ignore_ascii_case_simpleCskjFBwtpsoHr_8quandary.0:3,_RINvMNtNtCs8xvirJzNMvV_4core5slice5asciiSh27eq_ignore_ascii_case_chunksKj10_ECskjFBwtpsoHr_8quandary.0:3,_RNvNtNtCskjFBwtpsoHr_8quandary4name4wire23parse_uncompressed_name.0:5,_RNvMs_NtCskjFBwtpsoHr_8quandary4nameNtB4_4Name15initialize_into.0:5,_RINvNtCs8xvirJzNMvV_4core3ptr9drop_glueSTjINtNtCs6xMQmN1AWUs_5alloc5boxed3BoxNtNtCskjFBwtpsoHr_8quandary4name4NameEEEB1h_.0:3,_RINvNtNtCskjFBwtpsoHr_8quandary6server5query11do_referralNtNtB2_10kani_query8MockZoneEB6_.0:2,_RINvNtNtCskjFBwtpsoHr_8quandary6server5query11do_referralNtNtB2_10kani_query8MockZoneEB6_.1:2,_RINvNtNtCskjFBwtpsoHr_8quandary6server5query11do_referralNtNtB2_10kani_query8MockZoneEB6_.2:2" stubs="M1,T0,N1"
//   fn="Server::handle_non_axfr_query,answer,do_referral,add_additional_addresses,execute_allowing_truncation,Writer::add_authority_rrset,Writer::add_additional_rrset,Writer::with_rollback,Writer::clear_rrs,Writer::set_tc"
//   bound="TCP context; Referral(cut a., NS b.a.) with glue A; size limits 19 34 35 36 50 51 64: SERVFAIL without records instead of TC; unwind 7"
//   sym="NS TTL, TTLs and octets of the address records per run"
proof_ref!(c04_glue_a_tcp, 7, {
    at_limits!(|l| trunc_glue(false, l, true, false); 19 34 35 36 50 51 64);
    kani::cover!(true, "TCP runs done");
});

// @harness name=c04_glue_aaaa_udp props=C04,C05 panics=C04,C01 tier=thorough mem=6 t=3600 kani="--no-assertion-reach-checks" cbmc="--max-field-sensitivity-array-size 256 --unwindset _RNCNvMs_NtNtCskjFBwtpsoHr_8quandary7message6writerNtB6_6Writer30write_compressed_unhinted_name0Ba_.0:4,_RNCNvMs_NtNtCskjFBwtpsoHr_8quandary7message6writerNtB6_6Writer30write_compressed_unhinted_names_0Ba_.0:4,_RNvMs_NtNtCskjFBwtpsoHr_8quandary7message6writerNtB4_6Writer30write_compressed_unhinted_name.0:4,_RNvMs_NtNtCskjFBwtpsoHr_8quandary7message6writerNtB4_6Writer30write_compressed_unhinted_name.1:4,_RINvNvMNtNtCs8xvirJzNMvV_4core5slice5asciiSh27eq_ignore_ascii_case_chunks21eq_ignore_ascii_innerKj10_ECskjFBwtpsoHr_8quandary.0:3,_RNvMNtNtCs8xvirJzNMvV_4core5slice5asciiSh27eq_ignore_ascii_case_simpleCskjFBwtpsoHr_8quandary.0:3,_RINvMNtNtCs8xvirJzNMvV_4core5slice5asciiSh27eq_ignore_ascii_case_chunksKj10_ECskjFBwtpsoHr_8quandary.0:3,_RNvNtNtCskjFBwtpsoHr_8quandary4name4wire23parse_uncompressed_name.0:5,_RNvMs_NtCskjFBwtpsoHr_8quandary4nameNtB4_4Name15initialize_into.0:5,_RINvNtCs8xvirJzNMvV_4core3ptr9drop_glueSTjINtNtCs6xMQmN1AWUs_5alloc5boxed3BoxNtNtCskjFBwtpsoHr_8quandary4name4NameEEEB1h_.0:3,_RINvNtNtCskjFBwtpsoHr_8quandary6server5query11do_referralNtNtB2_10kani_query8MockZoneEB6_.0:2,_RINvNtNtCskjFBwtpsoHr_8quandary6server5query11do_referralNtNtB2_10kani_query8MockZoneEB6_.1:2,_RINvNtNtCskjFBwtpsoHr_8quandary6server5query11do_referralNtNtB2_10kani_query8MockZoneEB6_.2:2" stubs="M1,T0,N1"
//   fn="Server::handle_non_axfr_query,answer,do_referral,add_additional_addresses,execute_allowing_truncation,Writer::add_authority_rrset,Writer::add_additional_rrset,Writer::with_rollback,Writer::clear_rrs,Writer::set_tc"
//   bound="UDP; Referral(cut a., NS b.a.) with glue AAAA only (63 octets needed) at limits 35 62 63 64, and with A + AAAA (79 needed: never fits) at 51 64; unwind 7"
//   sym="NS TTL, TTLs and octets of the address records per run"
proof_ref!(c04_glue_aaaa_udp, 7, {
    at_limits!(|l| trunc_glue(true, l, false, true); 35 62 63 64);
    at_limits!(|l| trunc_glue(true, l, true, true); 51 64);
    kani::cover!(true, "AAAA runs done");
});

/// Referral(cut a., NS c.), c. in the parent zone with an A: the NS record
/// ends at 34, the (optional) A record at 50.
fn trunc_optional(limit: usize) -> (u8, usize) {
    let (case, n) = referral(false, false, true, limit, true, false);
    assert!(
        if limit >= 50 { case == COMPLETE && n == 50 } else if limit >= 34 { case == PARTIAL || case == TRUNCATED } else { case == TRUNCATED },
        "[C04] optional addresses: complete when they fit, else dropped or truncated; the NS set is mandatory"
    );
    (case, n)
}

// @harness name=c04_optional_udp props=C04,C05 panics=C04,C01 tier=thorough mem=6 t=3600 kani="--no-assertion-reach-checks" cbmc="--max-field-sensitivity-array-size 256 --unwindset _RNCNvMs_NtNtCskjFBwtpsoHr_8quandary7message6writerNtB6_6Writer30write_compressed_unhinted_name0Ba_.0:4,_RNCNvMs_NtNtCskjFBwtpsoHr_8quandary7message6writerNtB6_6Writer30write_compressed_unhinted_names_0Ba_.0:4,_RNvMs_NtNtCskjFBwtpsoHr_8quandary7message6writerNtB4_6Writer30write_compressed_unhinted_name.0:4,_RNvMs_NtNtCskjFBwtpsoHr_8quandary7message6writerNtB4_6Writer30write_compressed_unhinted_name.1:4,_RINvNvMNtNtCs8xvirJzNMvV_4core5slice5asciiSh27eq_ignore_ascii_case_chunks21eq_ignore_ascii_innerKj10_ECskjFBwtpsoHr_8quandary.0:3,_RNvMNtNtCs8xvirJzNMvV_4core5slice5asciiSh27eq_ignore_ascii_case_simpleCskjFBwtpsoHr_8quandary.0:3,_RINvMNtNtCs8xvirJzNMvV_4core5slice5asciiSh27eq_ignore_ascii_case_chunksKj10_ECskjFBwtpsoHr_8quandary.0:3,_RNvNtNtCskjFBwtpsoHr_8quandary4name4wire23parse_uncompressed_name.0:5,_RNvMs_NtCskjFBwtpsoHr_8quandary4nameNtB4_4Name15initialize_into.0:5,_RINvNtCs8xvirJzNMvV_4core3ptr9drop_glueSTjINtNtCs6xMQmN1AWUs_5alloc5boxed3BoxNtNtCskjFBwtpsoHr_8quandary4name4NameEEEB1h_.0:3,_RINvNtNtCskjFBwtpsoHr_8quandary6server5query11do_referralNtNtB2_10kani_query8MockZoneEB6_.0:2,_RINvNtNtCskjFBwtpsoHr_8quandary6server5query11do_referralNtNtB2_10kani_query8MockZoneEB6_.1:2,_RINvNtNtCskjFBwtpsoHr_8quandary6server5query11do_referralNtNtB2_10kani_query8MockZoneEB6_.2:2" stubs="M1,T0,N1"
//   fn="Server::handle_non_axfr_query,answer,do_referral,add_additional_addresses,execute_allowing_truncation,Writer::add_authority_rrset,Writer::add_additional_rrset,Writer::with_rollback,Writer::clear_rrs,Writer::set_tc"
//   bound="UDP; Referral(cut a., NS c.), c. a name of the parent zone with an A: NS record ends at 34, optional A at 50; dropped without TC when it does not fit, present when it does; size limits 33 34 35 49 50 64; unwind 7"
//   sym="NS TTL, TTL and octets of the A record per run"
proof_ref!(c04_optional_udp, 7, {
    at_limits!(|l| { trunc_optional(l); }; 33 34 35 50 64);
    let (case, n) = trunc_optional(49);
    kani::cover!(case == PARTIAL && n == 34, "optional A dropped without TC");
});

/// Found(MX b.), b. with an A: the MX record ends at 36, the (optional) A at 52.
fn trunc_mx(limit: usize) -> (u8, usize) {
    let (case, n) = found_target(T_MX, true, limit, true, false);
    assert!(
        if limit >= 52 { case == COMPLETE && n == 52 } else if limit >= 36 { case == PARTIAL || case == TRUNCATED } else { case == TRUNCATED },
        "[C04] MX answer: complete when it fits, optional addresses dropped or TC otherwise"
    );
    (case, n)
}

// @harness name=c04_mx_udp props=C04,C05 panics=C04,C01 tier=thorough mem=6 t=3600 kani="--no-assertion-reach-checks" cbmc="--max-field-sensitivity-array-size 256 --unwindset _RNCNvMs_NtNtCskjFBwtpsoHr_8quandary7message6writerNtB6_6Writer30write_compressed_unhinted_name0Ba_.0:4,_RNCNvMs_NtNtCskjFBwtpsoHr_8quandary7message6writerNtB6_6Writer30write_compressed_unhinted_names_0Ba_.0:4,_RNvMs_NtNtCskjFBwtpsoHr_8quandary7message6writerNtB4_6Writer30write_compressed_unhinted_name.0:4,_RNvMs_NtNtCskjFBwtpsoHr_8quandary7message6writerNtB4_6Writer30write_compressed_unhinted_name.1:4,_RINvNvMNtNtCs8xvirJzNMvV_4core5slice5asciiSh27eq_ignore_ascii_case_chunks21eq_ignore_ascii_innerKj10_ECskjFBwtpsoHr_8quandary.0:3,_RNvMNtNtCs8xvirJzNMvV_4core5slice5asciiSh27eq_ignore_ascii_case_simpleCskjFBwtpsoHr_8quandary.0:3,_RINvMNtNtCs8xvirJzNMvV_4core5slice5asciiSh27eq_ignore_ascii_case_chunksKj10_ECskjFBwtpsoHr_8quandary.0:3,_RNvNtNtCskjFBwtpsoHr_8quandary4name4wire23parse_uncompressed_name.0:5,_RNvMs_NtCskjFBwtpsoHr_8quandary4nameNtB4_4Name15initialize_into.0:5,_RINvNtCs8xvirJzNMvV_4core3ptr9drop_glueSTjINtNtCs6xMQmN1AWUs_5alloc5boxed3BoxNtNtCskjFBwtpsoHr_8quandary4name4NameEEEB1h_.0:3,_RINvNtNtCskjFBwtpsoHr_8quandary6server5query11do_referralNtNtB2_10kani_query8MockZoneEB6_.0:2,_RINvNtNtCskjFBwtpsoHr_8quandary6server5query11do_referralNtNtB2_10kani_query8MockZoneEB6_.1:2,_RINvNtNtCskjFBwtpsoHr_8quandary6server5query11do_referralNtNtB2_10kani_query8MockZoneEB6_.2:2" stubs="M1,T0"
//   fn="Server::handle_non_axfr_query,answer,do_additional_section_processing,add_additional_addresses,execute_allowing_truncation,Writer::with_rollback,Writer::clear_rrs,Writer::set_tc"
//   bound="UDP; question a. MX IN; Found(MX b.), b. with an A: MX record ends at 36, optional A at 52; size limits 35 36 37 51 52 64; unwind 7"
//   sym="ttl, pref, TTL and octets of the A record per run"
proof!(c04_mx_udp, 7, {
    at_limits!(|l| { trunc_mx(l); }; 35 36 37 52 64);
    let (case, n) = trunc_mx(51);
    kani::cover!(case == PARTIAL && n == 36, "address of the exchange dropped without TC");
});

// @harness name=c04_2ns_udp props=C04,C05 panics=C04,C01 tier=thorough mem=4 t=2400 kani="--no-assertion-reach-checks" cbmc="--max-field-sensitivity-array-size 256 --unwindset _RNCNvMs_NtNtCskjFBwtpsoHr_8quandary7message6writerNtB6_6Writer30write_compressed_unhinted_name0Ba_.0:4,_RNCNvMs_NtNtCskjFBwtpsoHr_8quandary7message6writerNtB6_6Writer30write_compressed_unhinted_names_0Ba_.0:4,_RNvMs_NtNtCskjFBwtpsoHr_8quandary7message6writerNtB4_6Writer30write_compressed_unhinted_name.0:4,_RNvMs_NtNtCskjFBwtpsoHr_8quandary7message6writerNtB4_6Writer30write_compressed_unhinted_name.1:4,_RINvNvMNtNtCs8xvirJzNMvV_4core5slice5asciiSh27eq_ignore_ascii_case_chunks21eq_ignore_ascii_innerKj10_ECskjFBwtpsoHr_8quandary.0:3,_RNvMNtNtCs8xvirJzNMvV_4core5slice5asciiSh27eq_ignore_ascii_case_simpleCskjFBwtpsoHr_8quandary.0:3,_RINvMNtNtCs8xvirJzNMvV_4core5slice5asciiSh27eq_ignore_ascii_case_chunksKj10_ECskjFBwtpsoHr_8quandary.0:3,_RNvNtNtCskjFBwtpsoHr_8quandary4name4wire23parse_uncompressed_name.0:5,_RNvMs_NtCskjFBwtpsoHr_8quandary4nameNtB4_4Name15initialize_into.0:5,_RINvNtCs8xvirJzNMvV_4core3ptr9drop_glueSTjINtNtCs6xMQmN1AWUs_5alloc5boxed3BoxNtNtCskjFBwtpsoHr_8quandary4name4NameEEEB1h_.0:3,_RINvNtNtCskjFBwtpsoHr_8quandary6server5query11do_referralNtNtB2_10kani_query8MockZoneEB6_.0:3,_RINvNtNtCskjFBwtpsoHr_8quandary6server5query11do_referralNtNtB2_10kani_query8MockZoneEB6_.1:2,_RINvNtNtCskjFBwtpsoHr_8quandary6server5query11do_referralNtNtB2_10kani_query8MockZoneEB6_.2:2" stubs="M1,T0,N1"
//   fn="Server::handle_non_axfr_query,answer,do_referral,add_additional_addresses,execute_allowing_truncation,Writer::add_authority_rrset,Writer::add_additional_rrset,Writer::with_rollback,Writer::clear_rrs,Writer::set_tc"
//   bound="UDP; Referral(cut a., NS {a., c.}), glue A of a. (ends at 64) and an A of c. (80); size limits 47 48 62 63: the glue does not fit: TC, no records (64: c05_referral_2ns_drop); unwind 7"
//   sym="NS TTL, 2 address TTLs, 8 address octets per run"
proof_ref!(c04_2ns_udp, 7, {
    at_limits!(|l| {
        let (case, _n) = referral_2ns(true, l, true);
        assert!(case == TRUNCATED, "[C04] glue is kept or the response truncated");
    }; 47 48 62 63);
    kani::cover!(true, "limits done");
});

