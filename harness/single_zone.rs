// @host src/db/single_zone_catalog.rs
//
// C22 / C07 (catalog part): SingleZoneCatalog::{lookup, get} - an entry is
// returned exactly when the class is equal AND the name is at/below the
// entry's name (lookup) resp. equal to it (get); labels compare
// case-insensitively.  The entry's class, the query class, the entry kind and
// its tag are symbolic; entry name and query names are concrete (one call per
// query name).

use super::*;
use crate::db::zone::{GluePolicy, IteratorByNode, LookupAddrsResult, LookupAllResult, LookupOptions, LookupResult};
use crate::rr::Type;

/// A zone type that is never instantiated.
pub struct NoZone;

impl Zone for NoZone {
    fn name(&self) -> &Name {
        Name::root()
    }
    fn class(&self) -> Class {
        Class::IN
    }
    fn glue_policy(&self) -> GluePolicy {
        GluePolicy::Narrow
    }
    fn lookup(&self, _name: &Name, _rr_type: Type, _options: LookupOptions) -> LookupResult<'_> {
        LookupResult::WrongZone
    }
    fn lookup_addrs(&self, _name: &Name, _options: LookupOptions) -> LookupAddrsResult<'_> {
        LookupAddrsResult::WrongZone
    }
    fn lookup_all(&self, _name: &Name, _options: LookupOptions) -> LookupAllResult<'_> {
        LookupAllResult::WrongZone
    }
    fn iter_by_node(&self) -> IteratorByNode<'_> {
        Box::new(core::iter::empty())
    }
}

fn eq_ic_model(a: &[u8], b: &[u8]) -> bool {
    if a.len() != b.len() {
        return false;
    }
    let mut i = 0;
    while i < a.len() {
        let x = if a[i] >= b'A' && a[i] <= b'Z' { a[i] + 32 } else { a[i] };
        let y = if b[i] >= b'A' && b[i] <= b'Z' { b[i] + 32 } else { b[i] };
        if x != y {
            return false;
        }
        i += 1;
    }
    true
}

fn nm(w: &[u8]) -> Box<Name> {
    match Name::try_from_uncompressed_all(w) {
        Ok(n) => n,
        Err(_) => {
            assert!(false, "pool names are valid");
            loop {}
        }
    }
}

const ENTRY_NAME: &[u8] = &[1, b'b', 1, b'a', 0];

/// (query, at or below b.a., equal to b.a.) - the harness's own facts.
const QUERIES: [(&[u8], bool, bool); 7] = [
    (&[1, b'b', 1, b'a', 0], true, true),
    (&[1, b'B', 1, b'A', 0], true, true),
    (&[1, b'c', 1, b'b', 1, b'a', 0], true, false),
    (&[1, b'a', 0], false, false),
    (&[0], false, false),
    (&[1, b'b', 1, b'x', 0], false, false),
    (&[2, b'c', b'b', 1, b'a', 0], false, false),
];

fn single_zone_queries(from: usize, to: usize) {
    let eclass: u16 = kani::any();
    let qclass: u16 = kani::any();
    let failed: bool = kani::any();
    let tag: u8 = kani::any();
    let entry: Entry<NoZone, u8> = if failed {
        Entry::FailedToLoad(nm(ENTRY_NAME), Class::from(eclass), tag)
    } else {
        Entry::NotYetLoaded(nm(ENTRY_NAME), Class::from(eclass), tag)
    };
    let cat = core::mem::ManuallyDrop::new(SingleZoneCatalog::new(entry));
    let mut k = from;
    while k < to {
        let (w, below, equal) = QUERIES[k];
        let q = core::mem::ManuallyDrop::new(nm(w));
        let l = cat.lookup(&q, Class::from(qclass));
        let g = cat.get(&q, Class::from(qclass));
        assert!(l.is_some() == (eclass == qclass && below), "[C22] the single-zone catalog answers a lookup exactly for its class and for names at or below its zone");
        assert!(g.is_some() == (eclass == qclass && equal), "[C22] the single-zone catalog answers an exact lookup exactly for its class and its zone's name");
        if let Some(e) = l {
            assert!(*e.metadata() == tag && e.class() == Class::from(eclass), "[C22] the entry returned is the catalog's entry");
        }
        if let Some(e) = g {
            assert!(*e.metadata() == tag, "[C22] the entry returned is the catalog's entry");
        }
        k += 1;
    }
    kani::cover!(eclass == qclass && eclass == 3, "matching class CH");
    kani::cover!(eclass != qclass, "class mismatch");
}

// @harness props=C22,C07 tier=quick mem=3 t=1200 fn="<SingleZoneCatalog as Catalog>::lookup,<SingleZoneCatalog as Catalog>::get,Name::eq_or_subdomain_of,<Name as PartialEq>::eq"
//   bound="entry b.a. (NotYetLoaded or FailedToLoad, any class, any u8 tag); lookup and get of b.a., B.A., c.b.a. with any query class; unwind 7"
//   sym="entry class:u16, query class:u16, kind, tag" stubs="eq_ignore_ascii_case" cbmc="--max-field-sensitivity-array-size 200" kani="--no-assertion-reach-checks"
#[kani::proof]
#[kani::unwind(7)]
#[kani::stub(<[u8]>::eq_ignore_ascii_case, eq_ic_model)]
fn c22_single_zone_catalog_inside() {
    single_zone_queries(0, 3);
}

// @harness props=C22,C07 tier=thorough mem=3 t=1200 fn="<SingleZoneCatalog as Catalog>::lookup,<SingleZoneCatalog as Catalog>::get,Name::eq_or_subdomain_of,<Name as PartialEq>::eq"
//   bound="same entry; lookup and get of a., the root, b.x., cb.a. (names outside the zone) with any query class; unwind 7"
//   sym="entry class:u16, query class:u16, kind, tag" stubs="eq_ignore_ascii_case" cbmc="--max-field-sensitivity-array-size 200" kani="--no-assertion-reach-checks"
#[kani::proof]
#[kani::unwind(7)]
#[kani::stub(<[u8]>::eq_ignore_ascii_case, eq_ic_model)]
fn c22_single_zone_catalog_outside() {
    single_zone_queries(3, 7);
}
