// @host src/rr/rdata/mod.rs
//
// C18: Rdata::validate against per-type reference validators written here
// from the RFCs, and Rdata::read against a reference reader (framing check,
// RFC 1035 section 4.1.4 decompression by kani_common::ref_name, then the
// reference validator).  Nothing in the reference calls quandary code.

use super::*;
use crate::kani_common::*;

// --------------------------------------------------------------------------
// reference validators
// --------------------------------------------------------------------------

const IN: u16 = 1;
const CH: u16 = 3;

/// End of the uncompressed name that starts at `pos`.
fn r_name(b: &[u8], pos: usize) -> Option<usize> {
    if pos > b.len() {
        return None;
    }
    match ref_uncompressed(&b[pos..]) {
        Ok(n) => Some(pos + n),
        Err(_) => None,
    }
}

/// End of the RFC 1035 section 3.3 <character-string> that starts at `pos`:
/// one length octet, then that many octets, all inside the buffer.
fn r_char_string(b: &[u8], pos: usize) -> Option<usize> {
    if pos >= b.len() {
        return None;
    }
    let end = pos + 1 + b[pos] as usize;
    if end > b.len() {
        None
    } else {
        Some(end)
    }
}

fn r_u16(b: &[u8], pos: usize) -> Option<usize> {
    if pos + 2 > b.len() {
        None
    } else {
        Some(((b[pos] as usize) << 8) | b[pos + 1] as usize)
    }
}

/// Does `b` encode RDATA of (class, type) as the defining RFC lays it out?
/// Unsupported class/type combinations have no layout: anything is accepted
/// (RFC 3597: opaque).
fn ref_validate(b: &[u8], class: u16, ty: u16) -> bool {
    let n = b.len();
    match ty {
        // RFC 1035 3.4.1: a 32-bit address; RFC 1034 3.6 (CH): a domain name
        // followed by a 16-bit Chaos address
        1 if class == IN => n == 4,
        1 if class == CH => match r_name(b, 0) {
            Some(e) => n == e + 2,
            None => false,
        },
        // RFC 1035 3.3.11, .4, .5, .1, .3, .6, .8, .12: exactly one domain name
        2 | 3 | 4 | 5 | 7 | 8 | 9 | 12 => r_name(b, 0) == Some(n),
        // RFC 1035 3.3.13: MNAME, RNAME, five 32-bit fields
        6 => match r_name(b, 0) {
            Some(e1) => match r_name(b, e1) {
                Some(e2) => n == e2 + 20,
                None => false,
            },
            None => false,
        },
        // RFC 1035 3.4.2: 32-bit address, 8-bit protocol, bit map of any length
        11 if class == IN => n >= 5,
        // RFC 1035 3.3.2: CPU and OS, two <character-string>s
        13 => match r_char_string(b, 0) {
            Some(e1) => r_char_string(b, e1) == Some(n),
            None => false,
        },
        // RFC 1035 3.3.7: RMAILBX, EMAILBX
        14 => match r_name(b, 0) {
            Some(e1) => r_name(b, e1) == Some(n),
            None => false,
        },
        // RFC 1035 3.3.9: 16-bit preference, exchange name
        15 => n >= 2 && r_name(b, 2) == Some(n),
        // RFC 1035 3.3.14: one or more <character-string>s
        16 => {
            if n == 0 {
                return false;
            }
            let mut pos = 0;
            while pos < n {
                match r_char_string(b, pos) {
                    Some(e) => pos = e,
                    None => return false,
                }
            }
            true
        }
        // RFC 3596 2.2: a 128-bit address
        28 if class == IN => n == 16,
        // RFC 2782: priority, weight, port (16 bits each), target name
        33 if class == IN => n >= 6 && r_name(b, 6) == Some(n),
        // RFC 6891 6.1.2: zero or more {option-code u16, option-length u16,
        // option-data of that length}
        41 => {
            let mut pos = 0;
            while pos < n {
                match r_u16(b, pos + 2) {
                    Some(l) => {
                        if pos + 4 + l > n {
                            return false;
                        }
                        pos += 4 + l;
                    }
                    None => return false,
                }
            }
            true
        }
        // RFC 8945 4.2: algorithm name, time signed (48 bits), fudge (16),
        // MAC size (16), MAC, original ID (16), error (16), other len (16),
        // other data
        250 => match r_name(b, 0) {
            Some(e) => match r_u16(b, e + 8) {
                Some(mac) => match r_u16(b, e + 10 + mac + 4) {
                    Some(other) => n == e + 10 + mac + 6 + other,
                    None => false,
                },
                None => false,
            },
            None => false,
        },
        _ => true,
    }
}

/// Class/type combinations for which the reference has a layout.
fn ref_supported(class: u16, ty: u16) -> bool {
    match ty {
        2 | 3 | 4 | 5 | 6 | 7 | 8 | 9 | 12 | 13 | 14 | 15 | 16 | 41 | 250 => true,
        1 => class == IN || class == CH,
        11 | 28 | 33 => class == IN,
        _ => false,
    }
}

// --------------------------------------------------------------------------
// (ii) Rdata::validate == reference validator
// --------------------------------------------------------------------------

/// RDATA of every length 0..=N (symbolic), all octet values.
fn validate_vs_ref<const N: usize>(class: u16, ty: u16) -> (bool, usize) {
    let buf: [u8; N] = kani::any();
    let len: usize = kani::any();
    kani::assume(len <= N);
    let b = &buf[..len];
    let r = Rdata::from_unchecked(b).validate(Class::from(class), Type::from(ty));
    let e = ref_validate(b, class, ty);
    assert!(r.is_ok() || !e, "[C18] validate rejects an encoding the RFC allows");
    assert!(r.is_err() || e, "[C18] validate accepts an encoding the RFC does not allow");
    (e, len)
}

// @harness props=C18 panics=C18,C01 tier=quick mem=2 t=900 fn="Rdata::validate,helpers::validate_name,Rdata::validate_as_in_a,Rdata::validate_as_ch_a,Rdata::validate_as_soa,Rdata::validate_as_in_wks,Rdata::validate_as_hinfo,Rdata::validate_as_minfo,Rdata::validate_as_mx,Rdata::validate_as_txt,Rdata::validate_as_in_aaaa,Rdata::validate_as_in_srv,Rdata::validate_as_opt,Rdata::validate_as_tsig,Name::validate_uncompressed,Name::validate_uncompressed_all"
//   bound="EVERY class (u16) and type (u16); RDATA of every length 0..=8, all octet values; unwind 10"
//   sym="class:u16, type:u16, buf:[u8;8], len<=8"
#[kani::proof]
#[kani::unwind(10)]
fn c18_validate_all_types_len8() {
    let class: u16 = kani::any();
    let ty: u16 = kani::any();
    let (ok, len) = validate_vs_ref::<8>(class, ty);
    kani::cover!(ok && ty == 15 && len == 8, "some valid 8-octet MX accepted");
    kani::cover!(ok && ty == 33 && class == IN && len == 7, "some valid SRV with a root target accepted");
    kani::cover!(ok && ty == 16 && len == 8, "some valid TXT accepted");
    kani::cover!(!ok && ty == 16, "some TXT rejected");
    kani::cover!(ok && ty == 41 && len == 8, "some valid OPT with two options accepted");
    kani::cover!(ok && ty == 13 && len == 8, "some valid HINFO accepted");
    kani::cover!(ok && ty == 1 && class == CH && len == 5, "some valid CH A accepted");
    kani::cover!(!ok && ty == 2, "some NS rejected");
    kani::cover!(ok && !ref_supported(class, ty) && len == 3, "opaque RDATA of an unsupported class/type accepted");
}

// @harness props=C18 panics=C18,C01 tier=thorough mem=3 t=1200 fn="Rdata::validate and every validate_as_*"
//   bound="EVERY class (u16) and type (u16); RDATA of every length 0..=12, all octet values; unwind 14"
//   sym="class:u16, type:u16, buf:[u8;12], len<=12"
#[kani::proof]
#[kani::unwind(14)]
fn c18_validate_all_types_len12() {
    let class: u16 = kani::any();
    let ty: u16 = kani::any();
    let (ok, len) = validate_vs_ref::<12>(class, ty);
    kani::cover!(ok && ty == 33 && class == IN && len == 12, "some valid 12-octet SRV accepted");
    kani::cover!(ok && ty == 14 && len == 12, "some valid 12-octet MINFO accepted");
    kani::cover!(ok && ty == 41 && len == 12, "some valid 12-octet OPT accepted");
    kani::cover!(!ok && ty == 41 && len == 12, "some 12-octet OPT rejected");
}

// @harness props=C18 panics=C18,C01 tier=quick mem=2 t=600 fn="Rdata::validate,Rdata::validate_as_soa,Name::validate_uncompressed"
//   bound="type SOA, any class; RDATA of every length 0..=25 (names of up to 5 octets together + 20), all octet values; unwind 27"
//   sym="class:u16, buf:[u8;25], len<=25"
#[kani::proof]
#[kani::unwind(27)]
fn c18_validate_soa_len25() {
    let class: u16 = kani::any();
    let (ok, len) = validate_vs_ref::<25>(class, 6);
    kani::cover!(ok && len == 22, "SOA with two root names accepted");
    kani::cover!(ok && len == 25, "SOA with a one-label name accepted");
    kani::cover!(!ok && len == 25, "some 25-octet SOA rejected");
}

// @harness props=C18 panics=C18,C01 tier=quick mem=2 t=600 fn="Rdata::validate,Rdata::validate_as_tsig,Name::validate_uncompressed"
//   bound="type TSIG, any class; RDATA of every length 0..=21 (algorithm name + 16 + MAC + other data), all octet values; unwind 23"
//   sym="class:u16, buf:[u8;21], len<=21"
#[kani::proof]
#[kani::unwind(23)]
fn c18_validate_tsig_len21() {
    let class: u16 = kani::any();
    let (ok, len) = validate_vs_ref::<21>(class, 250);
    kani::cover!(ok && len == 17, "minimal TSIG accepted");
    kani::cover!(ok && len == 21, "21-octet TSIG accepted");
    kani::cover!(!ok && len == 21, "some 21-octet TSIG rejected");
}

// @harness props=C18 panics=C18,C01 tier=quick mem=2 t=300 fn="Rdata::validate,Rdata::validate_as_in_aaaa,Rdata::validate_as_in_a,Rdata::validate_as_in_wks"
//   bound="types A, WKS, AAAA, NULL(10), any class; RDATA of every length 0..=17, all octet values; unwind 3"
//   sym="class:u16, buf:[u8;17], len<=17"
#[kani::proof]
#[kani::unwind(3)]
fn c18_validate_fixed_len17() {
    let class: u16 = kani::any();
    // CH A embeds a name and is covered by the all-types harnesses
    kani::assume(class != CH);
    let (ok, len) = validate_vs_ref::<17>(class, 28);
    kani::cover!(ok && class == IN && len == 16, "AAAA of 16 octets accepted");
    kani::cover!(!ok && len == 17, "AAAA of 17 octets rejected");
    kani::cover!(ok && class != IN && len == 3, "AAAA outside class IN is opaque");
    let (ok, len) = validate_vs_ref::<17>(class, 1);
    kani::cover!(ok && class == IN && len == 4, "A of 4 octets accepted");
    kani::cover!(!ok, "some A rejected");
    let (ok, len) = validate_vs_ref::<17>(class, 11);
    kani::cover!(ok && class == IN && len == 5, "WKS with an empty bit map accepted");
    kani::cover!(!ok && len == 4, "WKS of 4 octets rejected");
    let (ok, _) = validate_vs_ref::<17>(class, 10);
    kani::cover!(ok, "NULL accepts anything");
}

// --------------------------------------------------------------------------
// (i) Rdata::read against a reference reader
// --------------------------------------------------------------------------

/// What a correct reader returns, described piecewise so that the harness
/// can compare without materialising a buffer: `pre` octets copied from
/// msg[cursor..], then the uncompressed wire form of each name, then the
/// octets msg[tail..end].
struct RefRdata {
    pre: usize,
    n_names: usize,
    names: [Option<RefName>; 2],
    tail: usize,
    end: usize,
    len: usize,
}

enum RefReadErr {
    /// the RDATA extends past the end of the message
    Eom,
    /// anything else (bad name, wrong length)
    Malformed,
}

/// (fixed octets before the names, number of names, fixed octets after) for
/// the types whose RDATA may carry compressed names on the wire (RFC 3597
/// section 4: the RFC 1035 types; CH A from RFC 1034; SRV per RFC 2782 is
/// decompressed on receipt).
fn ref_name_layout(class: u16, ty: u16) -> Option<(usize, usize, usize)> {
    match ty {
        2 | 3 | 4 | 5 | 7 | 8 | 9 | 12 => Some((0, 1, 0)),
        6 => Some((0, 2, 20)),
        14 => Some((0, 2, 0)),
        15 => Some((2, 1, 0)),
        1 if class == CH => Some((0, 1, 2)),
        33 if class == IN => Some((6, 1, 0)),
        _ => None,
    }
}

/// What a correct reader returns for RDATA of (class, type) occupying
/// msg[cursor .. cursor + rdlength]: the same octets with every embedded
/// (possibly compressed) name replaced by its uncompressed form, provided
/// the fields fill the RDATA exactly and the result is valid for the type.
fn ref_read(msg: &[u8], cursor: usize, rdlength: u16, class: u16, ty: u16) -> Result<RefRdata, RefReadErr> {
    let end = cursor + rdlength as usize;
    if end > msg.len() {
        return Err(RefReadErr::Eom);
    }
    // names may point backwards anywhere into the message, never past the RDATA
    let buf = &msg[..end];
    match ref_name_layout(class, ty) {
        None => {
            if !ref_validate(&buf[cursor..], class, ty) {
                return Err(RefReadErr::Malformed);
            }
            Ok(RefRdata { pre: rdlength as usize, n_names: 0, names: [None, None], tail: end, end, len: rdlength as usize })
        }
        Some((pre, n_names, post)) => {
            if (rdlength as usize) < pre {
                return Err(RefReadErr::Malformed);
            }
            let mut out = RefRdata { pre, n_names, names: [None, None], tail: 0, end, len: pre };
            let mut pos = cursor + pre;
            let mut k = 0;
            while k < n_names {
                match ref_name(buf, pos) {
                    Ok(n) => {
                        out.len += n.len;
                        pos += n.first_chunk;
                        out.names[k] = Some(n);
                    }
                    Err(_) => return Err(RefReadErr::Malformed),
                }
                k += 1;
            }
            // the last name must END exactly `post` octets before the end
            if end - pos != post {
                return Err(RefReadErr::Malformed);
            }
            out.tail = pos;
            out.len += post;
            Ok(out)
        }
    }
}

/// Is `g` the RDATA the reference describes?
fn same_rdata(g: &[u8], msg: &[u8], cursor: usize, want: &RefRdata) {
    assert!(g.len() == want.len, "[C18] read returns RDATA of the reference's length");
    let mut at = 0;
    while at < want.pre {
        assert!(g[at] == msg[cursor + at], "[C18] read copies the fixed fields before the names");
        at += 1;
    }
    let mut k = 0;
    while k < want.n_names {
        if let Some(n) = &want.names[k] {
            let mut i = 0;
            while i < n.len {
                assert!(g[at] == n.wire[i], "[C18] read returns the reference's decompressed name");
                at += 1;
                i += 1;
            }
        }
        k += 1;
    }
    let mut t = want.tail;
    while t < want.end {
        assert!(g[at] == msg[t], "[C18] read copies the fixed fields after the names");
        at += 1;
        t += 1;
    }
}

struct ReadSeen {
    eom: bool,
    accepted: bool,
    /// the accepted RDATA is longer than its wire form (a pointer was expanded)
    expanded: bool,
    /// the accepted RDATA is shorter than or as long as RDLENGTH
    out_len: usize,
}

fn check_read(msg: &[u8], cursor: usize, rdlength: u16, class: u16, ty: u16) -> ReadSeen {
    check_read_opt(msg, cursor, rdlength, class, ty, true)
}

/// `revalidate`: also run Rdata::validate and the reference validator on the
/// RDATA that read returned.  The fully symbolic harnesses of the
/// decompressing types switch it off (it doubled their cost past the time
/// limit); for them it is implied by the equality with the reference's
/// output, which is valid by construction, and it is checked on the
/// skeleton harnesses.
fn check_read_opt(msg: &[u8], cursor: usize, rdlength: u16, class: u16, ty: u16, revalidate: bool) -> ReadSeen {
    let c = Class::from(class);
    let t = Type::from(ty);
    let r = Rdata::read(c, t, msg, cursor, rdlength);
    let e = ref_read(msg, cursor, rdlength, class, ty);
    let eom = cursor + rdlength as usize > msg.len();
    assert!(
        matches!(r, Err(ReadRdataError::UnexpectedEom)) == eom,
        "[C18] read fails with UnexpectedEom exactly when the RDATA extends past the end of the message"
    );
    let mut seen = ReadSeen { eom, accepted: false, expanded: false, out_len: 0 };
    match (&r, &e) {
        (Ok(got), Ok(want)) => {
            let g = got.octets();
            same_rdata(g, msg, cursor, want);
            if revalidate {
                assert!(got.validate(c, t).is_ok(), "[C18] RDATA returned by read passes validate");
                // valid uncompressed names only: no compression pointer survives
                assert!(ref_validate(g, class, ty), "[C18] RDATA returned by read is valid uncompressed RDATA per the RFC");
            }
            seen.accepted = true;
            seen.expanded = want.len > rdlength as usize;
            seen.out_len = want.len;
        }
        (Err(_), Err(_)) => {}
        (Ok(_), Err(_)) => assert!(false, "[C18] read accepts RDATA the reference rejects"),
        (Err(_), Ok(_)) => assert!(false, "[C18] read rejects RDATA the reference accepts"),
    }
    seen
}

/// Message of exactly N octets, all symbolic; every cursor 0..=N+1; every
/// RDLENGTH.
fn read_sym<const N: usize>(class: u16, ty: u16) -> ReadSeen {
    let msg: [u8; N] = kani::any();
    let cursor: usize = kani::any();
    kani::assume(cursor <= N + 1);
    let rdlength: u16 = kani::any();
    check_read(&msg, cursor, rdlength, class, ty)
}

/// The same for the decompressing types, without re-validation of the result.
fn read_sym_names<const N: usize>(class: u16, ty: u16) -> ReadSeen {
    let msg: [u8; N] = kani::any();
    let cursor: usize = kani::any();
    kani::assume(cursor <= N + 1);
    let rdlength: u16 = kani::any();
    check_read_opt(&msg, cursor, rdlength, class, ty, false)
}

// ---- types without embedded names: borrowed, validated in place ------------

// @harness props=C18 panics=C18,C01 tier=quick mem=4 t=2400 fn="Rdata::read,helpers::prepare_to_read_rdata,Rdata::validate_as_in_a,Rdata::validate_as_in_wks,Rdata::validate_as_hinfo,Rdata::validate_as_txt,Rdata::validate_as_opt,Rdata::validate"
//   bound="(class,type) in IN A, HS A, IN WKS, HINFO, TXT, OPT, NULL, IN 0xff00 (unknown), CH SRV, CH AAAA; message of exactly 8 octets, all octet values; cursor 0..=9; RDLENGTH any u16; unwind 11"
//   sym="msg:[u8;8], cursor<=9, rdlength:u16 (fresh per type)"
#[kani::proof]
#[kani::unwind(11)]
fn c18_read_plain_n8() {
    let list: [(u16, u16); 10] = [(IN, 1), (4, 1), (IN, 11), (IN, 13), (IN, 16), (IN, 41), (IN, 10), (IN, 0xff00), (CH, 33), (CH, 28)];
    let mut i = 0;
    while i < list.len() {
        let (class, ty) = list[i];
        let s = read_sym::<8>(class, ty);
        kani::cover!(s.accepted && s.out_len == 8, "some 8-octet RDATA accepted");
        kani::cover!(s.eom, "RDATA past the end of the message");
        kani::cover!(!s.eom && !s.accepted && ty != 10 && ty != 0xff00 && class != CH, "some RDATA inside the message rejected");
        i += 1;
    }
}

// @harness props=C18 panics=C18,C01 tier=quick mem=2 t=1200 fn="Rdata::read,helpers::prepare_to_read_rdata,Rdata::validate_as_in_aaaa,Rdata::validate_as_tsig,Name::validate_uncompressed"
//   bound="IN AAAA and TSIG; message of exactly 18 octets, all octet values; cursor 0..=19; RDLENGTH any u16; unwind 20"
//   sym="msg:[u8;18], cursor<=19, rdlength:u16 (fresh per type)"
#[kani::proof]
#[kani::unwind(20)]
fn c18_read_plain_n18() {
    let s = read_sym::<18>(IN, 28);
    kani::cover!(s.accepted && s.out_len == 16, "16-octet AAAA accepted");
    kani::cover!(!s.eom && !s.accepted, "AAAA of another length rejected");
    let s = read_sym::<18>(255, 250);
    kani::cover!(s.accepted && s.out_len == 17, "minimal TSIG accepted");
    kani::cover!(s.accepted && s.out_len == 18, "18-octet TSIG accepted");
    kani::cover!(s.eom, "TSIG past the end of the message");
}

// ---- name-bearing types, every octet symbolic, tiny messages ----------------

// @harness props=C18 panics=C18,C01 tier=thorough mem=7 t=2700 fn="Rdata::read,helpers::read_name_rdata,helpers::prepare_to_read_rdata,Name::try_from_compressed,name::wire::parse_compressed_name,Rdata::validate"
//   bound="type NS, any class; message of exactly 3 octets, all octet values; cursor 0..=4; RDLENGTH any u16; unwind 5"
//   sym="msg:[u8;3], cursor<=4, rdlength:u16, class:u16" stubs="S7"
#[kani::proof]
#[kani::unwind(5)]
#[kani::stub(arrayvec::ArrayVec::try_extend_from_slice, try_extend_model)]
fn c18_read_ns_n3() {
    let class: u16 = kani::any();
    let s = read_sym_names::<3>(class, 2);
    kani::cover!(s.accepted && s.expanded, "NS whose name was decompressed accepted");
    kani::cover!(s.accepted && s.out_len == 3, "NS with a one-label name accepted");
    kani::cover!(s.eom, "RDATA past the end of the message");
    kani::cover!(!s.eom && !s.accepted, "NS inside the message rejected");
}

// ---- name-bearing types, concrete skeletons --------------------------------
// A fully symbolic message is only affordable up to 3-4 octets for the types
// that decompress names (HARNESS_GUIDE: parse_compressed_name on 5 symbolic
// octets costs 10 min / 13 GB), which is not even one MX with a pointer, let
// alone SRV or SOA.  The harnesses below fix the STRUCTURE of the message
// (where labels, pointers and fields are) and RDLENGTH, and leave symbolic:
// every label content octet, every fixed-field octet and the octets that
// follow the RDATA.  (A symbolic RDLENGTH on top of a skeleton made CBMC's
// symbolic execution itself diverge: no result in 25 minutes.)  Each costs
// about two minutes, so there is one shape per harness: the name field is
// "one label, then a pointer to the name at offset 0" (for the two-name
// types: followed by a plain pointer), the case where the decompressed RDATA
// is longer than RDLENGTH.
//
// message = \x01 L \x00  (a name "L." at offset 0; offset 2 is a root name)
//           RDATA at cursor 3: <pre octets> <name field>... <post octets>
//           two more octets
const SK_MAX: usize = 48;
const SK_CURSOR: usize = 3;

/// Writes name field `variant` at `at`; returns its length on the wire.
fn put_name_field(m: &mut [u8; SK_MAX], at: usize, variant: usize) -> usize {
    match variant {
        // pointer to the name at offset 0
        0 => {
            m[at] = 0xc0;
            m[at + 1] = 0;
            2
        }
        // one label, root
        1 => {
            m[at] = 1;
            m[at + 2] = 0;
            3
        }
        // one label, then a pointer to the name at offset 0
        _ => {
            m[at] = 1;
            m[at + 2] = 0xc0;
            m[at + 3] = 0;
            4
        }
    }
}

/// One RDATA with the given field layout; RDLENGTH = exact length + delta.
fn skeleton(class: u16, ty: u16, pre: usize, v1: usize, v2: Option<usize>, post: usize, delta: isize) -> ReadSeen {
    let mut m: [u8; SK_MAX] = kani::any();
    m[0] = 1;
    m[2] = 0;
    let mut at = SK_CURSOR + pre;
    at += put_name_field(&mut m, at, v1);
    if let Some(v) = v2 {
        at += put_name_field(&mut m, at, v);
    }
    let n = at + post + 2;
    let rdlength = ((n - 2 - SK_CURSOR) as isize + delta) as u16;
    check_read(&m[..n], SK_CURSOR, rdlength, class, ty)
}

// @harness props=C18 panics=C18,C01 tier=quick mem=3 t=1800 fn="Rdata::read,Rdata::read_mx,helpers::prepare_to_read_rdata,Name::try_from_compressed,name::wire::parse_compressed_name,Rdata::validate"
//   bound="type MX, any class; ONE message skeleton: 3-octet name pool, then at cursor 3 the RDATA with name field = label + pointer to the pool; RDLENGTH exact; symbolic label contents, fixed fields, trailing octets; unwind 12"
//   sym="label octets, fixed-field octets, class:u16" stubs="S7"
#[kani::proof]
#[kani::unwind(12)]
#[kani::stub(arrayvec::ArrayVec::try_extend_from_slice, try_extend_model)]
fn c18_read_mx_skeleton() {
    let class: u16 = kani::any();
    let s = skeleton(class, 15, 2, 2, None, 0, 0);
    assert!(s.accepted, "[C18] read accepts a well-formed compressed RDATA");
    kani::cover!(s.accepted && s.expanded, "RDATA with a decompressed name accepted");
}

// @harness props=C18 panics=C18,C01 tier=thorough mem=3 t=1800 fn="Rdata::read,Rdata::read_in_srv,helpers::prepare_to_read_rdata,Name::try_from_compressed,name::wire::parse_compressed_name,Rdata::validate"
//   bound="type SRV class IN; ONE message skeleton: 3-octet name pool, then at cursor 3 the RDATA with name field = label + pointer to the pool; RDLENGTH exact; symbolic label contents, fixed fields, trailing octets; unwind 16"
//   sym="label octets, fixed-field octets" stubs="S7"
#[kani::proof]
#[kani::unwind(16)]
#[kani::stub(arrayvec::ArrayVec::try_extend_from_slice, try_extend_model)]
fn c18_read_srv_skeleton() {
    let s = skeleton(IN, 33, 6, 2, None, 0, 0);
    assert!(s.accepted, "[C18] read accepts a well-formed compressed RDATA");
    kani::cover!(s.accepted && s.expanded, "RDATA with a decompressed name accepted");
}

// @harness props=C18 panics=C18,C01 tier=quick mem=3 t=1800 fn="Rdata::read,Rdata::read_ch_a,helpers::prepare_to_read_rdata,Name::try_from_compressed,name::wire::parse_compressed_name,Rdata::validate"
//   bound="type A class CH; ONE message skeleton: 3-octet name pool, then at cursor 3 the RDATA with name field = label + pointer to the pool; RDLENGTH exact; symbolic label contents, fixed fields, trailing octets; unwind 12"
//   sym="label octets, fixed-field octets" stubs="S7"
#[kani::proof]
#[kani::unwind(12)]
#[kani::stub(arrayvec::ArrayVec::try_extend_from_slice, try_extend_model)]
fn c18_read_ch_a_skeleton() {
    let s = skeleton(CH, 1, 0, 2, None, 2, 0);
    assert!(s.accepted, "[C18] read accepts a well-formed compressed RDATA");
    kani::cover!(s.accepted && s.expanded, "RDATA with a decompressed name accepted");
}

// @harness props=C18 panics=C18,C01 tier=thorough mem=4 t=1800 fn="Rdata::read,Rdata::read_minfo,helpers::prepare_to_read_rdata,Name::try_from_compressed,name::wire::parse_compressed_name,Rdata::validate"
//   bound="type MINFO, any class; ONE message skeleton: 3-octet name pool, then at cursor 3 the RDATA with name field = label + pointer to the pool (second name: pointer to the pool); RDLENGTH exact; symbolic label contents, fixed fields, trailing octets; unwind 12"
//   sym="label octets, fixed-field octets, class:u16" stubs="S7"
#[kani::proof]
#[kani::unwind(12)]
#[kani::stub(arrayvec::ArrayVec::try_extend_from_slice, try_extend_model)]
fn c18_read_minfo_skeleton() {
    let class: u16 = kani::any();
    let s = skeleton(class, 14, 0, 2, Some(0), 0, 0);
    assert!(s.accepted, "[C18] read accepts a well-formed compressed RDATA");
    kani::cover!(s.accepted && s.expanded, "RDATA with a decompressed name accepted");
}

// @harness props=C18 panics=C18,C01 tier=thorough mem=4 t=2400 fn="Rdata::read,Rdata::read_soa,helpers::prepare_to_read_rdata,Name::try_from_compressed,name::wire::parse_compressed_name,Rdata::validate"
//   bound="type SOA, any class; ONE message skeleton: 3-octet name pool, then at cursor 3 the RDATA with name field = label + pointer to the pool (second name: pointer to the pool); RDLENGTH exact; symbolic label contents, fixed fields, trailing octets; unwind 34"
//   sym="label octets, fixed-field octets, class:u16" stubs="S7"
#[kani::proof]
#[kani::unwind(34)]
#[kani::stub(arrayvec::ArrayVec::try_extend_from_slice, try_extend_model)]
fn c18_read_soa_skeleton() {
    let class: u16 = kani::any();
    let s = skeleton(class, 6, 0, 2, Some(0), 20, 0);
    assert!(s.accepted, "[C18] read accepts a well-formed compressed RDATA");
    kani::cover!(s.accepted && s.expanded, "RDATA with a decompressed name accepted");
}

// RDLENGTH one short / one long for the MX skeleton: the name no longer ends
// exactly at the end of the RDATA.
// @harness props=C18 panics=C18,C01 tier=thorough mem=2 t=900 fn="Rdata::read,Rdata::read_mx,Name::try_from_compressed,name::wire::parse_compressed_name"
//   bound="type MX, any class; the MX skeleton with RDLENGTH one less and one more than the fields; unwind 12"
//   sym="label octets, fixed-field octets, class:u16" stubs="S7"
#[kani::proof]
#[kani::unwind(12)]
#[kani::stub(arrayvec::ArrayVec::try_extend_from_slice, try_extend_model)]
fn c18_read_mx_skeleton_off_by_one() {
    let class: u16 = kani::any();
    let s = skeleton(class, 15, 2, 2, None, 0, -1);
    assert!(!s.accepted && !s.eom, "[C18] read rejects RDATA whose RDLENGTH cuts the name short");
    let s = skeleton(class, 15, 2, 2, None, 0, 1);
    assert!(!s.accepted && !s.eom, "[C18] read rejects RDATA with an octet left over after the name");
    kani::cover!(true, "reached");
}

// RDLENGTH ending exactly where the embedded name starts (the regression the
// property record names: 0 for NS, 2 for MX, 6 for SRV): an error, not a
// panic.  Cursor and RDLENGTH are concrete here (symbolic ones make the name
// parser run over the whole symbolic message: no result in 25 minutes); the
// fully symbolic harnesses cover the same case for NS, MX, CH A and MINFO
// with symbolic cursor and RDLENGTH on 3-4 octet messages.
// @harness props=C18 panics=C18,C01 tier=quick mem=3 t=1200 fn="Rdata::read,Rdata::read_in_srv,Rdata::read_soa,Rdata::read_mx,Rdata::read_minfo,Rdata::read_ch_a,helpers::read_name_rdata,Name::try_from_compressed"
//   bound="SRV RDLENGTH 6, MX 2, NS/CH A/MINFO/SOA 0, at cursor 1 of a 7-octet message (RDATA ends at the end of the message) and of an 8-octet one (one octet follows); all octet values; unwind 10"
//   sym="msg:[u8;8]" stubs="S7"
#[kani::proof]
#[kani::unwind(10)]
#[kani::stub(arrayvec::ArrayVec::try_extend_from_slice, try_extend_model)]
fn c18_read_rdlength_ends_at_name() {
    let list: [(u16, u16, u16); 6] = [(IN, 33, 6), (IN, 2, 0), (IN, 15, 2), (CH, 1, 0), (IN, 14, 0), (IN, 6, 0)];
    let msg: [u8; 8] = kani::any();
    let mut i = 0;
    while i < list.len() {
        let (class, ty, rdlength) = list[i];
        // the RDATA ends exactly at the end of the message
        let n = 1 + rdlength as usize;
        let s = check_read(&msg[..n], 1, rdlength, class, ty);
        assert!(!s.accepted && !s.eom, "[C18] RDATA that ends where its embedded name starts is rejected (end of message)");
        // one more octet follows the RDATA
        let s = check_read(&msg[..n + 1], 1, rdlength, class, ty);
        assert!(!s.accepted && !s.eom, "[C18] RDATA that ends where its embedded name starts is rejected (inside the message)");
        i += 1;
    }
    kani::cover!(true, "reached");
}

// ---- the other single-name types --------------------------------------------
// (Fully symbolic 4-octet messages for NS, MX, CH A and MINFO were written
// and dropped: no run finished inside the time available; by the guide's
// numbers parse_compressed_name alone needs 9 GB there.)

// @harness props=C18 panics=C18,C01 tier=thorough mem=7 t=2700 fn="Rdata::read,helpers::read_name_rdata,Name::try_from_compressed,name::wire::parse_compressed_name"
//   bound="type MD (3), any class; message of exactly 3 octets, all octet values; cursor 0..=4; RDLENGTH any u16; unwind 5"
//   sym="msg:[u8;3], cursor<=4, rdlength:u16, class:u16" stubs="S7"
#[kani::proof]
#[kani::unwind(5)]
#[kani::stub(arrayvec::ArrayVec::try_extend_from_slice, try_extend_model)]
fn c18_read_md_n3() {
    let class: u16 = kani::any();
    let s = read_sym_names::<3>(class, 3);
    kani::cover!(s.accepted && s.expanded, "RDATA whose name was decompressed accepted");
    kani::cover!(s.accepted && s.out_len == 3, "RDATA with a one-label name accepted");
    kani::cover!(!s.eom && !s.accepted, "RDATA inside the message rejected");
}

// @harness props=C18 panics=C18,C01 tier=thorough mem=7 t=2700 fn="Rdata::read,helpers::read_name_rdata,Name::try_from_compressed,name::wire::parse_compressed_name"
//   bound="type MF (4), any class; message of exactly 3 octets, all octet values; cursor 0..=4; RDLENGTH any u16; unwind 5"
//   sym="msg:[u8;3], cursor<=4, rdlength:u16, class:u16" stubs="S7"
#[kani::proof]
#[kani::unwind(5)]
#[kani::stub(arrayvec::ArrayVec::try_extend_from_slice, try_extend_model)]
fn c18_read_mf_n3() {
    let class: u16 = kani::any();
    let s = read_sym_names::<3>(class, 4);
    kani::cover!(s.accepted && s.expanded, "RDATA whose name was decompressed accepted");
    kani::cover!(s.accepted && s.out_len == 3, "RDATA with a one-label name accepted");
    kani::cover!(!s.eom && !s.accepted, "RDATA inside the message rejected");
}

// @harness props=C18 panics=C18,C01 tier=thorough mem=7 t=2700 fn="Rdata::read,helpers::read_name_rdata,Name::try_from_compressed,name::wire::parse_compressed_name"
//   bound="type CNAME (5), any class; message of exactly 3 octets, all octet values; cursor 0..=4; RDLENGTH any u16; unwind 5"
//   sym="msg:[u8;3], cursor<=4, rdlength:u16, class:u16" stubs="S7"
#[kani::proof]
#[kani::unwind(5)]
#[kani::stub(arrayvec::ArrayVec::try_extend_from_slice, try_extend_model)]
fn c18_read_cname_n3() {
    let class: u16 = kani::any();
    let s = read_sym_names::<3>(class, 5);
    kani::cover!(s.accepted && s.expanded, "RDATA whose name was decompressed accepted");
    kani::cover!(s.accepted && s.out_len == 3, "RDATA with a one-label name accepted");
    kani::cover!(!s.eom && !s.accepted, "RDATA inside the message rejected");
}

// @harness props=C18 panics=C18,C01 tier=thorough mem=7 t=2700 fn="Rdata::read,helpers::read_name_rdata,Name::try_from_compressed,name::wire::parse_compressed_name"
//   bound="type MB (7), any class; message of exactly 3 octets, all octet values; cursor 0..=4; RDLENGTH any u16; unwind 5"
//   sym="msg:[u8;3], cursor<=4, rdlength:u16, class:u16" stubs="S7"
#[kani::proof]
#[kani::unwind(5)]
#[kani::stub(arrayvec::ArrayVec::try_extend_from_slice, try_extend_model)]
fn c18_read_mb_n3() {
    let class: u16 = kani::any();
    let s = read_sym_names::<3>(class, 7);
    kani::cover!(s.accepted && s.expanded, "RDATA whose name was decompressed accepted");
    kani::cover!(s.accepted && s.out_len == 3, "RDATA with a one-label name accepted");
    kani::cover!(!s.eom && !s.accepted, "RDATA inside the message rejected");
}

// @harness props=C18 panics=C18,C01 tier=thorough mem=7 t=2700 fn="Rdata::read,helpers::read_name_rdata,Name::try_from_compressed,name::wire::parse_compressed_name"
//   bound="type MG (8), any class; message of exactly 3 octets, all octet values; cursor 0..=4; RDLENGTH any u16; unwind 5"
//   sym="msg:[u8;3], cursor<=4, rdlength:u16, class:u16" stubs="S7"
#[kani::proof]
#[kani::unwind(5)]
#[kani::stub(arrayvec::ArrayVec::try_extend_from_slice, try_extend_model)]
fn c18_read_mg_n3() {
    let class: u16 = kani::any();
    let s = read_sym_names::<3>(class, 8);
    kani::cover!(s.accepted && s.expanded, "RDATA whose name was decompressed accepted");
    kani::cover!(s.accepted && s.out_len == 3, "RDATA with a one-label name accepted");
    kani::cover!(!s.eom && !s.accepted, "RDATA inside the message rejected");
}

// @harness props=C18 panics=C18,C01 tier=thorough mem=7 t=2700 fn="Rdata::read,helpers::read_name_rdata,Name::try_from_compressed,name::wire::parse_compressed_name"
//   bound="type MR (9), any class; message of exactly 3 octets, all octet values; cursor 0..=4; RDLENGTH any u16; unwind 5"
//   sym="msg:[u8;3], cursor<=4, rdlength:u16, class:u16" stubs="S7"
#[kani::proof]
#[kani::unwind(5)]
#[kani::stub(arrayvec::ArrayVec::try_extend_from_slice, try_extend_model)]
fn c18_read_mr_n3() {
    let class: u16 = kani::any();
    let s = read_sym_names::<3>(class, 9);
    kani::cover!(s.accepted && s.expanded, "RDATA whose name was decompressed accepted");
    kani::cover!(s.accepted && s.out_len == 3, "RDATA with a one-label name accepted");
    kani::cover!(!s.eom && !s.accepted, "RDATA inside the message rejected");
}

// @harness props=C18 panics=C18,C01 tier=thorough mem=7 t=2700 fn="Rdata::read,helpers::read_name_rdata,Name::try_from_compressed,name::wire::parse_compressed_name"
//   bound="type PTR (12), any class; message of exactly 3 octets, all octet values; cursor 0..=4; RDLENGTH any u16; unwind 5"
//   sym="msg:[u8;3], cursor<=4, rdlength:u16, class:u16" stubs="S7"
#[kani::proof]
#[kani::unwind(5)]
#[kani::stub(arrayvec::ArrayVec::try_extend_from_slice, try_extend_model)]
fn c18_read_ptr_n3() {
    let class: u16 = kani::any();
    let s = read_sym_names::<3>(class, 12);
    kani::cover!(s.accepted && s.expanded, "RDATA whose name was decompressed accepted");
    kani::cover!(s.accepted && s.out_len == 3, "RDATA with a one-label name accepted");
    kani::cover!(!s.eom && !s.accepted, "RDATA inside the message rejected");
}

// ---- every class/type without a layout: opaque ------------------------------
// With a symbolic type every arm of Rdata::read is encoded; the six
// decompressing readers are replaced by a model that rejects everything.  For
// a class/type without a layout the reference accepts every RDATA that lies
// inside the message, so a dispatch into any of those arms would be caught
// as "read rejects RDATA the reference accepts".

fn rejecting_reader(_message: &[u8], _cursor: usize, _rdlength: u16) -> Result<Box<Rdata>, ReadRdataError> {
    Err(ReadRdataError::Other)
}

// @harness props=C18 panics=C18,C01 tier=thorough mem=7 t=1800 fn="Rdata::read (dispatch),helpers::prepare_to_read_rdata"
//   bound="EVERY class (u16) and type (u16) without a reference layout (NULL, A/WKS/AAAA/SRV outside their class, unknown types); message of exactly 5 octets, all octet values; cursor 0..=6; RDLENGTH any u16; unwind 7"
//   sym="class:u16, type:u16, msg:[u8;5], cursor<=6, rdlength:u16" stubs="read_name_rdata/read_ch_a/read_soa/read_minfo/read_mx/read_in_srv -> reject (arms unreachable for these types)"
#[kani::proof]
#[kani::unwind(7)]
#[kani::stub(helpers::read_name_rdata, rejecting_reader)]
#[kani::stub(Rdata::read_ch_a, rejecting_reader)]
#[kani::stub(Rdata::read_soa, rejecting_reader)]
#[kani::stub(Rdata::read_minfo, rejecting_reader)]
#[kani::stub(Rdata::read_mx, rejecting_reader)]
#[kani::stub(Rdata::read_in_srv, rejecting_reader)]
fn c18_read_unlisted_types() {
    let class: u16 = kani::any();
    let ty: u16 = kani::any();
    kani::assume(!ref_supported(class, ty));
    let s = read_sym::<5>(class, ty);
    assert!(s.eom || s.accepted, "[C18] RDATA of a class/type without a layout is accepted as is");
    kani::cover!(s.accepted && s.out_len == 5 && ty == 33 && class == CH, "SRV outside class IN read as opaque");
    kani::cover!(s.accepted && ty == 10, "NULL read as opaque");
    kani::cover!(s.eom, "RDATA past the end of the message");
}
