// @host src/name/mod.rs
//
// C16: text form, equality, hashing, ordering and accessors of `Name`.
//
// Names are built by the real constructors from wire arrays of CONCRETE
// length whose label octets are all symbolic (all 256 values each: '.', '\\',
// space, non-ASCII, '*', both letter cases included).  Where a harness
// quantifies over several shapes, the shape is a symbolic selector dispatched
// to one concrete-length construction per shape (`with_shape`), so every
// solver path has concrete sizes.
//
// All oracles below (label walk, RFC 4034 section 6.1 order, case folding,
// RFC 1035 section 5.1 text syntax, UTF-8 well-formedness) are written here
// against the RFCs; none of them calls quandary code.

use super::*;
use std::cmp::Ordering;

// --------------------------------------------------------------------------
// reference model on wire forms
// --------------------------------------------------------------------------

fn lc(b: u8) -> u8 {
    if b >= b'A' && b <= b'Z' {
        b + 32
    } else {
        b
    }
}

/// Most labels (root included) any name in this file has.
const MAXL: usize = 8;

struct Walk {
    offs: [usize; MAXL],
    n: usize,
}

/// Label offsets of a valid uncompressed wire name.
fn walk(w: &[u8]) -> Walk {
    let mut offs = [0usize; MAXL];
    let mut n = 0;
    let mut p = 0;
    loop {
        offs[n] = p;
        n += 1;
        let l = w[p] as usize;
        if l == 0 {
            break;
        }
        p += 1 + l;
    }
    Walk { offs, n }
}

fn label(w: &[u8], off: usize) -> &[u8] {
    &w[off + 1..off + 1 + w[off] as usize]
}

fn same(a: &[u8], b: &[u8]) -> bool {
    if a.len() != b.len() {
        return false;
    }
    let mut i = 0;
    while i < a.len() {
        if a[i] != b[i] {
            return false;
        }
        i += 1;
    }
    true
}

/// Equality of the lower-cased octet strings.
fn same_nocase(a: &[u8], b: &[u8]) -> bool {
    if a.len() != b.len() {
        return false;
    }
    let mut i = 0;
    while i < a.len() {
        if lc(a[i]) != lc(b[i]) {
            return false;
        }
        i += 1;
    }
    true
}

/// RFC 4034 section 6.1: labels as unsigned left-justified octet strings,
/// upper case treated as lower case, absence of an octet sorts first.
fn ref_label_cmp(x: &[u8], y: &[u8]) -> Ordering {
    let mut i = 0;
    loop {
        if i == x.len() || i == y.len() {
            return if x.len() < y.len() {
                Ordering::Less
            } else if x.len() > y.len() {
                Ordering::Greater
            } else {
                Ordering::Equal
            };
        }
        let a = lc(x[i]);
        let b = lc(y[i]);
        if a < b {
            return Ordering::Less;
        }
        if a > b {
            return Ordering::Greater;
        }
        i += 1;
    }
}

/// RFC 4034 section 6.1: names sorted by their labels, most significant
/// (rightmost) label first; a name that runs out of labels sorts first.
fn ref_name_cmp(wa: &[u8], wb: &[u8]) -> Ordering {
    let a = walk(wa);
    let b = walk(wb);
    let mut i = 1;
    loop {
        if i > a.n || i > b.n {
            return if a.n < b.n {
                Ordering::Less
            } else if a.n > b.n {
                Ordering::Greater
            } else {
                Ordering::Equal
            };
        }
        let c = ref_label_cmp(label(wa, a.offs[a.n - i]), label(wb, b.offs[b.n - i]));
        if c != Ordering::Equal {
            return c;
        }
        i += 1;
    }
}

/// a is b or below b: b's labels are a's last labels.
fn ref_eq_or_sub(wa: &[u8], wb: &[u8]) -> bool {
    let a = walk(wa);
    let b = walk(wb);
    if a.n < b.n {
        return false;
    }
    same_nocase(&wa[a.offs[a.n - b.n]..], wb)
}

/// Wire form with the label octets (not the length octets) lower-cased.
fn ref_lower(w: &[u8], out: &mut [u8; 16]) {
    let k = walk(w);
    let mut i = 0;
    while i < k.n {
        let off = k.offs[i];
        out[off] = w[off];
        let l = w[off] as usize;
        let mut j = 0;
        while j < l {
            out[off + 1 + j] = lc(w[off + 1 + j]);
            j += 1;
        }
        i += 1;
    }
}

/// Collects the octets a `Hash` implementation feeds to the hasher.
struct Rec {
    buf: [u8; 24],
    len: usize,
}

impl Rec {
    fn new() -> Self {
        Rec { buf: [0; 24], len: 0 }
    }
    fn bytes(&self) -> &[u8] {
        &self.buf[..self.len]
    }
}

impl Hasher for Rec {
    fn finish(&self) -> u64 {
        0
    }
    fn write(&mut self, bytes: &[u8]) {
        let mut i = 0;
        while i < bytes.len() {
            self.buf[self.len] = bytes[i];
            self.len += 1;
            i += 1;
        }
    }
}

// --------------------------------------------------------------------------
// construction
//
// Two ways to get a `&Name`:
//
//  * `mk` - the real constructor `Name::try_from_uncompressed_all` on a wire
//    array.  Used wherever text / allocation is the subject, and in
//    `c16_accessors`, which also asserts that the constructed name's raw
//    representation (n_labels, label offsets, wire octets - the private
//    fields) is exactly the one `Stack::of` lays out.  (C14 proves the same
//    for try_from_compressed / try_from_uncompressed against its own decoder,
//    name_builder.rs for NameBuilder::finish / finish_with_suffix.)
//
//  * `Stack` - the same representation laid out in a local array and viewed
//    through `Name::make_fat_pointer`, the crate's own way of forming a
//    `&Name` (cf. `Name::root()`).  Every method under test reads the name
//    only through `&self`, so its result is a function of that representation.
//    This keeps the allocator out of the comparison harnesses and lets them
//    quantify over EVERY valid name up to a wire length (symbolic label
//    structure, `any_name::<W>()`), not only over a few shapes.  With a
//    concrete shape the label count, offsets and lengths are constants for
//    CBMC's symbolic execution, whereas values read back from a heap
//    allocation are not: rendering a ONE-octet Box<Name> did not get through
//    symbolic execution in 20 min because `Label::fmt`'s loop was unwound to
//    the bound each time (measured); the same name as a stack view renders
//    and parses back in ~6 min.
// --------------------------------------------------------------------------

fn mk(w: &[u8]) -> Box<Name> {
    match Name::try_from_uncompressed_all(w) {
        Ok(n) => n,
        Err(_) => {
            // every array handed to mk is a valid wire name by construction
            assert!(false, "harness built an invalid wire name");
            unreachable!()
        }
    }
}

/// Longest wire form any `Stack` holds.
const MAXW: usize = 12;

/// `Name`'s documented layout: n_labels, n_labels label offsets, wire octets.
struct Stack {
    bytes: [u8; 1 + MAXL + MAXW],
    n: usize,
    wl: usize,
}

impl Stack {
    fn of(w: &[u8]) -> Stack {
        let k = walk(w);
        let mut bytes = [0u8; 1 + MAXL + MAXW];
        bytes[0] = k.n as u8;
        let mut i = 0;
        while i < k.n {
            bytes[1 + i] = k.offs[i] as u8;
            i += 1;
        }
        let mut i = 0;
        while i < w.len() {
            bytes[1 + k.n + i] = w[i];
            i += 1;
        }
        Stack { bytes, n: k.n, wl: w.len() }
    }
    fn wire(&self) -> &[u8] {
        &self.bytes[1 + self.n..1 + self.n + self.wl]
    }
    fn name(&self) -> &Name {
        // SAFETY (Name::make_fat_pointer's list): the buffer holds a valid Name
        // value, lies in one object, n and wl describe it, it is not mutated
        // while the reference lives (it is borrowed from &self)
        unsafe { &*Name::make_fat_pointer(self.bytes.as_ptr(), self.n, self.wl) }
    }
    fn name_mut(&mut self) -> &mut Name {
        unsafe { &mut *Name::make_fat_pointer_mut(self.bytes.as_mut_ptr(), self.n, self.wl) }
    }
}

/// Is `w` exactly one valid uncompressed name (RFC 1035 section 3.1; the 255
/// limit cannot be reached by the lengths used here)?
fn ref_valid(w: &[u8]) -> bool {
    let mut p = 0;
    loop {
        if p >= w.len() {
            return false;
        }
        let l = w[p] as usize;
        if l > 63 {
            return false;
        }
        if l == 0 {
            return p + 1 == w.len();
        }
        p += 1 + l;
    }
}

/// EVERY valid name whose wire form has at most W octets: symbolic length,
/// symbolic label structure, symbolic octets.
fn any_name<const W: usize>() -> Stack {
    let buf: [u8; W] = kani::any();
    let len: usize = kani::any();
    kani::assume(len >= 1 && len <= W);
    kani::assume(ref_valid(&buf[..len]));
    Stack::of(&buf[..len])
}

/// Number of shapes `with_shape` knows: every name of at most 2 non-root
/// labels of 1..=2 octets each, and the root.
const SHAPES: u8 = 7;

fn with_shape<R>(s: u8, o: &[u8; 4], f: impl FnOnce(&Name, &[u8]) -> R) -> R {
    match s {
        0 => run(&[0], f),
        1 => run(&[1, o[0], 0], f),
        2 => run(&[2, o[0], o[1], 0], f),
        3 => run(&[1, o[0], 1, o[1], 0], f),
        4 => run(&[1, o[0], 2, o[1], o[2], 0], f),
        5 => run(&[2, o[0], o[1], 1, o[2], 0], f),
        _ => run(&[2, o[0], o[1], 2, o[2], o[3], 0], f),
    }
}

fn run<R>(w: &[u8], f: impl FnOnce(&Name, &[u8]) -> R) -> R {
    let name = mk(w);
    let r = f(&name, w);
    std::mem::forget(name);
    r
}

fn any_shape(limit: u8) -> u8 {
    let s: u8 = kani::any();
    kani::assume(s < limit);
    s
}

/// `with_shape` on the stack view: one concrete layout per shape, so that
/// label counts, offsets and lengths are constants on every solver path.
fn with_stack<R>(s: u8, o: &[u8; 4], f: impl FnOnce(&Stack) -> R) -> R {
    match s {
        0 => f(&Stack::of(&[0])),
        1 => f(&Stack::of(&[1, o[0], 0])),
        2 => f(&Stack::of(&[2, o[0], o[1], 0])),
        3 => f(&Stack::of(&[1, o[0], 1, o[1], 0])),
        4 => f(&Stack::of(&[1, o[0], 2, o[1], o[2], 0])),
        5 => f(&Stack::of(&[2, o[0], o[1], 1, o[2], 0])),
        _ => f(&Stack::of(&[2, o[0], o[1], 2, o[2], o[3], 0])),
    }
}

// --------------------------------------------------------------------------
// (c) accessors of one name against the reference walk
// --------------------------------------------------------------------------

/// The private representation of `name` is the documented layout of `w`.
fn check_repr(name: &Name, w: &[u8]) {
    let st = Stack::of(w);
    assert!(name.n_labels as usize == st.n, "[C16] n_labels is the number of labels");
    assert!(name.data.len() == st.n + st.wl, "[C16] the name's data holds the label offsets and the wire form");
    let mut i = 0;
    while i < st.n {
        assert!(name.data[i] == st.bytes[1 + i], "[C16] the name's data starts with the label offsets");
        i += 1;
    }
    let mut i = 0;
    while i < st.wl {
        assert!(name.data[st.n + i] == st.bytes[1 + st.n + i], "[C16] the name's data ends with the wire form");
        i += 1;
    }
}

fn check_accessors(name: &Name, w: &[u8]) {
    let k = walk(w);
    assert!(name.len() == k.n, "[C16] len() is the number of labels");
    assert!(name.is_root() == (w.len() == 1), "[C16] is_root() exactly for the root name");
    assert!(
        name.is_wildcard() == (w[0] == 1 && w[1] == b'*'),
        "[C16] is_wildcard() exactly when the first label is *"
    );
    assert!(same(name.wire_repr(), w), "[C16] wire_repr() is the wire form the name was built from");

    // labels(): forward, backward, exact size; Index
    let mut it = name.labels();
    assert!(it.len() == k.n, "[C16] labels() reports the number of labels");
    let mut back = name.labels().rev();
    let mut i = 0;
    while i < k.n {
        let want = label(w, k.offs[i]);
        match it.next() {
            Some(l) => {
                assert!(same(l.octets(), want), "[C16] labels() yields label i");
                assert!(l.len() == want.len(), "[C16] Label::len() is the label's length");
                assert!(l.is_null() == (i == k.n - 1), "[C16] only the last label is null");
            }
            None => assert!(false, "[C16] labels() ends early"),
        }
        match back.next() {
            Some(l) => assert!(
                same(l.octets(), label(w, k.offs[k.n - 1 - i])),
                "[C16] labels().rev() yields the labels right to left"
            ),
            None => assert!(false, "[C16] labels().rev() ends early"),
        }
        assert!(same(name[i].octets(), want), "[C16] name[i] is label i");
        assert!(same(name.wire_repr_from(i), &w[k.offs[i]..]), "[C16] wire_repr_from(i) starts at label i");
        assert!(same(name.wire_repr_to(i), &w[..k.offs[i]]), "[C16] wire_repr_to(i) ends before label i");
        i += 1;
    }
    assert!(it.next().is_none(), "[C16] labels() yields exactly len() labels");
    assert!(back.next().is_none(), "[C16] labels().rev() yields exactly len() labels");
    assert!(name.wire_repr_from(k.n).is_empty(), "[C16] wire_repr_from(len()) is empty");
    assert!(same(name.wire_repr_to(k.n), w), "[C16] wire_repr_to(len()) is the whole name");
}

// @harness props=C16 tier=quick mem=3 t=900 fn="Name::try_from_uncompressed_all,new_boxed_name,Name::len,Name::is_root,Name::is_wildcard,Name::labels,Labels::next,Labels::next_back,<Name as Index>::index,Name::wire_repr,Name::wire_repr_from,Name::wire_repr_to,Label::octets,Label::len,Label::is_null"
//   bound="Box<Name> from the real constructor, all 7 shapes with <= 2 non-root labels of 1..=2 octets (and the root), every octet value; unwind 9"
//   sym="shape<7, o:[u8;4]"
#[kani::proof]
#[kani::unwind(9)]
fn c16_accessors() {
    let o: [u8; 4] = kani::any();
    let s = any_shape(SHAPES);
    with_shape(s, &o, |n, w| {
        check_repr(n, w);
        check_accessors(n, w)
    });
    kani::cover!(s == 6 && o[0] == b'*', "two 2-octet labels, first octet *");
    kani::cover!(s == 1 && o[0] == b'*', "wildcard *.");
    kani::cover!(s == 0, "root");
}

// @harness props=C16 tier=thorough mem=5 t=1500 fn="Name::len,Name::is_root,Name::is_wildcard,Name::labels,Labels::next,Labels::next_back,<Name as Index>::index,Name::wire_repr,Name::wire_repr_from,Name::wire_repr_to,Label::octets,Label::len,Label::is_null"
//   bound="every valid name of wire length <= 7 (any number of labels, any label lengths, every octet value), stack view; unwind 9"
//   sym="buf:[u8;7], len<=7"
#[kani::proof]
#[kani::unwind(9)]
fn c16_accessors_any_w7() {
    let st = any_name::<7>();
    check_accessors(st.name(), st.wire());
    kani::cover!(st.n == 4, "three one-octet labels");
    kani::cover!(st.n == 2 && st.wl == 7, "one five-octet label");
    kani::cover!(st.n == 1, "root");
}

/// One superdomain call with a symbolic skip count.
fn check_superdomain(name: &Name, w: &[u8]) {
    let k = walk(w);
    let skip: usize = kani::any();
    match name.superdomain(skip) {
        Some(sup) => {
            assert!(skip < k.n, "[C16] superdomain(k) is None for k >= len()");
            let ws = &w[k.offs[skip]..];
            // label count, label offsets and wire octets of the new name
            check_repr(&sup, ws);
            kani::cover!(skip == 2, "superdomain(2)");
            kani::cover!(skip == 0 && k.n > 1, "superdomain(0) of a non-root name");
            kani::cover!(skip + 1 == k.n && k.n > 1, "superdomain that is the root");
            std::mem::forget(sup);
        }
        None => {
            assert!(skip >= k.n, "[C16] superdomain(k) exists for k < len()");
            kani::cover!(skip == k.n, "skip == len()");
            kani::cover!(skip == usize::MAX, "skip == usize::MAX");
        }
    }
}

// @harness props=C16 tier=quick mem=4 t=900 fn="Name::superdomain,new_boxed_name,Name::initialize_into"
//   bound="all 7 shapes with <= 2 non-root labels of 1..=2 octets (and the root), every octet value, every skip count (usize); the result is checked through its private representation (label count, offsets, wire); unwind 9"
//   sym="shape<7, o:[u8;4], skip:usize"
#[kani::proof]
#[kani::unwind(9)]
fn c16_superdomain_2x2() {
    let o: [u8; 4] = kani::any();
    let s = any_shape(SHAPES);
    with_stack(s, &o, |st| check_superdomain(st.name(), st.wire()));
}

fn check_make_lowercase(st: &Stack) {
    let w = st.wire();
    let mut want = [0u8; 16];
    ref_lower(w, &mut want);
    let want = &want[..w.len()];

    let mut copy = Stack::of(w);
    copy.name_mut().make_ascii_lowercase();
    assert!(copy.bytes[0] as usize == st.n, "[C16] make_ascii_lowercase() keeps the label count");
    let mut i = 0;
    while i < st.n {
        assert!(copy.bytes[1 + i] == st.bytes[1 + i], "[C16] make_ascii_lowercase() keeps the label offsets");
        i += 1;
    }
    assert!(same(copy.wire(), want), "[C16] make_ascii_lowercase() lower-cases exactly the ASCII letters");
}

// @harness props=C16 tier=quick mem=2 t=600 fn="Name::make_ascii_lowercase,<Name as IndexMut>::index_mut,Label::octets_mut"
//   bound="every valid name of wire length <= 7 (all shapes), every octet value, stack view; unwind 9"
//   sym="buf:[u8;7], len<=7"
#[kani::proof]
#[kani::unwind(9)]
fn c16_make_ascii_lowercase_w7() {
    let st = any_name::<7>();
    check_make_lowercase(&st);
    kani::cover!(st.wl == 7 && st.bytes[1 + st.n + 1] == b'A' && st.bytes[1 + st.n + 5] == b'Z', "upper-case letters at both ends");
    kani::cover!(st.wl == 4 && st.bytes[1 + st.n + 1] == b'@' && st.bytes[1 + st.n + 2] == b'[', "neighbours of the upper-case range");
    kani::cover!(st.wl == 3 && st.bytes[1 + st.n + 1] == 0xc1, "non-ASCII octet that differs from a letter only in bit 7");
}

fn check_lowercase_name(name: &Name, w: &[u8]) {
    let mut want = [0u8; 16];
    ref_lower(w, &mut want);
    let want = &want[..w.len()];
    let copy = name.to_owned();
    check_repr(&copy, w);
    let low: Box<LowercaseName> = copy.into();
    assert!(same(low.wire_repr(), want), "[C16] LowercaseName holds the lower-cased wire form");
    assert!(low.len() == name.len(), "[C16] LowercaseName keeps the label count");
    let back: Box<Name> = low.into();
    check_repr(&back, want);
    std::mem::forget(back);
}

// @harness props=C16 tier=thorough mem=2 t=600 fn="<Name as ToOwned>::to_owned,<Box<LowercaseName> as From<Box<Name>>>::from,<Box<Name> as From<Box<LowercaseName>>>::from,<LowercaseName as Deref>::deref,Name::make_ascii_lowercase"
//   bound="all 7 shapes with <= 2 non-root labels of 1..=2 octets (and the root), every octet value; unwind 9"
//   sym="shape<7, o:[u8;4]"
#[kani::proof]
#[kani::unwind(9)]
fn c16_lowercase_name_2x2() {
    let o: [u8; 4] = kani::any();
    let s = any_shape(SHAPES);
    with_stack(s, &o, |st| check_lowercase_name(st.name(), st.wire()));
    kani::cover!(s == 6 && o[0] == b'Q' && o[3] == b'Z', "two labels, upper-case letters");
    kani::cover!(s == 2 && o[0] == b'@' && o[1] == b'[', "neighbours of the upper-case range");
}

// --------------------------------------------------------------------------
// (c) Eq / Hash / Ord / eq_or_subdomain_of on pairs, transitivity on triples
//
// One operation per harness: a single harness with ==, cmp, hash and
// eq_or_subdomain_of on a pair needs > 17 GB (measured); separately they need
// 2-7 GB each.  Each operation comes in two quantifications:
//   *_2x2  the 49 ordered pairs of the 7 shapes with <= 2 non-root labels of
//          1..=2 octets (and the root), concrete layout per shape;
//   *_wN   every ordered pair of valid names with wire length <= N (symbolic
//          label structure); N = 7 contains all the 2x2 names.
// --------------------------------------------------------------------------

fn pair_2x2(f: impl FnOnce(&Stack, &Stack)) {
    let oa: [u8; 4] = kani::any();
    let ob: [u8; 4] = kani::any();
    let sa = any_shape(SHAPES);
    let sb = any_shape(SHAPES);
    with_stack(sa, &oa, |a| with_stack(sb, &ob, |b| f(a, b)));
}

fn check_eq(a: &Stack, b: &Stack) {
    let eq = *a.name() == *b.name();
    assert!(eq == same_nocase(a.wire(), b.wire()), "[C16] names are equal exactly when their lower-cased wire forms are");
    assert!((*b.name() == *a.name()) == eq, "[C16] equality is symmetric");
    assert!((*a.name() != *b.name()) == !eq, "[C16] != is the negation of ==");
    kani::cover!(eq && !same(a.wire(), b.wire()) && a.wl > 3, "equal names that differ in letter case");
    kani::cover!(!eq && a.wl == b.wl && a.wl >= 5 && a.wire()[0] != b.wire()[0], "unequal names of the same wire length, different label structure");
    kani::cover!(!eq && a.wl == 3 && b.wl == 3 && (a.wire()[1] ^ b.wire()[1]) == 0x20, "unequal names that differ only in bit 5 of a non-letter");
}

// @harness props=C16 tier=quick mem=5 t=1200 fn="<Name as PartialEq>::eq,<Label as PartialEq>::eq,Name::labels"
//   bound="49 ordered shape pairs (<= 2 non-root labels of 1..=2 octets, and the root), every octet value in both names, stack view; unwind 9"
//   sym="sa,sb<7, oa,ob:[u8;4]"
#[kani::proof]
#[kani::unwind(9)]
fn c16_eq_2x2() {
    pair_2x2(check_eq);
}

// @harness props=C16 tier=thorough mem=8 t=2400 fn="<Name as PartialEq>::eq,<Label as PartialEq>::eq,Name::labels"
//   bound="every ordered pair of valid names of wire length <= 5 (all shapes, every octet value), stack view; unwind 7"
//   sym="a,b: buf:[u8;5], len<=5"
#[kani::proof]
#[kani::unwind(7)]
fn c16_eq_w5() {
    check_eq(&any_name::<5>(), &any_name::<5>());
}

// @harness props=C16 tier=thorough mem=9 t=3400 fn="<Name as PartialEq>::eq,<Label as PartialEq>::eq,Name::labels"
//   bound="every ordered pair of valid names of wire length <= 7 (all shapes, every octet value), stack view; unwind 9"
//   sym="a,b: buf:[u8;7], len<=7"
#[kani::proof]
#[kani::unwind(9)]
fn c16_eq_w7() {
    check_eq(&any_name::<7>(), &any_name::<7>());
}

fn check_cmp(a: &Stack, b: &Stack) {
    let c = a.name().cmp(b.name());
    assert!(c == ref_name_cmp(a.wire(), b.wire()), "[C16] cmp is the RFC 4034 section 6.1 canonical order");
    assert!(
        (c == Ordering::Equal) == (*a.name() == *b.name()),
        "[C16] cmp is Equal exactly for equal names"
    );
    kani::cover!(c == Ordering::Less && a.wl > b.wl, "name with the longer wire form sorts first");
    kani::cover!(c == Ordering::Less && a.n == 3 && b.n == 2, "a two-label name sorts before a one-label name");
    kani::cover!(c == Ordering::Greater && a.n == 2 && b.n == 3, "a one-label name sorts after a two-label name");
    kani::cover!(c == Ordering::Equal && !same(a.wire(), b.wire()), "Equal for names that differ in letter case");
    kani::cover!(c == Ordering::Less && a.n == 2 && b.n == 2 && a.wl > b.wl, "shorter label first only when it is a prefix");
}

// @harness props=C16 tier=thorough mem=9 t=3000 fn="<Name as Ord>::cmp,<Label as Ord>::cmp,<Name as PartialEq>::eq,Name::labels,Labels::next_back"
//   bound="49 ordered shape pairs (<= 2 non-root labels of 1..=2 octets, and the root), every octet value in both names, stack view; unwind 9"
//   sym="sa,sb<7, oa,ob:[u8;4]"
#[kani::proof]
#[kani::unwind(9)]
fn c16_cmp_2x2() {
    pair_2x2(check_cmp);
}

// @harness props=C16 tier=quick mem=6 t=2400 fn="<Name as Ord>::cmp,<Label as Ord>::cmp,<Name as PartialEq>::eq,Name::labels,Labels::next_back"
//   bound="every ordered pair of valid names of wire length <= 5 (all shapes, every octet value), stack view; unwind 7"
//   sym="a,b: buf:[u8;5], len<=5"
#[kani::proof]
#[kani::unwind(7)]
fn c16_cmp_w5() {
    check_cmp(&any_name::<5>(), &any_name::<5>());
}

// @harness props=C16 tier=thorough mem=8 t=3400 fn="<Name as Ord>::cmp,<Label as Ord>::cmp,<Name as PartialEq>::eq,Name::labels,Labels::next_back"
//   bound="every ordered pair of valid names of wire length <= 7 (all shapes, every octet value), stack view; unwind 9"
//   sym="a,b: buf:[u8;7], len<=7"
#[kani::proof]
#[kani::unwind(9)]
fn c16_cmp_w7() {
    check_cmp(&any_name::<7>(), &any_name::<7>());
}

fn check_cmp_antisym(a: &Stack, b: &Stack, with_partial_cmp: bool) {
    let c = a.name().cmp(b.name());
    assert!(b.name().cmp(a.name()) == c.reverse(), "[C16] cmp is antisymmetric");
    if with_partial_cmp {
        assert!(a.name().partial_cmp(b.name()) == Some(c), "[C16] partial_cmp agrees with cmp");
    }
    kani::cover!(c == Ordering::Less && a.n == 3, "Less");
    kani::cover!(c == Ordering::Equal && a.n == 3, "Equal");
}

// @harness props=C16 tier=thorough mem=9 t=3000 fn="<Name as Ord>::cmp,<Name as PartialOrd>::partial_cmp,<Label as Ord>::cmp"
//   bound="every ordered pair of valid names of wire length <= 5 (all shapes, every octet value), stack view; unwind 7"
//   sym="a,b: buf:[u8;5], len<=5"
#[kani::proof]
#[kani::unwind(7)]
fn c16_cmp_antisymmetric_w5() {
    check_cmp_antisym(&any_name::<5>(), &any_name::<5>(), true);
}

// @harness props=C16 tier=thorough mem=8 t=3400 fn="<Name as Ord>::cmp,<Label as Ord>::cmp"
//   bound="every ordered pair of valid names of wire length <= 7 (all shapes, every octet value), stack view; antisymmetry only (partial_cmp is in the w5 harness); unwind 9"
//   sym="a,b: buf:[u8;7], len<=7"
#[kani::proof]
#[kani::unwind(9)]
fn c16_cmp_antisymmetric_w7() {
    check_cmp_antisym(&any_name::<7>(), &any_name::<7>(), false);
}

fn check_hash(a: &Stack, b: &Stack) {
    let mut ha = Rec::new();
    a.name().hash(&mut ha);
    let mut hb = Rec::new();
    b.name().hash(&mut hb);
    let same_hash = same(ha.bytes(), hb.bytes());
    // by c16_eq_*: a == b exactly when same_nocase(wire a, wire b)
    let eq = same_nocase(a.wire(), b.wire());
    assert!(!eq || same_hash, "[C16] equal names feed the hasher the same octets");
    assert!(eq || !same_hash, "[C16] hashing ignores nothing but ASCII case");
    kani::cover!(eq && !same(a.wire(), b.wire()), "equal names that differ in letter case");
    kani::cover!(!eq && a.wl == b.wl && a.wl >= 5 && a.wire()[0] != b.wire()[0], "same octet count, different label structure");
}

// @harness props=C16 tier=quick mem=5 t=1800 fn="<Name as Hash>::hash,<Label as Hash>::hash"
//   bound="49 ordered shape pairs (<= 2 non-root labels of 1..=2 octets, and the root), every octet value in both names; recording Hasher (no SipHash); unwind 9"
//   sym="sa,sb<7, oa,ob:[u8;4]"
#[kani::proof]
#[kani::unwind(9)]
fn c16_hash_2x2() {
    pair_2x2(check_hash);
}

// @harness props=C16 tier=thorough mem=4 t=3400 fn="<Name as Hash>::hash,<Label as Hash>::hash"
//   bound="every ordered pair of valid names of wire length <= 7 (all shapes, every octet value); recording Hasher; unwind 9"
//   sym="a,b: buf:[u8;7], len<=7"
#[kani::proof]
#[kani::unwind(9)]
fn c16_hash_w7() {
    check_hash(&any_name::<7>(), &any_name::<7>());
}

fn check_hash_matches_eq(a: &Stack, b: &Stack) {
    // the Hash/Eq contract stated on the real ==
    if *a.name() == *b.name() {
        let mut ha = Rec::new();
        a.name().hash(&mut ha);
        let mut hb = Rec::new();
        b.name().hash(&mut hb);
        assert!(same(ha.bytes(), hb.bytes()), "[C16] a == b implies equal hasher input");
        kani::cover!(!same(a.wire(), b.wire()) && a.n == 3, "equal two-label names that differ in letter case");
    }
}

// @harness props=C16 tier=thorough mem=5 t=1500 fn="<Name as Hash>::hash,<Label as Hash>::hash,<Name as PartialEq>::eq"
//   bound="every ordered pair of valid names of wire length <= 5 (all shapes, every octet value); recording Hasher; unwind 7"
//   sym="a,b: buf:[u8;5], len<=5"
#[kani::proof]
#[kani::unwind(7)]
fn c16_hash_eq_contract_w5() {
    check_hash_matches_eq(&any_name::<5>(), &any_name::<5>());
}

fn check_sub(a: &Stack, b: &Stack) {
    let r = a.name().eq_or_subdomain_of(b.name());
    assert!(r == ref_eq_or_sub(a.wire(), b.wire()), "[C16] eq_or_subdomain_of agrees with the reference");
    kani::cover!(r && a.n == 3 && b.n == 2, "proper subdomain of a non-root name");
    kani::cover!(r && a.n == b.n && !same(a.wire(), b.wire()) && a.n > 1, "equal up to letter case");
    kani::cover!(!r && a.n == 3 && b.n == 2, "deeper name under a different parent");
    kani::cover!(!r && a.n < b.n, "shallower name");
}

// @harness props=C16 tier=quick mem=3 t=900 fn="Name::eq_or_subdomain_of,<Label as PartialEq>::eq,Name::labels,Labels::next_back"
//   bound="49 ordered shape pairs (<= 2 non-root labels of 1..=2 octets, and the root), every octet value in both names, stack view; unwind 9"
//   sym="sa,sb<7, oa,ob:[u8;4]"
#[kani::proof]
#[kani::unwind(9)]
fn c16_eq_or_subdomain_of_2x2() {
    pair_2x2(check_sub);
}

// @harness props=C16 tier=thorough mem=4 t=3400 fn="Name::eq_or_subdomain_of,<Label as PartialEq>::eq,Name::labels,Labels::next_back"
//   bound="every ordered pair of valid names of wire length <= 7 (all shapes, every octet value), stack view; unwind 9"
//   sym="a,b: buf:[u8;7], len<=7"
#[kani::proof]
#[kani::unwind(9)]
fn c16_eq_or_subdomain_of_w7() {
    check_sub(&any_name::<7>(), &any_name::<7>());
}

/// Lemma about the ORACLE only (no quandary code): ref_name_cmp is a total
/// order on names that identifies exactly the names equal up to ASCII case.
/// With c16_cmp_w7 (cmp == ref_name_cmp on every ordered pair) this carries
/// antisymmetry, transitivity and consistency with == over to `Name::cmp` for
/// all names of wire length <= 7, where the direct three-cmp harness does
/// not fit into memory.
fn check_ref_order(a: &Stack, b: &Stack, c: &Stack) {
    let ab = ref_name_cmp(a.wire(), b.wire());
    let ba = ref_name_cmp(b.wire(), a.wire());
    let bc = ref_name_cmp(b.wire(), c.wire());
    let ac = ref_name_cmp(a.wire(), c.wire());
    assert!(ba == ab.reverse(), "[C16] the reference order is antisymmetric");
    assert!((ab == Ordering::Equal) == same_nocase(a.wire(), b.wire()), "[C16] the reference order is Equal exactly for names equal up to case");
    if le(ab) && le(bc) {
        assert!(le(ac), "[C16] the reference order is transitive");
        if ab == Ordering::Less || bc == Ordering::Less {
            assert!(ac == Ordering::Less, "[C16] the reference order is transitive (strict)");
        }
        kani::cover!(ab == Ordering::Less && bc == Ordering::Less && a.n == 4 && b.n == 2 && c.n == 3, "strictly increasing triple of mixed depth");
    }
    kani::cover!(ab == Ordering::Equal && !same(a.wire(), b.wire()) && a.wl == 7, "Equal for different spellings");
}

// @harness props=C16 tier=thorough mem=4 t=3000 fn="(oracle only) ref_name_cmp,ref_label_cmp,same_nocase"
//   bound="every triple of valid names of wire length <= 7 (all shapes, every octet value); reference code only; unwind 9"
//   sym="a,b,c: buf:[u8;7], len<=7"
#[kani::proof]
#[kani::unwind(9)]
fn c16_ref_order_is_total_w7() {
    check_ref_order(&any_name::<7>(), &any_name::<7>(), &any_name::<7>());
}

fn le(o: Ordering) -> bool {
    o != Ordering::Greater
}

fn check_eq_transitive(a: &Stack, b: &Stack, c: &Stack) {
    if *a.name() == *b.name() && *b.name() == *c.name() {
        assert!(*a.name() == *c.name(), "[C16] equality is transitive");
        kani::cover!(!same(a.wire(), b.wire()) && !same(b.wire(), c.wire()) && !same(a.wire(), c.wire()), "three spellings of one name");
    }
}

fn check_cmp_transitive(a: &Stack, b: &Stack, c: &Stack) {
    let ab = a.name().cmp(b.name());
    let bc = b.name().cmp(c.name());
    if le(ab) && le(bc) {
        let ac = a.name().cmp(c.name());
        assert!(le(ac), "[C16] cmp is transitive");
        if ab == Ordering::Less || bc == Ordering::Less {
            assert!(ac == Ordering::Less, "[C16] cmp is transitive (strict)");
        }
        kani::cover!(ab == Ordering::Less && bc == Ordering::Less && a.n == 3 && b.n == 2 && c.n == 3, "strictly increasing triple of mixed depth");
        kani::cover!(ab == Ordering::Equal && bc == Ordering::Less, "triple with an equal pair");
    }
}

// @harness props=C16 tier=thorough mem=8 t=2400 fn="<Name as PartialEq>::eq,<Label as PartialEq>::eq"
//   bound="every triple of valid names of wire length <= 5 (all shapes, every octet value), stack view; unwind 7"
//   sym="a,b,c: buf:[u8;5], len<=5"
#[kani::proof]
#[kani::unwind(7)]
fn c16_eq_transitive_w5() {
    check_eq_transitive(&any_name::<5>(), &any_name::<5>(), &any_name::<5>());
}

// @harness props=C16 tier=thorough mem=9 t=3000 fn="<Name as Ord>::cmp,<Label as Ord>::cmp"
//   bound="every triple of valid names of wire length <= 5 (all shapes, every octet value), stack view; unwind 7"
//   sym="a,b,c: buf:[u8;5], len<=5"
#[kani::proof]
#[kani::unwind(7)]
fn c16_cmp_transitive_w5() {
    check_cmp_transitive(&any_name::<5>(), &any_name::<5>(), &any_name::<5>());
}

// @harness props=C16 tier=thorough mem=9 t=3400 fn="<Name as PartialEq>::eq,<Label as PartialEq>::eq"
//   bound="every triple of valid names of wire length <= 7 (all shapes incl. 2 labels x 2 octets, every octet value), stack view; unwind 9"
//   sym="a,b,c: buf:[u8;7], len<=7"
#[kani::proof]
#[kani::unwind(9)]
fn c16_eq_transitive_w7() {
    check_eq_transitive(&any_name::<7>(), &any_name::<7>(), &any_name::<7>());
}

// @harness props=C16 tier=thorough mem=12 t=3400 fn="<Name as Ord>::cmp,<Label as Ord>::cmp"
//   bound="every triple of valid names of wire length <= 7 (all shapes incl. 2 labels x 2 octets, every octet value), stack view; unwind 9"
//   sym="a,b,c: buf:[u8;7], len<=7"
#[kani::proof]
#[kani::unwind(9)]
fn c16_cmp_transitive_w7() {
    check_cmp_transitive(&any_name::<7>(), &any_name::<7>(), &any_name::<7>());
}

// --------------------------------------------------------------------------
// (a) Display -> FromStr round trip
// --------------------------------------------------------------------------

/// A `fmt::Write` sink over a fixed buffer.  `to_string()` is
/// `Display::fmt` into a `String`; the `String` (a growing heap buffer whose
/// reallocation copies cost > 17 GB for a one-octet name, measured) is not the
/// subject, `Display::fmt` is, so it is driven into this sink instead.
struct Sink {
    buf: [u8; 24],
    len: usize,
}

impl fmt::Write for Sink {
    fn write_str(&mut self, s: &str) -> fmt::Result {
        let b = s.as_bytes();
        let mut i = 0;
        while i < b.len() {
            if self.len >= self.buf.len() {
                return Err(fmt::Error);
            }
            self.buf[self.len] = b[i];
            self.len += 1;
            i += 1;
        }
        Ok(())
    }
}

fn roundtrip(w: &[u8]) {
    use std::fmt::Write;
    // stack view: the label lengths are constants for the solver, so the
    // rendering loops run exactly as often as the name has octets
    let st = Stack::of(w);
    let name = st.name();
    let mut sink = Sink { buf: [0; 24], len: 0 };
    let r = write!(sink, "{}", name);
    assert!(r.is_ok(), "[C16] rendering a name does not fail");
    // sound: the sink holds a concatenation of whole `&str`s
    let text = unsafe { std::str::from_utf8_unchecked(&sink.buf[..sink.len]) };
    match text.parse::<Box<Name>>() {
        Ok(back) => {
            assert!(same(back.wire_repr(), w), "[C16] a rendered name parses back to the identical wire form");
            assert!(back.len() == st.n, "[C16] a rendered name parses back to the same number of labels");
            std::mem::forget(back);
        }
        Err(_) => assert!(false, "[C16] a rendered name parses back"),
    }
}

fn special(o: u8) -> bool {
    o == b'.' || o == b'\\' || o == b' ' || o == b'*' || o >= 0x80 || o == 0 || o == 0x7f
}

// @harness props=C16 tier=thorough mem=2 t=600 fn="<Name as Display>::fmt,<Box<Name> as FromStr>::from_str"
//   bound="the root name (concrete); unwind 4" sym="none"
#[kani::proof]
#[kani::unwind(4)]
fn c16_roundtrip_root() {
    roundtrip(&[0]);
    kani::cover!(true, "root rendered and parsed");
}

// @harness props=C16 tier=quick mem=4 t=1500 fn="<Name as Display>::fmt,<Label as Display>::fmt,<Box<Name> as FromStr>::from_str,parse_escape,NameBuilder::try_push,NameBuilder::next_label,NameBuilder::finish"
//   bound="every name of one 1-octet label (256 names); unwind 8" sym="a:u8"
#[kani::proof]
#[kani::unwind(8)]
fn c16_roundtrip_1() {
    let a: u8 = kani::any();
    roundtrip(&[1, a, 0]);
    kani::cover!(a == b'.', "label is a dot");
    kani::cover!(a == b'\\', "label is a backslash");
    kani::cover!(a == b' ', "label is a space");
    kani::cover!(a == 0xff, "label is octet 255");
    kani::cover!(a == b'7', "label is a digit");
}

// @harness props=C16 tier=thorough mem=6 t=3000 fn="<Name as Display>::fmt,<Label as Display>::fmt,<Box<Name> as FromStr>::from_str,parse_escape,NameBuilder::try_push,NameBuilder::next_label,NameBuilder::finish"
//   bound="every name of one 2-octet label (65 536 names); unwind 12" sym="a,b:u8"
#[kani::proof]
#[kani::unwind(12)]
fn c16_roundtrip_2() {
    let a: u8 = kani::any();
    let b: u8 = kani::any();
    roundtrip(&[2, a, b, 0]);
    kani::cover!(a == b'\\' && b == b'1', "backslash followed by a digit inside a label");
    kani::cover!(a == b'.' && b == b'.', "two dots inside a label");
    kani::cover!(a >= 0x80 && b == b' ', "non-ASCII then space");
}

// @harness props=C16 tier=thorough mem=7 t=3000 fn="<Name as Display>::fmt,<Label as Display>::fmt,<Box<Name> as FromStr>::from_str,parse_escape,NameBuilder::try_push,NameBuilder::next_label,NameBuilder::finish"
//   bound="every name of two 1-octet labels (65 536 names); unwind 13" sym="a,b:u8"
#[kani::proof]
#[kani::unwind(13)]
fn c16_roundtrip_1_1() {
    let a: u8 = kani::any();
    let b: u8 = kani::any();
    roundtrip(&[1, a, 1, b, 0]);
    kani::cover!(a == b'.' && b == b'\\', "dot label below backslash label");
    kani::cover!(a == b'*' && b >= 0x80, "wildcard below a non-ASCII label");
    kani::cover!(special(a) && special(b), "both labels need care");
}

// --------------------------------------------------------------------------
// (b) FromStr acceptance against a reference reader of RFC 1035 section 5.1
//     / RFC 4343 section 2.1 text names
// --------------------------------------------------------------------------

struct TextName {
    wire: [u8; 16],
    len: usize,
}

fn digit(c: u8) -> bool {
    c >= b'0' && c <= b'9'
}

/// Absolute names only (the text must end with an unescaped dot, or be "."),
/// `\DDD` = octet DDD (three digits, <= 255), `\X` = X for any other ASCII X,
/// no empty label except the final root label, ASCII only, labels <= 63
/// octets, whole name <= 255 octets.
fn ref_text_name(t: &[u8]) -> Option<TextName> {
    let mut out = TextName { wire: [0; 16], len: 0 };
    if t.len() == 0 {
        return None;
    }
    if t.len() == 1 && t[0] == b'.' {
        out.len = 1;
        return Some(out);
    }
    let mut pos = 0;
    // index of the length octet of the label being read, and its length so far
    let mut lab = 0usize;
    let mut l = 0usize;
    out.len = 1;
    while pos < t.len() {
        let c = t[pos];
        let octet;
        if c >= 0x80 {
            return None;
        } else if c == b'.' {
            if l == 0 {
                return None;
            }
            if out.len + 1 > 255 {
                return None;
            }
            out.wire[lab] = l as u8;
            lab = out.len;
            out.wire[lab] = 0;
            out.len += 1;
            l = 0;
            pos += 1;
            continue;
        } else if c == b'\\' {
            if pos + 1 >= t.len() {
                return None;
            }
            let d = t[pos + 1];
            if d >= 0x80 {
                return None;
            }
            if digit(d) {
                if pos + 3 >= t.len() || !digit(t[pos + 2]) || !digit(t[pos + 3]) {
                    return None;
                }
                let v = (d - b'0') as u32 * 100 + (t[pos + 2] - b'0') as u32 * 10 + (t[pos + 3] - b'0') as u32;
                if v > 255 {
                    return None;
                }
                octet = v as u8;
                pos += 4;
            } else {
                octet = d;
                pos += 2;
            }
        } else {
            octet = c;
            pos += 1;
        }
        if l + 1 > 63 || out.len + 1 > 255 {
            return None;
        }
        out.wire[out.len] = octet;
        out.len += 1;
        l += 1;
    }
    if l != 0 {
        // the last label is not the root label: a relative name
        return None;
    }
    Some(out)
}

fn cont(b: u8) -> bool {
    b >= 0x80 && b <= 0xbf
}

/// Well-formed UTF-8 (Unicode 15 table 3-7), so that the octets may be viewed
/// as a `str`.
fn ref_utf8(b: &[u8]) -> bool {
    let n = b.len();
    let mut i = 0;
    while i < n {
        let c = b[i];
        if c < 0x80 {
            i += 1;
        } else if c >= 0xc2 && c <= 0xdf {
            if i + 1 >= n || !cont(b[i + 1]) {
                return false;
            }
            i += 2;
        } else if c >= 0xe0 && c <= 0xef {
            if i + 2 >= n || !cont(b[i + 1]) || !cont(b[i + 2]) {
                return false;
            }
            if c == 0xe0 && b[i + 1] < 0xa0 {
                return false;
            }
            if c == 0xed && b[i + 1] > 0x9f {
                return false;
            }
            i += 3;
        } else if c >= 0xf0 && c <= 0xf4 {
            if i + 3 >= n || !cont(b[i + 1]) || !cont(b[i + 2]) || !cont(b[i + 3]) {
                return false;
            }
            if c == 0xf0 && b[i + 1] < 0x90 {
                return false;
            }
            if c == 0xf4 && b[i + 1] > 0x8f {
                return false;
            }
            i += 4;
        } else {
            return false;
        }
    }
    true
}

/// Returns the text and, if it was accepted, the number of labels.
fn accept<const N: usize>() -> ([u8; N], Option<usize>) {
    let bytes: [u8; N] = kani::any();
    kani::assume(ref_utf8(&bytes));
    // sound: the octets are well-formed UTF-8 (assumed just above; ref_utf8
    // was compared natively with std::str::from_utf8 on all 1..=4 octet inputs)
    let text = unsafe { std::str::from_utf8_unchecked(&bytes) };
    let want = ref_text_name(&bytes);
    let got = text.parse::<Box<Name>>();
    let mut labels = None;
    match (&got, &want) {
        (Ok(name), Some(t)) => {
            assert!(same(name.wire_repr(), &t.wire[..t.len]), "[C16] FromStr yields the wire form the text denotes");
            labels = Some(name.len());
        }
        (Err(_), None) => {}
        (Ok(_), None) => assert!(false, "[C16] FromStr accepts text that is not an absolute name"),
        (Err(_), Some(_)) => assert!(false, "[C16] FromStr rejects an absolute name within the limits"),
    }
    if let Ok(name) = got {
        std::mem::forget(name);
    }
    (bytes, labels)
}

// @harness props=C16 tier=thorough mem=2 t=600 fn="<Box<Name> as FromStr>::from_str,parse_escape,NameBuilder::try_push,NameBuilder::next_label,NameBuilder::finish"
//   bound="every str of exactly 1 octet, and the empty str; unwind 4" sym="bytes:[u8;1]"
#[kani::proof]
#[kani::unwind(4)]
fn c16_fromstr_len1() {
    assert!("".parse::<Box<Name>>().is_err(), "[C16] FromStr rejects the empty text");
    let (b, ok) = accept::<1>();
    kani::cover!(ok == Some(1) && b[0] == b'.', "accepted the root");
    kani::cover!(ok.is_none() && b[0] == b'a', "rejected a relative name");
}

// @harness props=C16 tier=thorough mem=3 t=900 fn="<Box<Name> as FromStr>::from_str,parse_escape,NameBuilder::try_push,NameBuilder::next_label,NameBuilder::finish"
//   bound="every well-formed UTF-8 str of exactly 2 octets; unwind 5" sym="bytes:[u8;2]"
#[kani::proof]
#[kani::unwind(5)]
fn c16_fromstr_len2() {
    let (b, ok) = accept::<2>();
    kani::cover!(ok == Some(2) && b[0] == b'*', "accepted *.");
    kani::cover!(ok.is_none() && b[0] == b'.', "rejected a leading dot");
    kani::cover!(ok.is_none() && b[0] == b'\\' && b[1] == b'.', "rejected an escaped final dot");
    kani::cover!(ok.is_none() && b[0] >= 0xc2, "rejected a two-octet character");
}

// @harness props=C16 tier=quick mem=3 t=1500 fn="<Box<Name> as FromStr>::from_str,parse_escape,NameBuilder::try_push,NameBuilder::next_label,NameBuilder::finish"
//   bound="every well-formed UTF-8 str of exactly 3 octets; unwind 6" sym="bytes:[u8;3]"
#[kani::proof]
#[kani::unwind(6)]
fn c16_fromstr_len3() {
    let (b, ok) = accept::<3>();
    kani::cover!(ok == Some(2) && b[0] == b'\\' && b[1] == b'.', "accepted the label \".\" written as an escape");
    kani::cover!(ok == Some(2) && b[0] == b'\\' && b[1] == b'\\', "accepted an escaped backslash");
    kani::cover!(ok.is_none() && b[1] == b'.' && b[2] == b'.', "rejected an empty label");
    kani::cover!(ok.is_none() && b[0] == b'a' && b[1] >= 0x80, "rejected non-ASCII text");
    kani::cover!(ok.is_none() && b[0] == b'\\' && b[1] == b'1', "rejected a truncated decimal escape");
}

// @harness props=C16 tier=thorough mem=4 t=1500 fn="<Box<Name> as FromStr>::from_str,parse_escape,NameBuilder::try_push,NameBuilder::next_label,NameBuilder::finish"
//   bound="every well-formed UTF-8 str of exactly 4 octets; unwind 7" sym="bytes:[u8;4]"
#[kani::proof]
#[kani::unwind(7)]
fn c16_fromstr_len4() {
    let (b, ok) = accept::<4>();
    kani::cover!(ok == Some(3), "accepted two labels");
    kani::cover!(ok == Some(2) && b[1] == b'\\' && b[2] == b'.', "accepted an escaped dot inside a label");
    kani::cover!(ok.is_none() && b[0] == b'\\' && b[1] == b'0' && b[2] == b'0' && b[3] == b'0', "rejected a decimal escape without the final dot");
    kani::cover!(ok.is_none() && b[0] >= 0xf0, "rejected a four-octet character");
}

// @harness props=C16 tier=thorough mem=6 t=3000 fn="<Box<Name> as FromStr>::from_str,parse_escape,NameBuilder::try_push,NameBuilder::next_label,NameBuilder::finish"
//   bound="every well-formed UTF-8 str of exactly 5 octets; unwind 8" sym="bytes:[u8;5]"
#[kani::proof]
#[kani::unwind(8)]
fn c16_fromstr_len5() {
    let (b, ok) = accept::<5>();
    kani::cover!(ok == Some(2) && b[0] == b'\\' && b[1] == b'2' && b[2] == b'5' && b[3] == b'5', "accepted \\255.");
    kani::cover!(ok.is_none() && b[0] == b'\\' && b[1] == b'2' && b[2] == b'5' && b[3] == b'6' && b[4] == b'.', "rejected \\256.");
    kani::cover!(ok == Some(3), "accepted two labels");
}

// @harness props=C16 tier=thorough mem=8 t=3400 fn="<Box<Name> as FromStr>::from_str,parse_escape,NameBuilder::try_push,NameBuilder::next_label,NameBuilder::finish"
//   bound="every well-formed UTF-8 str of exactly 6 octets; unwind 9" sym="bytes:[u8;6]"
#[kani::proof]
#[kani::unwind(9)]
fn c16_fromstr_len6() {
    let (b, ok) = accept::<6>();
    kani::cover!(ok == Some(2) && b[0] == b'\\' && b[1] == b'0' && b[5] == b'.', "accepted a decimal escape followed by a plain octet");
    kani::cover!(ok == Some(4), "accepted three labels");
    kani::cover!(ok.is_none() && b[1] == b'\\' && b[2] == b'9' && b[5] == b'.', "rejected a decimal escape above 255 or malformed");
}

// --------------------------------------------------------------------------
// Label / LabelBuf on their own (the public label API)
// --------------------------------------------------------------------------

fn label_of(buf: &[u8]) -> &Label {
    match <&Label>::try_from(buf) {
        Ok(l) => l,
        Err(_) => {
            assert!(false, "[C16] a slice of at most 63 octets is a label");
            unreachable!()
        }
    }
}

// @harness props=C16 tier=thorough mem=2 t=600 fn="<&Label as TryFrom<&[u8]>>::try_from,<Label as PartialEq>::eq,<Label as Ord>::cmp,<Label as PartialOrd>::partial_cmp,<Label as Hash>::hash,Label::octets,Label::len,Label::is_null,Label::is_asterisk"
//   bound="every ordered pair of labels of 0..=4 octets each (symbolic lengths, every octet value); unwind 6"
//   sym="x,y:[u8;4], lx,ly<=4"
#[kani::proof]
#[kani::unwind(6)]
fn c16_label_pair_len4() {
    let x: [u8; 4] = kani::any();
    let y: [u8; 4] = kani::any();
    let lx: usize = kani::any();
    let ly: usize = kani::any();
    kani::assume(lx <= 4 && ly <= 4);
    let (x, y) = (&x[..lx], &y[..ly]);
    let a = label_of(x);
    let b = label_of(y);
    assert!(same(a.octets(), x) && a.len() == lx, "[C16] a label holds the octets it was made from");
    assert!(a.is_null() == (lx == 0), "[C16] is_null() exactly for the empty label");
    assert!(a.is_asterisk() == (lx == 1 && x[0] == b'*'), "[C16] is_asterisk() exactly for the label *");
    let eq = a == b;
    assert!(eq == same_nocase(x, y), "[C16] labels are equal exactly when their lower-cased octets are");
    let c = a.cmp(b);
    assert!(c == ref_label_cmp(x, y), "[C16] Label::cmp is the RFC 4034 section 6.1 label order");
    assert!(b.cmp(a) == c.reverse(), "[C16] Label::cmp is antisymmetric");
    assert!((c == Ordering::Equal) == eq, "[C16] Label::cmp is Equal exactly for equal labels");
    assert!(a.partial_cmp(b) == Some(c), "[C16] Label::partial_cmp agrees with cmp");
    let mut ha = Rec::new();
    a.hash(&mut ha);
    let mut hb = Rec::new();
    b.hash(&mut hb);
    assert!(same(ha.bytes(), hb.bytes()) == eq, "[C16] labels feed the hasher the same octets exactly when equal");
    kani::cover!(eq && !same(x, y) && lx == 4, "equal labels that differ in letter case");
    kani::cover!(c == Ordering::Less && lx > ly, "longer label sorts first");
    kani::cover!(c == Ordering::Less && lx < ly && lx > 0 && lc(x[0]) == lc(y[0]), "proper prefix sorts first");
    kani::cover!(c == Ordering::Greater && x[0] >= 0x80 && lx > 0 && ly > 0, "octets compare unsigned");
}

// @harness props=C16 tier=thorough mem=2 t=600 fn="<LabelBuf as From<&[u8; N]>>::from,<LabelBuf as TryFrom<&[u8]>>::try_from,<&Label as TryFrom<&[u8]>>::try_from,<LabelBuf as Deref>::deref,<Label as ToOwned>::to_owned,<LabelBuf as PartialEq>::eq,<LabelBuf as Ord>::cmp,<LabelBuf as Hash>::hash"
//   bound="LabelBuf of 2 and 3 symbolic octets (every octet value) against the Label results; length limit at 63 / 64 octets (concrete zero-filled slices, symbolic length <= 70 for &Label); unwind 66"
//   sym="x:[u8;2], y:[u8;3], n<=70"
#[kani::proof]
#[kani::unwind(66)]
fn c16_labelbuf() {
    let x: [u8; 2] = kani::any();
    let y: [u8; 3] = kani::any();
    let a = LabelBuf::from(&x);
    let b = LabelBuf::from(&y);
    assert!(same(a.octets(), &x), "[C16] a LabelBuf holds the octets it was made from");
    assert!(same(b.octets(), &y), "[C16] a LabelBuf holds the octets it was made from");
    let (la, lb) = (label_of(&x), label_of(&y));
    assert!((a == b) == (la == lb), "[C16] LabelBuf equality is Label equality");
    assert!(a.cmp(&b) == la.cmp(lb), "[C16] LabelBuf order is Label order");
    assert!(a.cmp(&b) == ref_label_cmp(&x, &y), "[C16] LabelBuf order is the RFC 4034 label order");
    let mut h1 = Rec::new();
    a.hash(&mut h1);
    let mut h2 = Rec::new();
    la.hash(&mut h2);
    assert!(same(h1.bytes(), h2.bytes()), "[C16] a LabelBuf hashes like its Label");
    let owned = lb.to_owned();
    assert!(same(owned.octets(), &y), "[C16] Label::to_owned() keeps the octets");

    // length limit
    let zeros = [0u8; 70];
    let n: usize = kani::any();
    kani::assume(n <= 70);
    assert!(
        <&Label>::try_from(&zeros[..n]).is_ok() == (n <= 63),
        "[C16] a label has at most 63 octets"
    );
    assert!(LabelBuf::try_from(&zeros[..63]).is_ok(), "[C16] a LabelBuf takes 63 octets");
    assert!(LabelBuf::try_from(&zeros[..64]).is_err(), "[C16] a LabelBuf rejects 64 octets");
    kani::cover!(n == 63, "63-octet label");
    kani::cover!(n == 64, "64-octet slice");
    kani::cover!(x[0] == b'A' && y[0] == b'a' && x[1] == y[1], "prefix up to case");
}

// --------------------------------------------------------------------------
// (a) round trip for the larger shapes, split at a reference text
//
// Display -> FromStr in ONE query runs out of memory (> 8.8 GB RSS, 1.8 M
// steps) from three symbolic octets on.  For the shapes (1,2), (2,1), (2,2)
// the round trip is therefore proved in two halves that meet at the text
// `ref_render(wire)` written here from RFC 1035 section 5.1 / RFC 4343
// section 2.1:
//   display_*:         Display(name)            == ref_render(wire)
//   parse_rendered_*:  FromStr(ref_render(wire)) has the wire form `wire`
// Both quantify over the same set of names, so together they give
// FromStr(Display(name)).wire == name.wire for every name of the shape.
// (The reference text is a proof device: C16 itself only demands the round
// trip, so a display_* failure alone would first have to be checked against
// parse_rendered_* before it is called a defect.  Both halves pass.)
// --------------------------------------------------------------------------

struct Text {
    buf: [u8; 24],
    len: usize,
}

impl Text {
    fn push(&mut self, b: u8) {
        self.buf[self.len] = b;
        self.len += 1;
    }
    fn bytes(&self) -> &[u8] {
        &self.buf[..self.len]
    }
}

/// Master-file text of a wire name: labels separated and terminated by dots,
/// `.` and `\` inside a label escaped with a backslash, octets outside the
/// printable ASCII range 0x21..=0x7e as backslash + three decimal digits.
fn ref_render(w: &[u8]) -> Text {
    let mut t = Text { buf: [0; 24], len: 0 };
    if w.len() == 1 {
        t.push(b'.');
        return t;
    }
    let mut p = 0;
    while w[p] != 0 {
        let l = w[p] as usize;
        let mut i = 0;
        while i < l {
            let o = w[p + 1 + i];
            if o == b'.' || o == b'\\' {
                t.push(b'\\');
                t.push(o);
            } else if o > 0x20 && o < 0x7f {
                t.push(o);
            } else {
                t.push(b'\\');
                t.push(b'0' + o / 100);
                t.push(b'0' + (o / 10) % 10);
                t.push(b'0' + o % 10);
            }
            i += 1;
        }
        t.push(b'.');
        p += 1 + l;
    }
    t
}

fn display_is_reference(w: &[u8]) {
    use std::fmt::Write;
    let st = Stack::of(w);
    let mut sink = Sink { buf: [0; 24], len: 0 };
    let r = write!(sink, "{}", st.name());
    assert!(r.is_ok(), "[C16] rendering a name does not fail");
    let want = ref_render(w);
    assert!(same(&sink.buf[..sink.len], want.bytes()), "[C16] Display renders the RFC 1035 master-file text of the name");
}

fn rendered_parses_back(w: &[u8]) {
    let t = ref_render(w);
    // sound: ref_render writes ASCII only
    let text = unsafe { std::str::from_utf8_unchecked(t.bytes()) };
    match text.parse::<Box<Name>>() {
        Ok(back) => {
            assert!(same(back.wire_repr(), w), "[C16] the rendered text parses back to the identical wire form");
            std::mem::forget(back);
        }
        Err(_) => assert!(false, "[C16] the rendered text parses back"),
    }
}

// @harness props=C16 tier=thorough mem=8 t=3400 fn="<Name as Display>::fmt,<Label as Display>::fmt"
//   bound="every name of labels (2,2) octets (2^32 names): Display output equals the reference text; unwind 20" sym="o:[u8;4]"
#[kani::proof]
#[kani::unwind(20)]
fn c16_display_2_2() {
    let o: [u8; 4] = kani::any();
    display_is_reference(&[2, o[0], o[1], 2, o[2], o[3], 0]);
    kani::cover!(special(o[0]) && special(o[1]) && special(o[2]) && special(o[3]), "all octets need care");
    kani::cover!(o[0] == b'a' && o[1] == b'.' && o[2] == 0xff && o[3] == b'\\', "one octet of each kind");
}

// @harness props=C16 tier=thorough mem=10 t=3400 fn="<Box<Name> as FromStr>::from_str,parse_escape,NameBuilder::try_push,NameBuilder::next_label,NameBuilder::finish"
//   bound="every name of labels (2,2) octets (2^32 names): the reference text (7..=19 octets) parses to the same wire form; unwind 21" sym="o:[u8;4]"
#[kani::proof]
#[kani::unwind(21)]
fn c16_parse_rendered_2_2() {
    let o: [u8; 4] = kani::any();
    rendered_parses_back(&[2, o[0], o[1], 2, o[2], o[3], 0]);
    kani::cover!(special(o[0]) && special(o[1]) && special(o[2]) && special(o[3]), "all octets need care");
    kani::cover!(o[0] == b'a' && o[1] == b'.' && o[2] == 0xff && o[3] == b'\\', "one octet of each kind");
}

// @harness props=C16 tier=thorough mem=4 t=3400 fn="<Name as Display>::fmt,<Label as Display>::fmt"
//   bound="every name of labels (1,2) octets (2^24 names): Display output equals the reference text; unwind 16" sym="o:[u8;3]"
#[kani::proof]
#[kani::unwind(16)]
fn c16_display_1_2() {
    let o: [u8; 3] = kani::any();
    display_is_reference(&[1, o[0], 2, o[1], o[2], 0]);
    kani::cover!(special(o[0]) && special(o[1]) && special(o[2]), "all octets need care");
    kani::cover!(o[0] == b'.' && o[1] == 0xff && o[2] == b'\\', "one octet of each escaped kind");
}

// @harness props=C16 tier=thorough mem=4 t=3400 fn="<Name as Display>::fmt,<Label as Display>::fmt"
//   bound="every name of labels (2,1) octets (2^24 names): Display output equals the reference text; unwind 16" sym="o:[u8;3]"
#[kani::proof]
#[kani::unwind(16)]
fn c16_display_2_1() {
    let o: [u8; 3] = kani::any();
    display_is_reference(&[2, o[0], o[1], 1, o[2], 0]);
    kani::cover!(special(o[0]) && special(o[1]) && special(o[2]), "all octets need care");
    kani::cover!(o[0] == b'.' && o[1] == 0xff && o[2] == b'\\', "one octet of each escaped kind");
}

// @harness props=C16 tier=thorough mem=8 t=3400 fn="<Box<Name> as FromStr>::from_str,parse_escape,NameBuilder::try_push,NameBuilder::next_label,NameBuilder::finish"
//   bound="every name of labels (1,2) octets (2^24 names): the reference text (6..=15 octets) parses to the same wire form; unwind 17" sym="o:[u8;3]"
#[kani::proof]
#[kani::unwind(17)]
fn c16_parse_rendered_1_2() {
    let o: [u8; 3] = kani::any();
    rendered_parses_back(&[1, o[0], 2, o[1], o[2], 0]);
    kani::cover!(special(o[0]) && special(o[1]) && special(o[2]), "all octets need care");
    kani::cover!(o[0] == b'.' && o[1] == 0xff && o[2] == b'\\', "one octet of each escaped kind");
}

// @harness props=C16 tier=thorough mem=8 t=3400 fn="<Box<Name> as FromStr>::from_str,parse_escape,NameBuilder::try_push,NameBuilder::next_label,NameBuilder::finish"
//   bound="every name of labels (2,1) octets (2^24 names): the reference text (6..=15 octets) parses to the same wire form; unwind 17" sym="o:[u8;3]"
#[kani::proof]
#[kani::unwind(17)]
fn c16_parse_rendered_2_1() {
    let o: [u8; 3] = kani::any();
    rendered_parses_back(&[2, o[0], o[1], 1, o[2], 0]);
    kani::cover!(special(o[0]) && special(o[1]) && special(o[2]), "all octets need care");
    kani::cover!(o[0] == b'.' && o[1] == 0xff && o[2] == b'\\', "one octet of each escaped kind");
}
