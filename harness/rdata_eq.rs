// @host src/rr/rdata/mod.rs
//
// C19: Rdata::equals against a reference equality written here, the three
// equivalence laws stated separately (so that a counterexample names the law),
// and RdataSetOwned::{from_iter, insert} against a reference de-duplication.
//
// Every RDATA is a buffer of CONCRETE length whose octets are all symbolic
// (all 256 values each).  Pairs and triples have INDEPENDENT lengths.  Class
// and type are symbolic u16 restricted, per harness, to one layout group of
// the reference table below (the table is written from RFC 1035 section 3.3,
// RFC 1034 section 3.6 (CH A), RFC 2782 and RFC 3597 section 6/7 - not from
// the match in Rdata::equals).
//
// Measured and left out because they exceed 13 GB: fully symbolic SRV pairs
// (9,9), fully symbolic SOA pairs (22,22) and (24,24), three NS RDATA through
// RdataSetOwned::insert.  SRV and SOA are covered by skeleton pairs (concrete
// structure, symbolic contents) instead, the NS set by from_iter over two.

use super::*;
use crate::kani_common::*;

// --------------------------------------------------------------------------
// reference
// --------------------------------------------------------------------------

/// Layout of a pre-RFC 3597 type that embeds domain names: `pre` fixed
/// octets, then `names` uncompressed names, then `post` fixed octets, and
/// nothing else.
#[derive(Clone, Copy)]
struct Layout {
    pre: usize,
    names: usize,
    post: usize,
}

const IN: u16 = 1;
const CH: u16 = 3;

/// RFC 3597 section 6: only the name-embedding types that predate that RFC
/// compare their names case-insensitively.  These are the RFC 1035 types
/// NS(2) MD(3) MF(4) CNAME(5) SOA(6) MB(7) MG(8) MR(9) PTR(12) MINFO(14)
/// MX(15) (class independent), the Chaosnet A record (class 3 type 1, RFC
/// 1034 section 3.6: name + 16-bit address) and IN SRV (class 1 type 33, RFC
/// 2782, listed in RFC 3597 section 7).
fn ref_layout(class: u16, ty: u16) -> Option<Layout> {
    match ty {
        2 | 3 | 4 | 5 | 7 | 8 | 9 | 12 => Some(Layout { pre: 0, names: 1, post: 0 }),
        6 => Some(Layout { pre: 0, names: 2, post: 20 }),
        14 => Some(Layout { pre: 0, names: 2, post: 0 }),
        15 => Some(Layout { pre: 2, names: 1, post: 0 }),
        1 if class == CH => Some(Layout { pre: 0, names: 1, post: 2 }),
        33 if class == IN => Some(Layout { pre: 6, names: 1, post: 0 }),
        _ => None,
    }
}

/// Ends of the embedded names (offsets into `r`) if `r` is well formed for
/// the layout: the fixed fields are present, every embedded name is a valid
/// uncompressed name, and the RDATA ends exactly after the last field.
fn ref_well_formed(r: &[u8], l: Layout) -> Option<[usize; 2]> {
    if r.len() < l.pre {
        return None;
    }
    let mut ends = [l.pre; 2];
    let mut pos = l.pre;
    let mut k = 0;
    while k < l.names {
        match ref_uncompressed(&r[pos..]) {
            Ok(n) => pos += n,
            Err(_) => return None,
        }
        ends[k] = pos;
        k += 1;
    }
    if r.len() - pos != l.post {
        return None;
    }
    Some(ends)
}

fn octets_equal(a: &[u8], b: &[u8]) -> bool {
    if a.len() != b.len() {
        return false;
    }
    let mut i = 0;
    while i < a.len() {
        if a[i] != b[i] {
            return false;
        }
        i += 1;
    }
    true
}

/// Two VALID uncompressed names are the same domain name iff they have the
/// same length and agree octet by octet up to ASCII case: length octets are
/// <= 63 < 'A', so `lower` leaves them alone, and agreement on the first
/// length octet aligns the first label, hence (by induction) every label.
fn names_ci_equal(a: &[u8], b: &[u8]) -> bool {
    if a.len() != b.len() {
        return false;
    }
    let mut i = 0;
    while i < a.len() {
        if lower(a[i]) != lower(b[i]) {
            return false;
        }
        i += 1;
    }
    true
}

fn ref_equals(a: &[u8], b: &[u8], class: u16, ty: u16) -> bool {
    let l = match ref_layout(class, ty) {
        Some(l) => l,
        None => return octets_equal(a, b),
    };
    match (ref_well_formed(a, l), ref_well_formed(b, l)) {
        (Some(ea), Some(eb)) => {
            if !octets_equal(&a[..l.pre], &b[..l.pre]) {
                return false;
            }
            let mut sa = l.pre;
            let mut sb = l.pre;
            let mut k = 0;
            while k < l.names {
                if !names_ci_equal(&a[sa..ea[k]], &b[sb..eb[k]]) {
                    return false;
                }
                sa = ea[k];
                sb = eb[k];
                k += 1;
            }
            octets_equal(&a[sa..], &b[sb..])
        }
        // either is malformed: plain octet equality
        _ => octets_equal(a, b),
    }
}



// --------------------------------------------------------------------------
// stub: <[u8]>::eq_ignore_ascii_case  (std, not quandary code)
// --------------------------------------------------------------------------
// Label equality is `octets.eq_ignore_ascii_case(other)`.  On x86_64 the
// standard library implements it with a 16-octet chunked (auto-vectorised)
// path plus a scalar tail; reinterpreting a heap object of symbolic size as
// [u8; 16] chunks made CBMC's array post-processing run out of memory
// (measured: > 20 GB for two 3-octet names).  The model has the documented
// contract (same length and `a.to_ascii_lowercase() == b.to_ascii_lowercase()`
// octet by octet); c19_stub_eq_ignore_ascii_case_model checks it against the
// real function, including the chunked path.
fn eq_ic_model(a: &[u8], b: &[u8]) -> bool {
    if a.len() != b.len() {
        return false;
    }
    let mut i = 0;
    while i < a.len() {
        if lower(a[i]) != lower(b[i]) {
            return false;
        }
        i += 1;
    }
    true
}

// @harness props=C19 tier=quick mem=2 t=600 fn="<[u8]>::eq_ignore_ascii_case (std) vs the stub model used by the C19 harnesses"
//   bound="slices of 3 and of 18 octets (scalar path; one 16-octet chunk + 2-octet tail), all octet values; unwind 20"
//   sym="a,b:[u8;3]; c,d:[u8;18]"
#[kani::proof]
#[kani::unwind(20)]
fn c19_stub_eq_ignore_ascii_case_model() {
    let a: [u8; 3] = kani::any();
    let b: [u8; 3] = kani::any();
    assert!(a.eq_ignore_ascii_case(&b) == eq_ic_model(&a, &b), "[C19] stub model equals std eq_ignore_ascii_case (3 octets)");
    assert!(!a.eq_ignore_ascii_case(&b[..2]), "[C19] std eq_ignore_ascii_case: different lengths are unequal");
    let c: [u8; 18] = kani::any();
    let d: [u8; 18] = kani::any();
    let r = c.eq_ignore_ascii_case(&d);
    assert!(r == eq_ic_model(&c, &d), "[C19] stub model equals std eq_ignore_ascii_case (18 octets)");
    kani::cover!(r && c[0] != d[0] && c[17] != d[17], "18-octet slices equal up to case");
}

// --------------------------------------------------------------------------
// pairs: equals == ref_equals in both orders, symmetry; reflexivity
// --------------------------------------------------------------------------

struct PairSeen {
    /// the reference's verdict
    equal: bool,
    /// the two buffers are the same octets
    same_octets: bool,
    /// the two buffers have the same length and differ at most in ASCII case
    same_up_to_case: bool,
}

fn seen(a: &[u8], b: &[u8], e: bool) -> PairSeen {
    PairSeen { equal: e, same_octets: octets_equal(a, b), same_up_to_case: names_ci_equal(a, b) }
}

fn pair<const LA: usize, const LB: usize>(class: u16, ty: u16) -> PairSeen {
    let a: [u8; LA] = kani::any();
    let b: [u8; LB] = kani::any();
    let ra = Rdata::from_unchecked(&a);
    let rb = Rdata::from_unchecked(&b);
    let c = Class::from(class);
    let t = Type::from(ty);
    let ab = ra.equals(rb, c, t);
    let ba = rb.equals(ra, c, t);
    let e = ref_equals(&a, &b, class, ty);
    assert!(ab == ba, "[C19] equals is symmetric");
    assert!(ab == e, "[C19] equals(a, b) is the reference equality");
    assert!(ba == e, "[C19] equals(b, a) is the reference equality");
    seen(&a, &b, e)
}

fn refl<const L: usize>(class: u16, ty: u16) {
    let a: [u8; L] = kani::any();
    let ra = Rdata::from_unchecked(&a);
    assert!(ra.equals(ra, Class::from(class), Type::from(ty)), "[C19] equals is reflexive");
}

fn triple<const LA: usize, const LB: usize, const LC: usize>(class: u16, ty: u16) -> bool {
    let a: [u8; LA] = kani::any();
    let b: [u8; LB] = kani::any();
    let c: [u8; LC] = kani::any();
    let ra = Rdata::from_unchecked(&a);
    let rb = Rdata::from_unchecked(&b);
    let rc = Rdata::from_unchecked(&c);
    let cl = Class::from(class);
    let t = Type::from(ty);
    let ab = ra.equals(rb, cl, t);
    let bc = rb.equals(rc, cl, t);
    let ac = ra.equals(rc, cl, t);
    assert!(!(ab && bc) || ac, "[C19] equals is transitive");
    // witness: a chain through octet-different members of one class
    ab && bc && !octets_equal(&a, &b) && !octets_equal(&b, &c)
}

// --------------------------------------------------------------------------
// dispatch for every (class, type) outside the table
// --------------------------------------------------------------------------
// With a symbolic type every arm of Rdata::equals is encoded, which is only
// affordable if the arms are cheap.  The two helpers all name-comparing arms
// go through are therefore replaced by models that return an ARBITRARY value
// (an over-approximation of any behaviour they could have): if equals is
// octet equality for every unlisted (class, type) whatever the helpers
// return, it is octet equality with the real helpers.

fn arbitrary_names_equal(_first: &[u8], _second: &[u8]) -> bool {
    kani::any()
}

fn arbitrary_test_n_name_fields(_first: &[u8], _second: &[u8], _n: usize) -> Option<Option<usize>> {
    kani::any()
}

fn unlisted<const LA: usize, const LB: usize>(class: u16, ty: u16) -> bool {
    let a: [u8; LA] = kani::any();
    let b: [u8; LB] = kani::any();
    let r = Rdata::from_unchecked(&a).equals(Rdata::from_unchecked(&b), Class::from(class), Type::from(ty));
    let e = octets_equal(&a, &b);
    assert!(r == e, "[C19] equals is octet equality for every class/type outside the pre-RFC 3597 name-bearing table");
    assert!(ref_equals(&a, &b, class, ty) == e, "[C19] the reference is octet equality outside the table");
    e
}

// --------------------------------------------------------------------------
// RdataSetOwned: first member of each equality class, in insertion order
// --------------------------------------------------------------------------

use crate::rr::rdata_set::RdataSetOwned;

fn next_is(it: &mut crate::rr::rdata_set::Iter, want: &[u8]) {
    match it.next() {
        Some(r) => assert!(octets_equal(r.octets(), want), "[C19] the set yields the first member of each equality class in insertion order"),
        None => assert!(false, "[C19] the set lost the first member of an equality class"),
    }
}

/// Returns (second kept, third kept) according to the reference.
fn set3<const L1: usize, const L2: usize, const L3: usize, const FROM_ITER: bool>(class: u16, ty: u16) -> (bool, bool) {
    let r1: [u8; L1] = kani::any();
    let r2: [u8; L2] = kani::any();
    let r3: [u8; L3] = kani::any();
    let x1 = Rdata::from_unchecked(&r1);
    let x2 = Rdata::from_unchecked(&r2);
    let x3 = Rdata::from_unchecked(&r3);
    let c = Class::from(class);
    let t = Type::from(ty);
    // reference: a member is kept iff no earlier member is in its class
    let k2 = !ref_equals(&r1, &r2, class, ty);
    let k3 = !ref_equals(&r1, &r3, class, ty) && !ref_equals(&r2, &r3, class, ty);
    let set = if FROM_ITER {
        // a slice iterator: the by-value array iterator (MaybeUninit storage
        // indexed by a live range) made CBMC run out of memory (> 14 GB)
        let all = [x1, x2, x3];
        match RdataSetOwned::from_iter(c, t, all.iter().copied()) {
            Some(s) => s,
            None => {
                assert!(false, "[C19] from_iter of a non-empty sequence returns a set");
                return (k2, k3);
            }
        }
    } else {
        let mut s = RdataSetOwned::from(x1);
        let i2 = s.insert(c, t, x2);
        let i3 = s.insert(c, t, x3);
        assert!(i2 == k2, "[C19] insert reports whether the RDATA started a new equality class (second)");
        assert!(i3 == k3, "[C19] insert reports whether the RDATA started a new equality class (third)");
        s
    };
    let mut it = set.iter();
    next_is(&mut it, &r1);
    if k2 {
        next_is(&mut it, &r2);
    }
    if k3 {
        next_is(&mut it, &r3);
    }
    assert!(it.next().is_none(), "[C19] the set yields nothing but the first member of each equality class");
    (k2, k3)
}

/// One order only.  Used where LA == LB and both orders in one harness are
/// too expensive: `a` and `b` are both arbitrary buffers of the same length,
/// so "for all a, b: equals(a, b) == ref_equals(a, b)" already contains the
/// swapped pair, and symmetry of equals follows from the symmetry of
/// ref_equals, which is asserted here.
fn pair_one_way<const LA: usize, const LB: usize>(class: u16, ty: u16) -> PairSeen {
    let a: [u8; LA] = kani::any();
    let b: [u8; LB] = kani::any();
    let ra = Rdata::from_unchecked(&a);
    let rb = Rdata::from_unchecked(&b);
    let ab = ra.equals(rb, Class::from(class), Type::from(ty));
    let e = ref_equals(&a, &b, class, ty);
    assert!(ab == e, "[C19] equals(a, b) is the reference equality");
    assert!(ref_equals(&b, &a, class, ty) == e, "[C19] the reference equality is symmetric");
    seen(&a, &b, e)
}

fn any_class() -> u16 {
    kani::any()
}

// Every harness below fixes the TYPE to a constant: with a symbolic type CBMC
// encodes every arm of the match in Rdata::equals at once (measured: 2.3 M
// program steps and > 14 GB for lengths (3,3)).  Classes are symbolic where
// the type is class independent.

/// from_iter over two RDATA.
fn set2_from_iter<const L1: usize, const L2: usize>(class: u16, ty: u16) -> bool {
    let r1: [u8; L1] = kani::any();
    let r2: [u8; L2] = kani::any();
    let x1 = Rdata::from_unchecked(&r1);
    let x2 = Rdata::from_unchecked(&r2);
    let c = Class::from(class);
    let t = Type::from(ty);
    let k2 = !ref_equals(&r1, &r2, class, ty);
    let all = [x1, x2];
    match RdataSetOwned::from_iter(c, t, all.iter().copied()) {
        Some(set) => {
            let mut it = set.iter();
            next_is(&mut it, &r1);
            if k2 {
                next_is(&mut it, &r2);
            }
            assert!(it.next().is_none(), "[C19] the set yields nothing but the first member of each equality class");
        }
        None => assert!(false, "[C19] from_iter of a non-empty sequence returns a set"),
    }
    k2
}

// --------------------------------------------------------------------------
// skeleton pairs: concrete structure, symbolic contents
// --------------------------------------------------------------------------
// Two Box<Name> of symbolic size cost minutes and gigabytes (see the fully
// symbolic harnesses), which rules out fully symbolic SOA RDATA and names
// longer than 5 octets.  Here the STRUCTURE of each RDATA (where the length
// octets are and what they hold) is fixed per harness, so the names have
// concrete sizes; symbolic are every label content octet, every fixed-field
// octet and every junk octet (all 256 values each).  Even so one pair costs
// 1-2 minutes (the names live in heap objects CBMC does not constant-fold
// through), so each harness holds ONE pair of shapes.

const SK_LEN: usize = 40;
const SK_NAME_VARIANTS: usize = 9;

/// Writes name field `variant` at `at`; returns its length.
fn put_name(m: &mut [u8; SK_LEN], at: usize, variant: usize) -> usize {
    match variant {
        // root
        0 => {
            m[at] = 0;
            1
        }
        // one one-octet label
        1 => {
            m[at] = 1;
            m[at + 2] = 0;
            3
        }
        // the same shape followed by one junk octet
        2 => {
            m[at] = 1;
            m[at + 2] = 0;
            4
        }
        // one two-octet label
        3 => {
            m[at] = 2;
            m[at + 3] = 0;
            4
        }
        // a label cut off by the end of the field
        4 => {
            m[at] = 1;
            2
        }
        // reserved label type
        5 => {
            m[at] = 0x40;
            1
        }
        // two labels
        6 => {
            m[at] = 1;
            m[at + 2] = 1;
            m[at + 4] = 0;
            5
        }
        // two three-octet labels
        7 => {
            m[at] = 3;
            m[at + 4] = 3;
            m[at + 8] = 0;
            9
        }
        // root followed by one junk octet
        _ => {
            m[at] = 0;
            2
        }
    }
}

/// Builds one RDATA: `pre` symbolic octets, name fields, `post` symbolic
/// octets.  Returns the buffer and its length.
fn sk_rdata(pre: usize, v1: usize, v2: Option<usize>, post: usize) -> ([u8; SK_LEN], usize) {
    let mut m: [u8; SK_LEN] = kani::any();
    let mut at = pre;
    at += put_name(&mut m, at, v1);
    if let Some(v) = v2 {
        at += put_name(&mut m, at, v);
    }
    (m, at + post)
}

fn sk_check(a: &[u8], b: &[u8], class: u16, ty: u16) -> PairSeen {
    let ra = Rdata::from_unchecked(a);
    let rb = Rdata::from_unchecked(b);
    let c = Class::from(class);
    let t = Type::from(ty);
    let ab = ra.equals(rb, c, t);
    let ba = rb.equals(ra, c, t);
    let e = ref_equals(a, b, class, ty);
    assert!(ab == ba, "[C19] equals is symmetric");
    assert!(ab == e, "[C19] equals(a, b) is the reference equality");
    assert!(ba == e, "[C19] equals(b, a) is the reference equality");
    assert!(ra.equals(ra, c, t), "[C19] equals is reflexive");
    seen(a, b, e)
}

// ---- NS: the full length grid {0,1,3,4,5}^2, both orders -------------------

// @harness props=C19 tier=thorough mem=2 t=900 fn="Rdata::equals,helpers::names_equal,helpers::test_n_name_fields,Name::try_from_uncompressed,<Name as PartialEq>::eq,<Label as PartialEq>::eq"
//   bound="type NS, any class; RDATA lengths (0,0) (0,1) (0,3) (0,4) (0,5), all octet values; unwind 7"
//   sym="a:[u8;0], b:[u8;0|1|3|4|5], class:u16" stubs="eq_ignore_ascii_case"
#[kani::proof]
#[kani::unwind(7)]
#[kani::stub(<[u8]>::eq_ignore_ascii_case, eq_ic_model)]
fn c19_ns_pair_0_x() {
    let class = any_class();
    let s = pair::<0, 0>(class, 2);
    kani::cover!(s.equal, "two empty RDATA are equal");
    pair::<0, 1>(class, 2);
    pair::<0, 3>(class, 2);
    pair::<0, 4>(class, 2);
    let s = pair::<0, 5>(class, 2);
    kani::cover!(!s.equal, "RDATA of different lengths are unequal");
}

// @harness props=C19 tier=thorough mem=4 t=1800 fn="Rdata::equals,helpers::names_equal,helpers::test_n_name_fields,Name::try_from_uncompressed,<Name as PartialEq>::eq,<Label as PartialEq>::eq"
//   bound="type NS, any class; RDATA lengths (1,1), all octet values; unwind 4"
//   sym="a:[u8;1], b:[u8;1], class:u16" stubs="eq_ignore_ascii_case"
#[kani::proof]
#[kani::unwind(4)]
#[kani::stub(<[u8]>::eq_ignore_ascii_case, eq_ic_model)]
fn c19_ns_pair_1_1() {
    let s = pair::<1, 1>(any_class(), 2);
    kani::cover!(s.equal, "root name equals root name");
    kani::cover!(!s.equal, "distinct one-octet RDATA are unequal");
}

// @harness props=C19 tier=quick mem=6 t=2400 fn="Rdata::equals,helpers::names_equal,helpers::test_n_name_fields,Name::try_from_uncompressed,<Name as PartialEq>::eq,<Label as PartialEq>::eq"
//   bound="type NS, any class; RDATA lengths (3,3), all octet values, both orders; unwind 5"
//   sym="a:[u8;3], b:[u8;3], class:u16" stubs="eq_ignore_ascii_case"
#[kani::proof]
#[kani::unwind(5)]
#[kani::stub(<[u8]>::eq_ignore_ascii_case, eq_ic_model)]
fn c19_ns_pair_3_3() {
    let s = pair::<3, 3>(any_class(), 2);
    kani::cover!(s.equal && !s.same_octets, "equal RDATA whose octets differ (case-insensitive name match)");
    kani::cover!(!s.equal && s.same_up_to_case, "unequal RDATA that differ only in ASCII case (malformed, or case outside a name)");
}

// @harness props=C19 tier=quick mem=8 t=2700 fn="Rdata::equals,helpers::names_equal,helpers::test_n_name_fields,Name::try_from_uncompressed,<Name as PartialEq>::eq,<Label as PartialEq>::eq"
//   bound="type NS, any class; RDATA lengths (3,4), all octet values, both orders; unwind 6"
//   sym="a:[u8;3], b:[u8;4], class:u16" stubs="eq_ignore_ascii_case"
#[kani::proof]
#[kani::unwind(6)]
#[kani::stub(<[u8]>::eq_ignore_ascii_case, eq_ic_model)]
fn c19_ns_pair_3_4() {
    let s = pair::<3, 4>(any_class(), 2);
    kani::cover!(!s.equal, "RDATA of different lengths are unequal");
}

// @harness props=C19 tier=thorough mem=6 t=1800 fn="Rdata::equals,helpers::names_equal,helpers::test_n_name_fields,Name::try_from_uncompressed,<Name as PartialEq>::eq,<Label as PartialEq>::eq"
//   bound="type NS, any class; RDATA lengths (1,3), all octet values, both orders; unwind 5"
//   sym="a:[u8;1], b:[u8;3], class:u16" stubs="eq_ignore_ascii_case"
#[kani::proof]
#[kani::unwind(5)]
#[kani::stub(<[u8]>::eq_ignore_ascii_case, eq_ic_model)]
fn c19_ns_pair_1_3() {
    let s = pair::<1, 3>(any_class(), 2);
    kani::cover!(!s.equal, "RDATA of different lengths are unequal");
}

// @harness props=C19 tier=thorough mem=8 t=1800 fn="Rdata::equals,helpers::names_equal,helpers::test_n_name_fields,Name::try_from_uncompressed,<Name as PartialEq>::eq,<Label as PartialEq>::eq"
//   bound="type NS, any class; RDATA lengths (1,4), all octet values, both orders; unwind 6"
//   sym="a:[u8;1], b:[u8;4], class:u16" stubs="eq_ignore_ascii_case"
#[kani::proof]
#[kani::unwind(6)]
#[kani::stub(<[u8]>::eq_ignore_ascii_case, eq_ic_model)]
fn c19_ns_pair_1_4() {
    let s = pair::<1, 4>(any_class(), 2);
    kani::cover!(!s.equal, "RDATA of different lengths are unequal");
}

// @harness props=C19 tier=thorough mem=12 t=3600 fn="Rdata::equals,helpers::names_equal,helpers::test_n_name_fields,Name::try_from_uncompressed,<Name as PartialEq>::eq,<Label as PartialEq>::eq"
//   bound="type NS, any class; RDATA lengths (1,5), all octet values, both orders; unwind 7"
//   sym="a:[u8;1], b:[u8;5], class:u16" stubs="eq_ignore_ascii_case"
#[kani::proof]
#[kani::unwind(7)]
#[kani::stub(<[u8]>::eq_ignore_ascii_case, eq_ic_model)]
fn c19_ns_pair_1_5() {
    let s = pair::<1, 5>(any_class(), 2);
    kani::cover!(!s.equal, "RDATA of different lengths are unequal");
}

// @harness props=C19 tier=thorough mem=12 t=3600 fn="Rdata::equals,helpers::names_equal,helpers::test_n_name_fields,Name::try_from_uncompressed,<Name as PartialEq>::eq,<Label as PartialEq>::eq"
//   bound="type NS, any class; RDATA lengths (3,5), all octet values, both orders; unwind 7"
//   sym="a:[u8;3], b:[u8;5], class:u16" stubs="eq_ignore_ascii_case"
#[kani::proof]
#[kani::unwind(7)]
#[kani::stub(<[u8]>::eq_ignore_ascii_case, eq_ic_model)]
fn c19_ns_pair_3_5() {
    let s = pair::<3, 5>(any_class(), 2);
    kani::cover!(!s.equal, "RDATA of different lengths are unequal");
}

// @harness props=C19 tier=thorough mem=8 t=2400 fn="Rdata::equals,helpers::names_equal,helpers::test_n_name_fields,Name::try_from_uncompressed,<Name as PartialEq>::eq,<Label as PartialEq>::eq"
//   bound="type NS, any class; RDATA lengths (4,4), all octet values, both orders; unwind 6"
//   sym="a:[u8;4], b:[u8;4], class:u16" stubs="eq_ignore_ascii_case"
#[kani::proof]
#[kani::unwind(6)]
#[kani::stub(<[u8]>::eq_ignore_ascii_case, eq_ic_model)]
fn c19_ns_pair_4_4() {
    let s = pair::<4, 4>(any_class(), 2);
    kani::cover!(s.equal && !s.same_octets, "equal RDATA whose octets differ (case-insensitive name match)");
    kani::cover!(!s.equal && s.same_up_to_case, "unequal RDATA that differ only in ASCII case (malformed, or case outside a name)");
}

// @harness props=C19 tier=thorough mem=12 t=3600 fn="Rdata::equals,helpers::names_equal,helpers::test_n_name_fields,Name::try_from_uncompressed,<Name as PartialEq>::eq,<Label as PartialEq>::eq"
//   bound="type NS, any class; RDATA lengths (4,5), all octet values, both orders; unwind 7"
//   sym="a:[u8;4], b:[u8;5], class:u16" stubs="eq_ignore_ascii_case"
#[kani::proof]
#[kani::unwind(7)]
#[kani::stub(<[u8]>::eq_ignore_ascii_case, eq_ic_model)]
fn c19_ns_pair_4_5() {
    let s = pair::<4, 5>(any_class(), 2);
    kani::cover!(!s.equal, "RDATA of different lengths are unequal");
}

// @harness props=C19 tier=thorough mem=12 t=4800 fn="Rdata::equals,helpers::names_equal,helpers::test_n_name_fields,Name::try_from_uncompressed,<Name as PartialEq>::eq,<Label as PartialEq>::eq"
//   bound="type NS, any class; RDATA lengths (5,5), all octet values, both orders; unwind 7"
//   sym="a:[u8;5], b:[u8;5], class:u16" stubs="eq_ignore_ascii_case"
#[kani::proof]
#[kani::unwind(7)]
#[kani::stub(<[u8]>::eq_ignore_ascii_case, eq_ic_model)]
fn c19_ns_pair_5_5() {
    let s = pair::<5, 5>(any_class(), 2);
    kani::cover!(s.equal && !s.same_octets, "equal RDATA whose octets differ (case-insensitive name match)");
    kani::cover!(!s.equal && s.same_up_to_case, "unequal RDATA that differ only in ASCII case (malformed, or case outside a name)");
}

// ---- the other single-name types: (3,3) and (3,4) = name vs name+junk ------

// @harness props=C19 tier=thorough mem=8 t=3600 fn="Rdata::equals,helpers::names_equal,helpers::test_n_name_fields,Name::try_from_uncompressed,<Name as PartialEq>::eq,<Label as PartialEq>::eq"
//   bound="type MD (3), any class; RDATA lengths (3,3) and (3,4) in the order (a,b), all octet values; unwind 6"
//   sym="a:[u8;3], b:[u8;3]; a2:[u8;3], b2:[u8;4]; class:u16" stubs="eq_ignore_ascii_case"
#[kani::proof]
#[kani::unwind(6)]
#[kani::stub(<[u8]>::eq_ignore_ascii_case, eq_ic_model)]
fn c19_md_pairs() {
    let class = any_class();
    let s = pair_one_way::<3, 3>(class, 3);
    kani::cover!(s.equal && !s.same_octets, "equal RDATA whose octets differ (case-insensitive name match)");
    let s = pair_one_way::<3, 4>(class, 3);
    kani::cover!(!s.equal, "RDATA of different lengths are unequal");
}

// @harness props=C19 tier=thorough mem=8 t=3600 fn="Rdata::equals,helpers::names_equal,helpers::test_n_name_fields,Name::try_from_uncompressed,<Name as PartialEq>::eq,<Label as PartialEq>::eq"
//   bound="type MF (4), any class; RDATA lengths (3,3) and (3,4) in the order (a,b), all octet values; unwind 6"
//   sym="a:[u8;3], b:[u8;3]; a2:[u8;3], b2:[u8;4]; class:u16" stubs="eq_ignore_ascii_case"
#[kani::proof]
#[kani::unwind(6)]
#[kani::stub(<[u8]>::eq_ignore_ascii_case, eq_ic_model)]
fn c19_mf_pairs() {
    let class = any_class();
    let s = pair_one_way::<3, 3>(class, 4);
    kani::cover!(s.equal && !s.same_octets, "equal RDATA whose octets differ (case-insensitive name match)");
    let s = pair_one_way::<3, 4>(class, 4);
    kani::cover!(!s.equal, "RDATA of different lengths are unequal");
}

// @harness props=C19 tier=thorough mem=8 t=3600 fn="Rdata::equals,helpers::names_equal,helpers::test_n_name_fields,Name::try_from_uncompressed,<Name as PartialEq>::eq,<Label as PartialEq>::eq"
//   bound="type CNAME (5), any class; RDATA lengths (3,3) and (3,4) in the order (a,b), all octet values; unwind 6"
//   sym="a:[u8;3], b:[u8;3]; a2:[u8;3], b2:[u8;4]; class:u16" stubs="eq_ignore_ascii_case"
#[kani::proof]
#[kani::unwind(6)]
#[kani::stub(<[u8]>::eq_ignore_ascii_case, eq_ic_model)]
fn c19_cname_pairs() {
    let class = any_class();
    let s = pair_one_way::<3, 3>(class, 5);
    kani::cover!(s.equal && !s.same_octets, "equal RDATA whose octets differ (case-insensitive name match)");
    let s = pair_one_way::<3, 4>(class, 5);
    kani::cover!(!s.equal, "RDATA of different lengths are unequal");
}

// @harness props=C19 tier=thorough mem=8 t=3600 fn="Rdata::equals,helpers::names_equal,helpers::test_n_name_fields,Name::try_from_uncompressed,<Name as PartialEq>::eq,<Label as PartialEq>::eq"
//   bound="type MB (7), any class; RDATA lengths (3,3) and (3,4) in the order (a,b), all octet values; unwind 6"
//   sym="a:[u8;3], b:[u8;3]; a2:[u8;3], b2:[u8;4]; class:u16" stubs="eq_ignore_ascii_case"
#[kani::proof]
#[kani::unwind(6)]
#[kani::stub(<[u8]>::eq_ignore_ascii_case, eq_ic_model)]
fn c19_mb_pairs() {
    let class = any_class();
    let s = pair_one_way::<3, 3>(class, 7);
    kani::cover!(s.equal && !s.same_octets, "equal RDATA whose octets differ (case-insensitive name match)");
    let s = pair_one_way::<3, 4>(class, 7);
    kani::cover!(!s.equal, "RDATA of different lengths are unequal");
}

// @harness props=C19 tier=thorough mem=8 t=3600 fn="Rdata::equals,helpers::names_equal,helpers::test_n_name_fields,Name::try_from_uncompressed,<Name as PartialEq>::eq,<Label as PartialEq>::eq"
//   bound="type MG (8), any class; RDATA lengths (3,3) and (3,4) in the order (a,b), all octet values; unwind 6"
//   sym="a:[u8;3], b:[u8;3]; a2:[u8;3], b2:[u8;4]; class:u16" stubs="eq_ignore_ascii_case"
#[kani::proof]
#[kani::unwind(6)]
#[kani::stub(<[u8]>::eq_ignore_ascii_case, eq_ic_model)]
fn c19_mg_pairs() {
    let class = any_class();
    let s = pair_one_way::<3, 3>(class, 8);
    kani::cover!(s.equal && !s.same_octets, "equal RDATA whose octets differ (case-insensitive name match)");
    let s = pair_one_way::<3, 4>(class, 8);
    kani::cover!(!s.equal, "RDATA of different lengths are unequal");
}

// @harness props=C19 tier=thorough mem=8 t=3600 fn="Rdata::equals,helpers::names_equal,helpers::test_n_name_fields,Name::try_from_uncompressed,<Name as PartialEq>::eq,<Label as PartialEq>::eq"
//   bound="type MR (9), any class; RDATA lengths (3,3) and (3,4) in the order (a,b), all octet values; unwind 6"
//   sym="a:[u8;3], b:[u8;3]; a2:[u8;3], b2:[u8;4]; class:u16" stubs="eq_ignore_ascii_case"
#[kani::proof]
#[kani::unwind(6)]
#[kani::stub(<[u8]>::eq_ignore_ascii_case, eq_ic_model)]
fn c19_mr_pairs() {
    let class = any_class();
    let s = pair_one_way::<3, 3>(class, 9);
    kani::cover!(s.equal && !s.same_octets, "equal RDATA whose octets differ (case-insensitive name match)");
    let s = pair_one_way::<3, 4>(class, 9);
    kani::cover!(!s.equal, "RDATA of different lengths are unequal");
}

// @harness props=C19 tier=thorough mem=8 t=3600 fn="Rdata::equals,helpers::names_equal,helpers::test_n_name_fields,Name::try_from_uncompressed,<Name as PartialEq>::eq,<Label as PartialEq>::eq"
//   bound="type PTR (12), any class; RDATA lengths (3,3) and (3,4) in the order (a,b), all octet values; unwind 6"
//   sym="a:[u8;3], b:[u8;3]; a2:[u8;3], b2:[u8;4]; class:u16" stubs="eq_ignore_ascii_case"
#[kani::proof]
#[kani::unwind(6)]
#[kani::stub(<[u8]>::eq_ignore_ascii_case, eq_ic_model)]
fn c19_ptr_pairs() {
    let class = any_class();
    let s = pair_one_way::<3, 3>(class, 12);
    kani::cover!(s.equal && !s.same_octets, "equal RDATA whose octets differ (case-insensitive name match)");
    let s = pair_one_way::<3, 4>(class, 12);
    kani::cover!(!s.equal, "RDATA of different lengths are unequal");
}

// ---- type MX (15): u16 preference + name ----

// @harness props=C19 tier=thorough mem=7 t=2400 fn="Rdata::equals,Rdata::equals_as_mx,helpers::names_equal,helpers::test_n_name_fields"
//   bound="type MX (15): u16 preference + name, any class; RDATA lengths (5,5) in the order (a,b), all octet values; unwind 7"
//   sym="a:[u8;5], b:[u8;5], class:u16" stubs="eq_ignore_ascii_case"
#[kani::proof]
#[kani::unwind(7)]
#[kani::stub(<[u8]>::eq_ignore_ascii_case, eq_ic_model)]
fn c19_mx_pair_5_5() {
    let s = pair_one_way::<5, 5>(any_class(), 15);
    kani::cover!(s.equal && !s.same_octets, "equal RDATA whose octets differ (case-insensitive name match)");
    kani::cover!(!s.equal && s.same_up_to_case, "unequal RDATA that differ only in ASCII case (malformed, or case outside a name)");
}

// @harness props=C19 tier=thorough mem=2 t=600 fn="Rdata::equals,Rdata::equals_as_mx,helpers::names_equal,helpers::test_n_name_fields"
//   bound="type MX (15): u16 preference + name, any class; RDATA lengths (1,1) (1,2) (2,2) (2,3) (5,6) (too short for a name, or different lengths), all octet values, both orders; unwind 8"
//   sym="pairs of [u8;LA],[u8;LB]" stubs="eq_ignore_ascii_case"
#[kani::proof]
#[kani::unwind(8)]
#[kani::stub(<[u8]>::eq_ignore_ascii_case, eq_ic_model)]
fn c19_mx_pair_short() {
    let class = any_class();
    pair::<1, 1>(class, 15);
    pair::<1, 2>(class, 15);
    pair::<2, 2>(class, 15);
    pair::<2, 3>(class, 15);
    let s = pair::<5, 6>(class, 15);
    kani::cover!(!s.equal, "RDATA of different lengths are unequal");
}

// ---- type SRV (33): 6 octets + name ----

// @harness props=C19 tier=thorough mem=2 t=600 fn="Rdata::equals,Rdata::equals_as_in_srv,helpers::names_equal,helpers::test_n_name_fields"
//   bound="type SRV (33): 6 octets + name, class IN; RDATA lengths (5,5) (5,6) (6,6) (9,10) (too short for a name, or different lengths), all octet values, both orders; unwind 12"
//   sym="pairs of [u8;LA],[u8;LB]" stubs="eq_ignore_ascii_case"
#[kani::proof]
#[kani::unwind(12)]
#[kani::stub(<[u8]>::eq_ignore_ascii_case, eq_ic_model)]
fn c19_srv_pair_short() {
    let class = IN;
    pair::<5, 5>(class, 33);
    pair::<5, 6>(class, 33);
    pair::<6, 6>(class, 33);
    let s = pair::<9, 10>(class, 33);
    kani::cover!(!s.equal, "RDATA of different lengths are unequal");
}

// ---- type A (1) in class CH: name + 16-bit address ----

// @harness props=C19 tier=thorough mem=7 t=2400 fn="Rdata::equals,Rdata::equals_as_ch_a,helpers::test_n_name_fields"
//   bound="type A (1) in class CH: name + 16-bit address, class CH; RDATA lengths (5,5) in the order (a,b), all octet values; unwind 7"
//   sym="a:[u8;5], b:[u8;5]" stubs="eq_ignore_ascii_case"
#[kani::proof]
#[kani::unwind(7)]
#[kani::stub(<[u8]>::eq_ignore_ascii_case, eq_ic_model)]
fn c19_ch_a_pair_5_5() {
    let s = pair_one_way::<5, 5>(CH, 1);
    kani::cover!(s.equal && !s.same_octets, "equal RDATA whose octets differ (case-insensitive name match)");
    kani::cover!(!s.equal && s.same_up_to_case, "unequal RDATA that differ only in ASCII case (malformed, or case outside a name)");
}

// @harness props=C19 tier=thorough mem=2 t=600 fn="Rdata::equals,Rdata::equals_as_ch_a,helpers::test_n_name_fields"
//   bound="type A (1) in class CH: name + 16-bit address, class CH; RDATA lengths (5,6) (3,4) (different lengths), all octet values, both orders; unwind 8"
//   sym="pairs of [u8;LA],[u8;LB]" stubs="eq_ignore_ascii_case"
#[kani::proof]
#[kani::unwind(8)]
#[kani::stub(<[u8]>::eq_ignore_ascii_case, eq_ic_model)]
fn c19_ch_a_pair_short() {
    let class = CH;
    pair::<5, 6>(class, 1);
    let s = pair::<3, 4>(class, 1);
    kani::cover!(!s.equal, "RDATA of different lengths are unequal");
}

// ---- type MINFO (14): two names ----

// @harness props=C19 tier=thorough mem=8 t=2400 fn="Rdata::equals,Rdata::equals_as_minfo,helpers::test_n_name_fields"
//   bound="type MINFO (14): two names, any class; RDATA lengths (4,4) in the order (a,b), all octet values; unwind 6"
//   sym="a:[u8;4], b:[u8;4], class:u16" stubs="eq_ignore_ascii_case"
#[kani::proof]
#[kani::unwind(6)]
#[kani::stub(<[u8]>::eq_ignore_ascii_case, eq_ic_model)]
fn c19_minfo_pair_4_4() {
    let s = pair_one_way::<4, 4>(any_class(), 14);
    kani::cover!(s.equal && !s.same_octets, "equal RDATA whose octets differ (case-insensitive name match)");
    kani::cover!(!s.equal && s.same_up_to_case, "unequal RDATA that differ only in ASCII case (malformed, or case outside a name)");
}

// @harness props=C19 tier=thorough mem=2 t=600 fn="Rdata::equals,Rdata::equals_as_minfo,helpers::test_n_name_fields"
//   bound="type MINFO (14): two names, any class; RDATA lengths (2,4) (4,6) (different lengths), all octet values, both orders; unwind 8"
//   sym="pairs of [u8;LA],[u8;LB]" stubs="eq_ignore_ascii_case"
#[kani::proof]
#[kani::unwind(8)]
#[kani::stub(<[u8]>::eq_ignore_ascii_case, eq_ic_model)]
fn c19_minfo_pair_short() {
    let class = any_class();
    pair::<2, 4>(class, 14);
    let s = pair::<4, 6>(class, 14);
    kani::cover!(!s.equal, "RDATA of different lengths are unequal");
}

// ---- skeleton pairs: SOA, and longer names ---------------------------------

// @harness props=C19 tier=thorough mem=4 t=2400 fn="Rdata::equals,Rdata::equals_as_soa,helpers::test_n_name_fields"
//   bound="type SOA, any class; both RDATA = 1-octet-label name, root name, 20 octets (24 octets, well formed); symbolic label contents, fixed-field and junk octets; both orders, reflexivity; unwind 26"
//   sym="content octets" stubs="eq_ignore_ascii_case"
#[kani::proof]
#[kani::unwind(26)]
#[kani::stub(<[u8]>::eq_ignore_ascii_case, eq_ic_model)]
fn c19_soa_skeleton_wf() {
    let (a, la) = sk_rdata(0, 1, Some(0), 20);
    let (b, lb) = sk_rdata(0, 1, Some(0), 20);
    let s = sk_check(&a[..la], &b[..lb], any_class(), 6);
    kani::cover!(s.equal && !s.same_octets, "equal RDATA whose octets differ (case-insensitive name match)");
    kani::cover!(!s.equal, "unequal RDATA");
}

// @harness props=C19 tier=thorough mem=3 t=1200 fn="Rdata::equals,Rdata::equals_as_soa,helpers::test_n_name_fields"
//   bound="type SOA, any class; a = 1-octet-label name, root, 20 octets; b = root, 1-octet-label name, 20 octets (both 24 octets, well formed, names differ); symbolic label contents, fixed-field and junk octets; both orders, reflexivity; unwind 26"
//   sym="content octets" stubs="eq_ignore_ascii_case"
#[kani::proof]
#[kani::unwind(26)]
#[kani::stub(<[u8]>::eq_ignore_ascii_case, eq_ic_model)]
fn c19_soa_skeleton_split() {
    let (a, la) = sk_rdata(0, 1, Some(0), 20);
    let (b, lb) = sk_rdata(0, 0, Some(1), 20);
    let s = sk_check(&a[..la], &b[..lb], any_class(), 6);
    kani::cover!(!s.equal, "unequal RDATA");
}

// @harness props=C19 tier=thorough mem=4 t=2400 fn="Rdata::equals,Rdata::equals_as_soa,helpers::test_n_name_fields"
//   bound="type SOA, any class; a = two 1-octet-label names + 18 octets (24 octets, malformed: fixed part too short); b = the same shape; symbolic label contents, fixed-field and junk octets; both orders, reflexivity; unwind 26"
//   sym="content octets" stubs="eq_ignore_ascii_case"
#[kani::proof]
#[kani::unwind(26)]
#[kani::stub(<[u8]>::eq_ignore_ascii_case, eq_ic_model)]
fn c19_soa_skeleton_short() {
    let (a, la) = sk_rdata(0, 1, Some(1), 18);
    let (b, lb) = sk_rdata(0, 1, Some(1), 18);
    let s = sk_check(&a[..la], &b[..lb], any_class(), 6);
    kani::cover!(!s.equal && s.same_up_to_case, "malformed SOA RDATA differing only in case are unequal");
    kani::cover!(s.equal, "identical malformed SOA RDATA are equal");
}

// @harness props=C19 tier=thorough mem=4 t=1200 fn="Rdata::equals,Rdata::equals_as_minfo,helpers::test_n_name_fields"
//   bound="type MINFO, any class; both RDATA = two 1-octet-label names (6 octets); symbolic label contents, fixed-field and junk octets; both orders, reflexivity; unwind 8"
//   sym="content octets" stubs="eq_ignore_ascii_case"
#[kani::proof]
#[kani::unwind(8)]
#[kani::stub(<[u8]>::eq_ignore_ascii_case, eq_ic_model)]
fn c19_minfo_skeleton_6_6() {
    let (a, la) = sk_rdata(0, 1, Some(1), 0);
    let (b, lb) = sk_rdata(0, 1, Some(1), 0);
    let s = sk_check(&a[..la], &b[..lb], any_class(), 14);
    kani::cover!(s.equal && !s.same_octets, "equal RDATA whose octets differ (case-insensitive name match)");
    kani::cover!(!s.equal, "unequal RDATA");
}

// @harness props=C19 tier=thorough mem=3 t=1200 fn="Rdata::equals,helpers::names_equal,helpers::test_n_name_fields,Name::try_from_uncompressed,<Name as PartialEq>::eq,<Label as PartialEq>::eq"
//   bound="type NS, any class; both RDATA = a name of two 3-octet labels (9 octets); symbolic label contents, fixed-field and junk octets; both orders, reflexivity; unwind 11"
//   sym="content octets" stubs="eq_ignore_ascii_case"
#[kani::proof]
#[kani::unwind(11)]
#[kani::stub(<[u8]>::eq_ignore_ascii_case, eq_ic_model)]
fn c19_ns_skeleton_9_9() {
    let (a, la) = sk_rdata(0, 7, None, 0);
    let (b, lb) = sk_rdata(0, 7, None, 0);
    let s = sk_check(&a[..la], &b[..lb], any_class(), 2);
    kani::cover!(s.equal && !s.same_octets, "equal RDATA whose octets differ (case-insensitive name match)");
    kani::cover!(!s.equal, "unequal RDATA");
}

// @harness props=C19 tier=thorough mem=3 t=1200 fn="Rdata::equals,Rdata::equals_as_in_srv,helpers::names_equal,helpers::test_n_name_fields"
//   bound="type SRV class IN; both RDATA = 6 fixed octets + a name of two 3-octet labels (15 octets); symbolic label contents, fixed-field and junk octets; both orders, reflexivity; unwind 17"
//   sym="content octets" stubs="eq_ignore_ascii_case"
#[kani::proof]
#[kani::unwind(17)]
#[kani::stub(<[u8]>::eq_ignore_ascii_case, eq_ic_model)]
fn c19_srv_skeleton_15_15() {
    let (a, la) = sk_rdata(6, 7, None, 0);
    let (b, lb) = sk_rdata(6, 7, None, 0);
    let s = sk_check(&a[..la], &b[..lb], IN, 33);
    kani::cover!(s.equal && !s.same_octets, "equal RDATA whose octets differ (case-insensitive name match)");
    kani::cover!(!s.equal, "unequal RDATA");
}

// ---- everything outside the table: octet equality ----------------------------

// @harness props=C19 tier=quick mem=2 t=900 fn="Rdata::equals (dispatch; all arms with the name helpers over-approximated)"
//   bound="EVERY class (u16) and type (u16) for which the reference table has no entry (includes A outside CH, SRV outside IN, TXT, AAAA, OPT, TSIG, unknown types); RDATA lengths (3,3) (3,4) (4,4), all octet values; unwind 8"
//   sym="class:u16, type:u16, a,b symbolic" stubs="names_equal/test_n_name_fields -> arbitrary result (over-approximation)"
#[kani::proof]
#[kani::unwind(8)]
#[kani::stub(helpers::names_equal, arbitrary_names_equal)]
#[kani::stub(helpers::test_n_name_fields, arbitrary_test_n_name_fields)]
fn c19_unlisted_types() {
    let class: u16 = kani::any();
    let ty: u16 = kani::any();
    kani::assume(ref_layout(class, ty).is_none());
    let e = unlisted::<3, 3>(class, ty);
    kani::cover!(e && ty == 1 && class == IN, "IN A compared");
    kani::cover!(!e && ty == 33 && class == CH, "SRV outside class IN compared");
    kani::cover!(ty == 0xff00, "private-use type compared");
    unlisted::<3, 4>(class, ty);
    unlisted::<4, 4>(class, ty);
}

// @harness props=C19 tier=quick mem=2 t=600 fn="Rdata::equals"
//   bound="concrete (class,type): IN A, HS A, CH SRV, IN TXT, IN AAAA, IN OPT, ANY TSIG, IN 0xff00; RDATA lengths (4,4) and (3,4), all octet values; no stubs; unwind 10"
//   sym="a:[u8;4], b:[u8;4]; a2:[u8;3]"
#[kani::proof]
#[kani::unwind(10)]
fn c19_other_types_real() {
    let a: [u8; 4] = kani::any();
    let b: [u8; 4] = kani::any();
    let a2: [u8; 3] = kani::any();
    let e = octets_equal(&a, &b);
    let list: [(u16, u16); 8] = [(IN, 1), (4, 1), (CH, 33), (IN, 16), (IN, 28), (IN, 41), (255, 250), (IN, 0xff00)];
    let mut i = 0;
    while i < list.len() {
        let (class, ty) = list[i];
        let c = Class::from(class);
        let t = Type::from(ty);
        assert!(ref_layout(class, ty).is_none(), "[C19] the listed types are outside the table");
        assert!(Rdata::from_unchecked(&a).equals(Rdata::from_unchecked(&b), c, t) == e, "[C19] equals is octet equality for a type outside the table");
        assert!(!Rdata::from_unchecked(&a2).equals(Rdata::from_unchecked(&b), c, t), "[C19] RDATA of different lengths are unequal for a type outside the table");
        i += 1;
    }
    kani::cover!(e, "octet-equal RDATA");
    kani::cover!(!e && names_ci_equal(&a, &b), "RDATA differing only in case are unequal for these types");
}

// ---- reflexivity, stated on its own ------------------------------------------

// @harness props=C19 tier=thorough mem=8 t=2400 fn="Rdata::equals,helpers::names_equal,helpers::test_n_name_fields,Name::try_from_uncompressed,<Name as PartialEq>::eq,<Label as PartialEq>::eq"
//   bound="type NS, any class; one RDATA of length 3 and one of length 4, each compared with itself, all octet values (reflexivity is also implied by equals == ref_equals on the equal-length pairs and asserted in every skeleton harness); unwind 6"
//   sym="a:[u8;3]; b:[u8;4]; class:u16" stubs="eq_ignore_ascii_case"
#[kani::proof]
#[kani::unwind(6)]
#[kani::stub(<[u8]>::eq_ignore_ascii_case, eq_ic_model)]
fn c19_ns_refl_3_4() {
    let class = any_class();
    refl::<3>(class, 2);
    refl::<4>(class, 2);
    kani::cover!(true, "reached");
}

// ---- transitivity -----------------------------------------------------------

// @harness props=C19 tier=thorough mem=8 t=2400 fn="Rdata::equals,helpers::names_equal,helpers::test_n_name_fields,Name::try_from_uncompressed,<Name as PartialEq>::eq,<Label as PartialEq>::eq"
//   bound="type NS, any class; three RDATA of lengths (3,3,3), all octet values; unwind 5"
//   sym="a,b,c:[u8;3], class:u16" stubs="eq_ignore_ascii_case"
#[kani::proof]
#[kani::unwind(5)]
#[kani::stub(<[u8]>::eq_ignore_ascii_case, eq_ic_model)]
fn c19_ns_triple_3_3_3() {
    let w = triple::<3, 3, 3>(any_class(), 2);
    kani::cover!(w, "a chain a ~ b ~ c through octet-different names");
}

// @harness props=C19 tier=thorough mem=12 t=3000 fn="Rdata::equals,helpers::names_equal,helpers::test_n_name_fields,Name::try_from_uncompressed,<Name as PartialEq>::eq,<Label as PartialEq>::eq"
//   bound="type NS, any class; three RDATA of lengths (3,4,3), all octet values; unwind 6"
//   sym="a,c:[u8;3], b:[u8;4], class:u16" stubs="eq_ignore_ascii_case"
#[kani::proof]
#[kani::unwind(6)]
#[kani::stub(<[u8]>::eq_ignore_ascii_case, eq_ic_model)]
fn c19_ns_triple_3_4_3() {
    triple::<3, 4, 3>(any_class(), 2);
    kani::cover!(true, "reached");
}

// ---- RdataSetOwned ----------------------------------------------------------

// @harness props=C19 tier=quick mem=2 t=600 fn="RdataSetOwned::from_iter"
//   bound="symbolic class and type; the empty sequence; unwind 3"
//   sym="class:u16, type:u16"
#[kani::proof]
#[kani::unwind(3)]
fn c19_set_from_iter_empty() {
    let class: u16 = kani::any();
    let ty: u16 = kani::any();
    let r = RdataSetOwned::from_iter(Class::from(class), Type::from(ty), std::iter::empty::<&Rdata>());
    assert!(r.is_none(), "[C19] from_iter of nothing is no set");
    kani::cover!(ty == 2, "type NS");
}

// @harness props=C19 tier=quick mem=2 t=600 fn="RdataSetOwned::from_iter,RdataSetOwned::insert,<RdataSetOwned as From<&Rdata>>::from,RdataSet::iter,<rdata_set::Iter as Iterator>::next,Rdata::equals"
//   bound="class IN type A; two RDATA of 4 octets, all octet values; from_iter; unwind 6"
//   sym="r1,r2:[u8;4]"
#[kani::proof]
#[kani::unwind(6)]
fn c19_set_a_from_iter() {
    let k2 = set2_from_iter::<4, 4>(IN, 1);
    kani::cover!(!k2, "second is a duplicate");
    kani::cover!(k2, "second is new");
}

// @harness props=C19 tier=quick mem=3 t=1800 fn="RdataSetOwned::from_iter,RdataSetOwned::insert,<RdataSetOwned as From<&Rdata>>::from,RdataSet::iter,<rdata_set::Iter as Iterator>::next,Rdata::equals"
//   bound="class IN type A; three RDATA of 4 octets, all octet values; from_iter; unwind 6"
//   sym="r1,r2,r3:[u8;4]"
#[kani::proof]
#[kani::unwind(6)]
fn c19_set_a_from_iter3() {
    let (k2, k3) = set3::<4, 4, 4, true>(IN, 1);
    kani::cover!(!k2 && k3, "second is a duplicate, third is new");
    kani::cover!(k2 && !k3, "third duplicates an earlier member");
}

// @harness props=C19 tier=quick mem=3 t=1800 fn="RdataSetOwned::from_iter,RdataSetOwned::insert,<RdataSetOwned as From<&Rdata>>::from,RdataSet::iter,<rdata_set::Iter as Iterator>::next,Rdata::equals"
//   bound="class IN type A; three RDATA of 4 octets, all octet values; From + insert, insert return values; unwind 6"
//   sym="r1,r2,r3:[u8;4]"
#[kani::proof]
#[kani::unwind(6)]
fn c19_set_a_insert() {
    let (k2, k3) = set3::<4, 4, 4, false>(IN, 1);
    kani::cover!(!k2 && k3, "second is a duplicate, third is new");
    kani::cover!(k2 && !k3, "third duplicates an earlier member");
}

// @harness props=C19 tier=thorough mem=7 t=1800 fn="RdataSetOwned::from_iter,RdataSetOwned::insert,<RdataSetOwned as From<&Rdata>>::from,RdataSet::iter,<rdata_set::Iter as Iterator>::next,Rdata::equals,Rdata::equals,helpers::names_equal,helpers::test_n_name_fields,Name::try_from_uncompressed,<Name as PartialEq>::eq,<Label as PartialEq>::eq"
//   bound="class IN type NS; two RDATA of lengths (3,3), all octet values; from_iter; unwind 7"
//   sym="r1,r2:[u8;3]" stubs="eq_ignore_ascii_case"
#[kani::proof]
#[kani::unwind(7)]
#[kani::stub(<[u8]>::eq_ignore_ascii_case, eq_ic_model)]
fn c19_set_ns_from_iter_3_3() {
    let k2 = set2_from_iter::<3, 3>(IN, 2);
    kani::cover!(!k2, "second is a duplicate");
    kani::cover!(k2, "second is new");
}

// @harness props=C19 tier=thorough mem=7 t=2400 fn="RdataSetOwned::from_iter,RdataSetOwned::insert,<RdataSetOwned as From<&Rdata>>::from,RdataSet::iter,<rdata_set::Iter as Iterator>::next,Rdata::equals,Rdata::equals,helpers::names_equal,helpers::test_n_name_fields,Name::try_from_uncompressed,<Name as PartialEq>::eq,<Label as PartialEq>::eq"
//   bound="class IN type NS; two RDATA of lengths (4,3) (name+junk, then the name), all octet values; from_iter; unwind 7"
//   sym="r1:[u8;4], r2:[u8;3]" stubs="eq_ignore_ascii_case"
#[kani::proof]
#[kani::unwind(7)]
#[kani::stub(<[u8]>::eq_ignore_ascii_case, eq_ic_model)]
fn c19_set_ns_from_iter_4_3() {
    let k2 = set2_from_iter::<4, 3>(IN, 2);
    kani::cover!(k2, "a name after name+junk is new");
}
