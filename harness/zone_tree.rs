// @host src/db/hash_map_tree/zone.rs
// @transform hashmap_model
//
// C06: HashMapTreeZone::{lookup, lookup_addrs, lookup_all} (lookup_base,
// lookup_impl) against RFC 1034 section 4.3.2 + RFC 4592 written over the
// harness's own table of facts; C20 (i): add's acceptance decision and adds
// at the apex.  (Iteration - iter_by_node, iter_by_rrset - is out of reach:
// see the report.)
//
// The zone is built by hand (struct literals of the private fields + the
// HashMap model's insert + the real RrsetList::add on stack-resident lists):
// node CREATION through HashMapTreeZone::add -> get_or_create_descendant goes
// through the HashMap model's entry() and is out of CBMC's reach (see the
// report); what is checked is the lookup code on zone trees of a fixed
// maximal shape whose CONTENTS are symbolic:
//
//   z.         apex      {SOA, NS, A} | {A}
//   *.z.       wildcard  absent | {A} | {CNAME} | {TXT}
//   d.z.       {NS} (zone cut) | {A} | {} (empty non-terminal)
//   g.d.z.     {A}       (glue / occluded when d.z. is a cut)
//   e.z.       {}        empty non-terminal
//   f.e.z.     {A} | {CNAME}
//   *.e.z.     absent | {A}
//
// = 2*4*3*2*2 = 96 zone contents, class IN (each harness varies the selectors
// that matter for its query name and fixes the others).  Every RRset has one RDATA
// and a TTL that encodes (node, type), so "the right RRset" is decided by the
// TTL.  One harness per query name (concrete), with symbolic
// search_below_cuts / unchecked flags and a symbolic query type.
//
// CBMC is run with --max-field-sensitivity-array-size 1024 (constants then
// survive the small heap objects of the tree) and with the
// eq_ignore_ascii_case stub of the C19 family.

use super::*;
use crate::kani_model::HashMap;
use crate::name::LabelBuf;

fn eq_ic_model(a: &[u8], b: &[u8]) -> bool {
    if a.len() != b.len() {
        return false;
    }
    let mut i = 0;
    while i < a.len() {
        if ref_lower(a[i]) != ref_lower(b[i]) {
            return false;
        }
        i += 1;
    }
    true
}

fn ref_lower(b: u8) -> u8 {
    if b >= b'A' && b <= b'Z' {
        b + 32
    } else {
        b
    }
}

// ---------------------------------------------------------------------------
// facts
// ---------------------------------------------------------------------------

const NN: usize = 7;
const Z: usize = 0;
const WZ: usize = 1;
const DZ: usize = 2;
const GDZ: usize = 3;
const EZ: usize = 4;
const FEZ: usize = 5;
const WEZ: usize = 6;

const NAMES: [&[u8]; NN] = [
    &[1, b'z', 0],
    &[1, b'*', 1, b'z', 0],
    &[1, b'd', 1, b'z', 0],
    &[1, b'g', 1, b'd', 1, b'z', 0],
    &[1, b'e', 1, b'z', 0],
    &[1, b'f', 1, b'e', 1, b'z', 0],
    &[1, b'*', 1, b'e', 1, b'z', 0],
];
const PARENT: [usize; NN] = [NN, Z, Z, DZ, Z, EZ, EZ];

// type indices
const NT: usize = 5;
const T_A: usize = 0;
const T_NS: usize = 1;
const T_CNAME: usize = 2;
const T_SOA: usize = 3;
const T_TXT: usize = 4;
const TYPE_CODES: [u16; NT] = [1, 2, 5, 6, 16];

#[derive(Clone, Copy)]
struct Facts {
    exists: [bool; NN],
    has: [[bool; NT]; NN],
}

fn ttl_id(node: usize, t: usize) -> u32 {
    (1000 * node + 10 * t + 1) as u32
}

fn rd_octet(node: usize, t: usize) -> u8 {
    (16 * node + t) as u8
}

/// The RrsetList holding the types in `has` (a CONSTANT in every caller).
fn rrsets(node: usize, has: [bool; NT]) -> RrsetList {
    let mut l = RrsetList::default();
    let mut t = 0;
    while t < NT {
        if has[t] {
            let rd = [rd_octet(node, t), 0];
            let r: &Rdata = match (&rd).try_into() {
                Ok(r) => r,
                Err(_) => {
                    assert!(false, "2 octets are valid RDATA");
                    return l;
                }
            };
            let ok = l.add(Class::IN, Type::from(TYPE_CODES[t]), Ttl::from(ttl_id(node, t)), r);
            assert!(ok.is_ok(), "building the zone");
        }
        t += 1;
    }
    l
}

fn nm(w: &[u8]) -> Box<Name> {
    match Name::try_from_uncompressed_all(w) {
        Ok(n) => n,
        Err(_) => {
            assert!(false, "pool names are valid");
            loop {}
        }
    }
}

fn mk_with(node: usize, rrsets: RrsetList) -> Node {
    Node { name: nm(NAMES[node]), children: HashMap::new(), data: NodeData { rrsets } }
}

fn mk(node: usize, has: [bool; NT]) -> Node {
    mk_with(node, rrsets(node, has))
}

fn attach(parent: &mut Node, label: &[u8; 1], child: Node) {
    core::mem::forget(parent.children.insert(LabelBuf::from(label), child));
}

const NONE_: [bool; NT] = [false; NT];
const ONLY_A: [bool; NT] = [true, false, false, false, false];
const ONLY_NS: [bool; NT] = [false, true, false, false, false];
const ONLY_CNAME: [bool; NT] = [false, false, true, false, false];
const ONLY_TXT: [bool; NT] = [false, false, false, false, true];
const APEX_FULL: [bool; NT] = [true, true, false, true, false];

struct Sel {
    apex: u8, // 0: {SOA, NS, A}   1: {A}
    w: u8,    // 0: absent  1: {A}  2: {CNAME}  3: {TXT}
    d: u8,    // 0: {NS}  1: {A}  2: {}
    f: u8,    // 0: {A}  1: {CNAME}
    we: u8,   // 0: absent  1: {A}
}

/// Selectors listed in `symbolic` (apex, w, d, f, we) are solver variables,
/// the others take the value in `fixed`.  Each query harness makes symbolic
/// the contents of the nodes on the query's path and of every wildcard that
/// could (rightly or wrongly) be used for it; nodes that a lookup of that
/// name has no business visiting keep a fixed content.
///
/// The SHAPE of the tree is concrete in every call: a symbolic `w` ranges
/// over the three contents of a PRESENT *.z. only; "no wildcard" (w = 0,
/// we = 0) is always a fixed choice of its own call.  (A child attached under
/// a symbolic condition makes the parent's Vec header symbolic for CBMC; the
/// same harness with a symbolic presence bit ran out of 10 GB.)
fn any_sel(symbolic: [bool; 5], fixed: [u8; 5]) -> Sel {
    let s = Sel {
        apex: if symbolic[0] { kani::any() } else { fixed[0] },
        w: if symbolic[1] { kani::any() } else { fixed[1] },
        d: if symbolic[2] { kani::any() } else { fixed[2] },
        f: if symbolic[3] { kani::any() } else { fixed[3] },
        we: fixed[4],
    };
    kani::assume(s.apex < 2 && s.w < 4 && s.d < 3 && s.f < 2 && s.we < 2);
    if symbolic[1] {
        kani::assume(s.w != 0);
    }
    s
}

/// The harness's own statement of what the zone contains.
fn facts(s: &Sel) -> Facts {
    let mut f = Facts { exists: [true; NN], has: [NONE_; NN] };
    f.has[Z] = if s.apex == 0 { APEX_FULL } else { ONLY_A };
    f.exists[WZ] = s.w != 0;
    f.has[WZ] = if s.w == 1 {
        ONLY_A
    } else if s.w == 2 {
        ONLY_CNAME
    } else if s.w == 3 {
        ONLY_TXT
    } else {
        NONE_
    };
    f.has[DZ] = if s.d == 0 {
        ONLY_NS
    } else if s.d == 1 {
        ONLY_A
    } else {
        NONE_
    };
    f.has[GDZ] = ONLY_A;
    f.has[EZ] = NONE_;
    f.has[FEZ] = if s.f == 0 { ONLY_A } else { ONLY_CNAME };
    f.exists[WEZ] = s.we != 0;
    f.has[WEZ] = if s.we == 1 { ONLY_A } else { NONE_ };
    f
}

/// Builds the real zone.  Every Vec::push happens on a header that is a
/// constant for CBMC: each match arm builds its node from scratch, and the
/// conditional (wildcard) children are attached last.
fn build(s: &Sel) -> HashMapTreeZone {
    let g = mk(GDZ, ONLY_A);
    let mut d = mk_with(
        DZ,
        match s.d {
            0 => rrsets(DZ, ONLY_NS),
            1 => rrsets(DZ, ONLY_A),
            _ => rrsets(DZ, NONE_),
        },
    );
    attach(&mut d, b"g", g);
    let f = mk_with(
        FEZ,
        match s.f {
            0 => rrsets(FEZ, ONLY_A),
            _ => rrsets(FEZ, ONLY_CNAME),
        },
    );
    let mut e = mk(EZ, NONE_);
    attach(&mut e, b"f", f);
    if s.we == 1 {
        attach(&mut e, b"*", mk(WEZ, ONLY_A));
    }
    let mut apex = mk_with(
        Z,
        match s.apex {
            0 => rrsets(Z, APEX_FULL),
            _ => rrsets(Z, ONLY_A),
        },
    );
    attach(&mut apex, b"d", d);
    attach(&mut apex, b"e", e);
    if s.w != 0 {
        let rr = match s.w {
            1 => rrsets(WZ, ONLY_A),
            2 => rrsets(WZ, ONLY_CNAME),
            _ => rrsets(WZ, ONLY_TXT),
        };
        attach(&mut apex, b"*", mk_with(WZ, rr));
    }
    HashMapTreeZone { class: Class::IN, glue_policy: GluePolicy::Narrow, apex }
}

// ---------------------------------------------------------------------------
// the reference: RFC 1034 section 4.3.2 step 3 + RFC 4592 section 3.3
// ---------------------------------------------------------------------------

fn ref_labels(w: &[u8]) -> ([usize; 8], usize) {
    let mut offs = [0usize; 8];
    let mut n = 0;
    let mut pos = 0;
    loop {
        offs[n] = pos;
        n += 1;
        let l = w[pos] as usize;
        if l == 0 {
            return (offs, n);
        }
        pos += 1 + l;
    }
}

fn ref_label_eq(a: &[u8], ao: usize, b: &[u8], bo: usize) -> bool {
    if a[ao] != b[bo] {
        return false;
    }
    let l = a[ao] as usize;
    let mut i = 1;
    while i <= l {
        if ref_lower(a[ao + i]) != ref_lower(b[bo + i]) {
            return false;
        }
        i += 1;
    }
    true
}

fn ref_in_zone(q: &[u8]) -> bool {
    let (qo, qc) = ref_labels(q);
    let (ao, ac) = ref_labels(NAMES[Z]);
    if ac > qc {
        return false;
    }
    let mut k = 0;
    while k < ac {
        if !ref_label_eq(NAMES[Z], ao[ac - 1 - k], q, qo[qc - 1 - k]) {
            return false;
        }
        k += 1;
    }
    true
}

#[derive(Clone, Copy, PartialEq, Eq)]
enum Want {
    WrongZone,
    NxDomain,
    /// referral to the zone cut at this node
    Referral(usize),
    /// the data of node `data` answers; `synth`: it is a wildcard used as the
    /// source of synthesis
    Node { data: usize, synth: bool },
}

fn ref_resolve(f: &Facts, q: &[u8], checked: bool, below_cuts: bool) -> Want {
    if checked && !ref_in_zone(q) {
        return Want::WrongZone;
    }
    let (qo, qc) = ref_labels(q);
    let (_, ac) = ref_labels(NAMES[Z]);
    // walk down from the apex, label by label (RFC 1034 4.3.2 step 3)
    let mut cur = Z;
    let mut idx = qc - ac;
    while idx > 0 {
        idx -= 1;
        let mut next = NN;
        let mut c = 1;
        while c < NN {
            if f.exists[c] && PARENT[c] == cur && ref_label_eq(q, qo[idx], NAMES[c], 0) {
                next = c;
            }
            c += 1;
        }
        if next == NN {
            // step 3c: `cur` is the closest encloser; RFC 4592 3.3.1: the
            // source of synthesis is *.<closest encloser>, if it exists
            let mut w = 1;
            while w < NN {
                if f.exists[w] && PARENT[w] == cur && NAMES[w][0] == 1 && NAMES[w][1] == b'*' {
                    return Want::Node { data: w, synth: true };
                }
                w += 1;
            }
            return Want::NxDomain;
        }
        cur = next;
        // step 3b: a node with NS below the apex is a zone cut, also when it
        // is the name asked for
        if !below_cuts && f.has[cur][T_NS] {
            return Want::Referral(cur);
        }
    }
    Want::Node { data: cur, synth: false }
}

fn same_name(n: &Name, w: &[u8]) -> bool {
    let r = n.wire_repr();
    if r.len() != w.len() {
        return false;
    }
    let mut i = 0;
    while i < w.len() {
        if r[i] != w[i] {
            return false;
        }
        i += 1;
    }
    true
}

fn check_sos(sos: &Option<Cow<Name>>, data: usize, synth: bool) {
    match sos {
        Some(n) => {
            assert!(synth, "[C06] a source of synthesis is reported only for wildcard-synthesized answers");
            assert!(same_name(n, NAMES[data]), "[C06] the source of synthesis is the wildcard of the closest encloser");
        }
        None => assert!(!synth, "[C06] a wildcard-synthesized answer reports its source of synthesis"),
    }
}

fn check_rrset(r: &SingleRrset, node: usize, t: usize) {
    assert!(u32::from(r.ttl) == ttl_id(node, t), "[C06] the RRset returned is the one stored at that node for that type");
    let mut it = r.rdatas.iter();
    match it.next() {
        Some(rd) => {
            let o = rd.octets();
            assert!(o.len() == 2 && o[0] == rd_octet(node, t) && o[1] == 0, "[C06] the RDATA returned is the one stored");
        }
        None => assert!(false, "[C06] an RRset is never empty"),
    }
    assert!(it.next().is_none(), "[C06] the RRset holds exactly the RDATA stored");
}

fn check_referral(r: &Referral, cut: usize) {
    assert!(same_name(&r.child_zone, NAMES[cut]), "[C06] the referral names the topmost zone cut on the path");
    check_rrset(&r.ns_rrset, cut, T_NS);
}

struct Witness {
    want: Want,
    checked: bool,
    below_cuts: bool,
    ti: usize,
}

/// All three lookups for one query name.
/// `kinds` (constants in every caller): run lookup / lookup_addrs / lookup_all.
/// All three share lookup_base + lookup_impl; what differs is the straight-line
/// mapping of its result.
fn run_query(q: &[u8], kinds: [bool; 3], allow_unchecked: bool, symbolic: [bool; 5], fixed: [u8; 5]) -> (Sel, Facts, Witness) {
    let s = any_sel(symbolic, fixed);
    let f = facts(&s);
    // never dropped: the recursive drop glue of the tree is not the subject
    let zone = core::mem::ManuallyDrop::new(build(&s));
    let below_cuts: bool = kani::any();
    let unchecked: bool = if allow_unchecked { kani::any() } else { false };
    let ti: usize = kani::any();
    kani::assume(ti < NT);
    let name = core::mem::ManuallyDrop::new(nm(q));
    let want = ref_resolve(&f, q, !unchecked, below_cuts);

    // single type
    if kinds[0] {
    let r = zone.lookup(&name, Type::from(TYPE_CODES[ti]), LookupOptions { unchecked, search_below_cuts: below_cuts });
    match (&r, want) {
        (LookupResult::WrongZone, Want::WrongZone) => {}
        (LookupResult::NxDomain, Want::NxDomain) => {}
        (LookupResult::Referral(rf), Want::Referral(cut)) => check_referral(rf, cut),
        (LookupResult::Found(found), Want::Node { data, synth }) => {
            assert!(f.has[data][ti], "[C06] data is found only where the node owns the type");
            check_rrset(&found.data, data, ti);
            check_sos(&found.source_of_synthesis, data, synth);
        }
        (LookupResult::Cname(c), Want::Node { data, synth }) => {
            assert!(!f.has[data][ti] && f.has[data][T_CNAME], "[C06] a CNAME is returned only when the type is absent and a CNAME is present");
            check_rrset(&c.rrset, data, T_CNAME);
            check_sos(&c.source_of_synthesis, data, synth);
        }
        (LookupResult::NoRecords(n), Want::Node { data, synth }) => {
            assert!(!f.has[data][ti] && !f.has[data][T_CNAME], "[C06] no-records is returned only when neither the type nor a CNAME is present");
            check_sos(&n.source_of_synthesis, data, synth);
        }
        _ => assert!(false, "[C06] lookup returns the kind of outcome RFC 1034 4.3.2 / RFC 4592 prescribe"),
    }
    core::mem::forget(r);
    }

    // addresses
    if kinds[1] {
    let ra = zone.lookup_addrs(&name, LookupOptions { unchecked, search_below_cuts: below_cuts });
    match (&ra, want) {
        (LookupAddrsResult::WrongZone, Want::WrongZone) => {}
        (LookupAddrsResult::NxDomain, Want::NxDomain) => {}
        (LookupAddrsResult::Referral(rf), Want::Referral(cut)) => check_referral(rf, cut),
        (LookupAddrsResult::Found(found), Want::Node { data, synth }) => {
            match &found.data.a_rrset {
                Some(a) => {
                    assert!(f.has[data][T_A], "[C06] an A RRset is returned only where the node owns one");
                    check_rrset(a, data, T_A);
                }
                None => assert!(!f.has[data][T_A], "[C06] the node's A RRset is returned by the address lookup"),
            }
            assert!(found.data.aaaa_rrset.is_none(), "[C06] no AAAA RRset is invented");
            check_sos(&found.source_of_synthesis, data, synth);
        }
        (LookupAddrsResult::Cname(c), Want::Node { data, synth }) => {
            // the trait allows this answer for a node without addresses that
            // owns a CNAME (HashMapTreeZone answers Found without addresses)
            assert!(!f.has[data][T_A] && f.has[data][T_CNAME], "[C06] an address lookup reports a CNAME only where one is present and no address is");
            check_rrset(&c.rrset, data, T_CNAME);
            check_sos(&c.source_of_synthesis, data, synth);
        }
        _ => assert!(false, "[C06] lookup_addrs returns the kind of outcome RFC 1034 4.3.2 / RFC 4592 prescribe"),
    }
    core::mem::forget(ra);
    }

    // all records
    if kinds[2] {
    let rl = zone.lookup_all(&name, LookupOptions { unchecked, search_below_cuts: below_cuts });
    match rl {
        LookupAllResult::WrongZone => assert!(want == Want::WrongZone, "[C06] lookup_all: wrong-zone only for names outside the zone"),
        LookupAllResult::NxDomain => assert!(want == Want::NxDomain, "[C06] lookup_all: name error only for names that neither exist nor match a wildcard"),
        LookupAllResult::Referral(rf) => match want {
            Want::Referral(cut) => check_referral(&rf, cut),
            _ => assert!(false, "[C06] lookup_all: a referral only at or below a zone cut"),
        },
        LookupAllResult::Found(found) => match want {
            Want::Node { data, synth } => {
                check_sos(&found.source_of_synthesis, data, synth);
                let mut seen = [false; NT];
                let mut it = found.data;
                let mut k = 0;
                while k < 4 {
                    if let Some(rs) = it.next() {
                        let code = u16::from(rs.rr_type);
                        let mut t = NT;
                        let mut j = 0;
                        while j < NT {
                            if TYPE_CODES[j] == code {
                                t = j;
                            }
                            j += 1;
                        }
                        assert!(t < NT, "[C06] lookup_all yields only the types stored at the node");
                        if t < NT {
                            assert!(f.has[data][t] && !seen[t], "[C06] lookup_all yields each RRset of the node once");
                            seen[t] = true;
                            let single: SingleRrset = rs.into();
                            check_rrset(&single, data, t);
                            core::mem::forget(single);
                        }
                    }
                    k += 1;
                }
                let mut t = 0;
                while t < NT {
                    assert!(seen[t] == f.has[data][t], "[C06] lookup_all yields every RRset of the node");
                    t += 1;
                }
                core::mem::forget(it);
            }
            _ => assert!(false, "[C06] lookup_all: data only for existing or synthesized names"),
        },
    }
    }
    (s, f, Witness { want, checked: !unchecked, below_cuts, ti })
}

const ALL: [bool; 3] = [true, true, true];
const ONLY_LOOKUP: [bool; 3] = [true, false, false];
// selector order: apex, *.z., d.z., f.e.z., *.e.z.
const FIXED: [u8; 5] = [0, 1, 0, 0, 1];
const NO_WILD_Z: [u8; 5] = [0, 0, 0, 0, 1];
const NO_WILD_EZ: [u8; 5] = [0, 1, 0, 0, 0];
const SYM_NONE: [bool; 5] = [false; 5];
const SYM_D: [bool; 5] = [false, false, true, false, false];
const SYM_W: [bool; 5] = [false, true, false, false, false];

// @harness props=C06 tier=thorough mem=8 t=3400 fn="HashMapTreeZone::lookup,lookup_addrs,lookup_all,lookup_base,lookup_impl,RrsetList::lookup"
//   bound="zone of the family header, d.z. in {NS (cut), A, empty} symbolic, rest fixed (apex full, *.z. A, f.e.z. A, *.e.z. A); query g.d.z.; all three lookups; search_below_cuts, unchecked, query type in {A,NS,CNAME,SOA,TXT} symbolic; unwind 8"
//   sym="1 content selector (3 zones), 2 option flags, type selector" stubs="eq_ignore_ascii_case" cbmc="--max-field-sensitivity-array-size 1024" kani="--no-assertion-reach-checks"
#[kani::proof]
#[kani::unwind(8)]
#[kani::stub(<[u8]>::eq_ignore_ascii_case, eq_ic_model)]
fn c06_query_below_cut() {
    let (s, _f, w) = run_query(NAMES[GDZ], ALL, true, SYM_D, FIXED);
    kani::cover!(w.want == Want::Referral(DZ), "referral from a name below the cut");
    kani::cover!(s.d == 0 && w.below_cuts && w.want == Want::Node { data: GDZ, synth: false }, "glue found below the cut with search_below_cuts");
    kani::cover!(s.d == 2 && w.want == Want::Node { data: GDZ, synth: false }, "found below an empty non-terminal");
}

// @harness props=C06 tier=quick mem=4 t=1800 fn="HashMapTreeZone::lookup,lookup_base,lookup_impl,RrsetList::lookup"
//   bound="same zone, d.z. symbolic; query d.z. itself (the cut is the name asked for); single-type lookup; flags and type symbolic; unwind 8"
//   sym="1 content selector (3 zones), 2 option flags, type selector" stubs="eq_ignore_ascii_case" cbmc="--max-field-sensitivity-array-size 1024" kani="--no-assertion-reach-checks"
#[kani::proof]
#[kani::unwind(8)]
#[kani::stub(<[u8]>::eq_ignore_ascii_case, eq_ic_model)]
fn c06_query_at_cut() {
    let (s, f, w) = run_query(NAMES[DZ], ONLY_LOOKUP, true, SYM_D, FIXED);
    kani::cover!(w.want == Want::Referral(DZ), "referral at the delegation point itself");
    kani::cover!(s.d == 0 && w.below_cuts && w.ti == T_NS, "the NS RRset of the cut is found with search_below_cuts");
    kani::cover!(s.d == 2 && !f.has[DZ][w.ti], "empty non-terminal: no records");
}

// @harness props=C06 tier=thorough mem=9 t=2400 fn="HashMapTreeZone::lookup,lookup_base,lookup_impl,RrsetList::lookup"
//   bound="same zone, *.z. present with content in {A, CNAME, TXT} symbolic, rest fixed; query k.z. (no such node: closest encloser is the apex); single-type lookup (with all three lookups the harness ran out of 20 GB); flags and type symbolic; unwind 8"
//   sym="1 content selector (3 zones), 2 option flags, type selector" stubs="eq_ignore_ascii_case" cbmc="--max-field-sensitivity-array-size 1024" kani="--no-assertion-reach-checks"
#[kani::proof]
#[kani::unwind(8)]
#[kani::stub(<[u8]>::eq_ignore_ascii_case, eq_ic_model)]
fn c06_query_wildcard_at_apex() {
    let (s, _f, w) = run_query(&[1, b'k', 1, b'z', 0], ONLY_LOOKUP, true, SYM_W, FIXED);
    kani::cover!(s.w == 2 && w.ti == T_A && w.want == Want::Node { data: WZ, synth: true }, "CNAME synthesized from the wildcard");
    kani::cover!(s.w == 3 && w.ti == T_TXT, "TXT synthesized from the wildcard");
    kani::cover!(s.w == 1 && w.ti == T_TXT, "wildcard without the type: no records, with source of synthesis");
}

// @harness props=C06 tier=thorough mem=4 t=1800 fn="HashMapTreeZone::lookup,lookup_addrs,lookup_all,lookup_base,lookup_impl"
//   bound="same zone without *.z. (fixed); queries k.z. (all three lookups) and *.z. (the wildcard name itself, absent; single-type lookup): name error; flags and type symbolic; unwind 8"
//   sym="2 option flags, type selector, per query" stubs="eq_ignore_ascii_case" cbmc="--max-field-sensitivity-array-size 1024" kani="--no-assertion-reach-checks"
#[kani::proof]
#[kani::unwind(8)]
#[kani::stub(<[u8]>::eq_ignore_ascii_case, eq_ic_model)]
fn c06_query_no_wildcard_at_apex() {
    let (_s, _f, w) = run_query(&[1, b'k', 1, b'z', 0], ALL, true, SYM_NONE, NO_WILD_Z);
    assert!(w.want == Want::NxDomain, "[C06] the reference says name error when the closest encloser has no wildcard");
    let (_s2, _f2, w2) = run_query(NAMES[WZ], ONLY_LOOKUP, true, SYM_NONE, NO_WILD_Z);
    assert!(w2.want == Want::NxDomain, "[C06] the reference says name error for the absent wildcard name");
    kani::cover!(w.below_cuts && !w.checked, "both options set");
}

// @harness props=C06 tier=thorough mem=13 t=3400 fn="HashMapTreeZone::lookup,lookup_base,lookup_impl,RrsetList::lookup"
//   bound="same zone; query k.e.z. (closest encloser is the empty non-terminal e.z.: only *.e.z. may be used, never *.z.) with *.e.z. present (and *.z. content symbolic) and with *.e.z. absent (name error although *.z. exists); single-type lookup; flags and type symbolic; unwind 8"
//   sym="1 content selector (3 zones), 2 option flags, type selector, per query" stubs="eq_ignore_ascii_case" cbmc="--max-field-sensitivity-array-size 1024" kani="--no-assertion-reach-checks"
#[kani::proof]
#[kani::unwind(8)]
#[kani::stub(<[u8]>::eq_ignore_ascii_case, eq_ic_model)]
fn c06_query_wildcard_below_ent() {
    let (_s, _f, w) = run_query(&[1, b'k', 1, b'e', 1, b'z', 0], ONLY_LOOKUP, true, SYM_W, FIXED);
    kani::cover!(w.want == Want::Node { data: WEZ, synth: true }, "synthesized from *.e.z.");
    let (_s2, _f2, w2) = run_query(&[1, b'k', 1, b'e', 1, b'z', 0], ONLY_LOOKUP, true, SYM_NONE, NO_WILD_EZ);
    assert!(w2.want == Want::NxDomain, "[C06] the reference says name error: the closest encloser e.z. has no wildcard");
}

// @harness props=C06 tier=thorough mem=4 t=1500 fn="HashMapTreeZone::lookup,lookup_all,lookup_base,lookup_impl,RrsetList::lookup"
//   bound="same zone, apex content in {SOA+NS+A, A} symbolic; query z. (the apex: its NS is not a cut); lookup + lookup_all; flags and type symbolic; unwind 8"
//   sym="1 content selector (2 zones), 2 option flags, type selector" stubs="eq_ignore_ascii_case" cbmc="--max-field-sensitivity-array-size 1024" kani="--no-assertion-reach-checks"
#[kani::proof]
#[kani::unwind(8)]
#[kani::stub(<[u8]>::eq_ignore_ascii_case, eq_ic_model)]
fn c06_query_apex() {
    let (s, _f, w) = run_query(NAMES[Z], [true, false, true], true, [true, false, false, false, false], FIXED);
    kani::cover!(s.apex == 0 && w.ti == T_NS && !w.below_cuts, "the apex NS RRset is found, not a referral");
    kani::cover!(s.apex == 1 && w.ti == T_SOA, "no SOA at the apex: no records");
}

// @harness props=C06 tier=quick mem=6 t=2400 fn="HashMapTreeZone::lookup,lookup_addrs,lookup_all,lookup_base"
//   bound="fixed zone; checked lookups (all three) of y. and of the root (names outside the zone), and of h.g.d.z. with d.z. symbolic (below glue: referral, or name error - no wildcard applies); flags and type symbolic; unwind 8"
//   sym="option flags, type selector; 1 content selector for h.g.d.z." stubs="eq_ignore_ascii_case" cbmc="--max-field-sensitivity-array-size 1024" kani="--no-assertion-reach-checks"
#[kani::proof]
#[kani::unwind(8)]
#[kani::stub(<[u8]>::eq_ignore_ascii_case, eq_ic_model)]
fn c06_query_outside_and_deep() {
    let (_s, _f, w) = run_query(&[1, b'y', 0], ALL, false, SYM_NONE, FIXED);
    assert!(w.want == Want::WrongZone, "[C06] the reference calls y. outside the zone");
    let (_s1, _f1, w1) = run_query(&[0], ONLY_LOOKUP, false, SYM_NONE, FIXED);
    assert!(w1.want == Want::WrongZone, "[C06] the reference calls the root outside the zone");
    let (s2, _f2, w2) = run_query(&[1, b'h', 1, b'g', 1, b'd', 1, b'z', 0], ONLY_LOOKUP, true, SYM_D, FIXED);
    kani::cover!(s2.d != 0 && w2.want == Want::NxDomain, "below an existing leaf: name error, the apex wildcard does not apply");
    kani::cover!(s2.d == 0 && !w2.below_cuts && w2.want == Want::Referral(DZ), "two labels below the cut: referral");
}

// ---------------------------------------------------------------------------
// C20 (i): HashMapTreeZone::add's acceptance decision, on the fixed zone
// ---------------------------------------------------------------------------

/// What single-type lookups say about the fixed zone: used to show that a
/// rejected add changed nothing observable.
fn observe_fixed_zone(zone: &HashMapTreeZone, f: &Facts) {
    let probes: [(&[u8], usize, usize); 2] = [(NAMES[Z], Z, T_A), (NAMES[FEZ], FEZ, T_A)];
    let mut k = 0;
    while k < 2 {
        let (q, node, t) = probes[k];
        let name = core::mem::ManuallyDrop::new(nm(q));
        let r = zone.lookup(&name, Type::from(TYPE_CODES[t]), LookupOptions { unchecked: false, search_below_cuts: false });
        match &r {
            LookupResult::Found(found) => {
                assert!(f.has[node][t], "[C20] a rejected add leaves lookups unchanged (no new RRset)");
                check_rrset_c20(&found.data, node, t);
            }
            LookupResult::NoRecords(_) => assert!(!f.has[node][t], "[C20] a rejected add leaves lookups unchanged (no RRset lost)"),
            _ => assert!(false, "[C20] a rejected add leaves lookups unchanged (same kind of outcome)"),
        }
        core::mem::forget(r);
        k += 1;
    }
}

fn check_rrset_c20(r: &SingleRrset, node: usize, t: usize) {
    assert!(u32::from(r.ttl) == ttl_id(node, t), "[C20] a rejected add leaves the RRset's TTL unchanged");
    let mut it = r.rdatas.iter();
    match it.next() {
        Some(rd) => {
            let o = rd.octets();
            assert!(o.len() == 2 && o[0] == rd_octet(node, t) && o[1] == 0, "[C20] a rejected add leaves the RDATA unchanged");
        }
        None => assert!(false, "[C20] an RRset is never empty"),
    }
    assert!(it.next().is_none(), "[C20] a rejected add adds no RDATA");
}

// @harness props=C20 tier=quick mem=3 t=1200 fn="HashMapTreeZone::add (acceptance decision),Name::eq_or_subdomain_of"
//   bound="fixed 7-node zone z. (class IN); add of an A record with any TTL and a class other than the zone's (CH, HS, 254): owners y., the root, k.y. (outside) are rejected NotInZone, owners Z. (apex, upper case), f.e.z., k.z. (inside) are rejected ClassMismatch; after the six rejected adds the A lookups at z. and f.e.z. are unchanged; unwind 8"
//   sym="ttl:u32 per add" stubs="eq_ignore_ascii_case" cbmc="--max-field-sensitivity-array-size 1024" kani="--no-assertion-reach-checks"
#[kani::proof]
#[kani::unwind(8)]
#[kani::stub(<[u8]>::eq_ignore_ascii_case, eq_ic_model)]
fn c20_add_rejections() {
    let s = any_sel(SYM_NONE, FIXED);
    let f = facts(&s);
    let mut zone = core::mem::ManuallyDrop::new(build(&s));
    let rd = [9u8, 9];
    let r: &Rdata = match (&rd).try_into() {
        Ok(r) => r,
        Err(_) => return,
    };
    // The classes are CONCRETE and differ from the zone's: `add` then cannot
    // reach the tree whatever the (for CBMC non-constant) outcome of the name
    // comparison is.  With the zone's own class - or a symbolic one - CBMC
    // also explores the accepting path (kani::assume does not prune it) and
    // with it node creation, which is out of reach (38 min, > 8 GB, measured).
    let outside: [&[u8]; 3] = [&[1, b'y', 0], &[0], &[1, b'k', 1, b'y', 0]];
    let classes: [u16; 3] = [3, 4, 254];
    let mut k = 0;
    while k < 3 {
        let ttl: u32 = kani::any();
        let owner = core::mem::ManuallyDrop::new(nm(outside[k]));
        let got = zone.add(&owner, Type::A, Class::from(classes[k]), Ttl::from(ttl), r);
        assert!(got == Err(Error::NotInZone), "[C20] an owner that is not at or below the apex is rejected as NotInZone (before its class is looked at)");
        k += 1;
    }
    let inside: [&[u8]; 3] = [&[1, b'Z', 0], NAMES[FEZ], &[1, b'k', 1, b'z', 0]];
    let mut k = 0;
    while k < 3 {
        let ttl: u32 = kani::any();
        let owner = core::mem::ManuallyDrop::new(nm(inside[k]));
        let got = zone.add(&owner, Type::A, Class::from(classes[k]), Ttl::from(ttl), r);
        assert!(got == Err(Error::ClassMismatch), "[C20] an owner inside the zone with another class is rejected as ClassMismatch");
        k += 1;
    }
    kani::cover!(true, "all six rejections were reached");
    observe_fixed_zone(&zone, &f);
}

// @harness props=C20 tier=thorough mem=3 t=1200 fn="HashMapTreeZone::add,RrsetList::add,RdataSetOwned::insert,HashMapTreeZone::lookup"
//   bound="fixed 7-node zone; one add at the apex (owner Z., class IN) of type A (RRset exists, TTL rule applies) with any TTL and any 2-octet RDATA, then one add of type TXT (new RRset) with any TTL; lookups of A and TXT at the apex afterwards; unwind 8"
//   sym="ttl:u32 x2, rdata:[u8;2]" stubs="eq_ignore_ascii_case" cbmc="--max-field-sensitivity-array-size 1024" kani="--no-assertion-reach-checks"
#[kani::proof]
#[kani::unwind(8)]
#[kani::stub(<[u8]>::eq_ignore_ascii_case, eq_ic_model)]
fn c20_add_at_apex() {
    let s = any_sel(SYM_NONE, FIXED);
    let mut zone = core::mem::ManuallyDrop::new(build(&s));
    let owner = core::mem::ManuallyDrop::new(nm(&[1, b'Z', 0]));
    let ttl: u32 = kani::any();
    let rd: [u8; 2] = kani::any();
    let r: &Rdata = match (&rd).try_into() {
        Ok(r) => r,
        Err(_) => return,
    };
    let norm = if ttl & 0x8000_0000 != 0 { 0 } else { ttl };
    let got = zone.add(&owner, Type::A, Class::IN, Ttl::from(ttl), r);
    let accept = norm == ttl_id(Z, T_A);
    assert!(got == if accept { Ok(()) } else { Err(Error::TtlMismatch) }, "[C20] an in-zone record of the zone's class is accepted exactly when its TTL matches its RRset's");
    let dup = rd[0] == rd_octet(Z, T_A) && rd[1] == 0;
    // the A RRset afterwards
    let apex = core::mem::ManuallyDrop::new(nm(NAMES[Z]));
    let ra = zone.lookup(&apex, Type::A, LookupOptions { unchecked: false, search_below_cuts: false });
    match &ra {
        LookupResult::Found(found) => {
            assert!(u32::from(found.data.ttl) == ttl_id(Z, T_A), "[C20] the RRset keeps its TTL");
            let mut it = found.data.rdatas.iter();
            match it.next() {
                Some(x) => assert!(x.octets().len() == 2 && x.octets()[0] == rd_octet(Z, T_A) && x.octets()[1] == 0, "[C20] the RDATA stored first stays first"),
                None => assert!(false, "[C20] an RRset is never empty"),
            }
            if accept && !dup {
                match it.next() {
                    Some(x) => assert!(x.octets().len() == 2 && x.octets()[0] == rd[0] && x.octets()[1] == rd[1], "[C20] an accepted record is stored"),
                    None => assert!(false, "[C20] an accepted record is stored"),
                }
            }
            assert!(it.next().is_none(), "[C20] a rejected or duplicate record stores nothing");
        }
        _ => assert!(false, "[C20] the apex A RRset is still found"),
    }
    core::mem::forget(ra);
    // a new RRset
    let ttl2: u32 = kani::any();
    let got2 = zone.add(&owner, Type::TXT, Class::IN, Ttl::from(ttl2), r);
    assert!(got2.is_ok(), "[C20] the first record of a new RRset is accepted with any TTL");
    let rt = zone.lookup(&apex, Type::TXT, LookupOptions { unchecked: false, search_below_cuts: false });
    match &rt {
        LookupResult::Found(found) => {
            let n2 = if ttl2 & 0x8000_0000 != 0 { 0 } else { ttl2 };
            assert!(u32::from(found.data.ttl) == n2, "[C20] the new RRset has its record's TTL");
        }
        _ => assert!(false, "[C20] the new RRset is found"),
    }
    core::mem::forget(rt);
    kani::cover!(accept && !dup, "a second A record accepted");
    kani::cover!(accept && dup, "a duplicate A record accepted and ignored");
    kani::cover!(!accept, "an A record rejected for its TTL");
    kani::cover!(ttl == 0x8000_0000 + 1, "a TTL with the top bit set");
}
