// @host src/db/hash_map_tree/zone.rs
// @transform hashmap_model
//
// C06: HashMapTreeZone::{lookup, lookup_addrs, lookup_all} (lookup_base,
// lookup_impl) against RFC 1034 section 4.3.2 + RFC 4592 written over the
// harness's own table of facts; C20 (i)/(iii): add's acceptance decision,
// iter_by_node / iter_by_rrset / soa / ns.
//
// The zone is built by hand (struct literals of the private fields + the
// HashMap model's insert + the real RrsetList::add on stack-resident lists):
// node CREATION through HashMapTreeZone::add -> get_or_create_descendant goes
// through the HashMap model's entry() and is out of CBMC's reach (see the
// report); what is checked is the lookup code on zone trees of a fixed
// maximal shape whose CONTENTS are symbolic:
//
//   z.         apex      {SOA, NS, A} | {A}
//   *.z.       wildcard  absent | {A} | {CNAME} | {TXT}
//   d.z.       {NS} (zone cut) | {A} | {} (empty non-terminal)
//   g.d.z.     {A}       (glue / occluded when d.z. is a cut)
//   e.z.       {}        empty non-terminal
//   f.e.z.     {A} | {CNAME}
//   *.e.z.     absent | {A}
//
// = 2*4*3*2*2 = 96 zone contents, class IN (each harness varies the selectors
// that matter for its query name and fixes the others).  Every RRset has one RDATA
// and a TTL that encodes (node, type), so "the right RRset" is decided by the
// TTL.  One harness per query name (concrete), with symbolic
// search_below_cuts / unchecked flags and a symbolic query type.
//
// CBMC is run with --max-field-sensitivity-array-size 1024 (constants then
// survive the small heap objects of the tree) and with the
// eq_ignore_ascii_case stub of the C19 family.

use super::*;
use crate::kani_model::HashMap;
use crate::name::LabelBuf;

fn eq_ic_model(a: &[u8], b: &[u8]) -> bool {
    if a.len() != b.len() {
        return false;
    }
    let mut i = 0;
    while i < a.len() {
        if ref_lower(a[i]) != ref_lower(b[i]) {
            return false;
        }
        i += 1;
    }
    true
}

fn ref_lower(b: u8) -> u8 {
    if b >= b'A' && b <= b'Z' {
        b + 32
    } else {
        b
    }
}

// ---------------------------------------------------------------------------
// facts
// ---------------------------------------------------------------------------

const NN: usize = 7;
const Z: usize = 0;
const WZ: usize = 1;
const DZ: usize = 2;
const GDZ: usize = 3;
const EZ: usize = 4;
const FEZ: usize = 5;
const WEZ: usize = 6;

const NAMES: [&[u8]; NN] = [
    &[1, b'z', 0],
    &[1, b'*', 1, b'z', 0],
    &[1, b'd', 1, b'z', 0],
    &[1, b'g', 1, b'd', 1, b'z', 0],
    &[1, b'e', 1, b'z', 0],
    &[1, b'f', 1, b'e', 1, b'z', 0],
    &[1, b'*', 1, b'e', 1, b'z', 0],
];
const PARENT: [usize; NN] = [NN, Z, Z, DZ, Z, EZ, EZ];

// type indices
const NT: usize = 5;
const T_A: usize = 0;
const T_NS: usize = 1;
const T_CNAME: usize = 2;
const T_SOA: usize = 3;
const T_TXT: usize = 4;
const TYPE_CODES: [u16; NT] = [1, 2, 5, 6, 16];

#[derive(Clone, Copy)]
struct Facts {
    exists: [bool; NN],
    has: [[bool; NT]; NN],
}

fn ttl_id(node: usize, t: usize) -> u32 {
    (1000 * node + 10 * t + 1) as u32
}

fn rd_octet(node: usize, t: usize) -> u8 {
    (16 * node + t) as u8
}

/// The RrsetList holding the types in `has` (a CONSTANT in every caller).
fn rrsets(node: usize, has: [bool; NT]) -> RrsetList {
    let mut l = RrsetList::default();
    let mut t = 0;
    while t < NT {
        if has[t] {
            let rd = [rd_octet(node, t), 0];
            let r: &Rdata = match (&rd).try_into() {
                Ok(r) => r,
                Err(_) => {
                    assert!(false, "2 octets are valid RDATA");
                    return l;
                }
            };
            let ok = l.add(Class::IN, Type::from(TYPE_CODES[t]), Ttl::from(ttl_id(node, t)), r);
            assert!(ok.is_ok(), "building the zone");
        }
        t += 1;
    }
    l
}

fn nm(w: &[u8]) -> Box<Name> {
    match Name::try_from_uncompressed_all(w) {
        Ok(n) => n,
        Err(_) => {
            assert!(false, "pool names are valid");
            loop {}
        }
    }
}

fn mk_with(node: usize, rrsets: RrsetList) -> Node {
    Node { name: nm(NAMES[node]), children: HashMap::new(), data: NodeData { rrsets } }
}

fn mk(node: usize, has: [bool; NT]) -> Node {
    mk_with(node, rrsets(node, has))
}

fn attach(parent: &mut Node, label: &[u8; 1], child: Node) {
    core::mem::forget(parent.children.insert(LabelBuf::from(label), child));
}

const NONE_: [bool; NT] = [false; NT];
const ONLY_A: [bool; NT] = [true, false, false, false, false];
const ONLY_NS: [bool; NT] = [false, true, false, false, false];
const ONLY_CNAME: [bool; NT] = [false, false, true, false, false];
const ONLY_TXT: [bool; NT] = [false, false, false, false, true];
const APEX_FULL: [bool; NT] = [true, true, false, true, false];

struct Sel {
    apex: u8, // 0: {SOA, NS, A}   1: {A}
    w: u8,    // 0: absent  1: {A}  2: {CNAME}  3: {TXT}
    d: u8,    // 0: {NS}  1: {A}  2: {}
    f: u8,    // 0: {A}  1: {CNAME}
    we: u8,   // 0: absent  1: {A}
}

/// Selectors listed in `symbolic` (apex, w, d, f, we) are solver variables,
/// the others take the value in `fixed`.  Each query harness makes symbolic
/// the contents of the nodes on the query's path and of every wildcard that
/// could (rightly or wrongly) be used for it; nodes that a lookup of that
/// name has no business visiting keep a fixed content.
fn any_sel(symbolic: [bool; 5], fixed: [u8; 5]) -> Sel {
    let s = Sel {
        apex: if symbolic[0] { kani::any() } else { fixed[0] },
        w: if symbolic[1] { kani::any() } else { fixed[1] },
        d: if symbolic[2] { kani::any() } else { fixed[2] },
        f: if symbolic[3] { kani::any() } else { fixed[3] },
        we: if symbolic[4] { kani::any() } else { fixed[4] },
    };
    kani::assume(s.apex < 2 && s.w < 4 && s.d < 3 && s.f < 2 && s.we < 2);
    s
}

/// The harness's own statement of what the zone contains.
fn facts(s: &Sel) -> Facts {
    let mut f = Facts { exists: [true; NN], has: [NONE_; NN] };
    f.has[Z] = if s.apex == 0 { APEX_FULL } else { ONLY_A };
    f.exists[WZ] = s.w != 0;
    f.has[WZ] = if s.w == 1 {
        ONLY_A
    } else if s.w == 2 {
        ONLY_CNAME
    } else if s.w == 3 {
        ONLY_TXT
    } else {
        NONE_
    };
    f.has[DZ] = if s.d == 0 {
        ONLY_NS
    } else if s.d == 1 {
        ONLY_A
    } else {
        NONE_
    };
    f.has[GDZ] = ONLY_A;
    f.has[EZ] = NONE_;
    f.has[FEZ] = if s.f == 0 { ONLY_A } else { ONLY_CNAME };
    f.exists[WEZ] = s.we != 0;
    f.has[WEZ] = if s.we == 1 { ONLY_A } else { NONE_ };
    f
}

/// Builds the real zone.  Every Vec::push happens on a header that is a
/// constant for CBMC: each match arm builds its node from scratch, and the
/// conditional (wildcard) children are attached last.
fn build(s: &Sel) -> HashMapTreeZone {
    let g = mk(GDZ, ONLY_A);
    let mut d = mk_with(
        DZ,
        match s.d {
            0 => rrsets(DZ, ONLY_NS),
            1 => rrsets(DZ, ONLY_A),
            _ => rrsets(DZ, NONE_),
        },
    );
    attach(&mut d, b"g", g);
    let f = mk_with(
        FEZ,
        match s.f {
            0 => rrsets(FEZ, ONLY_A),
            _ => rrsets(FEZ, ONLY_CNAME),
        },
    );
    let mut e = mk(EZ, NONE_);
    attach(&mut e, b"f", f);
    if s.we == 1 {
        attach(&mut e, b"*", mk(WEZ, ONLY_A));
    }
    let mut apex = mk_with(
        Z,
        match s.apex {
            0 => rrsets(Z, APEX_FULL),
            _ => rrsets(Z, ONLY_A),
        },
    );
    attach(&mut apex, b"d", d);
    attach(&mut apex, b"e", e);
    if s.w != 0 {
        let rr = match s.w {
            1 => rrsets(WZ, ONLY_A),
            2 => rrsets(WZ, ONLY_CNAME),
            _ => rrsets(WZ, ONLY_TXT),
        };
        attach(&mut apex, b"*", mk_with(WZ, rr));
    }
    HashMapTreeZone { class: Class::IN, glue_policy: GluePolicy::Narrow, apex }
}

// ---------------------------------------------------------------------------
// the reference: RFC 1034 section 4.3.2 step 3 + RFC 4592 section 3.3
// ---------------------------------------------------------------------------

fn ref_labels(w: &[u8]) -> ([usize; 8], usize) {
    let mut offs = [0usize; 8];
    let mut n = 0;
    let mut pos = 0;
    loop {
        offs[n] = pos;
        n += 1;
        let l = w[pos] as usize;
        if l == 0 {
            return (offs, n);
        }
        pos += 1 + l;
    }
}

fn ref_label_eq(a: &[u8], ao: usize, b: &[u8], bo: usize) -> bool {
    if a[ao] != b[bo] {
        return false;
    }
    let l = a[ao] as usize;
    let mut i = 1;
    while i <= l {
        if ref_lower(a[ao + i]) != ref_lower(b[bo + i]) {
            return false;
        }
        i += 1;
    }
    true
}

fn ref_in_zone(q: &[u8]) -> bool {
    let (qo, qc) = ref_labels(q);
    let (ao, ac) = ref_labels(NAMES[Z]);
    if ac > qc {
        return false;
    }
    let mut k = 0;
    while k < ac {
        if !ref_label_eq(NAMES[Z], ao[ac - 1 - k], q, qo[qc - 1 - k]) {
            return false;
        }
        k += 1;
    }
    true
}

#[derive(Clone, Copy, PartialEq, Eq)]
enum Want {
    WrongZone,
    NxDomain,
    /// referral to the zone cut at this node
    Referral(usize),
    /// the data of node `data` answers; `synth`: it is a wildcard used as the
    /// source of synthesis
    Node { data: usize, synth: bool },
}

fn ref_resolve(f: &Facts, q: &[u8], checked: bool, below_cuts: bool) -> Want {
    if checked && !ref_in_zone(q) {
        return Want::WrongZone;
    }
    let (qo, qc) = ref_labels(q);
    let (_, ac) = ref_labels(NAMES[Z]);
    // walk down from the apex, label by label (RFC 1034 4.3.2 step 3)
    let mut cur = Z;
    let mut idx = qc - ac;
    while idx > 0 {
        idx -= 1;
        let mut next = NN;
        let mut c = 1;
        while c < NN {
            if f.exists[c] && PARENT[c] == cur && ref_label_eq(q, qo[idx], NAMES[c], 0) {
                next = c;
            }
            c += 1;
        }
        if next == NN {
            // step 3c: `cur` is the closest encloser; RFC 4592 3.3.1: the
            // source of synthesis is *.<closest encloser>, if it exists
            let mut w = 1;
            while w < NN {
                if f.exists[w] && PARENT[w] == cur && NAMES[w][0] == 1 && NAMES[w][1] == b'*' {
                    return Want::Node { data: w, synth: true };
                }
                w += 1;
            }
            return Want::NxDomain;
        }
        cur = next;
        // step 3b: a node with NS below the apex is a zone cut, also when it
        // is the name asked for
        if !below_cuts && f.has[cur][T_NS] {
            return Want::Referral(cur);
        }
    }
    Want::Node { data: cur, synth: false }
}

fn same_name(n: &Name, w: &[u8]) -> bool {
    let r = n.wire_repr();
    if r.len() != w.len() {
        return false;
    }
    let mut i = 0;
    while i < w.len() {
        if r[i] != w[i] {
            return false;
        }
        i += 1;
    }
    true
}

fn check_sos(sos: &Option<Cow<Name>>, data: usize, synth: bool) {
    match sos {
        Some(n) => {
            assert!(synth, "[C06] a source of synthesis is reported only for wildcard-synthesized answers");
            assert!(same_name(n, NAMES[data]), "[C06] the source of synthesis is the wildcard of the closest encloser");
        }
        None => assert!(!synth, "[C06] a wildcard-synthesized answer reports its source of synthesis"),
    }
}

fn check_rrset(r: &SingleRrset, node: usize, t: usize) {
    assert!(u32::from(r.ttl) == ttl_id(node, t), "[C06] the RRset returned is the one stored at that node for that type");
    let mut it = r.rdatas.iter();
    match it.next() {
        Some(rd) => {
            let o = rd.octets();
            assert!(o.len() == 2 && o[0] == rd_octet(node, t) && o[1] == 0, "[C06] the RDATA returned is the one stored");
        }
        None => assert!(false, "[C06] an RRset is never empty"),
    }
    assert!(it.next().is_none(), "[C06] the RRset holds exactly the RDATA stored");
}

fn check_referral(r: &Referral, cut: usize) {
    assert!(same_name(&r.child_zone, NAMES[cut]), "[C06] the referral names the topmost zone cut on the path");
    check_rrset(&r.ns_rrset, cut, T_NS);
}

struct Witness {
    want: Want,
    checked: bool,
    below_cuts: bool,
    ti: usize,
}

/// All three lookups for one query name.
fn run_query(q: &[u8], allow_unchecked: bool, symbolic: [bool; 5], fixed: [u8; 5]) -> (Sel, Facts, Witness) {
    let s = any_sel(symbolic, fixed);
    let f = facts(&s);
    // never dropped: the recursive drop glue of the tree is not the subject
    let zone = core::mem::ManuallyDrop::new(build(&s));
    let below_cuts: bool = kani::any();
    let unchecked: bool = if allow_unchecked { kani::any() } else { false };
    let ti: usize = kani::any();
    kani::assume(ti < NT);
    let name = core::mem::ManuallyDrop::new(nm(q));
    let want = ref_resolve(&f, q, !unchecked, below_cuts);

    // single type
    let r = zone.lookup(&name, Type::from(TYPE_CODES[ti]), LookupOptions { unchecked, search_below_cuts: below_cuts });
    match (&r, want) {
        (LookupResult::WrongZone, Want::WrongZone) => {}
        (LookupResult::NxDomain, Want::NxDomain) => {}
        (LookupResult::Referral(rf), Want::Referral(cut)) => check_referral(rf, cut),
        (LookupResult::Found(found), Want::Node { data, synth }) => {
            assert!(f.has[data][ti], "[C06] data is found only where the node owns the type");
            check_rrset(&found.data, data, ti);
            check_sos(&found.source_of_synthesis, data, synth);
        }
        (LookupResult::Cname(c), Want::Node { data, synth }) => {
            assert!(!f.has[data][ti] && f.has[data][T_CNAME], "[C06] a CNAME is returned only when the type is absent and a CNAME is present");
            check_rrset(&c.rrset, data, T_CNAME);
            check_sos(&c.source_of_synthesis, data, synth);
        }
        (LookupResult::NoRecords(n), Want::Node { data, synth }) => {
            assert!(!f.has[data][ti] && !f.has[data][T_CNAME], "[C06] no-records is returned only when neither the type nor a CNAME is present");
            check_sos(&n.source_of_synthesis, data, synth);
        }
        _ => assert!(false, "[C06] lookup returns the kind of outcome RFC 1034 4.3.2 / RFC 4592 prescribe"),
    }
    core::mem::forget(r);

    // addresses
    let ra = zone.lookup_addrs(&name, LookupOptions { unchecked, search_below_cuts: below_cuts });
    match (&ra, want) {
        (LookupAddrsResult::WrongZone, Want::WrongZone) => {}
        (LookupAddrsResult::NxDomain, Want::NxDomain) => {}
        (LookupAddrsResult::Referral(rf), Want::Referral(cut)) => check_referral(rf, cut),
        (LookupAddrsResult::Found(found), Want::Node { data, synth }) => {
            match &found.data.a_rrset {
                Some(a) => {
                    assert!(f.has[data][T_A], "[C06] an A RRset is returned only where the node owns one");
                    check_rrset(a, data, T_A);
                }
                None => assert!(!f.has[data][T_A], "[C06] the node's A RRset is returned by the address lookup"),
            }
            assert!(found.data.aaaa_rrset.is_none(), "[C06] no AAAA RRset is invented");
            check_sos(&found.source_of_synthesis, data, synth);
        }
        (LookupAddrsResult::Cname(c), Want::Node { data, synth }) => {
            // the trait allows this answer for a node without addresses that
            // owns a CNAME (HashMapTreeZone answers Found without addresses)
            assert!(!f.has[data][T_A] && f.has[data][T_CNAME], "[C06] an address lookup reports a CNAME only where one is present and no address is");
            check_rrset(&c.rrset, data, T_CNAME);
            check_sos(&c.source_of_synthesis, data, synth);
        }
        _ => assert!(false, "[C06] lookup_addrs returns the kind of outcome RFC 1034 4.3.2 / RFC 4592 prescribe"),
    }
    core::mem::forget(ra);

    // all records
    let rl = zone.lookup_all(&name, LookupOptions { unchecked, search_below_cuts: below_cuts });
    match rl {
        LookupAllResult::WrongZone => assert!(want == Want::WrongZone, "[C06] lookup_all: wrong-zone only for names outside the zone"),
        LookupAllResult::NxDomain => assert!(want == Want::NxDomain, "[C06] lookup_all: name error only for names that neither exist nor match a wildcard"),
        LookupAllResult::Referral(rf) => match want {
            Want::Referral(cut) => check_referral(&rf, cut),
            _ => assert!(false, "[C06] lookup_all: a referral only at or below a zone cut"),
        },
        LookupAllResult::Found(found) => match want {
            Want::Node { data, synth } => {
                check_sos(&found.source_of_synthesis, data, synth);
                let mut seen = [false; NT];
                let mut it = found.data;
                let mut k = 0;
                while k < 4 {
                    if let Some(rs) = it.next() {
                        let code = u16::from(rs.rr_type);
                        let mut t = NT;
                        let mut j = 0;
                        while j < NT {
                            if TYPE_CODES[j] == code {
                                t = j;
                            }
                            j += 1;
                        }
                        assert!(t < NT, "[C06] lookup_all yields only the types stored at the node");
                        if t < NT {
                            assert!(f.has[data][t] && !seen[t], "[C06] lookup_all yields each RRset of the node once");
                            seen[t] = true;
                            let single: SingleRrset = rs.into();
                            check_rrset(&single, data, t);
                            core::mem::forget(single);
                        }
                    }
                    k += 1;
                }
                let mut t = 0;
                while t < NT {
                    assert!(seen[t] == f.has[data][t], "[C06] lookup_all yields every RRset of the node");
                    t += 1;
                }
                core::mem::forget(it);
            }
            _ => assert!(false, "[C06] lookup_all: data only for existing or synthesized names"),
        },
    }
    (s, f, Witness { want, checked: !unchecked, below_cuts, ti })
}

// @harness props=C06 tier=quick mem=6 t=2400 fn="HashMapTreeZone::lookup,lookup_addrs,lookup_all,lookup_base,lookup_impl,RrsetList::lookup"
//   bound="zone of the family header with d.z. in {NS (cut), A, empty} and *.z. in {absent, A, CNAME, TXT} symbolic (others fixed: apex full, f.e.z. A, *.e.z. present); query g.d.z. (below the possible cut d.z.); search_below_cuts, unchecked, query type in {A,NS,CNAME,SOA,TXT} symbolic; unwind 8"
//   sym="2 content selectors (12 zones), 2 option flags, type selector" stubs="eq_ignore_ascii_case" cbmc="--max-field-sensitivity-array-size 1024"
#[kani::proof]
#[kani::unwind(8)]
#[kani::stub(<[u8]>::eq_ignore_ascii_case, eq_ic_model)]
fn c06_query_below_cut() {
    let (s, _f, w) = run_query(NAMES[GDZ], true, [false, false, true, false, false], [0, 1, 0, 0, 1]);
    kani::cover!(w.want == Want::Referral(DZ), "referral from a name below the cut");
    kani::cover!(s.d == 0 && w.below_cuts && w.want == Want::Node { data: GDZ, synth: false }, "glue found below the cut with search_below_cuts");
    kani::cover!(s.d == 2 && w.want == Want::Node { data: GDZ, synth: false }, "found below an empty non-terminal");
}
