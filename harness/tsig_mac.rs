// @host src/message/tsig.rs
//
// C11: which octets quandary feeds to the TSIG MAC, in which order, what it
// serialises into the TSIG RDATA and what it does with the MAC verdict -
// against RFC 8945 section 4.3 / 5.2 written out independently below.
// (Also carries the C10 decisions about check_time / check_mac_size.)
//
// Stub S5.  `hmac`/`sha1`/`sha2` are compiled with the `asm` feature and are
// outside Kani's reach, so `Algorithm::make_authenticator` is replaced by
// `recording_authenticator`, which hands out a `RecordingMac`:
//   * update(data)  appends every octet of `data` to the global recording
//                   REC[..REC_LEN] (REC_MADE counts authenticators created);
//   * finalize()    returns model_mac(key, recording): `output_size` octets,
//                   a position-wise XOR fold of key and stream (each stream
//                   octet rotated by its row number, the stream length mixed
//                   into the last octet) - deterministic, and every stream
//                   octet and every key octet influences it;
//   * verify_truncated_left(tag) = tag is a non-empty prefix (at most
//                   output_size octets) of that MAC, as digest::Mac does.
// HMAC-SHA1/256 themselves are the trusted primitive.  What is decided here
// is the octet stream (compared octet by octet with the harness's own RFC
// 8945 stream), the RDATA, and the verdict logic around the MAC.
//
// Native replay (`cargo kani playback`) does not apply #[kani::stub]: there
// the real HMAC runs, REC stays empty and a counterexample of a stubbed
// harness need not reproduce.

use super::*;
use crate::kani_common::*;
use crate::rr::Ttl;

// --------------------------------------------------------------------------
// Stub S5: RecordingMac
// --------------------------------------------------------------------------

pub(crate) const REC_CAP: usize = 128;
/// Every key used by the harness families has exactly this many octets.
pub(crate) const KEY_LEN: usize = 2;
pub(crate) const MAC_MAX: usize = 32;
/// rows of `out` octets that cover REC_CAP for the smallest output size (20)
const ROWS: usize = 7;

pub(crate) static mut REC: [u8; REC_CAP] = [0; REC_CAP];
pub(crate) static mut REC_LEN: usize = 0;
pub(crate) static mut REC_MADE: usize = 0;
pub(crate) static mut REC_OVERFLOW: bool = false;

/// `OUT` = output size of the modelled algorithm (a type-level constant, so
/// that allocation sizes stay concrete for CBMC).
pub(crate) struct RecordingMac<const OUT: usize> {
    key: [u8; KEY_LEN],
}

/// The MAC model: `out` octets computed from the key and stream[..n]:
/// m[j] = key[j mod KEY_LEN] ^ XOR_r rotl(stream[j + r*out], r), and the
/// stream length is mixed into the last octet.
pub(crate) fn model_mac(key: &[u8; KEY_LEN], stream: &[u8; REC_CAP], n: usize, out: usize) -> [u8; MAC_MAX] {
    let mut m = [0u8; MAC_MAX];
    let mut j = 0;
    while j < out {
        let mut v = key[j % KEY_LEN];
        let mut r = 0;
        while r < ROWS {
            let i = j + r * out;
            if i < n && i < REC_CAP {
                v ^= stream[i].rotate_left(r as u32);
            }
            r += 1;
        }
        m[j] = v;
        j += 1;
    }
    m[out - 1] ^= n as u8;
    m
}

impl<const OUT: usize> Authenticator for RecordingMac<OUT> {
    fn update(&mut self, data: &[u8]) {
        let mut i = 0;
        while i < data.len() {
            unsafe {
                if REC_LEN < REC_CAP {
                    REC[REC_LEN] = data[i];
                    REC_LEN += 1;
                } else {
                    REC_OVERFLOW = true;
                }
            }
            i += 1;
        }
    }

    fn finalize(self: Box<Self>) -> Box<[u8]> {
        let m = unsafe { model_mac(&self.key, &*core::ptr::addr_of!(REC), REC_LEN, OUT) };
        let mut v = [0u8; OUT];
        let mut j = 0;
        while j < OUT {
            v[j] = m[j];
            j += 1;
        }
        let b: Box<[u8]> = Box::new(v);
        b
    }

    fn verify_truncated_left(self: Box<Self>, tag: &[u8]) -> Result<(), MacError> {
        // digest::Mac::verify_truncated_left: empty or over-long tags fail
        let n = tag.len();
        if n == 0 || n > OUT {
            return Err(MacError);
        }
        let m = unsafe { model_mac(&self.key, &*core::ptr::addr_of!(REC), REC_LEN, OUT) };
        let mut ok = true;
        let mut j = 0;
        while j < n {
            if tag[j] != m[j] {
                ok = false;
            }
            j += 1;
        }
        if ok {
            Ok(())
        } else {
            Err(MacError)
        }
    }
}

/// Replacement for `Algorithm::make_authenticator` (same signature).
pub(crate) fn recording_authenticator(alg: &Algorithm, key: &[u8]) -> Box<dyn Authenticator> {
    assert!(key.len() == KEY_LEN, "harness keys have exactly KEY_LEN octets");
    let k = [key[0], key[1]];
    unsafe {
        REC_MADE += 1;
        REC_LEN = 0;
    }
    match alg {
        Algorithm::HmacSha1 => Box::new(RecordingMac::<20> { key: k }),
        Algorithm::HmacSha256 => Box::new(RecordingMac::<32> { key: k }),
    }
}

// --------------------------------------------------------------------------
// The harness's own RFC 8945 section 4.3 digest stream
// --------------------------------------------------------------------------

pub(crate) struct Stream {
    pub s: [u8; REC_CAP],
    pub n: usize,
}

impl Stream {
    pub fn new() -> Self {
        Stream { s: [0; REC_CAP], n: 0 }
    }
    pub fn b(&mut self, v: u8) {
        self.s[self.n] = v;
        self.n += 1;
    }
    pub fn u16(&mut self, v: u16) {
        self.b((v >> 8) as u8);
        self.b(v as u8);
    }
    pub fn all(&mut self, d: &[u8]) {
        let mut i = 0;
        while i < d.len() {
            self.b(d[i]);
            i += 1;
        }
    }
    /// 4.3.1: request MAC (or prior MAC) as length + octets
    pub fn prior_mac(&mut self, mac: &[u8]) {
        self.u16(mac.len() as u16);
        self.all(mac);
    }
    /// 4.3.2: the DNS message with the original ID and without the TSIG RR
    /// (ARCOUNT decremented); `msg` is the message up to the TSIG RR.
    pub fn message(&mut self, msg: &[u8], original_id: u16) {
        self.u16(original_id);
        let mut i = 2;
        while i < 10 {
            self.b(msg[i]);
            i += 1;
        }
        let ar = be16(msg, 10);
        self.u16(ar.wrapping_sub(1));
        let mut i = 12;
        while i < msg.len() {
            self.b(msg[i]);
            i += 1;
        }
    }
    /// 4.3.3: NAME, CLASS ANY, TTL 0, algorithm name, time signed, fudge,
    /// error, other len, other data
    pub fn variables(&mut self, key_name: &[u8], alg_name: &[u8], time: &[u8; 6], fudge: u16, error: u16, other: &[u8]) {
        self.all(key_name);
        self.u16(255);
        self.u16(0);
        self.u16(0);
        self.all(alg_name);
        self.timers(time, fudge);
        self.u16(error);
        self.u16(other.len() as u16);
        self.all(other);
    }
    /// 4.3.3.1: time signed, fudge
    pub fn timers(&mut self, time: &[u8; 6], fudge: u16) {
        self.all(time);
        self.u16(fudge);
    }
}

pub(crate) const KEY_NAME_WIRE: [u8; 3] = [1, b'k', 0];
pub(crate) const SHA1_WIRE: [u8; 11] = [9, b'h', b'm', b'a', b'c', b'-', b's', b'h', b'a', b'1', 0];
pub(crate) const SHA256_WIRE: [u8; 13] = [11, b'h', b'm', b'a', b'c', b'-', b's', b'h', b'a', b'2', b'5', b'6', 0];

pub(crate) fn key_name() -> Box<LowercaseName> {
    Name::try_from_uncompressed_all(&KEY_NAME_WIRE).unwrap().into()
}

fn reset_recording() {
    unsafe {
        REC_LEN = 0;
        REC_MADE = 0;
        REC_OVERFLOW = false;
    }
}

/// The recorded stream equals `e`, octet for octet.
fn same_stream(e: &Stream) {
    unsafe {
        assert!(!REC_OVERFLOW, "[C11] recording overflow (harness capacity)");
        assert!(REC_LEN == e.n, "[C11] MAC input has the length of the RFC 8945 4.3 digest stream");
        let mut i = 0;
        while i < e.n {
            assert!(REC[i] == e.s[i], "[C11] MAC input equals the RFC 8945 4.3 digest stream octet for octet");
            i += 1;
        }
    }
}

/// Tamper detection as coverage: every octet of the message other than the
/// (replaced) ID is fed to the MAC; ARCOUNT enters as ARCOUNT-1 (a
/// bijection), the ID is replaced by the original ID of the TSIG RR.
fn message_covered(msg: &[u8], off: usize, original_id: u16) {
    let k: usize = kani::any();
    kani::assume(k < msg.len());
    unsafe {
        if k < 2 {
            assert!(REC[off + k] == original_id.to_be_bytes()[k], "[C11] the original ID replaces the message ID in the MAC input");
        } else if k == 10 || k == 11 {
            let fed = ((REC[off + 10] as u16) << 8) | REC[off + 11] as u16;
            assert!(fed.wrapping_add(1) == be16(msg, 10), "[C11] ARCOUNT enters the MAC decremented by exactly one");
        } else {
            assert!(REC[off + k] == msg[k], "[C11] every covered message octet is fed to the MAC unchanged");
        }
    }
    kani::cover!(k == msg.len() - 1, "last message octet mapped");
}

#[derive(Clone, Copy, PartialEq, Eq)]
enum Mode {
    Request,
    Response,
    Subsequent,
}

fn alg_wire(alg: Algorithm) -> &'static [u8] {
    match alg {
        Algorithm::HmacSha1 => &SHA1_WIRE,
        Algorithm::HmacSha256 => &SHA256_WIRE,
    }
}

fn alg_out(alg: Algorithm) -> usize {
    match alg {
        Algorithm::HmacSha1 => 20,
        Algorithm::HmacSha256 => 32,
    }
}

// --------------------------------------------------------------------------
// signing
// --------------------------------------------------------------------------

/// One signing call.  `msg` (header + body) and `prior` (request / prior MAC)
/// have concrete lengths and symbolic contents; `error` is concrete per
/// harness (it decides the length of the other-data field).
fn sign_case(mode: Mode, alg: Algorithm, msg: &[u8], prior: &[u8], error: u16) {
    kani::assume(be16(msg, 10) >= 1); // documented precondition: ARCOUNT counts the TSIG RR
    let key: [u8; 2] = kani::any();
    let time: [u8; 6] = kani::any();
    let server_time: [u8; 6] = kani::any();
    let fudge: u16 = kani::any();
    let original_id: u16 = kani::any();
    let prepared = PreparedTsigRr {
        key_name: key_name(),
        time_signed: TimeSigned::from(time),
        fudge,
        original_id,
        error: ExtendedRcode::from(error),
        server_time: TimeSigned::from(server_time),
    };
    reset_recording();
    let (rdata, mac) = match mode {
        Mode::Request => prepared.sign_request(msg, alg, &key),
        Mode::Response => prepared.sign_response(msg, prior, alg, &key),
        Mode::Subsequent => prepared.sign_subsequent(msg, prior, alg, &key),
    };

    // ---- expected digest stream
    let empty: [u8; 0] = [];
    let other: &[u8] = if error == 18 { &server_time } else { &empty };
    let mut e = Stream::new();
    let mut off = 0;
    if mode != Mode::Request {
        e.prior_mac(prior);
        off = 2 + prior.len();
    }
    e.message(msg, original_id);
    if mode == Mode::Subsequent {
        e.timers(&time, fudge);
    } else {
        e.variables(&KEY_NAME_WIRE, alg_wire(alg), &time, fudge, error, other);
    }
    unsafe {
        assert!(REC_MADE == 1, "[C11] exactly one MAC computation per signature");
    }
    same_stream(&e);
    message_covered(msg, off, original_id);

    // ---- the MAC returned
    let out = alg_out(alg);
    let mm = model_mac(&key, &e.s, e.n, out);
    assert!(mac.len() == out, "[C11] returned MAC has the algorithm's output size");
    let mut i = 0;
    while i < out {
        assert!(mac[i] == mm[i], "[C11] returned MAC is the MAC of the RFC 8945 stream");
        i += 1;
    }

    // ---- the RDATA (RFC 8945 4.2)
    let r = rdata.octets();
    let aw = alg_wire(alg);
    let al = aw.len();
    assert!(r.len() == al + 16 + out + other.len(), "[C11] TSIG RDATA length");
    assert!(ref_tsig_rdata_ok(r, 0, r.len()), "[C11] TSIG RDATA has the RFC 8945 4.2 layout");
    assert!(rdata.validate_as_tsig().is_ok(), "[C11] TSIG RDATA validates");
    let mut i = 0;
    while i < al {
        assert!(r[i] == aw[i], "[C11] RDATA algorithm name");
        i += 1;
    }
    let mut i = 0;
    while i < 6 {
        assert!(r[al + i] == time[i], "[C11] RDATA time signed");
        i += 1;
    }
    assert!(be16(r, al + 6) == fudge, "[C11] RDATA fudge");
    assert!(be16(r, al + 8) as usize == out, "[C11] RDATA MAC size");
    let mut i = 0;
    while i < out {
        assert!(r[al + 10 + i] == mm[i], "[C11] RDATA MAC");
        i += 1;
    }
    assert!(be16(r, al + 10 + out) == original_id, "[C11] RDATA original ID");
    assert!(be16(r, al + 12 + out) == error, "[C11] RDATA error");
    assert!(be16(r, al + 14 + out) as usize == other.len(), "[C11] RDATA other len");
    let mut i = 0;
    while i < other.len() {
        assert!(r[al + 16 + out + i] == other[i], "[C11] RDATA other data (server time for BADTIME)");
        i += 1;
    }
    kani::cover!(true, "signature produced");
    core::mem::forget(rdata);
    core::mem::forget(mac);
    core::mem::forget(prepared);
}

// @harness props=C11 tier=quick mem=4 t=900 stubs="S5"
//   fn="PreparedTsigRr::sign_request,add_modified_message,add_tsig_variables,add_tsig_timers,PreparedTsigRr::serialize_rdata,PreparedTsigRr::other,Rdata::new_tsig,Rdata::validate_as_tsig"
//   bound="message = 12 symbolic header octets (ARCOUNT >= 1) + 5 symbolic body octets; hmac-sha256; key name 'k.'; 2-octet symbolic key; symbolic original ID, time signed (48 bits), fudge, server time; error NOERROR; unwind 34"
//   sym="msg:[u8;17], key:[u8;2], time:[u8;6], server_time:[u8;6], fudge:u16, original_id:u16"
#[kani::proof]
#[kani::unwind(34)]
#[kani::stub(Algorithm::make_authenticator, recording_authenticator)]
fn c11_sign_request_sha256_b5() {
    let msg: [u8; 17] = kani::any();
    sign_case(Mode::Request, Algorithm::HmacSha256, &msg, &[], 0);
}
