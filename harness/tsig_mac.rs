// @host src/message/tsig.rs
//
// C11: which octets quandary feeds to the TSIG MAC, in which order, what it
// serialises into the TSIG RDATA and what it does with the MAC verdict -
// against RFC 8945 section 4.3 / 5.2 written out independently below.
// (Also carries the C10 decisions about check_time / check_mac_size.)
//
// Stub S5.  `hmac`/`sha1`/`sha2` are compiled with the `asm` feature and are
// outside Kani's reach, so `Algorithm::make_authenticator` is replaced by
// `recording_authenticator`, which hands out a `RecordingMac`:
//   * update(data)  appends every octet of `data` to the global recording
//                   REC[..REC_LEN] (REC_MADE counts authenticators created);
//   * finalize()    returns model_mac(key, recording): `output_size` octets,
//                   a position-wise XOR fold of key and stream (each stream
//                   octet rotated by its row number, the stream length mixed
//                   into the last octet) - deterministic, and every stream
//                   octet and every key octet influences it;
//   * verify_truncated_left(tag) = tag is a non-empty prefix (at most
//                   output_size octets) of that MAC, as digest::Mac does.
//                   (The C10 family can force the verdict - FORCE_VERDICT -
//                   and reads back the submitted tag; never used for C11.)
// HMAC-SHA1/256 themselves are the trusted primitive.  What is decided here
// is the octet stream (compared octet by octet with the harness's own RFC
// 8945 stream), the RDATA, and the verdict logic around the MAC.
//
// Native replay (`cargo kani playback`) does not apply #[kani::stub]: there
// the real HMAC runs, REC stays empty and a counterexample of a stubbed
// harness need not reproduce.

use super::*;
use crate::kani_common::*;
use crate::rr::Ttl;

// --------------------------------------------------------------------------
// Stub S5: RecordingMac
// --------------------------------------------------------------------------

pub(crate) const REC_CAP: usize = 128;
/// Every key used by the harness families has exactly this many octets.
pub(crate) const KEY_LEN: usize = 2;
pub(crate) const MAC_MAX: usize = 32;
/// rows of `out` octets that cover REC_CAP for the smallest output size (20)
const ROWS: usize = 7;

pub(crate) static mut REC: [u8; REC_CAP] = [0; REC_CAP];
pub(crate) static mut REC_LEN: usize = 0;
pub(crate) static mut REC_MADE: usize = 0;
pub(crate) static mut REC_OVERFLOW: bool = false;
/// 0: verify_truncated_left compares the tag with the model MAC; 1 / 2: the
/// verdict is forced to "match" / "mismatch" (used by the C10 family to keep
/// control flow concrete; the tag that was submitted is recorded either way).
pub(crate) static mut FORCE_VERDICT: u8 = 0;
pub(crate) const TAG_CAP: usize = 34;
pub(crate) static mut LAST_TAG: [u8; TAG_CAP] = [0; TAG_CAP];
pub(crate) static mut LAST_TAG_LEN: usize = usize::MAX;

/// `OUT` = output size of the modelled algorithm (a type-level constant, so
/// that allocation sizes stay concrete for CBMC).
pub(crate) struct RecordingMac<const OUT: usize> {
    key: [u8; KEY_LEN],
}

/// The MAC model: `out` octets computed from the key and stream[..n]:
/// m[j] = key[j mod KEY_LEN] ^ XOR_r rotl(stream[j + r*out], r), and the
/// stream length is mixed into the last octet.
pub(crate) fn model_mac(key: &[u8; KEY_LEN], stream: &[u8; REC_CAP], n: usize, out: usize) -> [u8; MAC_MAX] {
    let mut m = [0u8; MAC_MAX];
    let mut j = 0;
    while j < out {
        let mut v = key[j % KEY_LEN];
        let mut r = 0;
        while r < ROWS {
            let i = j + r * out;
            if i < n && i < REC_CAP {
                v ^= stream[i].rotate_left(r as u32);
            }
            r += 1;
        }
        m[j] = v;
        j += 1;
    }
    m[out - 1] ^= n as u8;
    m
}

impl<const OUT: usize> Authenticator for RecordingMac<OUT> {
    fn update(&mut self, data: &[u8]) {
        let mut i = 0;
        while i < data.len() {
            unsafe {
                if REC_LEN < REC_CAP {
                    REC[REC_LEN] = data[i];
                    REC_LEN += 1;
                } else {
                    REC_OVERFLOW = true;
                }
            }
            i += 1;
        }
    }

    fn finalize(self: Box<Self>) -> Box<[u8]> {
        let m = unsafe { model_mac(&self.key, &*core::ptr::addr_of!(REC), REC_LEN, OUT) };
        let mut v = [0u8; OUT];
        let mut j = 0;
        while j < OUT {
            v[j] = m[j];
            j += 1;
        }
        let b: Box<[u8]> = Box::new(v);
        b
    }

    fn verify_truncated_left(self: Box<Self>, tag: &[u8]) -> Result<(), MacError> {
        // digest::Mac::verify_truncated_left: empty or over-long tags fail
        let n = tag.len();
        unsafe {
            LAST_TAG_LEN = n;
            let mut j = 0;
            while j < n && j < TAG_CAP {
                LAST_TAG[j] = tag[j];
                j += 1;
            }
        }
        if n == 0 || n > OUT {
            return Err(MacError);
        }
        unsafe {
            if FORCE_VERDICT == 1 {
                return Ok(());
            } else if FORCE_VERDICT == 2 {
                return Err(MacError);
            }
        }
        let m = unsafe { model_mac(&self.key, &*core::ptr::addr_of!(REC), REC_LEN, OUT) };
        let mut ok = true;
        let mut j = 0;
        while j < n {
            if tag[j] != m[j] {
                ok = false;
            }
            j += 1;
        }
        if ok {
            Ok(())
        } else {
            Err(MacError)
        }
    }
}

/// Guard against native replay.  `cargo kani playback` runs a harness without
/// its #[kani::stub]s: the real HMAC would run, nothing would be recorded and
/// the oracles below (which speak about the MAC MODEL) would fail for reasons
/// that have nothing to do with the counterexample - which the runner would
/// then report as "reproduced natively".  Every stubbed harness therefore
/// starts with `if !stubs_in_force() { return; }`; this function is replaced
/// by `stubs_are_in_force` through #[kani::stub] in the same attribute list
/// as S5, and the call is placed after the last kani::any() (playback fails a
/// test that leaves concrete values unused).  Natively the harness returns
/// there (test passes: "not reproduced natively", i.e. inconclusive); under Kani a missing stub leaves the cover
/// witnesses unreachable (inconclusive as well).
pub(crate) fn stubs_in_force() -> bool {
    false
}

pub(crate) fn stubs_are_in_force() -> bool {
    true
}

/// Replacement for `Algorithm::make_authenticator` (same signature).
pub(crate) fn recording_authenticator(alg: &Algorithm, key: &[u8]) -> Box<dyn Authenticator> {
    assert!(key.len() == KEY_LEN, "harness keys have exactly KEY_LEN octets");
    let k = [key[0], key[1]];
    unsafe {
        REC_MADE += 1;
        REC_LEN = 0;
    }
    match alg {
        Algorithm::HmacSha1 => Box::new(RecordingMac::<20> { key: k }),
        Algorithm::HmacSha256 => Box::new(RecordingMac::<32> { key: k }),
    }
}

// Bridge for the C10 family (a child of src/server/mod.rs, which cannot name
// items of this private module): its `rec_fetch` / `rec_reset` are replaced
// by these through #[kani::stub].
pub(crate) fn rec_fetch_impl(out: &mut [u8; REC_CAP]) -> (usize, usize, bool) {
    let mut c = 0;
    while c < 16 {
        let mut i = 0;
        while i < 8 {
            unsafe {
                out[c * 8 + i] = REC[c * 8 + i];
            }
            i += 1;
        }
        c += 1;
    }
    unsafe { (REC_LEN, REC_MADE, REC_OVERFLOW) }
}

pub(crate) fn rec_reset_impl() {
    unsafe {
        REC_LEN = 0;
        REC_MADE = 0;
        REC_OVERFLOW = false;
        LAST_TAG_LEN = usize::MAX;
    }
}

pub(crate) fn rec_force_impl(v: u8) {
    unsafe {
        FORCE_VERDICT = v;
    }
}

/// The tag most recently submitted to verify_truncated_left (usize::MAX: none).
pub(crate) fn rec_tag_impl(out: &mut [u8; TAG_CAP]) -> usize {
    let mut c = 0;
    while c < 2 {
        let mut i = 0;
        while i < 17 {
            unsafe {
                out[c * 17 + i] = LAST_TAG[c * 17 + i];
            }
            i += 1;
        }
        c += 1;
    }
    unsafe { LAST_TAG_LEN }
}

// --------------------------------------------------------------------------
// The harness's own RFC 8945 section 4.3 digest stream
// --------------------------------------------------------------------------

pub(crate) struct Stream {
    pub s: [u8; REC_CAP],
    pub n: usize,
}

impl Stream {
    pub fn new() -> Self {
        Stream { s: [0; REC_CAP], n: 0 }
    }
    pub fn b(&mut self, v: u8) {
        self.s[self.n] = v;
        self.n += 1;
    }
    pub fn u16(&mut self, v: u16) {
        self.b((v >> 8) as u8);
        self.b(v as u8);
    }
    pub fn all(&mut self, d: &[u8]) {
        let mut i = 0;
        while i < d.len() {
            self.b(d[i]);
            i += 1;
        }
    }
    /// 4.3.1: request MAC (or prior MAC) as length + octets
    pub fn prior_mac(&mut self, mac: &[u8]) {
        self.u16(mac.len() as u16);
        self.all(mac);
    }
    /// 4.3.2: the DNS message with the original ID and without the TSIG RR
    /// (ARCOUNT decremented); `msg` is the message up to the TSIG RR.
    pub fn message(&mut self, msg: &[u8], original_id: u16) {
        self.u16(original_id);
        let mut i = 2;
        while i < 10 {
            self.b(msg[i]);
            i += 1;
        }
        let ar = be16(msg, 10);
        self.u16(ar.wrapping_sub(1));
        let mut i = 12;
        while i < msg.len() {
            self.b(msg[i]);
            i += 1;
        }
    }
    /// 4.3.3: NAME, CLASS ANY, TTL 0, algorithm name, time signed, fudge,
    /// error, other len, other data
    pub fn variables(&mut self, key_name: &[u8], alg_name: &[u8], time: &[u8; 6], fudge: u16, error: u16, other: &[u8]) {
        self.all(key_name);
        self.u16(255);
        self.u16(0);
        self.u16(0);
        self.all(alg_name);
        self.timers(time, fudge);
        self.u16(error);
        self.u16(other.len() as u16);
        self.all(other);
    }
    /// 4.3.3.1: time signed, fudge
    pub fn timers(&mut self, time: &[u8; 6], fudge: u16) {
        self.all(time);
        self.u16(fudge);
    }
}

pub(crate) const KEY_NAME_WIRE: [u8; 3] = [1, b'k', 0];
pub(crate) const SHA1_WIRE: [u8; 11] = [9, b'h', b'm', b'a', b'c', b'-', b's', b'h', b'a', b'1', 0];
pub(crate) const SHA256_WIRE: [u8; 13] = [11, b'h', b'm', b'a', b'c', b'-', b's', b'h', b'a', b'2', b'5', b'6', 0];

// In-memory representation of `Name` (repr(C): n_labels, label offsets, wire
// form; `LowercaseName` is repr(transparent) over it).  The harnesses hand
// quandary names that live in these statics instead of on the heap, because
// CBMC loses constants that travel through heap objects and every loop over a
// heap name is then unwound to the bound (measured: Name == Name on two heap
// names did not finish symbolic execution in 15 min).  Harness
// c11_name_views_wellformed checks the views against the real constructor.
// A Box made from such a view must never be dropped (mem::forget).
pub(crate) static KEY_NAME_REPR: [u8; 6] = [2, 0, 2, 1, b'k', 0];
pub(crate) static SHA1_REPR: [u8; 14] = [2, 0, 10, 9, b'h', b'm', b'a', b'c', b'-', b's', b'h', b'a', b'1', 0];
pub(crate) static SHA256_REPR: [u8; 16] = [2, 0, 12, 11, b'h', b'm', b'a', b'c', b'-', b's', b'h', b'a', b'2', b'5', b'6', 0];

pub(crate) fn boxed_view(repr: &'static [u8]) -> Box<LowercaseName> {
    let p = core::ptr::slice_from_raw_parts(repr.as_ptr(), repr.len() - 1) as *mut LowercaseName;
    unsafe { Box::from_raw(p) }
}

pub(crate) fn key_name() -> Box<LowercaseName> {
    boxed_view(&KEY_NAME_REPR)
}

/// Stub S5a: replacement for `Algorithm::name` in the heavy harnesses.  The
/// real function returns lazy_static heap names (parsed from text on first
/// use); c11_name_views_wellformed proves, without this stub, that those
/// names equal the static representations returned here (label count, label
/// offsets, wire octets), so the replacement is behaviour preserving for all
/// code that reads names through the `Name` API.
pub(crate) fn alg_name_static(alg: &Algorithm) -> &'static LowercaseName {
    let repr: &'static [u8] = match alg {
        Algorithm::HmacSha1 => &SHA1_REPR,
        Algorithm::HmacSha256 => &SHA256_REPR,
    };
    unsafe { &*(core::ptr::slice_from_raw_parts(repr.as_ptr(), repr.len() - 1) as *const LowercaseName) }
}

pub(crate) fn alg_name_view(alg: Algorithm) -> Box<LowercaseName> {
    match alg {
        Algorithm::HmacSha1 => boxed_view(&SHA1_REPR),
        Algorithm::HmacSha256 => boxed_view(&SHA256_REPR),
    }
}

fn reset_recording() {
    unsafe {
        REC_LEN = 0;
        REC_MADE = 0;
        REC_OVERFLOW = false;
        FORCE_VERDICT = 0;
    }
}

fn same_chunk(e: &Stream, from: usize) {
    let mut i = from;
    while i < from + 32 {
        if i < e.n {
            unsafe {
                assert!(REC[i] == e.s[i], "[C11] MAC input equals the RFC 8945 4.3 digest stream octet for octet");
            }
        }
        i += 1;
    }
}

/// The recorded stream equals `e`, octet for octet.
fn same_stream(e: &Stream) {
    unsafe {
        assert!(!REC_OVERFLOW, "[C11] recording overflow (harness capacity)");
        assert!(REC_LEN == e.n, "[C11] MAC input has the length of the RFC 8945 4.3 digest stream");
    }
    same_chunk(e, 0);
    same_chunk(e, 32);
    same_chunk(e, 64);
    same_chunk(e, 96);
}

/// Tamper detection as coverage: every octet of the message other than the
/// (replaced) ID is fed to the MAC; ARCOUNT enters as ARCOUNT-1 (a
/// bijection), the ID is replaced by the original ID of the TSIG RR.
fn message_covered(msg: &[u8], off: usize, original_id: u16, k: usize) {
    kani::assume(k < msg.len());
    unsafe {
        if k < 2 {
            assert!(REC[off + k] == original_id.to_be_bytes()[k], "[C11] the original ID replaces the message ID in the MAC input");
        } else if k == 10 || k == 11 {
            let fed = ((REC[off + 10] as u16) << 8) | REC[off + 11] as u16;
            assert!(fed.wrapping_add(1) == be16(msg, 10), "[C11] ARCOUNT enters the MAC decremented by exactly one");
        } else {
            assert!(REC[off + k] == msg[k], "[C11] every covered message octet is fed to the MAC unchanged");
        }
    }
}

#[derive(Clone, Copy, PartialEq, Eq)]
enum Mode {
    Request,
    Response,
    Subsequent,
}

fn alg_wire(alg: Algorithm) -> &'static [u8] {
    match alg {
        Algorithm::HmacSha1 => &SHA1_WIRE,
        Algorithm::HmacSha256 => &SHA256_WIRE,
    }
}

fn alg_out(alg: Algorithm) -> usize {
    match alg {
        Algorithm::HmacSha1 => 20,
        Algorithm::HmacSha256 => 32,
    }
}

// --------------------------------------------------------------------------
// signing
// --------------------------------------------------------------------------

/// One signing call.  `msg` (header + body) and `prior` (request / prior MAC)
/// have concrete lengths and symbolic contents; `error` is concrete per
/// harness (it decides the length of the other-data field).
fn sign_case(mode: Mode, alg: Algorithm, msg: &[u8], prior: &[u8], error: u16) {
    kani::assume(be16(msg, 10) >= 1); // documented precondition: ARCOUNT counts the TSIG RR
    let key: [u8; 2] = kani::any();
    let time: [u8; 6] = kani::any();
    let server_time: [u8; 6] = kani::any();
    let fudge: u16 = kani::any();
    let original_id: u16 = kani::any();
    let k_probe: usize = kani::any();
    // all symbolic values are drawn; see stubs_in_force
    if !stubs_in_force() {
        return;
    }
    let prepared = PreparedTsigRr {
        key_name: key_name(),
        time_signed: TimeSigned::from(time),
        fudge,
        original_id,
        error: ExtendedRcode::from(error),
        server_time: TimeSigned::from(server_time),
    };
    reset_recording();
    let (rdata, mac) = match mode {
        Mode::Request => prepared.sign_request(msg, alg, &key),
        Mode::Response => prepared.sign_response(msg, prior, alg, &key),
        Mode::Subsequent => prepared.sign_subsequent(msg, prior, alg, &key),
    };

    // ---- expected digest stream
    let empty: [u8; 0] = [];
    let other: &[u8] = if error == 18 { &server_time } else { &empty };
    let mut e = Stream::new();
    let mut off = 0;
    if mode != Mode::Request {
        e.prior_mac(prior);
        off = 2 + prior.len();
    }
    e.message(msg, original_id);
    if mode == Mode::Subsequent {
        e.timers(&time, fudge);
    } else {
        e.variables(&KEY_NAME_WIRE, alg_wire(alg), &time, fudge, error, other);
    }
    unsafe {
        assert!(REC_MADE == 1, "[C11] exactly one MAC computation per signature");
    }
    same_stream(&e);
    message_covered(msg, off, original_id, k_probe);

    // ---- the MAC returned
    let out = alg_out(alg);
    let mm = model_mac(&key, &e.s, e.n, out);
    assert!(mac.len() == out, "[C11] returned MAC has the algorithm's output size");
    let mut i = 0;
    while i < out {
        assert!(mac[i] == mm[i], "[C11] returned MAC is the MAC of the RFC 8945 stream");
        i += 1;
    }

    // ---- the RDATA (RFC 8945 4.2)
    let r = rdata.octets();
    let aw = alg_wire(alg);
    let al = aw.len();
    assert!(r.len() == al + 16 + out + other.len(), "[C11] TSIG RDATA length");
    assert!(ref_tsig_rdata_ok(r, 0, r.len()), "[C11] TSIG RDATA has the RFC 8945 4.2 layout");
    assert!(rdata.validate_as_tsig().is_ok(), "[C11] TSIG RDATA validates");
    let mut i = 0;
    while i < al {
        assert!(r[i] == aw[i], "[C11] RDATA algorithm name");
        i += 1;
    }
    let mut i = 0;
    while i < 6 {
        assert!(r[al + i] == time[i], "[C11] RDATA time signed");
        i += 1;
    }
    assert!(be16(r, al + 6) == fudge, "[C11] RDATA fudge");
    assert!(be16(r, al + 8) as usize == out, "[C11] RDATA MAC size");
    let mut i = 0;
    while i < out {
        assert!(r[al + 10 + i] == mm[i], "[C11] RDATA MAC");
        i += 1;
    }
    assert!(be16(r, al + 10 + out) == original_id, "[C11] RDATA original ID");
    assert!(be16(r, al + 12 + out) == error, "[C11] RDATA error");
    assert!(be16(r, al + 14 + out) as usize == other.len(), "[C11] RDATA other len");
    let mut i = 0;
    while i < other.len() {
        assert!(r[al + 16 + out + i] == other[i], "[C11] RDATA other data (server time for BADTIME)");
        i += 1;
    }
    kani::cover!(true, "signature produced");
    core::mem::forget(rdata);
    core::mem::forget(mac);
    core::mem::forget(prepared);
}

macro_rules! sign_harness {
    ($name:ident, $mode:expr, $alg:expr, $n:literal, $r:literal, $err:literal) => {
        #[kani::proof]
        #[kani::unwind(34)]
        #[kani::stub(Algorithm::make_authenticator, recording_authenticator)]
        #[kani::stub(Algorithm::name, alg_name_static)]
        #[kani::stub(stubs_in_force, stubs_are_in_force)]
        fn $name() {
            let msg: [u8; $n] = kani::any();
            let prior: [u8; $r] = kani::any();
            sign_case($mode, $alg, &msg, &prior, $err);
        }
    };
}

// @harness name=c11_sign_request_sha256_b5 props=C11 tier=quick mem=3 t=900 stubs="S5,S5a" kani="--no-assertion-reach-checks"
//   fn="PreparedTsigRr::sign_request,add_modified_message,add_tsig_variables,add_tsig_timers,PreparedTsigRr::serialize_rdata,PreparedTsigRr::other,Rdata::new_tsig,Rdata::validate_as_tsig,Algorithm::name,Algorithm::output_size"
//   bound="message = 12 symbolic header octets (ARCOUNT >= 1) + 5 symbolic body octets; hmac-sha256; key name 'k.'; 2-octet symbolic key; symbolic original ID, time signed (48 bits), fudge, server time; error NOERROR; unwind 34"
//   sym="msg:[u8;17], key:[u8;2], time:[u8;6], server_time:[u8;6], fudge:u16, original_id:u16"
sign_harness!(c11_sign_request_sha256_b5, Mode::Request, Algorithm::HmacSha256, 17, 0, 0);

// @harness name=c11_sign_request_sha1_b0_badtime props=C11 tier=quick mem=3 t=900 stubs="S5,S5a" kani="--no-assertion-reach-checks"
//   fn="PreparedTsigRr::sign_request,add_modified_message,add_tsig_variables,PreparedTsigRr::other,Rdata::new_tsig"
//   bound="message = 12 symbolic header octets only (ARCOUNT >= 1); hmac-sha1; error BADTIME (other data = 6 symbolic server-time octets); symbolic key, original ID, time, fudge; unwind 34"
//   sym="msg:[u8;12], key:[u8;2], time:[u8;6], server_time:[u8;6], fudge:u16, original_id:u16"
sign_harness!(c11_sign_request_sha1_b0_badtime, Mode::Request, Algorithm::HmacSha1, 12, 0, 18);

// @harness name=c11_sign_response_sha256_b5_r32 props=C11 tier=quick mem=3 t=900 stubs="S5,S5a" kani="--no-assertion-reach-checks"
//   fn="PreparedTsigRr::sign_response,add_modified_message,add_tsig_variables,Rdata::new_tsig"
//   bound="message 12+5 symbolic octets; request MAC of 32 symbolic octets; hmac-sha256; error NOERROR; symbolic key, original ID, time, fudge; unwind 34"
//   sym="msg:[u8;17], request_mac:[u8;32], key:[u8;2], time:[u8;6], fudge:u16, original_id:u16"
sign_harness!(c11_sign_response_sha256_b5_r32, Mode::Response, Algorithm::HmacSha256, 17, 32, 0);

// @harness name=c11_sign_response_sha1_b9_r20_badtime props=C11 tier=quick mem=3 t=900 stubs="S5,S5a" kani="--no-assertion-reach-checks"
//   fn="PreparedTsigRr::sign_response,add_modified_message,add_tsig_variables,PreparedTsigRr::other,Rdata::new_tsig"
//   bound="message 12+9 symbolic octets; request MAC of 20 symbolic octets; hmac-sha1; error BADTIME with 6 symbolic server-time octets; unwind 34"
//   sym="msg:[u8;21], request_mac:[u8;20], key:[u8;2], time:[u8;6], server_time:[u8;6], fudge:u16, original_id:u16"
sign_harness!(c11_sign_response_sha1_b9_r20_badtime, Mode::Response, Algorithm::HmacSha1, 21, 20, 18);

// @harness name=c11_sign_response_sha256_b0_r0 props=C11 tier=thorough mem=3 t=900 stubs="S5,S5a" kani="--no-assertion-reach-checks"
//   fn="PreparedTsigRr::sign_response" bound="message 12 symbolic octets; empty request MAC (length prefix 0 only); hmac-sha256; error BADKEY(17) (no other data); unwind 34"
//   sym="msg:[u8;12], key:[u8;2], time:[u8;6], fudge:u16, original_id:u16"
sign_harness!(c11_sign_response_sha256_b0_r0, Mode::Response, Algorithm::HmacSha256, 12, 0, 17);

// @harness name=c11_sign_subsequent_sha256_b5_r32 props=C11 tier=quick mem=3 t=900 stubs="S5,S5a" kani="--no-assertion-reach-checks"
//   fn="PreparedTsigRr::sign_subsequent,add_modified_message,add_tsig_timers,Rdata::new_tsig"
//   bound="message 12+5 symbolic octets; prior MAC of 32 symbolic octets; hmac-sha256; error NOERROR; digest = prior MAC, message, timers only; unwind 34"
//   sym="msg:[u8;17], prior_mac:[u8;32], key:[u8;2], time:[u8;6], fudge:u16, original_id:u16"
sign_harness!(c11_sign_subsequent_sha256_b5_r32, Mode::Subsequent, Algorithm::HmacSha256, 17, 32, 0);

// @harness name=c11_sign_subsequent_sha1_b9_r20 props=C11 tier=thorough mem=3 t=900 stubs="S5,S5a" kani="--no-assertion-reach-checks"
//   fn="PreparedTsigRr::sign_subsequent,add_modified_message,add_tsig_timers"
//   bound="message 12+9 symbolic octets; prior MAC of 20 symbolic octets; hmac-sha1; error BADTIME (other data in the RDATA but not in the digest); unwind 34"
//   sym="msg:[u8;21], prior_mac:[u8;20], key:[u8;2], time:[u8;6], server_time:[u8;6], fudge:u16, original_id:u16"
sign_harness!(c11_sign_subsequent_sha1_b9_r20, Mode::Subsequent, Algorithm::HmacSha1, 21, 20, 18);

// --------------------------------------------------------------------------
// verification
// --------------------------------------------------------------------------

fn u48(t: &[u8; 6]) -> u64 {
    ((t[0] as u64) << 40) | ((t[1] as u64) << 32) | ((t[2] as u64) << 24) | ((t[3] as u64) << 16) | ((t[4] as u64) << 8) | t[5] as u64
}

/// RFC 8945 5.2.3: |now - time signed| <= fudge
fn ref_time_ok(time: &[u8; 6], fudge: u16, now: &[u8; 6]) -> bool {
    let a = u48(time);
    let b = u48(now);
    let d = if a > b { a - b } else { b - a };
    d <= fudge as u64
}

/// RFC 8945 5.2.2.1: a MAC is acceptable when it is no longer than the
/// algorithm's output and at least max(10, output/2) octets long.
fn ref_size_ok(out: usize, mac_len: usize) -> bool {
    let half = out / 2 + out % 2;
    let min = if half > 10 { half } else { 10 };
    mac_len <= out && mac_len >= min
}

fn upper(b: u8) -> u8 {
    if b >= b'a' && b <= b'z' {
        b - 32
    } else {
        b
    }
}

/// TSIG RDATA (RFC 8945 4.2) of exactly N octets, built field by field.
fn rdata_of<const N: usize>(aw: &[u8], upcase: bool, time: &[u8; 6], fudge: u16, mac: &[u8], oid: u16, error: u16, other: &[u8]) -> [u8; N] {
    let mut rd = [0u8; N];
    let mut c = 0;
    let mut i = 0;
    while i < aw.len() {
        rd[c] = if upcase { upper(aw[i]) } else { aw[i] };
        c += 1;
        i += 1;
    }
    let mut i = 0;
    while i < 6 {
        rd[c] = time[i];
        c += 1;
        i += 1;
    }
    rd[c] = (fudge >> 8) as u8;
    rd[c + 1] = fudge as u8;
    rd[c + 2] = (mac.len() >> 8) as u8;
    rd[c + 3] = mac.len() as u8;
    c += 4;
    let mut i = 0;
    while i < mac.len() {
        rd[c] = mac[i];
        c += 1;
        i += 1;
    }
    rd[c] = (oid >> 8) as u8;
    rd[c + 1] = oid as u8;
    rd[c + 2] = (error >> 8) as u8;
    rd[c + 3] = error as u8;
    rd[c + 4] = (other.len() >> 8) as u8;
    rd[c + 5] = other.len() as u8;
    c += 6;
    let mut i = 0;
    while i < other.len() {
        rd[c] = other[i];
        c += 1;
        i += 1;
    }
    assert!(c == N, "harness: RDATA length constant is wrong");
    rd
}

/// One verification call.  M = message length, L = MAC length, R = length of
/// the request/prior MAC, O = other-data length, N = RDATA length.  `upcase`:
/// the algorithm name inside the RDATA is in upper case (the digest uses the
/// canonical, lower-case form).
fn verify_case<const M: usize, const L: usize, const R: usize, const O: usize, const N: usize>(mode: Mode, alg: Algorithm, upcase: bool) {
    let msg: [u8; M] = kani::any();
    kani::assume(be16(&msg, 10) >= 1);
    let key: [u8; 2] = kani::any();
    let time: [u8; 6] = kani::any();
    let now: [u8; 6] = kani::any();
    let fudge: u16 = kani::any();
    let oid: u16 = kani::any();
    let error: u16 = kani::any();
    let mac: [u8; L] = kani::any();
    let other: [u8; O] = kani::any();
    let prior: [u8; R] = kani::any();
    let k_probe: usize = kani::any();
    // all symbolic values are drawn; see stubs_in_force
    if !stubs_in_force() {
        return;
    }
    let aw = alg_wire(alg);
    let rd: [u8; N] = rdata_of::<N>(aw, upcase, &time, fudge, &mac, oid, error, &other);
    // what ReadTsigRr::try_from produces for this RR (decided separately by
    // c11_try_from_read_rr): lower-cased owner and algorithm name, MAC size
    let tsig = ReadTsigRr {
        key_name: key_name(),
        algorithm: alg_name_view(alg),
        mac_size: L as u16,
        rdata: Cow::Borrowed((&rd[..]).try_into().unwrap()),
    };
    // accessors against the fields put into the RDATA
    assert!(tsig.fudge() == fudge, "[C11] ReadTsigRr::fudge");
    assert!(tsig.original_id() == oid, "[C11] ReadTsigRr::original_id");
    assert!(u16::from(tsig.error()) == error, "[C11] ReadTsigRr::error");
    assert!(tsig.mac().len() == L && tsig.other().len() == O, "[C11] ReadTsigRr::mac / other lengths");
    assert!(tsig.time_signed().as_array()[5] == time[5], "[C11] ReadTsigRr::time_signed");

    reset_recording();
    let res = match mode {
        Mode::Request => tsig.verify_request(&msg, alg, &key, TimeSigned::from(now)),
        Mode::Response => tsig.verify_response(&msg, &prior, alg, &key, TimeSigned::from(now)),
        Mode::Subsequent => tsig.verify_subsequent(&msg, &prior, alg, &key, TimeSigned::from(now)),
    };

    // ---- oracle
    let out = alg_out(alg);
    let mut e = Stream::new();
    let mut off = 0;
    if mode != Mode::Request {
        e.prior_mac(&prior);
        off = 2 + R;
    }
    e.message(&msg, oid);
    if mode == Mode::Subsequent {
        e.timers(&time, fudge);
    } else {
        e.variables(&KEY_NAME_WIRE, aw, &time, fudge, error, &other);
    }
    let size_ok = ref_size_ok(out, L);
    let mm = model_mac(&key, &e.s, e.n, out);
    let mut mac_ok = true;
    let mut i = 0;
    while i < L && i < MAC_MAX {
        if mac[i] != mm[i] {
            mac_ok = false;
        }
        i += 1;
    }
    let time_ok = ref_time_ok(&time, fudge, &now);
    assert!(
        res.is_ok() == (size_ok && mac_ok && time_ok),
        "[C11] verification succeeds exactly when the MAC size is allowed, the MAC is a prefix of the RFC 8945 MAC and the time is inside the fudge window"
    );
    // RFC 8945 5.2: MAC (with its size rule) is checked before the time
    if !size_ok {
        assert!(res == Err(VerificationError::FormErr), "[C11] MAC size outside RFC 8945 5.2.2.1 must give FORMERR");
        unsafe {
            assert!(REC_MADE == 0, "[C11] no MAC is computed for a MAC of unacceptable size");
        }
    } else {
        if !mac_ok {
            assert!(res == Err(VerificationError::BadSig), "[C11] MAC mismatch must give BADSIG (before any time check)");
        } else if !time_ok {
            assert!(res == Err(VerificationError::BadTime), "[C11] time outside the fudge window must give BADTIME");
        }
        unsafe {
            assert!(REC_MADE == 1, "[C11] exactly one MAC computation per verification");
        }
        same_stream(&e);
        message_covered(&msg, off, oid, k_probe);
    }
    // witnesses (phrased so that each is reachable whatever the MAC size)
    kani::cover!(
        if size_ok { res.is_ok() && u48(&now) < u48(&time) } else { res == Err(VerificationError::FormErr) },
        "acceptable MAC size: accepted with now before time signed / unacceptable size: FORMERR"
    );
    kani::cover!(if size_ok { res == Err(VerificationError::BadSig) } else { true }, "BADSIG (acceptable MAC size)");
    kani::cover!(if size_ok { res == Err(VerificationError::BadTime) } else { true }, "BADTIME (acceptable MAC size)");
    core::mem::forget(tsig);
}

macro_rules! verify_harness {
    ($name:ident, $mode:expr, $alg:expr, $up:literal, $m:literal, $l:literal, $r:literal, $o:literal, $n:literal) => {
        #[kani::proof]
        #[kani::unwind(34)]
        #[kani::stub(Algorithm::make_authenticator, recording_authenticator)]
        #[kani::stub(Algorithm::name, alg_name_static)]
        #[kani::stub(stubs_in_force, stubs_are_in_force)]
        fn $name() {
            verify_case::<$m, $l, $r, $o, $n>($mode, $alg, $up);
        }
    };
}

// RDATA length N = algorithm name (13 for hmac-sha256., 11 for hmac-sha1.) + 16 + L + O

// @harness name=c11_verify_request_sha256_l32 props=C11 tier=quick mem=3 t=900 stubs="S5,S5a" kani="--no-assertion-reach-checks"
//   fn="ReadTsigRr::try_from,ReadTsigRr::verify_request,ReadTsigRr::verification_core,check_mac_size,check_time,add_modified_message,add_tsig_variables,ReadTsigRr::time_signed,ReadTsigRr::fudge,ReadTsigRr::mac,ReadTsigRr::original_id,ReadTsigRr::error,ReadTsigRr::other"
//   bound="message 12+5 symbolic octets (ARCOUNT >= 1); TSIG RR owner 'k.', algorithm hmac-sha256., full 32-octet symbolic MAC, symbolic time/fudge/original ID/error, no other data; symbolic now (48 bits), 2-octet symbolic key; unwind 34"
//   sym="msg:[u8;17], mac:[u8;32], key:[u8;2], time, now:[u8;6], fudge, original_id, error:u16"
verify_harness!(c11_verify_request_sha256_l32, Mode::Request, Algorithm::HmacSha256, false, 17, 32, 0, 0, 61);

// @harness name=c11_verify_request_sha256_l16_upcase props=C11 tier=quick mem=3 t=900 stubs="S5,S5a" kani="--no-assertion-reach-checks"
//   fn="ReadTsigRr::try_from,ReadTsigRr::verify_request,ReadTsigRr::verification_core,check_mac_size,Name::make_ascii_lowercase"
//   bound="as above with a MAC truncated to 16 octets (the minimum for hmac-sha256); the algorithm name inside the RDATA is 'HMAC-SHA256.' in upper case (the digest must use the lower-case form held by the ReadTsigRr); unwind 34"
//   sym="msg:[u8;17], mac:[u8;16], key, time, now, fudge, original_id, error"
verify_harness!(c11_verify_request_sha256_l16_upcase, Mode::Request, Algorithm::HmacSha256, true, 17, 16, 0, 0, 45);

// @harness name=c11_verify_request_sha256_l15 props=C11 tier=quick mem=3 t=900 stubs="S5,S5a" kani="--no-assertion-reach-checks"
//   fn="ReadTsigRr::verify_request,check_mac_size" bound="MAC of 15 octets with hmac-sha256 (one below the minimum): FORMERR for every content; unwind 34"
//   sym="msg:[u8;17], mac:[u8;15], key, time, now, fudge, original_id, error"
verify_harness!(c11_verify_request_sha256_l15, Mode::Request, Algorithm::HmacSha256, false, 17, 15, 0, 0, 44);

// @harness name=c11_verify_request_sha256_l33 props=C11 tier=quick mem=3 t=900 stubs="S5,S5a" kani="--no-assertion-reach-checks"
//   fn="ReadTsigRr::verify_request,check_mac_size" bound="MAC of 33 octets with hmac-sha256 (one above the output size): FORMERR; unwind 34"
//   sym="msg:[u8;17], mac:[u8;33], key, time, now, fudge, original_id, error"
verify_harness!(c11_verify_request_sha256_l33, Mode::Request, Algorithm::HmacSha256, false, 17, 33, 0, 0, 62);

// @harness name=c11_verify_request_sha1_l10 props=C11 tier=quick mem=3 t=900 stubs="S5,S5a" kani="--no-assertion-reach-checks"
//   fn="ReadTsigRr::verify_request,check_mac_size" bound="message 12+0; hmac-sha1 with a MAC truncated to 10 octets (the minimum); unwind 34"
//   sym="msg:[u8;12], mac:[u8;10], key, time, now, fudge, original_id, error"
verify_harness!(c11_verify_request_sha1_l10, Mode::Request, Algorithm::HmacSha1, false, 12, 10, 0, 0, 37);

// @harness name=c11_verify_request_sha1_l9 props=C11 tier=thorough mem=3 t=900 stubs="S5,S5a" kani="--no-assertion-reach-checks"
//   fn="ReadTsigRr::verify_request,check_mac_size" bound="hmac-sha1 with a 9-octet MAC: FORMERR; unwind 34"
//   sym="msg:[u8;12], mac:[u8;9], key, time, now, fudge, original_id, error"
verify_harness!(c11_verify_request_sha1_l9, Mode::Request, Algorithm::HmacSha1, false, 12, 9, 0, 0, 36);

// @harness name=c11_verify_request_sha1_l21 props=C11 tier=thorough mem=3 t=900 stubs="S5,S5a" kani="--no-assertion-reach-checks"
//   fn="ReadTsigRr::verify_request,check_mac_size" bound="hmac-sha1 with a 21-octet MAC: FORMERR; unwind 34"
//   sym="msg:[u8;12], mac:[u8;21], key, time, now, fudge, original_id, error"
verify_harness!(c11_verify_request_sha1_l21, Mode::Request, Algorithm::HmacSha1, false, 12, 21, 0, 0, 48);

// @harness name=c11_verify_request_sha256_l0 props=C11 tier=thorough mem=3 t=900 stubs="S5,S5a" kani="--no-assertion-reach-checks"
//   fn="ReadTsigRr::verify_request,check_mac_size" bound="empty MAC: FORMERR; unwind 34"
//   sym="msg:[u8;17], key, time, now, fudge, original_id, error"
verify_harness!(c11_verify_request_sha256_l0, Mode::Request, Algorithm::HmacSha256, false, 17, 0, 0, 0, 29);

// @harness name=c11_verify_response_sha1_l20_r20_badtime props=C11 tier=quick mem=3 t=900 stubs="S5,S5a" kani="--no-assertion-reach-checks"
//   fn="ReadTsigRr::verify_response,ReadTsigRr::verification_core,add_modified_message,add_tsig_variables,ReadTsigRr::other"
//   bound="message 12+5; hmac-sha1 full 20-octet MAC; request MAC 20 symbolic octets; 6 symbolic other-data octets (a BADTIME response; the error field itself is symbolic); unwind 34"
//   sym="msg:[u8;17], mac:[u8;20], request_mac:[u8;20], other:[u8;6], key, time, now, fudge, original_id, error"
verify_harness!(c11_verify_response_sha1_l20_r20_badtime, Mode::Response, Algorithm::HmacSha1, false, 17, 20, 20, 6, 53);

// @harness name=c11_verify_response_sha256_l32_r32 props=C11 tier=quick mem=3 t=900 stubs="S5,S5a" kani="--no-assertion-reach-checks"
//   fn="ReadTsigRr::verify_response,ReadTsigRr::verification_core" bound="message 12+5; hmac-sha256 full MAC; request MAC 32 symbolic octets; no other data; unwind 34"
//   sym="msg:[u8;17], mac:[u8;32], request_mac:[u8;32], key, time, now, fudge, original_id, error"
verify_harness!(c11_verify_response_sha256_l32_r32, Mode::Response, Algorithm::HmacSha256, false, 17, 32, 32, 0, 61);

// @harness name=c11_verify_subsequent_sha256_l32_r32 props=C11 tier=quick mem=3 t=900 stubs="S5,S5a" kani="--no-assertion-reach-checks"
//   fn="ReadTsigRr::verify_subsequent,ReadTsigRr::verification_core,add_tsig_timers" bound="message 12+5; hmac-sha256 full MAC; prior MAC 32 symbolic octets; digest = prior MAC, message, timers; unwind 34"
//   sym="msg:[u8;17], mac:[u8;32], prior_mac:[u8;32], key, time, now, fudge, original_id, error"
verify_harness!(c11_verify_subsequent_sha256_l32_r32, Mode::Subsequent, Algorithm::HmacSha256, false, 17, 32, 32, 0, 61);

// @harness name=c11_verify_subsequent_sha1_l10_r20 props=C11 tier=thorough mem=3 t=900 stubs="S5,S5a" kani="--no-assertion-reach-checks"
//   fn="ReadTsigRr::verify_subsequent,ReadTsigRr::verification_core,add_tsig_timers" bound="message 12+9; hmac-sha1 MAC truncated to 10; prior MAC 20 symbolic octets; unwind 34"
//   sym="msg:[u8;21], mac:[u8;10], prior_mac:[u8;20], key, time, now, fudge, original_id, error"
verify_harness!(c11_verify_subsequent_sha1_l10_r20, Mode::Subsequent, Algorithm::HmacSha1, false, 21, 10, 20, 0, 37);

// --------------------------------------------------------------------------
// ReadTsigRr::try_from and the name views
// --------------------------------------------------------------------------

// @harness props=C11,C10 tier=quick mem=6 t=900 kani="--no-assertion-reach-checks"
//   fn="ReadTsigRr::try_from,ReadTsigRr::key_name,ReadTsigRr::algorithm,ReadTsigRr::time_signed,ReadTsigRr::fudge,ReadTsigRr::mac,ReadTsigRr::original_id,ReadTsigRr::error,ReadTsigRr::other"
//   bound="ReadRr with owner 'K.' (upper case), symbolic type, class and TTL, RDATA = 'HMAC-SHA1.' (upper case) + symbolic time/fudge + 3 symbolic MAC octets + symbolic original ID/error + 2 symbolic other-data octets; unwind 16"
//   sym="rr_type:u16, class:u16, ttl:u32, time:[u8;6], fudge:u16, mac:[u8;3], original_id:u16, error:u16, other:[u8;2]"
#[kani::proof]
#[kani::unwind(16)]
fn c11_try_from_read_rr() {
    let rr_type: u16 = kani::any();
    let class: u16 = kani::any();
    let ttl_raw: u32 = kani::any();
    let time: [u8; 6] = kani::any();
    let fudge: u16 = kani::any();
    let mac: [u8; 3] = kani::any();
    let oid: u16 = kani::any();
    let error: u16 = kani::any();
    let other: [u8; 2] = kani::any();
    let rd: [u8; 32] = rdata_of::<32>(&SHA1_WIRE, true, &time, fudge, &mac, oid, error, &other);
    let ttl = Ttl::from(ttl_raw);
    let rr = ReadRr {
        owner: Name::try_from_uncompressed_all(&[1, b'K', 0]).unwrap(),
        rr_type: Type::from(rr_type),
        class: crate::class::Class::from(class),
        ttl,
        rdata: Cow::Borrowed((&rd[..]).try_into().unwrap()),
    };
    match ReadTsigRr::try_from(rr) {
        Ok(t) => {
            assert!(rr_type == 250, "[C11] only type TSIG converts");
            assert!(class == 255 && u32::from(ttl) == 0, "[C10] a TSIG RR must have class ANY and TTL 0");
            let kw = t.key_name().wire_repr();
            assert!(kw.len() == 3 && kw[0] == 1 && kw[1] == b'k' && kw[2] == 0, "[C11] key name is the owner in lower case");
            let aw = t.algorithm().wire_repr();
            assert!(aw.len() == 11, "[C11] algorithm name is read from the RDATA");
            let mut i = 0;
            while i < 11 {
                assert!(aw[i] == SHA1_WIRE[i], "[C11] algorithm name is the RDATA name in lower case");
                i += 1;
            }
            assert!(t.mac_size == 3, "[C11] MAC size field");
            let ts = t.time_signed();
            let mut i = 0;
            while i < 6 {
                assert!(ts.as_array()[i] == time[i], "[C11] ReadTsigRr::time_signed");
                i += 1;
            }
            assert!(t.fudge() == fudge, "[C11] ReadTsigRr::fudge");
            let m = t.mac();
            assert!(m.len() == 3 && m[0] == mac[0] && m[1] == mac[1] && m[2] == mac[2], "[C11] ReadTsigRr::mac");
            assert!(t.original_id() == oid, "[C11] ReadTsigRr::original_id");
            assert!(u16::from(t.error()) == error, "[C11] ReadTsigRr::error");
            let o = t.other();
            assert!(o.len() == 2 && o[0] == other[0] && o[1] == other[1], "[C11] ReadTsigRr::other");
            kani::cover!(true, "TSIG RR accepted");
        }
        Err(FromReadRrError::NotTsig) => {
            assert!(rr_type != 250, "[C11] a TSIG RR is reported as not TSIG");
        }
        Err(FromReadRrError::FormErr) => {
            assert!(rr_type == 250 && (class != 255 || u32::from(ttl) != 0), "[C10] FORMERR only for class != ANY or TTL != 0");
            kani::cover!(class == 255, "FORMERR for the TTL alone");
            kani::cover!(u32::from(ttl) == 0, "FORMERR for the class alone");
        }
    }
}

// @harness props=C11,C10 tier=quick mem=4 t=600 kani="--no-assertion-reach-checks"
//   fn="PreparedTsigRr::new_from_read,ReadTsigRr::time_signed,ReadTsigRr::original_id"
//   bound="request TSIG RR (key 'k.', hmac-sha1., 3 MAC octets) with symbolic time signed / original ID; symbolic server time, fudge and error (all 2^16 values, BADTIME included); unwind 16"
//   sym="time:[u8;6], original_id:u16, now:[u8;6], fudge:u16, error:u16"
#[kani::proof]
#[kani::unwind(16)]
fn c11_new_from_read() {
    let time: [u8; 6] = kani::any();
    let now: [u8; 6] = kani::any();
    let oid: u16 = kani::any();
    let fudge: u16 = kani::any();
    let error: u16 = kani::any();
    let mac: [u8; 3] = kani::any();
    let rd: [u8; 30] = rdata_of::<30>(&SHA1_WIRE, false, &time, 7, &mac, oid, 0, &[]);
    let read = ReadTsigRr {
        key_name: key_name(),
        algorithm: alg_name_view(Algorithm::HmacSha1),
        mac_size: 3,
        rdata: Cow::Borrowed((&rd[..]).try_into().unwrap()),
    };
    let p = PreparedTsigRr::new_from_read(&read, TimeSigned::from(now), fudge, ExtendedRcode::from(error));
    // RFC 8945 5.2.3 / 5.3.2: a BADTIME response repeats the request's time
    // signed and carries the server's time as other data; every other
    // response is stamped with the server's time
    let x_time = if error == 18 { time } else { now };
    let mut i = 0;
    while i < 6 {
        assert!(p.time_signed.as_array()[i] == x_time[i], "[C10] response time signed: the request's for BADTIME, the server's otherwise");
        assert!(p.server_time.as_array()[i] == now[i], "[C10] server time is kept for the BADTIME other data");
        i += 1;
    }
    assert!(p.fudge == fudge && p.original_id == oid && u16::from(p.error) == error, "[C10] fudge, original ID and error are carried over");
    let kw = p.key_name.wire_repr();
    assert!(kw.len() == 3 && kw[0] == 1 && kw[1] == b'k' && kw[2] == 0, "[C10] the response uses the request's key name");
    let o = p.other();
    assert!(o.len() == if error == 18 { 6 } else { 0 }, "[C11] other data exactly for BADTIME");
    kani::cover!(error == 18, "BADTIME");
    kani::cover!(error != 18, "other error");
    core::mem::forget(read);
}

fn view_matches(view: &Name, wire: &[u8]) {
    let real = Name::try_from_uncompressed_all(wire).unwrap();
    assert!(view.len() == real.len(), "[C11] name view: label count equals the real constructor's");
    let vw = view.wire_repr();
    let rw = real.wire_repr();
    assert!(vw.len() == rw.len() && vw.len() == wire.len(), "[C11] name view: wire length");
    let mut i = 0;
    while i < wire.len() {
        assert!(vw[i] == rw[i] && vw[i] == wire[i], "[C11] name view: wire octets");
        i += 1;
    }
    let mut k = 0;
    while k < 2 {
        assert!(view.wire_repr_from(k).len() == real.wire_repr_from(k).len(), "[C11] name view: label offsets");
        k += 1;
    }
}

// @harness props=C11,C10 tier=quick mem=4 t=600 kani="--no-assertion-reach-checks"
//   fn="Algorithm::name,Name::try_from_uncompressed_all,Name::wire_repr,Name::len,Name::wire_repr_from"
//   bound="the three static name representations used as inputs ('k.', 'hmac-sha1.', 'hmac-sha256.') against Name::try_from_uncompressed_all, and Algorithm::name() (the real lazy_static names) against the RFC 8945 algorithm names; concrete; unwind 16"
//   sym="none"
#[kani::proof]
#[kani::unwind(16)]
fn c11_name_views_wellformed() {
    let k = key_name();
    view_matches(&k, &KEY_NAME_WIRE);
    let a1 = alg_name_view(Algorithm::HmacSha1);
    view_matches(&a1, &SHA1_WIRE);
    let a2 = alg_name_view(Algorithm::HmacSha256);
    view_matches(&a2, &SHA256_WIRE);
    // the names quandary itself uses for the algorithms
    let n1 = Algorithm::HmacSha1.name().wire_repr();
    assert!(n1.len() == 11, "[C11] Algorithm::name(HmacSha1) is hmac-sha1.");
    let mut i = 0;
    while i < 11 {
        assert!(n1[i] == SHA1_WIRE[i], "[C11] Algorithm::name(HmacSha1) is hmac-sha1.");
        i += 1;
    }
    let n2 = Algorithm::HmacSha256.name().wire_repr();
    assert!(n2.len() == 13, "[C11] Algorithm::name(HmacSha256) is hmac-sha256.");
    let mut i = 0;
    while i < 13 {
        assert!(n2[i] == SHA256_WIRE[i], "[C11] Algorithm::name(HmacSha256) is hmac-sha256.");
        i += 1;
    }
    kani::cover!(true, "views checked");
    core::mem::forget(k);
    core::mem::forget(a1);
    core::mem::forget(a2);
}

// --------------------------------------------------------------------------
// check_time / check_mac_size over their whole domains (also C10)
// --------------------------------------------------------------------------

// @harness props=C11,C10 tier=quick mem=2 t=300
//   fn="check_time,TimeSigned::to_unix_time" bound="every time signed (2^48), every fudge (2^16), every now (2^48); no loops"
//   sym="time:[u8;6], fudge:u16, now:[u8;6]"
#[kani::proof]
#[kani::unwind(10)]
fn c11_check_time_all() {
    let time: [u8; 6] = kani::any();
    let now: [u8; 6] = kani::any();
    let fudge: u16 = kani::any();
    let r = check_time(TimeSigned::from(time), fudge, TimeSigned::from(now));
    let ok = ref_time_ok(&time, fudge, &now);
    assert!(r.is_ok() == ok, "[C11] check_time accepts exactly |now - time signed| <= fudge");
    assert!(r.is_ok() == ok, "[C10] check_time accepts exactly |now - time signed| <= fudge");
    assert!(r.is_ok() || r == Err(VerificationError::BadTime), "[C11] check_time fails only with BADTIME");
    kani::cover!(r.is_ok() && u48(&time) < 300 && u48(&now) == 0 && fudge == 300, "window clipped at the epoch");
    kani::cover!(r.is_ok() && u48(&time) == 0xffff_ffff_ffff && fudge > 0, "window at the top of the 48-bit range");
    kani::cover!(r.is_err() && u48(&now) == u48(&time) + fudge as u64 + 1, "one second too late");
    kani::cover!(r.is_err() && u48(&now) + fudge as u64 + 1 == u48(&time), "one second too early");
}

// @harness props=C11,C10 tier=quick mem=2 t=300
//   fn="check_mac_size,Algorithm::output_size" bound="both algorithms, every MAC size (2^16); no loops" sym="mac_size:u16"
#[kani::proof]
#[kani::unwind(10)]
fn c11_check_mac_size_all() {
    let size: u16 = kani::any();
    let r1 = check_mac_size(Algorithm::HmacSha1, size);
    let r256 = check_mac_size(Algorithm::HmacSha256, size);
    assert!(Algorithm::HmacSha1.output_size() == 20 && Algorithm::HmacSha256.output_size() == 32, "[C11] output sizes of HMAC-SHA1 / HMAC-SHA256");
    assert!(r1.is_ok() == ref_size_ok(20, size as usize), "[C11] hmac-sha1: MAC sizes 10..=20 and no others are accepted");
    assert!(r256.is_ok() == ref_size_ok(32, size as usize), "[C11] hmac-sha256: MAC sizes 16..=32 and no others are accepted");
    assert!(r1.is_ok() == (size >= 10 && size <= 20), "[C10] hmac-sha1: MAC sizes 10..=20 and no others are accepted");
    assert!(r256.is_ok() == (size >= 16 && size <= 32), "[C10] hmac-sha256: MAC sizes 16..=32 and no others are accepted");
    assert!(r1.is_ok() || r1 == Err(VerificationError::FormErr), "[C11] check_mac_size fails only with FORMERR");
    kani::cover!(r1.is_ok() && r256.is_err(), "size accepted for sha1 only");
    kani::cover!(r256.is_ok() && r1.is_err(), "size accepted for sha256 only");
}
