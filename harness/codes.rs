// @host src/rr/rr_type.rs
//
// C17: TYPE / CLASS / QTYPE / QCLASS text round trips, mnemonics with every
// letter-case variant, RFC 3597 TYPEn / CLASSn generic forms, and the 4-bit
// OPCODE / RCODE conversions.
//
// The mnemonic tables below are written from RFC 1035 section 3.2.2-3.2.5,
// RFC 1995, RFC 2136, RFC 2782, RFC 3596, RFC 6891 and RFC 8945 - not copied
// from a quandary data structure (quandary has none: the mnemonics live in
// match arms).  The 16-bit domains are symbolic as a whole (one u16 =
// 65 536 values per solver query).

use super::*;
use crate::class::Class;
use crate::message::{ExtendedRcode, Opcode, Qclass, Rcode};

// --------------------------------------------------------------------------
// reference tables
// --------------------------------------------------------------------------

const TYPE_MNEMONICS: [(&[u8], u16); 20] = [
    (b"A", 1),
    (b"NS", 2),
    (b"MD", 3),
    (b"MF", 4),
    (b"CNAME", 5),
    (b"SOA", 6),
    (b"MB", 7),
    (b"MG", 8),
    (b"MR", 9),
    (b"NULL", 10),
    (b"WKS", 11),
    (b"PTR", 12),
    (b"HINFO", 13),
    (b"MINFO", 14),
    (b"MX", 15),
    (b"TXT", 16),
    (b"AAAA", 28),
    (b"SRV", 33),
    (b"OPT", 41),
    (b"TSIG", 250),
];

// QTYPE-only mnemonics (RFC 1035 section 3.2.3, RFC 1995); "*" has no letters
const QTYPE_MNEMONICS: [(&[u8], u16); 6] = [
    (b"IXFR", 251),
    (b"AXFR", 252),
    (b"MAILB", 253),
    (b"MAILA", 254),
    (b"ANY", 255),
    (b"*", 255),
];

const CLASS_MNEMONICS: [(&[u8], u16); 3] = [(b"IN", 1), (b"CH", 3), (b"HS", 4)];

// QCLASS-only mnemonics (RFC 1035 section 3.2.5, RFC 2136)
const QCLASS_MNEMONICS: [(&[u8], u16); 3] = [(b"NONE", 254), (b"ANY", 255), (b"*", 255)];

/// Longest mnemonic / prefix handled by `with_case`.
const MAX_WORD: usize = 5;

/// `word` (upper-case ASCII letters, or `*`) with letter i lower-cased iff bit
/// i of `mask` is set.  All 2^len case variants as `mask` ranges over u8.
fn with_case(word: &[u8], mask: u8, out: &mut [u8; MAX_WORD]) {
    let mut i = 0;
    while i < word.len() {
        let c = word[i];
        let lower = (mask >> i) & 1 == 1;
        out[i] = if lower && c >= b'A' && c <= b'Z' { c + 32 } else { c };
        i += 1;
    }
}

fn ascii_str(b: &[u8]) -> &str {
    // every octet written by the harness is ASCII (letters, digits, '*')
    let mut i = 0;
    while i < b.len() {
        assert!(b[i] < 0x80);
        i += 1;
    }
    unsafe { std::str::from_utf8_unchecked(b) }
}

/// Decimal text of `n` without leading zeros, written at `out[at..]`; returns
/// the end index.  Total function of n, so every n gets its text.
fn put_decimal(n: u16, out: &mut [u8; 10], at: usize) -> usize {
    let d = [
        (n / 10000) as u8,
        ((n / 1000) % 10) as u8,
        ((n / 100) % 10) as u8,
        ((n / 10) % 10) as u8,
        (n % 10) as u8,
    ];
    let mut i = 0;
    while i < 4 && d[i] == 0 {
        i += 1;
    }
    let mut len = at;
    while i < 5 {
        out[len] = b'0' + d[i];
        len += 1;
        i += 1;
    }
    len
}

// --------------------------------------------------------------------------
// Display -> FromStr round trips, whole u16 domain
// --------------------------------------------------------------------------

// @harness props=C17 tier=quick mem=6 t=1200 fn="<Type as Display>::fmt,<Type as FromStr>::from_str"
//   bound="every u16 value (65 536), one query; unwind 22" sym="v:u16"
#[kani::proof]
#[kani::unwind(22)]
fn c17_type_roundtrip() {
    let v: u16 = kani::any();
    let s = Type::from(v).to_string();
    let p = s.parse::<Type>();
    assert!(matches!(p, Ok(t) if u16::from(t) == v), "[C17] Type text parses back to the same value");
    kani::cover!(v == 28 && p.is_ok(), "a mnemonic value (AAAA)");
    kani::cover!(v == 65535 && p.is_ok(), "a five-digit TYPEn value");
    kani::cover!(v == 0 && p.is_ok(), "TYPE0");
}

// @harness props=C17 tier=quick mem=6 t=900 fn="<Class as Display>::fmt,<Class as FromStr>::from_str"
//   bound="every u16 value (65 536), one query; unwind 22" sym="v:u16"
#[kani::proof]
#[kani::unwind(22)]
fn c17_class_roundtrip() {
    let v: u16 = kani::any();
    let s = Class::from(v).to_string();
    let p = s.parse::<Class>();
    assert!(matches!(p, Ok(c) if u16::from(c) == v), "[C17] Class text parses back to the same value");
    kani::cover!(v == 3 && p.is_ok(), "a mnemonic value (CH)");
    kani::cover!(v == 65535 && p.is_ok(), "a five-digit CLASSn value");
    kani::cover!(v == 0 && p.is_ok(), "CLASS0");
}

// @harness props=C17 tier=quick mem=6 t=1200 fn="<Qtype as Display>::fmt,<Qtype as FromStr>::from_str,<Type as Display>::fmt,<Type as FromStr>::from_str"
//   bound="every u16 value (65 536), one query; unwind 22" sym="v:u16"
#[kani::proof]
#[kani::unwind(22)]
fn c17_qtype_roundtrip() {
    let v: u16 = kani::any();
    let s = Qtype::from(v).to_string();
    let p = s.parse::<Qtype>();
    assert!(matches!(p, Ok(t) if u16::from(t) == v), "[C17] Qtype text parses back to the same value");
    kani::cover!(v == 255 && p.is_ok(), "QTYPE * (ANY)");
    kani::cover!(v == 252 && p.is_ok(), "a QTYPE-only mnemonic (AXFR)");
    kani::cover!(v == 15 && p.is_ok(), "a data TYPE mnemonic (MX)");
    kani::cover!(v == 65535 && p.is_ok(), "a five-digit TYPEn value");
}

// @harness props=C17 tier=quick mem=6 t=900 fn="<Qclass as Display>::fmt,<Qclass as FromStr>::from_str,<Class as Display>::fmt,<Class as FromStr>::from_str"
//   bound="every u16 value (65 536), one query; unwind 22" sym="v:u16"
#[kani::proof]
#[kani::unwind(22)]
fn c17_qclass_roundtrip() {
    let v: u16 = kani::any();
    let s = Qclass::from(v).to_string();
    let p = s.parse::<Qclass>();
    assert!(matches!(p, Ok(c) if u16::from(c) == v), "[C17] Qclass text parses back to the same value");
    kani::cover!(v == 255 && p.is_ok(), "QCLASS * (ANY)");
    kani::cover!(v == 254 && p.is_ok(), "QCLASS NONE");
    kani::cover!(v == 1 && p.is_ok(), "a CLASS mnemonic (IN)");
    kani::cover!(v == 65535 && p.is_ok(), "a five-digit CLASSn value");
}

// --------------------------------------------------------------------------
// RFC 3597 section 5 generic forms: "TYPE" / "CLASS" immediately followed by
// the decimal number.  The text is assembled digit by digit here (no
// formatting machinery), for every n.  The prefix additionally carries a
// symbolic letter-case mask (mask 0 = the upper-case spelling of the RFC).
// --------------------------------------------------------------------------

// @harness props=C17 tier=quick mem=4 t=600 fn="<Type as FromStr>::from_str,<Qtype as FromStr>::from_str"
//   bound="TYPEn for every n in 0..=65535, decimal without leading zeros, all 16 case variants of the prefix; unwind 22"
//   sym="n:u16, mask:u8<16"
#[kani::proof]
#[kani::unwind(22)]
fn c17_type_generic_form() {
    let n: u16 = kani::any();
    let mask: u8 = kani::any();
    kani::assume(mask < 16);
    let mut word = [0u8; MAX_WORD];
    with_case(b"TYPE", mask, &mut word);
    let mut buf = [0u8; 10];
    buf[0] = word[0];
    buf[1] = word[1];
    buf[2] = word[2];
    buf[3] = word[3];
    let len = put_decimal(n, &mut buf, 4);
    let text = ascii_str(&buf[..len]);
    let t = text.parse::<Type>();
    assert!(matches!(t, Ok(t) if u16::from(t) == n), "[C17] TYPEn parses as Type n for every n");
    let q = text.parse::<Qtype>();
    assert!(matches!(q, Ok(q) if u16::from(q) == n), "[C17] TYPEn parses as Qtype n for every n");
    kani::cover!(n == 0 && len == 5, "TYPE0");
    kani::cover!(n == 65535 && len == 9 && mask == 0, "TYPE65535");
    kani::cover!(n == 1 && mask == 15, "type1 (a value that also has a mnemonic)");
    kani::cover!(n == 255 && mask == 0, "TYPE255 (QTYPE-only value)");
}

// @harness props=C17 tier=quick mem=4 t=600 fn="<Class as FromStr>::from_str,<Qclass as FromStr>::from_str"
//   bound="CLASSn for every n in 0..=65535, decimal without leading zeros, all 32 case variants of the prefix; unwind 12"
//   sym="n:u16, mask:u8<32"
#[kani::proof]
#[kani::unwind(12)]
fn c17_class_generic_form() {
    let n: u16 = kani::any();
    let mask: u8 = kani::any();
    kani::assume(mask < 32);
    let mut word = [0u8; MAX_WORD];
    with_case(b"CLASS", mask, &mut word);
    let mut buf = [0u8; 10];
    buf[0] = word[0];
    buf[1] = word[1];
    buf[2] = word[2];
    buf[3] = word[3];
    buf[4] = word[4];
    let len = put_decimal(n, &mut buf, 5);
    let text = ascii_str(&buf[..len]);
    let c = text.parse::<Class>();
    assert!(matches!(c, Ok(c) if u16::from(c) == n), "[C17] CLASSn parses as Class n for every n");
    let q = text.parse::<Qclass>();
    assert!(matches!(q, Ok(q) if u16::from(q) == n), "[C17] CLASSn parses as Qclass n for every n");
    kani::cover!(n == 0 && len == 6, "CLASS0");
    kani::cover!(n == 65535 && len == 10 && mask == 0, "CLASS65535");
    kani::cover!(n == 1 && mask == 31, "class1 (a value that also has a mnemonic)");
}

// --------------------------------------------------------------------------
// mnemonics, every letter-case variant
//
// One symbolic table index and one symbolic case mask per query: the text has
// a symbolic length (1..=5) inside a 5-octet buffer.
// --------------------------------------------------------------------------

fn pick<const N: usize>(table: &[(&'static [u8], u16); N]) -> (&'static [u8], u16) {
    let i: usize = kani::any();
    kani::assume(i < N);
    table[i]
}

fn type_mnemonic_parses(mask: u8) {
    let (word, code) = pick(&TYPE_MNEMONICS);
    let mut buf = [0u8; MAX_WORD];
    with_case(word, mask, &mut buf);
    let text = ascii_str(&buf[..word.len()]);
    let t = text.parse::<Type>();
    assert!(matches!(t, Ok(t) if u16::from(t) == code), "[C17] TYPE mnemonic parses to its code in any letter case");
    let q = text.parse::<Qtype>();
    assert!(matches!(q, Ok(q) if u16::from(q) == code), "[C17] TYPE mnemonic parses as Qtype to its code in any letter case");
    kani::cover!(code == 1, "first table entry (A)");
    kani::cover!(code == 250, "last table entry (TSIG)");
    kani::cover!(code == 13 && word.len() == 5, "a five-letter mnemonic (HINFO)");
}

// @harness props=C17 tier=quick mem=4 t=900 fn="<Type as FromStr>::from_str,<Qtype as FromStr>::from_str,util::Caseless"
//   bound="all 20 TYPE mnemonics (symbolic table index) x all 2^len letter-case variants (symbolic 5-bit mask); unwind 22"
//   sym="i<20, mask:u8<32"
#[kani::proof]
#[kani::unwind(22)]
fn c17_type_mnemonics_any_case() {
    let mask: u8 = kani::any();
    kani::assume(mask < 32);
    type_mnemonic_parses(mask);
    kani::cover!(mask == 0, "all upper case");
    kani::cover!(mask == 31, "all lower case");
    kani::cover!(mask == 0b01010, "mixed case");
}

// @harness props=C17 tier=quick mem=4 t=900 fn="<Type as FromStr>::from_str,<Qtype as FromStr>::from_str"
//   bound="all 20 TYPE mnemonics (symbolic table index) in the upper-case spelling of the RFCs; unwind 22" sym="i<20"
#[kani::proof]
#[kani::unwind(22)]
fn c17_type_mnemonics_upper() {
    type_mnemonic_parses(0);
}

fn qtype_mnemonic_parses(mask: u8) {
    let (word, code) = pick(&QTYPE_MNEMONICS);
    let mut buf = [0u8; MAX_WORD];
    with_case(word, mask, &mut buf);
    let text = ascii_str(&buf[..word.len()]);
    let q = text.parse::<Qtype>();
    assert!(matches!(q, Ok(q) if u16::from(q) == code), "[C17] QTYPE mnemonic parses to its code in any letter case");
    kani::cover!(code == 251, "IXFR");
    kani::cover!(code == 255 && word.len() == 1, "*");
    kani::cover!(code == 255 && word.len() == 3, "ANY");
}

// @harness props=C17 tier=quick mem=4 t=900 fn="<Qtype as FromStr>::from_str,util::Caseless"
//   bound="IXFR, AXFR, MAILB, MAILA, ANY, * (symbolic table index) x all letter-case variants (symbolic 5-bit mask); unwind 22"
//   sym="i<6, mask:u8<32"
#[kani::proof]
#[kani::unwind(22)]
fn c17_qtype_mnemonics_any_case() {
    let mask: u8 = kani::any();
    kani::assume(mask < 32);
    qtype_mnemonic_parses(mask);
    kani::cover!(mask == 0, "all upper case");
    kani::cover!(mask == 31, "all lower case");
}

// @harness props=C17 tier=quick mem=4 t=900 fn="<Qtype as FromStr>::from_str"
//   bound="IXFR, AXFR, MAILB, MAILA, ANY, * (symbolic table index) in upper case; unwind 22" sym="i<6"
#[kani::proof]
#[kani::unwind(22)]
fn c17_qtype_mnemonics_upper() {
    qtype_mnemonic_parses(0);
}

fn class_mnemonic_parses(mask: u8) {
    let (word, code) = pick(&CLASS_MNEMONICS);
    let mut buf = [0u8; MAX_WORD];
    with_case(word, mask, &mut buf);
    let text = ascii_str(&buf[..word.len()]);
    let c = text.parse::<Class>();
    assert!(matches!(c, Ok(c) if u16::from(c) == code), "[C17] CLASS mnemonic parses to its code in any letter case");
    let q = text.parse::<Qclass>();
    assert!(matches!(q, Ok(q) if u16::from(q) == code), "[C17] CLASS mnemonic parses as Qclass to its code in any letter case");
    kani::cover!(code == 1, "IN");
    kani::cover!(code == 4, "HS");

    let (word, code) = pick(&QCLASS_MNEMONICS);
    let mut buf = [0u8; MAX_WORD];
    with_case(word, mask, &mut buf);
    let text = ascii_str(&buf[..word.len()]);
    let q = text.parse::<Qclass>();
    assert!(matches!(q, Ok(q) if u16::from(q) == code), "[C17] QCLASS mnemonic parses to its code in any letter case");
    kani::cover!(code == 254, "NONE");
    kani::cover!(code == 255 && word.len() == 1, "*");
    kani::cover!(code == 255 && word.len() == 3, "ANY");
}

// @harness props=C17 tier=quick mem=4 t=900 fn="<Class as FromStr>::from_str,<Qclass as FromStr>::from_str,util::Caseless"
//   bound="IN, CH, HS (as Class and as Qclass) and NONE, ANY, * (Qclass), symbolic table indices x all letter-case variants (symbolic 4-bit mask); unwind 8"
//   sym="i<3, j<3, mask:u8<16"
#[kani::proof]
#[kani::unwind(8)]
fn c17_class_mnemonics_any_case() {
    let mask: u8 = kani::any();
    kani::assume(mask < 16);
    class_mnemonic_parses(mask);
    kani::cover!(mask == 0, "all upper case");
    kani::cover!(mask == 15, "all lower case");
    kani::cover!(mask == 0b10, "mixed case");
}

// @harness props=C17 tier=quick mem=4 t=900 fn="<Class as FromStr>::from_str,<Qclass as FromStr>::from_str"
//   bound="IN, CH, HS, NONE, ANY, * (symbolic table indices) in upper case; unwind 8" sym="i<3, j<3"
#[kani::proof]
#[kani::unwind(8)]
fn c17_class_mnemonics_upper() {
    class_mnemonic_parses(0);
}

// --------------------------------------------------------------------------
// 4-bit codes
// --------------------------------------------------------------------------

// @harness props=C17 tier=quick mem=2 t=300 fn="<Opcode as TryFrom<u8>>::try_from,<Rcode as TryFrom<u8>>::try_from,<Rcode as TryFrom<ExtendedRcode>>::try_from,<ExtendedRcode as From<Rcode>>::from"
//   bound="every u8 (256) for Opcode/Rcode, every u16 (65 536) for ExtendedRcode; no loops" sym="b:u8, e:u16"
#[kani::proof]
fn c17_opcode_rcode_conversions() {
    let b: u8 = kani::any();
    let o = Opcode::try_from(b);
    assert!(o.is_ok() == (b < 16), "[C17] Opcode::try_from(u8) accepts exactly the 4-bit values");
    if let Ok(o) = o {
        assert!(u8::from(o) == b, "[C17] Opcode keeps its value");
    }
    let r = Rcode::try_from(b);
    assert!(r.is_ok() == (b < 16), "[C17] Rcode::try_from(u8) accepts exactly the 4-bit values");
    if let Ok(r) = r {
        assert!(u8::from(r) == b, "[C17] Rcode keeps its value");
        let back = ExtendedRcode::from(r);
        assert!(u16::from(back) == b as u16, "[C17] Rcode widens to the same extended RCODE");
    }
    let e: u16 = kani::any();
    let x = Rcode::try_from(ExtendedRcode::from(e));
    assert!(x.is_ok() == (e < 16), "[C17] extended RCODE converts to an RCODE exactly when below 16");
    if let Ok(x) = x {
        assert!(u8::from(x) as u16 == e, "[C17] extended RCODE below 16 converts to the same value");
    }
    kani::cover!(b == 15 && o.is_ok() && r.is_ok(), "largest 4-bit value accepted");
    kani::cover!(b == 16 && o.is_err() && r.is_err(), "smallest rejected value");
    kani::cover!(e == 15 && x.is_ok(), "extended 15 accepted");
    kani::cover!(e == 16 && x.is_err(), "extended 16 (BADVERS) rejected");
    kani::cover!(e == 0x0100 && x.is_err(), "extended value whose low octet is 0 rejected");
}
