// @host src/zone_file/reader.rs
//
// C24 (the zone-file parser is total and only yields valid records) and C23
// (zone files parse to the records they denote).
//
// The family is attached as a child of src/zone_file/reader.rs (not mod.rs):
// from there both the private state of `Reader` (needed for the one-step
// buffer harnesses and for building a parser with a small buffer) and the
// private items of `zone_file` (Parser fields, Context) are visible.
//
// Input source: `Src<N>` (N <= 64), an array-backed `Read` implementation
// that hands out its N octets element by element (no memcpy, no loop).

use super::super::{Context, Line, LineContent, ParsedRr, Parser};
use super::*;
use crate::class::Class;
use crate::name::Name;
use crate::rr::{Rdata, Ttl, Type};
use std::rc::Rc;

pub(crate) struct Src<const N: usize> {
    data: [u8; N],
    pos: usize,
}

impl<const N: usize> Src<N> {
    fn new(data: [u8; N]) -> Self {
        Src { data, pos: 0 }
    }
}

/// `$into[k] = $data[$pos + k]` for every k < $n among the listed indices,
/// written without a loop so that handing out the input does not consume the
/// harness's unwind bound (which is chosen for the parser's own loops).
macro_rules! copy_unrolled {
    ($into:expr, $data:expr, $pos:expr, $n:expr; $($k:literal)*) => {
        $( if $k < $n { $into[$k] = $data[$pos + $k]; } )*
    };
}

impl<const N: usize> Read for Src<N> {
    fn read(&mut self, into: &mut [u8]) -> io::Result<usize> {
        // every caller in reader.rs passes a slice with room for the whole
        // remainder except the small-buffer reader harnesses; N <= 64
        let n = if N - self.pos <= into.len() { N - self.pos } else { into.len() };
        copy_unrolled!(into, self.data, self.pos, n;
            0 1 2 3 4 5 6 7 8 9 10 11 12 13 14 15 16 17 18 19 20 21 22 23 24 25 26 27 28 29 30 31
            32 33 34 35 36 37 38 39 40 41 42 43 44 45 46 47 48 49 50 51 52 53 54 55 56 57 58 59 60 61 62 63);
        assert!(n <= 64, "[C24] harness: Src hands out at most 64 octets per call");
        self.pos += n;
        Ok(n)
    }
}

/// Stub S6: error-message formatting is not the subject.
pub(crate) fn empty_format(_: core::fmt::Arguments) -> String {
    String::new()
}

/// The real parser over `data`, except that the reader's buffer starts with
/// 64 octets instead of INITIAL_BUFFER_SIZE (16 KiB).  The buffer's initial
/// size is not observable (try_fill grows it on demand; the c24_reader_*
/// harnesses check that logic): with the 16 KiB buffer, which CBMC treats as
/// one big symbolic array, even a 1-octet input was out of reach (see below).
/// N <= 64.
pub(crate) fn small_parser<const N: usize>(data: [u8; N], context: Context) -> Parser<Src<N>> {
    Parser {
        error: false,
        reader: Reader {
            stream: Src::new(data),
            buf: vec![0; 64],
            start: 0,
            end: 0,
            in_parens: false,
            position: Position { line: 1, column: 1 },
        },
        context,
    }
}

/// `Parser::from(octets)`: the same, with an empty context.  (A trait impl so
/// that the family hosted at record.rs, which cannot name this private
/// module, can build the parser too.)
impl<const N: usize> From<[u8; N]> for Parser<Src<N>> {
    fn from(data: [u8; N]) -> Self {
        small_parser(data, Context::default())
    }
}

// --------------------------------------------------------------------------
// structured lines
// --------------------------------------------------------------------------

/// The record of the first yielded line, if it is a record.
fn first_record<S: Read>(p: &mut Parser<S>) -> Option<(usize, ParsedRr)> {
    match p.next() {
        Some(Ok(Line {
            number,
            content: LineContent::Record(rr),
        })) => Some((number, rr)),
        Some(Ok(other)) => {
            core::mem::forget(other);
            None
        }
        Some(Err(e)) => {
            core::mem::forget(e);
            None
        }
        None => None,
    }
}

fn wire_eq(a: &[u8], b: &[u8]) -> bool {
    if a.len() != b.len() {
        return false;
    }
    let mut i = 0;
    while i < b.len() {
        if a[i] != b[i] {
            return false;
        }
        i += 1;
    }
    true
}

// --------------------------------------------------------------------------
// (iii) the reader's buffer management, one step from an arbitrary state
// --------------------------------------------------------------------------

/// An arbitrary valid reader state over a buffer of L octets and a stream of
/// N octets of which `pos` were already handed out: start <= end <= L, every
/// buffer octet symbolic.
fn any_reader<const N: usize, const L: usize>() -> (Reader<Src<N>>, [u8; L], [u8; N]) {
    let content: [u8; L] = kani::any();
    let data: [u8; N] = kani::any();
    let pos: usize = kani::any();
    let start: usize = kani::any();
    let end: usize = kani::any();
    kani::assume(pos <= N);
    kani::assume(start <= end && end <= L);
    let mut buf = vec![0u8; L];
    let mut i = 0;
    while i < L {
        buf[i] = content[i];
        i += 1;
    }
    let r = Reader {
        stream: Src { data, pos },
        buf,
        start,
        end,
        in_parens: kani::any(),
        position: Position {
            line: kani::any(),
            column: kani::any(),
        },
    };
    (r, content, data)
}

/// try_fill(target): no index leaves the buffer; the unconsumed octets are
/// kept (in order), followed by the next octets of the stream (in order);
/// Ok(true) iff `target` octets are then available; Ok(false) only when the
/// stream is exhausted.
///
/// `target` is concrete per harness.  (Measured: a symbolic target <= 4 ran
/// CBMC out of memory at 9.6 GB while converting the equation; enumerating
/// all (start, end, target) triples concretely in one harness: 14 min of
/// symbolic execution, then out of memory at 13.2 GB.)
fn try_fill_step<const N: usize, const L: usize>(target: usize) {
    let (mut r, content, data) = any_reader::<N, L>();
    let old_start = r.start;
    let old_buffered = r.end - r.start;
    let old_pos = r.stream.pos;
    let res = r.try_fill(target);
    assert!(r.start <= r.end && r.end <= r.buf.len(), "[C24] reader indices leave the buffer");
    let buffered = r.end - r.start;
    match res {
        Ok(enough) => {
            assert!(enough == (buffered >= target), "[C24] try_fill reports availability wrongly");
            assert!(enough || r.stream.pos == N, "[C24] try_fill gives up before the stream ends");
        }
        Err(_) => assert!(false, "[C24] try_fill fails although the stream never does"),
    }
    assert!(buffered >= old_buffered, "[C24] try_fill loses buffered octets");
    assert!(buffered - old_buffered == r.stream.pos - old_pos, "[C24] try_fill buffers exactly what it took from the stream");
    if old_buffered >= target {
        assert!(r.start == old_start && r.stream.pos == old_pos, "[C24] try_fill touches a sufficiently full buffer");
    }
    let mut i = 0;
    while i < buffered && i < L + N {
        let expect = if i < old_buffered {
            content[old_start + i]
        } else {
            data[old_pos + (i - old_buffered)]
        };
        assert!(r.buf[r.start + i] == expect, "[C23] try_fill corrupts the unconsumed data");
        i += 1;
    }
    kani::cover!(matches!(res, Ok(true)) && old_buffered < target && old_start > 0, "refill after a shift");
    kani::cover!(matches!(res, Ok(false)), "end of stream before the target");
    core::mem::forget(r);
}

// @harness props=C24,C23 tier=quick mem=4 t=900
//   fn="Reader::try_fill,Reader::shift,Reader::buffered"
//   bound="one try_fill(1) (what peek_octet / read_octet ask for) from every reader state over a 4-octet buffer (start <= end <= 4 symbolic, contents symbolic) and a 3-octet stream with 0..=3 octets already consumed; unwind 9"
//   sym="buffer contents, start, end, stream contents and position"
#[kani::proof]
#[kani::unwind(9)]
fn c24_reader_try_fill_t1() {
    try_fill_step::<3, 4>(1);
}

// @harness props=C24,C23 tier=quick mem=4 t=900
//   fn="Reader::try_fill,Reader::shift,Reader::buffered"
//   bound="one try_fill(4) (the whole buffer, no growth) from every reader state over a 4-octet buffer and a 3-octet stream; unwind 9"
//   sym="buffer contents, start, end, stream contents and position"
#[kani::proof]
#[kani::unwind(9)]
fn c24_reader_try_fill_t4() {
    try_fill_step::<3, 4>(4);
}

// @harness props=C24,C23 tier=quick mem=4 t=900
//   fn="Reader::try_fill,Reader::shift,Vec::resize"
//   bound="one try_fill(6) from every reader state over a 4-octet buffer and a 3-octet stream: the buffer must grow; unwind 9"
//   sym="buffer contents, start, end, stream contents and position"
#[kani::proof]
#[kani::unwind(9)]
fn c24_reader_try_fill_t6() {
    try_fill_step::<3, 4>(6);
}

// --------------------------------------------------------------------------
// parser helpers on tiny symbolic inputs
// --------------------------------------------------------------------------
//
// Whole lines are out of reach (see the report in the annotations below):
// every `io::Result<Option<u8>>` the reader returns loses its constants in
// CBMC (measured with a function that returns the constant `Ok(Some(b'.'))`:
// the match on it is not folded), so the parser's control flow is symbolic
// even for a fully concrete line and every loop runs to the unwind bound.
// The helpers below are checked on inputs of 2-5 octets instead.

pub(crate) fn is_digit(b: u8) -> bool {
    b >= b'0' && b <= b'9'
}

// @harness props=C23,C24 tier=quick mem=3 t=600 stubs="S6"
//   fn="Parser::parse_escape,Parser::parse_decimal_escape,Reader::read_octet,Reader::read"
//   bound="the 3 octets after a backslash, all symbolic (2^24), followed by end of input: value of \\DDD and \\X escapes, the three error kinds; unwind 5"
//   sym="data:[u8;3]"
#[kani::proof]
#[kani::unwind(5)]
#[kani::stub(alloc::fmt::format, empty_format)]
fn c23_escape_3() {
    let d: [u8; 3] = kani::any();
    let mut p = small_parser(d, Context::default());
    let r = p.parse_escape();
    let consumed = p.reader.start;
    if is_digit(d[0]) {
        let all = is_digit(d[1]) && is_digit(d[2]);
        let v = 100 * (d[0] - b'0') as u32 + 10 * (d[1].wrapping_sub(b'0')) as u32 + (d[2].wrapping_sub(b'0')) as u32;
        match &r {
            Ok(x) => {
                assert!(all && v <= 255, "[C23] a malformed or out-of-range \\DDD escape is accepted");
                assert!(*x as u32 == v, "[C23] \\DDD escape has the wrong value");
                assert!(consumed == 3, "[C23] \\DDD escape consumes three digits");
            }
            Err(Error::Syntax(det)) => {
                assert!(!(all && v <= 255), "[C23] a valid \\DDD escape is rejected");
                if !all {
                    assert!(det.kind == ErrorKind::EscapeNeedsThreeDigits, "[C23] wrong error for a short \\DDD escape");
                } else {
                    assert!(det.kind == ErrorKind::EscapeValueOutOfRange, "[C23] wrong error for \\DDD > 255");
                }
            }
            Err(_) => assert!(false, "[C24] I/O error from a source that never fails"),
        }
        kani::cover!(matches!(r, Ok(255)), "\\255");
        kani::cover!(r.is_err() && all, "\\256 or more");
    } else {
        match &r {
            Ok(x) => {
                assert!(*x == d[0], "[C23] \\X must stand for X");
                assert!(consumed == 1, "[C23] \\X consumes one octet");
            }
            Err(_) => assert!(false, "[C23] \\X rejected"),
        }
        kani::cover!(matches!(r, Ok(b'.')), "escaped dot");
    }
    core::mem::forget(r);
    core::mem::forget(p);
}

// @harness props=C23,C24 tier=quick mem=3 t=600 stubs="S6"
//   fn="Parser::parse_escape,Parser::parse_decimal_escape"
//   bound="1 or 2 octets after a backslash (symbolic) followed by end of input, and no octet at all: EofInEscape unless the single octet is not a digit; unwind 5"
//   sym="data:[u8;2], length in {0,1,2} (three parsers)"
#[kani::proof]
#[kani::unwind(5)]
#[kani::stub(alloc::fmt::format, empty_format)]
fn c23_escape_short() {
    let d: [u8; 2] = kani::any();
    let mut p0 = small_parser([0u8; 0], Context::default());
    let r0 = p0.parse_escape();
    assert!(
        matches!(&r0, Err(Error::Syntax(det)) if det.kind == ErrorKind::EofInEscape),
        "[C23] backslash at end of input must be EofInEscape"
    );
    let mut p1 = small_parser([d[0]], Context::default());
    let r1 = p1.parse_escape();
    if is_digit(d[0]) {
        assert!(
            matches!(&r1, Err(Error::Syntax(det)) if det.kind == ErrorKind::EofInEscape),
            "[C23] one digit then end of input must be EofInEscape"
        );
    } else {
        assert!(matches!(&r1, Ok(x) if *x == d[0]), "[C23] \\X at end of input stands for X");
    }
    let mut p2 = small_parser([d[0], d[1]], Context::default());
    let r2 = p2.parse_escape();
    if is_digit(d[0]) {
        assert!(
            matches!(&r2, Err(Error::Syntax(det)) if det.kind == ErrorKind::EofInEscape),
            "[C23] two octets of a \\DDD escape then end of input must be EofInEscape"
        );
    } else {
        assert!(matches!(&r2, Ok(x) if *x == d[0]), "[C23] \\X stands for X");
    }
    kani::cover!(r1.is_ok(), "single escaped octet");
    kani::cover!(r2.is_err(), "truncated decimal escape");
    core::mem::forget((r0, r1, r2));
    core::mem::forget((p0, p1, p2));
}

