// @host src/zone_file/reader.rs
//
// C24 (the zone-file parser is total and only yields valid records) and C23
// (zone files parse to the records they denote).
//
// The family is attached as a child of src/zone_file/reader.rs (not mod.rs):
// from there both the private state of `Reader` (needed for the one-step
// buffer harnesses and for building a parser with a small buffer) and the
// private items of `zone_file` (Parser fields, Context) are visible.
//
// Input source: `Src<N>` (N <= 64), an array-backed `Read` implementation
// that hands out its N octets element by element (no memcpy, no loop).

use super::super::{Context, Line, LineContent, ParsedRr, Parser};
use super::*;
use crate::class::Class;
use crate::name::Name;
use crate::rr::{Rdata, Ttl, Type};
use std::rc::Rc;

pub struct Src<const N: usize> {
    data: [u8; N],
    pos: usize,
}

impl<const N: usize> Src<N> {
    fn new(data: [u8; N]) -> Self {
        Src { data, pos: 0 }
    }
}

/// `$into[k] = $data[$pos + k]` for every k < $n among the listed indices,
/// written without a loop so that handing out the input does not consume the
/// harness's unwind bound (which is chosen for the parser's own loops).
macro_rules! copy_unrolled {
    ($into:expr, $data:expr, $pos:expr, $n:expr; $($k:literal)*) => {
        $( if $k < $n { $into[$k] = $data[$pos + $k]; } )*
    };
}

impl<const N: usize> Read for Src<N> {
    fn read(&mut self, into: &mut [u8]) -> io::Result<usize> {
        // every caller in reader.rs passes a slice with room for the whole
        // remainder except the small-buffer reader harnesses; N <= 64
        let n = if N - self.pos <= into.len() { N - self.pos } else { into.len() };
        copy_unrolled!(into, self.data, self.pos, n;
            0 1 2 3 4 5 6 7 8 9 10 11 12 13 14 15 16 17 18 19 20 21 22 23 24 25 26 27 28 29 30 31
            32 33 34 35 36 37 38 39 40 41 42 43 44 45 46 47 48 49 50 51 52 53 54 55 56 57 58 59 60 61 62 63);
        assert!(n <= 64, "[C24] harness: Src hands out at most 64 octets per call");
        self.pos += n;
        Ok(n)
    }
}

/// Stub S6: error-message formatting is not the subject.
pub fn empty_format(_: core::fmt::Arguments) -> String {
    String::new()
}

/// What the property says about one yielded record.
fn check_valid(rr: &ParsedRr) {
    // absolute owner: the wire form ends with the root label and the label
    // table agrees
    let w = rr.owner.wire_repr();
    assert!(w.len() >= 1 && w[w.len() - 1] == 0, "[C24] yielded owner is not an absolute name");
    let t = u16::from(rr.rr_type);
    assert!(t != 10 && t != 41 && t != 250, "[C24] yielded record has type NULL, OPT or TSIG");
    assert!(
        rr.rdata.validate(rr.class, rr.rr_type).is_ok(),
        "[C24] yielded RDATA does not validate for its class and type"
    );
}

/// Drives the iterator for at most `max_items` items: every record yielded is
/// valid, nothing follows the first error.  Returns (records, includes,
/// errors) seen.
fn drive<S: Read>(p: &mut Parser<S>, max_items: usize) -> (usize, usize, usize) {
    let mut recs = 0;
    let mut incs = 0;
    let mut errs = 0;
    let mut k = 0;
    while k < max_items {
        match p.next() {
            None => break,
            Some(Ok(line)) => {
                assert!(errs == 0, "[C24] the parser yields a line after its first error");
                assert!(line.number >= 1, "[C24] line numbers start at 1");
                match &line.content {
                    LineContent::Record(rr) => {
                        check_valid(rr);
                        recs += 1;
                    }
                    LineContent::Include(_) => incs += 1,
                }
                core::mem::forget(line);
            }
            Some(Err(e)) => {
                assert!(errs == 0, "[C24] the parser yields a second error");
                errs += 1;
                core::mem::forget(e);
            }
        }
        k += 1;
    }
    if errs > 0 {
        let after = p.next();
        assert!(after.is_none(), "[C24] the parser yields something after its first error");
    }
    (recs, incs, errs)
}

/// The real parser over `data`, except that the reader's buffer is a
/// 64-octet array on the harness's stack instead of a 16 KiB heap vector
/// (INITIAL_BUFFER_SIZE).  The buffer's size and location are not observable
/// (try_fill grows it on demand; the c24_reader_* harnesses check that logic
/// on real vectors); CBMC keeps constants only in stack arrays of at most 64
/// elements, so this is what lets the concrete octets of a line stay
/// concrete.  The `Vec` built over the array must never be reallocated or
/// dropped: inputs are at most 64 octets long (no growth: `try_fill` only
/// resizes when asked for more octets than the buffer holds, and reads past
/// the end of input fail before that), and every parser is `mem::forget`-ed.
fn small_parser<'b, const N: usize>(data: [u8; N], storage: &'b mut [u8; 64], context: Context) -> Parser<Src<N>> {
    let buf = unsafe { Vec::from_raw_parts(storage.as_mut_ptr(), 64, 64) };
    Parser {
        error: false,
        reader: Reader {
            stream: Src::new(data),
            buf,
            start: 0,
            end: 0,
            in_parens: false,
            position: Position { line: 1, column: 1 },
        },
        context,
    }
}

fn totality<const N: usize>() {
    let data: [u8; N] = kani::any();
    let mut storage = [0u8; 64];
    let mut p = small_parser(data, &mut storage, Context::default());
    let (recs, _incs, errs) = drive(&mut p, 3);
    kani::cover!(errs == 1, "some input is rejected");
    kani::cover!(errs == 0 && recs == 0, "some input is accepted as empty");
    core::mem::forget(p);
}

// Through the real `Parser::new` (16 KiB buffer, which CBMC treats as one
// symbolic array) even N = 1 was out of reach: symbolic execution ran for 25
// min and CBMC ran out of memory at 6.0 GB RSS (measured, unwind 4).  The
// totality harnesses therefore use `small_parser`.

// @harness props=C24 tier=quick mem=4 t=1800 stubs="S6"
//   fn="Parser::next,Parser::parse_line,Parser::parse_record_or_empty,Parser::parse_directive,Parser::parse_name,Reader::*"
//   bound="every input of exactly 1 octet (all 256) through the parser with a 64-octet initial buffer, iterated until None or 3 items; unwind 4"
//   sym="data:[u8;1]"
#[kani::proof]
#[kani::unwind(4)]
#[kani::stub(alloc::fmt::format, empty_format)]
fn c24_total_len1() {
    totality::<1>();
}

// @harness props=C24 tier=quick mem=6 t=2400 stubs="S6"
//   fn="Parser::next,Parser::parse_line,Parser::parse_record_or_empty,Parser::parse_directive,Parser::parse_name,Reader::*"
//   bound="every input of exactly 2 octets through the parser with a 64-octet initial buffer, iterated until None or 3 items; unwind 5"
//   sym="data:[u8;2]"
#[kani::proof]
#[kani::unwind(5)]
#[kani::stub(alloc::fmt::format, empty_format)]
fn c24_total_len2() {
    totality::<2>();
}

// @harness props=C24 tier=thorough mem=8 t=3600 stubs="S6"
//   fn="Parser::next,Parser::parse_line,Parser::parse_record_or_empty,Parser::parse_directive,Parser::parse_name,Reader::*"
//   bound="every input of exactly 3 octets through the parser with a 64-octet initial buffer, iterated until None or 3 items; unwind 6"
//   sym="data:[u8;3]"
#[kani::proof]
#[kani::unwind(6)]
#[kani::stub(alloc::fmt::format, empty_format)]
fn c24_total_len3() {
    totality::<3>();
}

// --------------------------------------------------------------------------
// structured lines
// --------------------------------------------------------------------------

/// The record of the first yielded line, if it is a record.
fn first_record<S: Read>(p: &mut Parser<S>) -> Option<(usize, ParsedRr)> {
    match p.next() {
        Some(Ok(Line {
            number,
            content: LineContent::Record(rr),
        })) => Some((number, rr)),
        Some(Ok(other)) => {
            core::mem::forget(other);
            None
        }
        Some(Err(e)) => {
            core::mem::forget(e);
            None
        }
        None => None,
    }
}

fn wire_eq(a: &[u8], b: &[u8]) -> bool {
    if a.len() != b.len() {
        return false;
    }
    let mut i = 0;
    while i < b.len() {
        if a[i] != b[i] {
            return false;
        }
        i += 1;
    }
    true
}

#[kani::proof]
#[kani::unwind(8)]
#[kani::stub(alloc::fmt::format, empty_format)]
fn x_probe_ns_concrete() {
    let line: [u8; 12] = [b'.', b' ', b'5', b' ', b'I', b'N', b' ', b'N', b'S', b' ', b'.', b'\n'];
    let mut storage = [0u8; 64];
    let mut p = small_parser(line, &mut storage, Context::default());
    let r = first_record(&mut p);
    match &r {
        Some((n, rr)) => {
            assert!(*n == 1, "[C23] line number");
            assert!(wire_eq(rr.owner.wire_repr(), &[0]), "[C23] owner");
            assert!(u32::from(rr.ttl) == 5, "[C23] ttl");
            assert!(rr.class == Class::IN, "[C23] class");
            assert!(rr.rr_type == Type::NS, "[C23] type");
            assert!(wire_eq(rr.rdata.octets(), &[0]), "[C23] rdata");
            check_valid(rr);
        }
        None => assert!(false, "[C23] a valid line is rejected"),
    }
    kani::cover!(r.is_some(), "parsed");
    core::mem::forget(r);
    core::mem::forget(p);
}

#[kani::proof]
#[kani::unwind(8)]
#[kani::stub(alloc::fmt::format, empty_format)]
fn x_probe_ns_ttl1() {
    let d: u8 = kani::any();
    kani::assume(d >= b'0' && d <= b'9');
    let line: [u8; 12] = [b'.', b' ', d, b' ', b'I', b'N', b' ', b'N', b'S', b' ', b'.', b'\n'];
    let mut storage = [0u8; 64];
    let mut p = small_parser(line, &mut storage, Context::default());
    let r = first_record(&mut p);
    match &r {
        Some((n, rr)) => {
            assert!(*n == 1, "[C23] line number");
            assert!(wire_eq(rr.owner.wire_repr(), &[0]), "[C23] owner");
            assert!(u32::from(rr.ttl) == (d - b'0') as u32, "[C23] ttl");
            assert!(rr.class == Class::IN, "[C23] class");
            assert!(rr.rr_type == Type::NS, "[C23] type");
            assert!(wire_eq(rr.rdata.octets(), &[0]), "[C23] rdata");
            check_valid(rr);
        }
        None => assert!(false, "[C23] a valid line is rejected"),
    }
    kani::cover!(r.is_some(), "parsed");
    core::mem::forget(r);
    core::mem::forget(p);
}

// --------------------------------------------------------------------------
// (iii) the reader's buffer management, one step from an arbitrary state
// --------------------------------------------------------------------------

/// An arbitrary valid reader state over a buffer of L octets and a stream of
/// N octets of which `pos` were already handed out: start <= end <= L, every
/// buffer octet symbolic.
fn any_reader<const N: usize, const L: usize>() -> (Reader<Src<N>>, [u8; L], [u8; N]) {
    let content: [u8; L] = kani::any();
    let data: [u8; N] = kani::any();
    let pos: usize = kani::any();
    let start: usize = kani::any();
    let end: usize = kani::any();
    kani::assume(pos <= N);
    kani::assume(start <= end && end <= L);
    let mut buf = vec![0u8; L];
    let mut i = 0;
    while i < L {
        buf[i] = content[i];
        i += 1;
    }
    let r = Reader {
        stream: Src { data, pos },
        buf,
        start,
        end,
        in_parens: kani::any(),
        position: Position {
            line: kani::any(),
            column: kani::any(),
        },
    };
    (r, content, data)
}

/// try_fill(target): no index leaves the buffer; the unconsumed octets are
/// kept (in order), followed by the next octets of the stream (in order);
/// Ok(true) iff `target` octets are then available; Ok(false) only when the
/// stream is exhausted.
fn try_fill_step<const N: usize, const L: usize>(target: usize) {
    let (mut r, content, data) = any_reader::<N, L>();
    let old_start = r.start;
    let old_buffered = r.end - r.start;
    let old_pos = r.stream.pos;
    let res = r.try_fill(target);
    assert!(r.start <= r.end && r.end <= r.buf.len(), "[C24] reader indices leave the buffer");
    let buffered = r.end - r.start;
    match res {
        Ok(enough) => {
            assert!(enough == (buffered >= target), "[C24] try_fill reports availability wrongly");
            assert!(enough || r.stream.pos == N, "[C24] try_fill gives up before the stream ends");
        }
        Err(_) => assert!(false, "[C24] try_fill fails although the stream never does"),
    }
    assert!(buffered >= old_buffered, "[C24] try_fill loses buffered octets");
    assert!(buffered - old_buffered == r.stream.pos - old_pos, "[C24] try_fill buffers exactly what it took from the stream");
    if old_buffered >= target {
        assert!(r.start == old_start && r.stream.pos == old_pos, "[C24] try_fill touches a sufficiently full buffer");
    }
    let mut i = 0;
    while i < buffered && i < L + N {
        let expect = if i < old_buffered {
            content[old_start + i]
        } else {
            data[old_pos + (i - old_buffered)]
        };
        assert!(r.buf[r.start + i] == expect, "[C24] try_fill corrupts the unconsumed data");
        i += 1;
    }
    kani::cover!(matches!(res, Ok(true)) && old_buffered < target && old_start > 0, "refill after a shift");
    kani::cover!(matches!(res, Ok(false)), "end of stream before the target");
    core::mem::forget(r);
}

// @harness props=C24,C23 tier=quick mem=4 t=1200
//   fn="Reader::try_fill,Reader::shift,Reader::buffered"
//   bound="one try_fill(target) from every reader state over a 4-octet buffer (start <= end <= 4, contents symbolic) and a 3-octet stream with 0..=3 octets already consumed; target symbolic 0..=4 (no growth); unwind 9"
//   sym="buffer contents, start, end, stream contents and position, target"
#[kani::proof]
#[kani::unwind(9)]
fn c24_reader_try_fill_nogrow() {
    let target: usize = kani::any();
    kani::assume(target <= 4);
    try_fill_step::<3, 4>(target);
}

// @harness props=C24,C23 tier=quick mem=6 t=1800
//   fn="Reader::try_fill,Reader::shift,Vec::resize"
//   bound="one try_fill(6) from every reader state over a 4-octet buffer and a 3-octet stream: the buffer must grow; unwind 9"
//   sym="buffer contents, start, end, stream contents and position"
#[kani::proof]
#[kani::unwind(9)]
fn c24_reader_try_fill_grow() {
    try_fill_step::<3, 4>(6);
}
