// @host src/rr/rdata/mod.rs
//
// C13, classification part: Rdata::components decides which embedded names
// the writer may compress.  RFC 3597 section 4: only the types defined in
// RFC 1035 (NS, MD, MF, CNAME, SOA, MB, MG, MR, PTR, MINFO, MX).

use super::*;
use crate::kani_common::*;

// @harness props=C13 tier=quick mem=3 t=900 kani="--no-assertion-reach-checks" fn="Rdata::components,Components::for_single_compressible_name,Components::for_nameless,Rdata::components_as_ch_a,Rdata::components_as_soa,Rdata::components_as_minfo,Rdata::components_as_mx,Rdata::components_as_in_srv"
//   bound="every class (u16) and every type (u16); the component TYPE LIST is inspected (it does not depend on the RDATA octets); unwind 4"
//   sym="class:u16, rtype:u16"
#[kani::proof]
#[kani::unwind(4)]
fn c13_components_classification() {
    let class: u16 = kani::any();
    let rtype: u16 = kani::any();
    let octets = [0u8; 4];
    let rdata: &Rdata = (&octets).try_into().unwrap();
    let c = rdata.components(Class::from(class), Type::from(rtype));
    let mut compressible = 0usize;
    let mut uncompressible = 0usize;
    let mut k = 0;
    while k < c.types.len() {
        match c.types[k] {
            ComponentType::CompressibleName => compressible += 1,
            ComponentType::UncompressibleName => uncompressible += 1,
            ComponentType::FixedLen(_) => {}
        }
        k += 1;
    }
    assert!(c.types.len() <= 2, "[C13] at most two classified components");
    if compressible > 0 {
        assert!(compressible_type(rtype), "[C13] compressible names only in RDATA of RFC 1035 types");
        assert!(uncompressible == 0, "[C13] no type mixes compressible and incompressible names");
    }
    // the name-bearing RFC 1035 types do get their names classified (else
    // the writer would still be correct, only never compress them)
    let want = match rtype {
        T_NS | T_MD | T_MF | T_CNAME | T_MB | T_MG | T_MR | T_PTR | T_MX => 1,
        T_SOA | T_MINFO => 2,
        _ => 0,
    };
    assert!(compressible == want, "[C13] NS, MD, MF, CNAME, MB, MG, MR, PTR, MX carry one compressible name, SOA and MINFO two, nothing else any");
    if (rtype == T_SRV && class == 1) || (rtype == T_A && class == 3) {
        assert!(uncompressible == 1 && compressible == 0, "[C13] SRV (IN) and A (CH) names are classified as incompressible");
    } else {
        assert!(uncompressible == 0, "[C13] no other type has an incompressible-name component");
    }
    kani::cover!(rtype == T_SRV && class == 1, "SRV in class IN");
    kani::cover!(rtype == 65280, "private-use type");
}
