// @host src/message/reader.rs
//
// C15: the message reader is total, atomic and faithful.  C09 side harness:
// the RFC 2181 TTL clamp over all u32.
//
// Oracles are written here (record framing, header bit extraction, RFC 2181
// clamp, RFC 1035 4.1.4 name decoder `ref_name_into`, per-type RDATA layout)
// or come from kani_common (`ref_skip`, `be16/be32`, `ref_name`); nothing in
// the oracle calls quandary code.
//
// Three kinds of harness:
//
//  * "any": operations that do not allocate (header accessors, skip_question,
//    skip_rr, peek_rr and the PeekRr field accessors / skip / drop, and
//    sequences of them) run on EVERY message of every length 12..=NMAX, all
//    octets symbolic.
//  * "sk" (skeleton): operations that build a Box<Name> (read_question,
//    read_rr, PeekRr::owner, PeekRr::parse) run on messages whose name
//    STRUCTURE (label lengths, pointer octets) is concrete and whose label
//    contents, CLASS, TTL, RDATA contents (and, for RDATA without names, both
//    RDLENGTH octets) are symbolic; truncation points and RDLENGTH values of
//    name-bearing RDATA are visited one concrete value per call.  Each
//    `bound=` lists exactly what varies.
//  * "seq": several operations in a row on one reader (read position != 12,
//    pointers to names in earlier items, mark/rewind, at_eom).
//
// Helpers carry no kani::cover!: every satisfied cover makes CBMC print a
// full trace (minutes for the longer harnesses), so each harness states one
// or two combined witnesses.

use super::*;
use crate::kani_common::*;

// --------------------------------------------------------------------------
// reference
// --------------------------------------------------------------------------

/// RFC 2181 section 8: a TTL is 0..=2^31-1; a received value with the most
/// significant bit set is treated as zero.
fn ref_ttl(raw: u32) -> u32 {
    if raw & 0x8000_0000 != 0 {
        0
    } else {
        raw
    }
}

/// RFC 1035 section 4.1.2: QNAME (`first_chunk` octets at `at`), QTYPE,
/// QCLASS.  End offset of the question if it lies inside the message.
fn ref_question_end(n: usize, at: usize, first_chunk: usize) -> Option<usize> {
    if at + first_chunk + 4 <= n {
        Some(at + first_chunk + 4)
    } else {
        None
    }
}

#[derive(Clone, Copy)]
struct Frame {
    rtype: u16,
    class: u16,
    ttl_raw: u32,
    rdlen: usize,
    rd_at: usize,
    end: usize,
}

/// RFC 1035 section 4.1.3: owner (`first_chunk` octets at `at`), TYPE, CLASS,
/// TTL, RDLENGTH, RDATA.  None unless all of it lies inside `msg`.
fn ref_frame(msg: &[u8], at: usize, first_chunk: usize) -> Option<Frame> {
    let n = msg.len();
    let fixed = at + first_chunk;
    if fixed + 10 > n {
        return None;
    }
    let rdlen = be16(msg, fixed + 8) as usize;
    let rd_at = fixed + 10;
    if rd_at + rdlen > n {
        return None;
    }
    Some(Frame {
        rtype: be16(msg, fixed),
        class: be16(msg, fixed + 2),
        ttl_raw: be32(msg, fixed + 4),
        rdlen,
        rd_at,
        end: rd_at + rdlen,
    })
}

/// First chunk of the name at `at` (what a skipping reader validates).
fn ref_first_chunk(msg: &[u8], at: usize) -> Option<usize> {
    if at > msg.len() {
        return None;
    }
    match ref_skip(&msg[at..]) {
        Ok(l) => Some(l),
        Err(_) => None,
    }
}

/// Capacity of the harness's name / RDATA buffers.  Anything longer is
/// reported as undecodable by the reference, which can only make an assertion
/// fail ("accepts what the reference rejects"), never pass.
const NM_MAX: usize = 48;

/// RFC 1035 section 4.1.4 name decoder in out-parameter form: appends the
/// uncompressed wire form of the name at `start` to `out[..*out_len]` and
/// returns the number of octets the name occupies at `start` (labels up to and
/// including the root label or the first pointer).  Labels are at most 63
/// octets, a name at most 255; a pointer must point strictly before the start
/// of the run of labels it ends ("a prior occurrence"); a non-root label must
/// be followed by at least one more octet inside `buf`.
///
/// Same rules as kani_common::ref_name (c15_oracle_agrees_with_common5/6 check
/// the two against each other on every small buffer).  It exists because
/// ref_name returns its result as `Result<RefName, _>`, whose layout (niche in
/// a bool next to two 40-octet arrays) makes CBMC lose every constant in it:
/// all offsets derived from it become symbolic and each later loop unwinds to
/// the bound (measured: the SOA skeleton did not finish in 20 min).  Scalars
/// returned and written through `&mut` stay constant.
fn ref_name_into(buf: &[u8], start: usize, out: &mut [u8; NM_MAX], out_len: &mut usize, used_ptr: &mut bool) -> Option<usize> {
    let mut pos = start;
    let mut chunk_start = start;
    let mut first_chunk = 0usize;
    let mut in_first = true;
    let mut name_len = 0usize;
    loop {
        if pos >= buf.len() {
            return None;
        }
        let b = buf[pos];
        if b >= 0xc0 {
            if pos + 1 >= buf.len() {
                return None;
            }
            let target = (((b & 0x3f) as usize) << 8) | buf[pos + 1] as usize;
            if target >= chunk_start {
                return None;
            }
            if in_first {
                first_chunk = pos + 2 - start;
                in_first = false;
            }
            *used_ptr = true;
            pos = target;
            chunk_start = target;
        } else if b > 63 {
            return None;
        } else {
            let l = b as usize;
            if name_len + 1 + l > 255 || *out_len + 1 + l > NM_MAX {
                return None;
            }
            if l != 0 && pos + 1 + l >= buf.len() {
                return None;
            }
            out[*out_len] = b;
            *out_len += 1;
            let mut i = 0;
            while i < l {
                out[*out_len] = buf[pos + 1 + i];
                *out_len += 1;
                i += 1;
            }
            name_len += 1 + l;
            pos += 1 + l;
            if l == 0 {
                if in_first {
                    first_chunk = pos - start;
                }
                return Some(first_chunk);
            }
        }
    }
}

fn same_octets(got: &[u8], exp: &[u8; NM_MAX], exp_len: usize) {
    assert!(got.len() == exp_len, "[C15] decoded name / RDATA has the reference decoder's length");
    let mut i = 0;
    while i < exp_len {
        assert!(got[i] == exp[i], "[C15] decoded name / RDATA has the reference decoder's octets");
        i += 1;
    }
}

fn oracle_agrees<const N: usize>() {
    let buf: [u8; N] = kani::any();
    let start: usize = kani::any();
    kani::assume(start <= N + 1);
    let mut out = [0u8; NM_MAX];
    let mut out_len = 0usize;
    let mut ptr = false;
    let mine = ref_name_into(&buf, start, &mut out, &mut out_len, &mut ptr);
    match (mine, ref_name(&buf, start)) {
        (Some(fc), Ok(n)) => {
            assert!(fc == n.first_chunk && out_len == n.len && ptr == n.used_pointer, "[C15] (oracle) both reference decoders report the same lengths");
            let mut i = 0;
            while i < n.len {
                assert!(out[i] == n.wire[i], "[C15] (oracle) both reference decoders produce the same name");
                i += 1;
            }
            kani::cover!(ptr && n.len > N, "name longer than the buffer (overlapping chunks reached through a pointer)");
        }
        (None, Err(_)) => {}
        _ => assert!(false, "[C15] (oracle) the two reference decoders disagree on acceptance"),
    }
}

// @harness props=C15 panics=C15,C01 kani="--no-assertion-reach-checks" tier=quick mem=6 t=900 fn="(oracle only) kani_reader::ref_name_into vs kani_common::ref_name"
//   bound="every buffer of exactly 5 octets, every start offset 0..=6; unwind 16 (chunks reached through pointers may overlap, so a decoded name can be longer than the buffer)"
//   sym="buf:[u8;5], start<=6"
#[kani::proof]
#[kani::unwind(16)]
fn c15_oracle_agrees_with_common5() {
    oracle_agrees::<5>();
}

// @harness props=C15 panics=C15,C01 kani="--no-assertion-reach-checks" tier=thorough mem=10 t=1800 fn="(oracle only) kani_reader::ref_name_into vs kani_common::ref_name"
//   bound="every buffer of exactly 6 octets, every start offset 0..=7; unwind 20 ([4,1,x,0xc0,0,0] from offset 1 decodes to 8 octets)"
//   sym="buf:[u8;6], start<=7"
#[kani::proof]
#[kani::unwind(20)]
fn c15_oracle_agrees_with_common6() {
    oracle_agrees::<6>();
}

// --------------------------------------------------------------------------
// header
// --------------------------------------------------------------------------

// @harness props=C15 panics=C15,C01 kani="--no-assertion-reach-checks" tier=quick mem=2 t=300
//   fn="Reader::try_from,Reader::id,qr,opcode,aa,tc,rd,ra,rcode,qdcount,ancount,nscount,arcount,at_eom,message_to_cursor"
//   bound="every octet string of every length 0..=13 (all octet values)"
//   sym="buf:[u8;13], len<=13"
#[kani::proof]
#[kani::unwind(4)]
fn c15_header_accessors() {
    let buf: [u8; 13] = kani::any();
    let len: usize = kani::any();
    kani::assume(len <= 13);
    let m = &buf[..len];
    match Reader::try_from(m) {
        Err(e) => {
            assert!(len < 12, "[C15] only octet strings shorter than a header are refused");
            assert!(e == Error::HeaderTooShort, "[C15] a short header is reported as HeaderTooShort");
            kani::cover!(len == 11, "11-octet string refused");
        }
        Ok(r) => {
            assert!(len >= 12, "[C15] a reader needs a full 12-octet header");
            assert!(r.id() == ((m[0] as u16) << 8) | m[1] as u16, "[C15] ID is octets 0-1, big endian");
            assert!(r.qr() == (m[2] >> 7 == 1), "[C15] QR is bit 7 of octet 2");
            assert!(u8::from(r.opcode()) == (m[2] >> 3) & 0x0f, "[C15] OPCODE is bits 6-3 of octet 2");
            assert!(r.aa() == ((m[2] >> 2) & 1 == 1), "[C15] AA is bit 2 of octet 2");
            assert!(r.tc() == ((m[2] >> 1) & 1 == 1), "[C15] TC is bit 1 of octet 2");
            assert!(r.rd() == (m[2] & 1 == 1), "[C15] RD is bit 0 of octet 2");
            assert!(r.ra() == (m[3] >> 7 == 1), "[C15] RA is bit 7 of octet 3");
            assert!(u8::from(r.rcode()) == m[3] & 0x0f, "[C15] RCODE is bits 3-0 of octet 3");
            assert!(r.qdcount() == ((m[4] as u16) << 8) | m[5] as u16, "[C15] QDCOUNT is octets 4-5");
            assert!(r.ancount() == ((m[6] as u16) << 8) | m[7] as u16, "[C15] ANCOUNT is octets 6-7");
            assert!(r.nscount() == ((m[8] as u16) << 8) | m[9] as u16, "[C15] NSCOUNT is octets 8-9");
            assert!(r.arcount() == ((m[10] as u16) << 8) | m[11] as u16, "[C15] ARCOUNT is octets 10-11");
            assert!(r.message_to_cursor().len() == 12, "[C15] reading starts right after the header");
            assert!(r.at_eom() == (len == 12), "[C15] at_eom iff nothing follows the read position");
            kani::cover!(len == 12 && r.qr() && u8::from(r.opcode()) == 15 && u8::from(r.rcode()) == 15, "header with all-ones opcode/rcode");
            kani::cover!(len == 13, "13-octet message accepted");
        }
    }
}

// --------------------------------------------------------------------------
// non-allocating operations on every message of length 12..=NMAX
// --------------------------------------------------------------------------

fn skip_question_any<const NMAX: usize>() {
    let buf: [u8; NMAX] = kani::any();
    let len: usize = kani::any();
    kani::assume(len >= 12 && len <= NMAX);
    let msg = &buf[..len];
    let mut r = Reader::try_from(msg).unwrap();
    let before = r.message_to_cursor().len();
    let res = r.skip_question();
    let after = r.message_to_cursor().len();
    let e = match ref_first_chunk(msg, 12) {
        Some(fc) => ref_question_end(len, 12, fc),
        None => None,
    };
    match (res, e) {
        (Ok(()), Some(end)) => {
            assert!(after == end, "[C15] skip_question advances by exactly the question's length");
            kani::cover!(end == len && end > 17, "skipped a question that ends exactly at the end of the message");
        }
        (Err(_), None) => {
            assert!(after == before, "[C15] a failed skip_question leaves the read position unchanged");
            kani::cover!(len == 12, "question requested exactly at the end of the message");
            kani::cover!(len == 16, "root QNAME, QCLASS cut short");
        }
        (Ok(()), None) => assert!(false, "[C15] skip_question accepts a question that is not inside the message"),
        (Err(_), Some(_)) => assert!(false, "[C15] skip_question refuses a question that is inside the message"),
    }
}

// @harness props=C15 panics=C15,C01 kani="--no-assertion-reach-checks" tier=quick mem=2 t=600 fn="Reader::skip_question"
//   bound="every message of every length 12..=24, all octets symbolic, read position 12; unwind 14"
//   sym="buf:[u8;24], len in 12..=24"
#[kani::proof]
#[kani::unwind(14)]
fn c15_skip_question_any24() {
    skip_question_any::<24>();
}

/// What happened, for the cover witnesses of the calling harness (a satisfied
/// cover makes CBMC print a full trace, which for the longer harnesses costs
/// minutes: the helpers carry no covers of their own, every harness states one
/// or two combined witnesses).
#[derive(Clone, Copy)]
struct Out {
    ok: bool,
    /// the owner / QNAME used a compression pointer
    name_ptr: bool,
    /// a name inside the RDATA used a compression pointer
    rd_ptr: bool,
    /// the raw TTL field had bit 31 set
    ttl_hi: bool,
    /// the RDATA is not empty
    has_rdata: bool,
    /// the item ended exactly at the end of the message
    to_eom: bool,
    /// the name decoded / its first chunk was fine, but the item was refused
    /// for a later reason
    late_err: bool,
}

const NOTHING: Out = Out {
    ok: false,
    name_ptr: false,
    rd_ptr: false,
    ttl_hi: false,
    has_rdata: false,
    to_eom: false,
    late_err: false,
};

/// What to do with a successfully peeked record.
const DROP: u8 = 0;
const SKIP: u8 = 1;

/// skip_rr (`peek` false) or peek_rr + field accessors + {drop, skip} on the
/// record at `r`'s read position, against the reference.
fn skip_or_peek_at(peek: bool, then: u8, msg: &[u8], r: &mut Reader) -> Out {
    let len = msg.len();
    let at = r.message_to_cursor().len();
    let fc = ref_first_chunk(msg, at);
    let e = match fc {
        Some(fc) => ref_frame(msg, at, fc),
        None => None,
    };
    let mut out = NOTHING;
    out.late_err = fc.is_some() && e.is_none();
    if let Some(f) = e {
        out.ok = true;
        out.to_eom = f.end == len;
        out.has_rdata = f.rdlen > 0;
        out.ttl_hi = f.ttl_raw >= 0x8000_0000;
    }
    let ok = if !peek {
        r.skip_rr().is_ok()
    } else {
        match r.peek_rr() {
            Ok(p) => {
                match e {
                    Some(f) => {
                        assert!(u16::from(p.rr_type()) == f.rtype, "[C15] peeked TYPE equals the reference's");
                        assert!(u16::from(p.class()) == f.class, "[C15] peeked CLASS equals the reference's");
                        assert!(u32::from(p.ttl()) == ref_ttl(f.ttl_raw), "[C15] peeked TTL is the RFC 2181 clamp of the raw field");
                        assert!(p.rdlength() as usize == f.rdlen, "[C15] peeked RDLENGTH equals the reference's");
                        assert!(p.message_to_rr().len() == at, "[C15] message_to_rr ends where the record starts");
                    }
                    None => {}
                }
                if then == SKIP {
                    p.skip();
                } else {
                    drop(p);
                }
                true
            }
            Err(_) => false,
        }
    };
    let after = r.message_to_cursor().len();
    match (ok, e) {
        (true, Some(f)) => {
            if peek && then == DROP {
                assert!(after == at, "[C15] dropping a PeekRr leaves the read position unchanged");
            } else {
                assert!(after == f.end, "[C15] skipping a record advances by exactly the record's length");
            }
        }
        (false, None) => assert!(after == at, "[C15] a failed skip_rr / peek_rr leaves the read position unchanged"),
        (true, None) => assert!(false, "[C15] skip_rr / peek_rr accepts a record that is not inside the message"),
        (false, Some(_)) => assert!(false, "[C15] skip_rr / peek_rr refuses a record that is inside the message"),
    }
    out
}

fn rr_any<const NMAX: usize>(peek: bool, then: u8) {
    let buf: [u8; NMAX] = kani::any();
    let len: usize = kani::any();
    kani::assume(len >= 12 && len <= NMAX);
    let msg = &buf[..len];
    let mut r = Reader::try_from(msg).unwrap();
    let o = skip_or_peek_at(peek, then, msg, &mut r);
    kani::cover!(
        o.ok && o.to_eom && o.has_rdata && o.ttl_hi && msg[12] != 0,
        "record with a non-root owner, TTL bit 31 set and RDATA, ending exactly at the end of the message"
    );
    kani::cover!(o.late_err && len > 13 && len < 21, "owner ends within 8 octets of the end of the message: refused");
    kani::cover!(!o.ok && !o.late_err && len == 12, "record requested exactly at the end of the message: refused");
}

// @harness props=C15 panics=C15,C01 kani="--no-assertion-reach-checks" tier=quick mem=2 t=900 fn="Reader::skip_rr"
//   bound="every message of every length 12..=28, all octets symbolic, read position 12; unwind 18"
//   sym="buf:[u8;28], len in 12..=28"
#[kani::proof]
#[kani::unwind(18)]
fn c15_skip_rr_any28() {
    rr_any::<28>(false, DROP);
}

// @harness props=C15 panics=C15,C01 kani="--no-assertion-reach-checks" tier=quick mem=2 t=900
//   fn="Reader::peek_rr,PeekRr::rr_type,PeekRr::class,PeekRr::ttl,PeekRr::rdlength,PeekRr::message_to_rr,drop(PeekRr)"
//   bound="every message of every length 12..=28, all octets symbolic, read position 12; unwind 18"
//   sym="buf:[u8;28], len in 12..=28"
#[kani::proof]
#[kani::unwind(18)]
fn c15_peek_rr_drop_any28() {
    rr_any::<28>(true, DROP);
}

// @harness props=C15 panics=C15,C01 kani="--no-assertion-reach-checks" tier=quick mem=2 t=900
//   fn="Reader::peek_rr,PeekRr::rr_type,PeekRr::class,PeekRr::ttl,PeekRr::rdlength,PeekRr::message_to_rr,PeekRr::skip"
//   bound="every message of every length 12..=28, all octets symbolic, read position 12; unwind 18"
//   sym="buf:[u8;28], len in 12..=28"
#[kani::proof]
#[kani::unwind(18)]
fn c15_peek_rr_skip_any28() {
    rr_any::<28>(true, SKIP);
}

// @harness props=C15 panics=C15,C01 kani="--no-assertion-reach-checks" tier=thorough mem=3 t=1800 fn="Reader::skip_question"
//   bound="every message of every length 12..=48, all octets symbolic, read position 12; unwind 38"
//   sym="buf:[u8;48], len in 12..=48"
#[kani::proof]
#[kani::unwind(38)]
fn c15_skip_question_any48() {
    skip_question_any::<48>();
}

// @harness props=C15 panics=C15,C01 kani="--no-assertion-reach-checks" tier=thorough mem=3 t=1800 fn="Reader::skip_rr"
//   bound="every message of every length 12..=48, all octets symbolic, read position 12; unwind 38"
//   sym="buf:[u8;48], len in 12..=48"
#[kani::proof]
#[kani::unwind(38)]
fn c15_skip_rr_any48() {
    rr_any::<48>(false, DROP);
}

// @harness props=C15 panics=C15,C01 kani="--no-assertion-reach-checks" tier=thorough mem=3 t=1800
//   fn="Reader::peek_rr,PeekRr::rr_type,PeekRr::class,PeekRr::ttl,PeekRr::rdlength,PeekRr::message_to_rr,PeekRr::skip"
//   bound="every message of every length 12..=48, all octets symbolic, read position 12; unwind 38"
//   sym="buf:[u8;48], len in 12..=48"
#[kani::proof]
#[kani::unwind(38)]
fn c15_peek_rr_skip_any48() {
    rr_any::<48>(true, SKIP);
}

/// skip_question, then two record operations, on every message: the read
/// position of the second and third operation is whatever the earlier ones
/// left (any offset up to the end of the message).
fn seq_any<const NMAX: usize>() -> (bool, Out, Out, Out) {
    let buf: [u8; NMAX] = kani::any();
    let len: usize = kani::any();
    kani::assume(len >= 12 && len <= NMAX);
    let msg = &buf[..len];
    let mut r = Reader::try_from(msg).unwrap();
    let q_end = match ref_first_chunk(msg, 12) {
        Some(fc) => ref_question_end(len, 12, fc),
        None => None,
    };
    let q = r.skip_question().is_ok();
    let after = r.message_to_cursor().len();
    match q_end {
        Some(end) => assert!(q && after == end, "[C15] skip_question advances by exactly the question's length"),
        None => assert!(!q && after == 12, "[C15] a failed skip_question leaves the read position unchanged"),
    }
    let r1 = skip_or_peek_at(true, SKIP, msg, &mut r);
    let r2 = skip_or_peek_at(false, DROP, msg, &mut r);
    let r3 = skip_or_peek_at(true, DROP, msg, &mut r);
    assert!(r.at_eom() == (r.message_to_cursor().len() == len), "[C15] at_eom iff the read position is the message length");
    (q, r1, r2, r3)
}

// @harness props=C15 panics=C15,C01 kani="--no-assertion-reach-checks" tier=quick mem=4 t=1200
//   fn="Reader::skip_question,Reader::peek_rr,PeekRr::skip,Reader::skip_rr,Reader::at_eom,PeekRr accessors"
//   bound="every message of every length 12..=30, all octets symbolic; skip_question, peek_rr+skip, skip_rr, peek_rr+drop in sequence (each from wherever the previous one stopped); unwind 20"
//   sym="buf:[u8;30], len in 12..=30"
#[kani::proof]
#[kani::unwind(20)]
fn c15_seq_skip_any30() {
    let (q, r1, r2, _r3) = seq_any::<30>();
    kani::cover!(
        q && r1.ok && r1.has_rdata && r1.to_eom && !r2.ok && !r2.late_err,
        "question skipped, a record with RDATA skipped up to the end of the message, a further skip refused"
    );
}

// @harness props=C15 panics=C15,C01 kani="--no-assertion-reach-checks" tier=thorough mem=6 t=2400
//   fn="Reader::skip_question,Reader::peek_rr,PeekRr::skip,Reader::skip_rr,Reader::at_eom,PeekRr accessors"
//   bound="every message of every length 12..=40, all octets symbolic; skip_question, peek_rr+skip, skip_rr, peek_rr+drop in sequence (each from wherever the previous one stopped); unwind 30"
//   sym="buf:[u8;40], len in 12..=40"
#[kani::proof]
#[kani::unwind(30)]
fn c15_seq_skip_any40() {
    let (q, r1, r2, r3) = seq_any::<40>();
    kani::cover!(
        q && r1.ok && r1.has_rdata && r2.ok && r2.to_eom && !r3.ok,
        "question skipped, two records skipped up to the end of the message, a third refused"
    );
}

// --------------------------------------------------------------------------
// allocating operations (names are decoded) on message skeletons
// --------------------------------------------------------------------------
//
// Building a Box<Name> from octets whose STRUCTURE (label lengths, pointer
// targets) is symbolic is what costs CBMC minutes and gigabytes per octet
// (measured: a fully symbolic 17-octet message through read_question did not
// finish symbolic execution in 16 min / 17 GB).  Name decoding over symbolic
// structure is C14's subject (harness family name_wire).  The harnesses below
// keep name structure concrete and make everything else symbolic: label
// contents, TYPE-independent fields (CLASS, TTL), both RDLENGTH octets, RDATA
// contents, and the place where the message is cut off (one call per
// concrete cut length, so every truncation point is visited).

/// read_question at `r`'s read position against the reference.
fn read_question_at(msg: &[u8], r: &mut Reader) -> Out {
    let len = msg.len();
    let at = r.message_to_cursor().len();
    let res = r.read_question();
    let after = r.message_to_cursor().len();
    let mut qn = [0u8; NM_MAX];
    let mut qn_len = 0usize;
    let mut qn_ptr = false;
    let en = ref_name_into(msg, at, &mut qn, &mut qn_len, &mut qn_ptr);
    let mut out = NOTHING;
    match (res, en) {
        (Ok(q), Some(fc)) => {
            match ref_question_end(len, at, fc) {
                Some(end) => {
                    assert!(after == end, "[C15] read_question advances by exactly the question's length");
                    same_octets(q.qname.wire_repr(), &qn, qn_len);
                    assert!(u16::from(q.qtype) == be16(msg, at + fc), "[C15] QTYPE is the two octets after the QNAME");
                    assert!(u16::from(q.qclass) == be16(msg, at + fc + 2), "[C15] QCLASS is the two octets after the QTYPE");
                    out.ok = true;
                    out.name_ptr = qn_ptr;
                    out.to_eom = end == len;
                }
                None => assert!(false, "[C15] read_question accepts a question whose QTYPE/QCLASS are not inside the message"),
            }
            core::mem::forget(q);
        }
        (Err(_), Some(fc)) => {
            assert!(ref_question_end(len, at, fc).is_none(), "[C15] read_question refuses a question the reference decodes");
            assert!(after == at, "[C15] a failed read_question leaves the read position unchanged");
            out.late_err = true;
        }
        (Err(_), None) => {
            assert!(after == at, "[C15] a failed read_question leaves the read position unchanged");
        }
        (Ok(_), None) => assert!(false, "[C15] read_question accepts a QNAME the reference rejects"),
    }
    out
}

fn read_question_cut(msg: &[u8]) -> Out {
    let mut r = Reader::try_from(msg).unwrap();
    read_question_at(msg, &mut r)
}

// ---- reference RDATA ------------------------------------------------------

fn rd_put(out: &mut [u8; NM_MAX], out_len: &mut usize, src: &[u8], from: usize, n: usize) -> bool {
    if *out_len + n > NM_MAX {
        return false;
    }
    let mut i = 0;
    while i < n {
        out[*out_len] = src[from + i];
        *out_len += 1;
        i += 1;
    }
    true
}

/// RDATA layouts (the TYPE octets of a skeleton are concrete; `layout` is
/// always passed as a literal, so CBMC follows exactly one branch).
///
/// Operation and layout selectors are plain arguments, not const generics: the
/// runner cannot parse a check id that contains `::<1, 4>` (space), and a
/// failed assertion inside such a function would be reported as inconclusive.
const L_OPAQUE: u8 = 0; // no structure known to anybody: RFC 3597 opaque
const L_NAME: u8 = 1; // RFC 1035 3.3.11 etc.: exactly one domain name
const L_MX: u8 = 2; // RFC 1035 3.3.9: 16-bit preference, one domain name
const L_SOA: u8 = 3; // RFC 1035 3.3.13: two domain names, five 32-bit fields
const L_A: u8 = 4; // RFC 1035 3.4.1 in IN; RFC 1034 3.6 name + 16 bits in CH; opaque elsewhere

const RD_INVALID: u8 = 0;
const RD_OWNED: u8 = 1;
const RD_BORROWED: u8 = 2;

/// The RDATA a reader must hand out for the framed record, written to
/// `out[..*out_len]`: RD_INVALID if the RDATA is not laid out as its type
/// prescribes, RD_BORROWED if it is the message's own octets (no compressible
/// name in it), RD_OWNED otherwise.  Names may be compressed (RFC 1035 4.1.4)
/// and are handed out uncompressed; a name must end inside the RDATA, so it is
/// decoded in the message cut off at the RDATA's end.
fn ref_rdata(layout: u8, msg: &[u8], f: &Frame, out: &mut [u8; NM_MAX], out_len: &mut usize, used_ptr: &mut bool) -> u8 {
    let cut = &msg[..f.end];
    if layout == L_OPAQUE || (layout == L_A && f.class != 1 && f.class != 3) {
        if !rd_put(out, out_len, msg, f.rd_at, f.rdlen) {
            return RD_INVALID;
        }
        RD_BORROWED
    } else if layout == L_A && f.class == 1 {
        if f.rdlen != 4 || !rd_put(out, out_len, msg, f.rd_at, 4) {
            return RD_INVALID;
        }
        RD_BORROWED
    } else if layout == L_NAME {
        match ref_name_into(cut, f.rd_at, out, out_len, used_ptr) {
            Some(fc) if fc == f.rdlen => RD_OWNED,
            _ => RD_INVALID,
        }
    } else if layout == L_MX {
        if f.rdlen < 2 || !rd_put(out, out_len, msg, f.rd_at, 2) {
            return RD_INVALID;
        }
        match ref_name_into(cut, f.rd_at + 2, out, out_len, used_ptr) {
            Some(fc) if 2 + fc == f.rdlen => RD_OWNED,
            _ => RD_INVALID,
        }
    } else if layout == L_SOA {
        let fc1 = match ref_name_into(cut, f.rd_at, out, out_len, used_ptr) {
            Some(fc) => fc,
            None => return RD_INVALID,
        };
        let fc2 = match ref_name_into(cut, f.rd_at + fc1, out, out_len, used_ptr) {
            Some(fc) => fc,
            None => return RD_INVALID,
        };
        if fc1 + fc2 + 20 != f.rdlen || !rd_put(out, out_len, msg, f.rd_at + fc1 + fc2, 20) {
            return RD_INVALID;
        }
        RD_OWNED
    } else {
        // L_A in class CH: a domain name, then a 16-bit Chaos address
        let fc = match ref_name_into(cut, f.rd_at, out, out_len, used_ptr) {
            Some(fc) => fc,
            None => return RD_INVALID,
        };
        if fc + 2 != f.rdlen || !rd_put(out, out_len, msg, f.rd_at + fc, 2) {
            return RD_INVALID;
        }
        RD_OWNED
    }
}

// ---- read_rr / peek_rr + parse / owner --------------------------------------

const READ: u8 = 0;
const PEEK_PARSE: u8 = 1;
const PEEK_OWNER: u8 = 2;
const PEEK_OWNER_PARSE: u8 = 3;

/// One record-reading operation at `r`'s read position against the reference.
fn read_rr_at(op: u8, layout: u8, msg: &[u8], r: &mut Reader) -> Out {
    let len = msg.len();
    let at = r.message_to_cursor().len();
    let mut out = NOTHING;

    // reference: owner fully decoded, then the frame, then the RDATA
    let mut ow = [0u8; NM_MAX];
    let mut ow_len = 0usize;
    let mut ow_ptr = false;
    let en = ref_name_into(msg, at, &mut ow, &mut ow_len, &mut ow_ptr);
    let ef = match en {
        Some(fc) => ref_frame(msg, at, fc),
        None => None,
    };
    let mut rd = [0u8; NM_MAX];
    let mut rd_len = 0usize;
    let mut rd_ptr = false;
    let erd = match ef {
        Some(ref f) => ref_rdata(layout, msg, f, &mut rd, &mut rd_len, &mut rd_ptr),
        None => RD_INVALID,
    };
    // reference for the peeking stage: first chunk of the owner and the frame
    let peekable = match ref_first_chunk(msg, at) {
        Some(fc) => ref_frame(msg, at, fc).is_some(),
        None => false,
    };

    let got = if op == READ {
        r.read_rr().ok()
    } else {
        match r.peek_rr() {
            Ok(mut p) => {
                assert!(peekable, "[C15] peek_rr accepts a record that is not inside the message");
                if op == PEEK_OWNER || op == PEEK_OWNER_PARSE {
                    match (p.owner(), en) {
                        (Ok(name), Some(_)) => same_octets(name.wire_repr(), &ow, ow_len),
                        (Err(_), None) => {}
                        (Ok(_), None) => assert!(false, "[C15] PeekRr::owner accepts an owner the reference rejects"),
                        (Err(_), Some(_)) => assert!(false, "[C15] PeekRr::owner rejects an owner the reference accepts"),
                    }
                    // the second call returns the remembered name (or fails again)
                    match (p.owner(), en) {
                        (Ok(name), Some(_)) => same_octets(name.wire_repr(), &ow, ow_len),
                        (Err(_), None) => {}
                        _ => assert!(false, "[C15] a repeated PeekRr::owner call changes its answer"),
                    }
                }
                if op == PEEK_OWNER {
                    drop(p);
                    None
                } else {
                    p.parse().ok()
                }
            }
            Err(_) => {
                assert!(!peekable, "[C15] peek_rr refuses a record that is inside the message");
                None
            }
        }
    };
    let after = r.message_to_cursor().len();
    if op == PEEK_OWNER {
        assert!(after == at, "[C15] PeekRr::owner and dropping the PeekRr leave the read position unchanged");
        out.ok = peekable && en.is_some();
        out.name_ptr = ow_ptr;
        out.late_err = peekable && en.is_none();
        return out;
    }
    match got {
        Some(rr) => {
            match (ef, erd != RD_INVALID) {
                (Some(f), true) => {
                    assert!(after == f.end, "[C15] a successful record read advances by exactly the record's length");
                    same_octets(rr.owner.wire_repr(), &ow, ow_len);
                    assert!(u16::from(rr.rr_type) == f.rtype, "[C15] TYPE equals the reference's");
                    assert!(u16::from(rr.class) == f.class, "[C15] CLASS equals the reference's");
                    assert!(u32::from(rr.ttl) == ref_ttl(f.ttl_raw), "[C15] TTL is the RFC 2181 clamp of the raw field");
                    let got_rd = rr.rdata.octets();
                    same_octets(got_rd, &rd, rd_len);
                    if erd == RD_BORROWED {
                        assert!(
                            matches!(rr.rdata, Cow::Borrowed(_)) && got_rd.as_ptr() == msg[f.rd_at..].as_ptr(),
                            "[C15] RDATA without compressible names is the message's own octets"
                        );
                    }
                    out.ok = true;
                    out.name_ptr = ow_ptr;
                    out.rd_ptr = rd_ptr;
                    out.ttl_hi = f.ttl_raw >= 0x8000_0000;
                    out.to_eom = f.end == len;
                    out.has_rdata = f.rdlen > 0;
                }
                _ => assert!(false, "[C15] a record the reference rejects is accepted"),
            }
            core::mem::forget(rr);
        }
        None => {
            assert!(erd == RD_INVALID, "[C15] a record the reference decodes is refused");
            assert!(after == at, "[C15] a failed record read leaves the read position unchanged");
            out.late_err = en.is_some();
        }
    }
    out
}

fn read_rr_cut(op: u8, layout: u8, msg: &[u8]) -> Out {
    let mut r = Reader::try_from(msg).unwrap();
    read_rr_at(op, layout, msg, &mut r)
}

// ---- questions ---------------------------------------------------------------

// @harness props=C15 panics=C15,C01 kani="--no-assertion-reach-checks" tier=quick mem=3 t=900 fn="Reader::read_question,Name::try_from_compressed"
//   bound="(1) 12 symbolic header octets + QNAME [1,a,0] + 4 symbolic QTYPE/QCLASS octets, cut at each length 12..=19; (2) header [1,x,0,..] + QNAME [1,a,0xc0,0] (pointer into the header) + 4 symbolic octets, cut at each length 13..=20; (3) root QNAME cut at 13..=17; (4) QNAMEs [0xc0,12] (self pointer), [0xc0,14] (forward), [0x40], [0x80] (reserved label types); a, x symbolic; unwind 6"
//   stubs="S7" sym="h:[u8;12], a, x, t0, t1, c0, c1"
#[kani::proof]
#[kani::unwind(6)]
#[kani::stub(arrayvec::ArrayVec::try_extend_from_slice, try_extend_model)]
fn c15_read_question_sk() {
    let h: [u8; 12] = kani::any();
    let d: [u8; 6] = kani::any();
    // (1) one label
    let b1 = [
        h[0], h[1], h[2], h[3], h[4], h[5], h[6], h[7], h[8], h[9], h[10], h[11], // header
        1, d[0], 0, // QNAME a.
        d[1], d[2], d[3], d[4], // QTYPE, QCLASS
    ];
    let o12 = read_question_cut(&b1[..12]);
    read_question_cut(&b1[..13]);
    read_question_cut(&b1[..14]);
    read_question_cut(&b1[..15]);
    read_question_cut(&b1[..16]);
    read_question_cut(&b1[..17]);
    let o18 = read_question_cut(&b1[..18]);
    let o19 = read_question_cut(&b1[..19]);
    // (2) a label, then a pointer to a name stored in the header octets
    let b2 = [
        1, d[5], 0, h[3], h[4], h[5], h[6], h[7], h[8], h[9], h[10], h[11], // header; octets 0..3 read as x.
        1, d[0], 0xc0, 0, // QNAME a.x.
        d[1], d[2], d[3], d[4],
    ];
    read_question_cut(&b2[..13]);
    read_question_cut(&b2[..14]);
    read_question_cut(&b2[..15]);
    read_question_cut(&b2[..16]);
    read_question_cut(&b2[..17]);
    read_question_cut(&b2[..18]);
    let p19 = read_question_cut(&b2[..19]);
    let p20 = read_question_cut(&b2[..20]);
    // (3) root QNAME
    let b3 = [
        h[0], h[1], h[2], h[3], h[4], h[5], h[6], h[7], h[8], h[9], h[10], h[11], //
        0, d[1], d[2], d[3], d[4],
    ];
    read_question_cut(&b3[..13]);
    read_question_cut(&b3[..14]);
    read_question_cut(&b3[..15]);
    read_question_cut(&b3[..16]);
    let r17 = read_question_cut(&b3[..17]);
    // (4) undecodable QNAMEs followed by enough octets
    let b4 = [
        h[0], h[1], h[2], h[3], h[4], h[5], h[6], h[7], h[8], h[9], h[10], h[11], //
        0xc0, 12, 0, d[1], d[2], d[3], d[4],
    ];
    let s = read_question_cut(&b4);
    let b5 = [
        h[0], h[1], h[2], h[3], h[4], h[5], h[6], h[7], h[8], h[9], h[10], h[11], //
        0xc0, 14, 0, d[1], d[2], d[3], d[4],
    ];
    read_question_cut(&b5);
    let b6 = [
        h[0], h[1], h[2], h[3], h[4], h[5], h[6], h[7], h[8], h[9], h[10], h[11], //
        0x40, 0, 0, d[1], d[2], d[3], d[4],
    ];
    read_question_cut(&b6);
    let b7 = [
        h[0], h[1], h[2], h[3], h[4], h[5], h[6], h[7], h[8], h[9], h[10], h[11], //
        0x80, 0, 0, d[1], d[2], d[3], d[4],
    ];
    read_question_cut(&b7);
    kani::cover!(
        !o12.ok && !o12.late_err && o18.late_err && o19.ok && o19.to_eom && p19.late_err && p20.ok && p20.name_ptr
            && p20.to_eom && r17.ok && !s.ok && !s.late_err,
        "at the end: refused; QCLASS cut short: refused; plain, compressed and root questions ending at the end of the message: read; self-pointing QNAME: refused"
    );
}

// ---- single records, both RDLENGTH octets symbolic, every cut length ------------

/// Message literal: the 12 octets of `$h`, then the listed body octets.  A
/// macro, not a function: the array must be built where it is used for CBMC to
/// keep its concrete octets concrete.
macro_rules! msg {
    ($h:ident; $($b:expr),* $(,)?) => {
        [$h[0], $h[1], $h[2], $h[3], $h[4], $h[5], $h[6], $h[7], $h[8], $h[9], $h[10], $h[11], $($b),*]
    };
}

macro_rules! opaque_msg {
    ($h:ident, $d:ident, $t:expr, $rh:expr, $rl:expr) => {
        msg![$h;
            0, // 12: owner: root
            ($t >> 8) as u8, $t as u8, // 13: TYPE
            $d[0], $d[1], // 15: CLASS
            $d[2], $d[3], $d[4], $d[5], // 17: TTL
            $rh, $rl, // 21: RDLENGTH
            $d[6], $d[7], $d[8], // 23: RDATA (as far as RDLENGTH says)
        ]
    };
}

// @harness props=C15 panics=C15,C01 kani="--no-assertion-reach-checks" tier=quick mem=4 t=900 fn="Reader::read_rr,Rdata::read,helpers::prepare_to_read_rdata"
//   bound="12 symbolic header octets + root owner + TYPE 10 (NULL) + symbolic CLASS, TTL, RDLENGTH (all 16 bits) + 3 symbolic RDATA octets, cut at each length 12..=26; unwind 6"
//   stubs="S7" sym="h:[u8;12], class, ttl, rdlength, rdata:[u8;3]"
#[kani::proof]
#[kani::unwind(6)]
#[kani::stub(arrayvec::ArrayVec::try_extend_from_slice, try_extend_model)]
fn c15_read_rr_opaque_sk() {
    let h: [u8; 12] = kani::any();
    let d: [u8; 11] = kani::any();
    let b = opaque_msg!(h, d, 10u16, d[9], d[10]);
    let o12 = read_rr_cut(READ, L_OPAQUE, &b[..12]);
    read_rr_cut(READ, L_OPAQUE, &b[..13]);
    read_rr_cut(READ, L_OPAQUE, &b[..14]);
    read_rr_cut(READ, L_OPAQUE, &b[..15]);
    read_rr_cut(READ, L_OPAQUE, &b[..16]);
    read_rr_cut(READ, L_OPAQUE, &b[..17]);
    read_rr_cut(READ, L_OPAQUE, &b[..18]);
    read_rr_cut(READ, L_OPAQUE, &b[..19]);
    read_rr_cut(READ, L_OPAQUE, &b[..20]);
    let o21 = read_rr_cut(READ, L_OPAQUE, &b[..21]);
    read_rr_cut(READ, L_OPAQUE, &b[..22]);
    read_rr_cut(READ, L_OPAQUE, &b[..23]);
    read_rr_cut(READ, L_OPAQUE, &b[..24]);
    let o25 = read_rr_cut(READ, L_OPAQUE, &b[..25]);
    let o26 = read_rr_cut(READ, L_OPAQUE, &b[..26]);
    kani::cover!(
        !o12.ok && !o12.late_err && o21.late_err && o25.late_err && o26.ok && o26.to_eom && o26.ttl_hi,
        "at the end: refused; owner within 8 octets of the end: refused; RDLENGTH past the end: refused; 3 RDATA octets and TTL bit 31 set: read"
    );
}

// A symbolic RDLENGTH makes peek_rr return on two paths; where they join, the
// PeekRr's stored offsets stop being constants for CBMC, TYPE becomes
// symbolic and Rdata::read is explored for every type (measured: no result in
// 15 min).  RDLENGTH is therefore concrete here and varied call by call.
// @harness props=C15 panics=C15,C01 kani="--no-assertion-reach-checks" tier=quick mem=3 t=900 fn="Reader::peek_rr,PeekRr::parse,PeekRr::take_owner,Rdata::read"
//   bound="12 symbolic header octets + root owner + TYPE 65280 (private use) + symbolic CLASS, TTL + RDLENGTH r + 3 symbolic RDATA octets: r = 3 on the message cut at 12, 13, 16, 20, 21, 22, 23, 25, 26; r in {0, 1, 2, 4, 259} on the whole 26-octet message; unwind 6"
//   stubs="S7" sym="h:[u8;12], class, ttl, rdata:[u8;3]"
#[kani::proof]
#[kani::unwind(6)]
#[kani::stub(arrayvec::ArrayVec::try_extend_from_slice, try_extend_model)]
fn c15_peek_parse_opaque_sk() {
    let h: [u8; 12] = kani::any();
    let d: [u8; 9] = kani::any();
    let b = opaque_msg!(h, d, 0xff00u16, 0, 3);
    let o12 = read_rr_cut(PEEK_PARSE, L_OPAQUE, &b[..12]);
    read_rr_cut(PEEK_PARSE, L_OPAQUE, &b[..13]);
    read_rr_cut(PEEK_PARSE, L_OPAQUE, &b[..16]);
    read_rr_cut(PEEK_PARSE, L_OPAQUE, &b[..20]);
    let o21 = read_rr_cut(PEEK_PARSE, L_OPAQUE, &b[..21]);
    read_rr_cut(PEEK_PARSE, L_OPAQUE, &b[..22]);
    read_rr_cut(PEEK_PARSE, L_OPAQUE, &b[..23]);
    let o25 = read_rr_cut(PEEK_PARSE, L_OPAQUE, &b[..25]);
    let o26 = read_rr_cut(PEEK_PARSE, L_OPAQUE, &b[..26]);
    let l0 = read_rr_cut(PEEK_PARSE, L_OPAQUE, &opaque_msg!(h, d, 0xff00u16, 0, 0));
    let l1 = read_rr_cut(PEEK_PARSE, L_OPAQUE, &opaque_msg!(h, d, 0xff00u16, 0, 1));
    let l2 = read_rr_cut(PEEK_PARSE, L_OPAQUE, &opaque_msg!(h, d, 0xff00u16, 0, 2));
    let l4 = read_rr_cut(PEEK_PARSE, L_OPAQUE, &opaque_msg!(h, d, 0xff00u16, 0, 4));
    let l259 = read_rr_cut(PEEK_PARSE, L_OPAQUE, &opaque_msg!(h, d, 0xff00u16, 1, 3));
    kani::cover!(
        !o12.ok && !o12.late_err && o21.late_err && o25.late_err && o26.ok && o26.to_eom && o26.ttl_hi && l0.ok && !l0.has_rdata
            && l1.ok && l2.ok && !l2.to_eom && l4.late_err && l259.late_err,
        "at the end, owner within 8 octets of the end, RDLENGTH past the end: refused; RDLENGTH 0..=3 parsed"
    );
}

// ---- name-bearing RDATA ------------------------------------------------------------
//
// Measured: a symbolic RDLENGTH on a record whose RDATA holds a name (the name
// decoder then works on `&message[..end]` with symbolic `end`) did not finish
// in 10 min / 11 GB, with a concrete RDLENGTH the same read takes seconds.  So
// RDLENGTH is concrete here and varied call by call.

macro_rules! ns_msg {
    ($h:ident, $d:ident, $rl:expr) => {
        msg![$h;
            1, $d[0], 0, // 12: owner a.
            0, 2, // 15: TYPE NS
            $d[1], $d[2], // 17: CLASS
            $d[3], $d[4], $d[5], $d[6], // 19: TTL
            0, $rl, // 23: RDLENGTH
            1, $d[7], 0xc0, 12, // 25: NSDNAME b.a. (label, then pointer to the owner)
            $d[8], $d[9], // 29: two octets after the name
        ]
    };
}

fn ns_all(op: u8) -> bool {
    let h: [u8; 12] = kani::any();
    let d: [u8; 10] = kani::any();
    // the whole 31-octet message, RDLENGTH 0..=7 (7 reaches past the end)
    let l0 = read_rr_cut(op, L_NAME, &ns_msg!(h, d, 0));
    let l1 = read_rr_cut(op, L_NAME, &ns_msg!(h, d, 1));
    let l2 = read_rr_cut(op, L_NAME, &ns_msg!(h, d, 2));
    let l3 = read_rr_cut(op, L_NAME, &ns_msg!(h, d, 3));
    let l4 = read_rr_cut(op, L_NAME, &ns_msg!(h, d, 4));
    let l5 = read_rr_cut(op, L_NAME, &ns_msg!(h, d, 5));
    let l6 = read_rr_cut(op, L_NAME, &ns_msg!(h, d, 6));
    let l7 = read_rr_cut(op, L_NAME, &ns_msg!(h, d, 7));
    // RDLENGTH 4 (exactly the name), message cut inside the RDATA and right after it
    let b = ns_msg!(h, d, 4);
    let c25 = read_rr_cut(op, L_NAME, &b[..25]);
    let c27 = read_rr_cut(op, L_NAME, &b[..27]);
    let c28 = read_rr_cut(op, L_NAME, &b[..28]);
    let c29 = read_rr_cut(op, L_NAME, &b[..29]);
    l0.late_err
        && l1.late_err
        && l2.late_err
        && l3.late_err
        && l4.ok
        && l4.rd_ptr
        && !l4.to_eom
        && l5.late_err
        && l6.late_err
        && l7.late_err
        && c25.late_err
        && c27.late_err
        && c28.late_err
        && c29.ok
        && c29.to_eom
}

// @harness props=C15 panics=C15,C01 kani="--no-assertion-reach-checks" tier=quick mem=3 t=900 fn="Reader::read_rr,Rdata::read,helpers::read_name_rdata,Name::try_from_compressed"
//   bound="12 symbolic header octets + owner [1,a,0] + TYPE NS + symbolic CLASS, TTL + RDLENGTH r + RDATA [1,b,0xc0,12] + 2 symbolic octets: r = 0..=7 on the whole 31-octet message, r = 4 on the message cut at 25, 27, 28, 29; a, b symbolic; unwind 7"
//   stubs="S7" sym="h:[u8;12], a, b, class, ttl, 2 trailing octets"
#[kani::proof]
#[kani::unwind(7)]
#[kani::stub(arrayvec::ArrayVec::try_extend_from_slice, try_extend_model)]
fn c15_read_rr_ns_sk() {
    let all = ns_all(READ);
    kani::cover!(all, "RDLENGTH shorter or longer than the compressed NSDNAME, or past the end, or RDATA cut short: refused; exact: read, at the end of the message too");
}

// @harness props=C15 panics=C15,C01 kani="--no-assertion-reach-checks" tier=quick mem=4 t=900 fn="Reader::peek_rr,PeekRr::owner,PeekRr::parse,PeekRr::take_owner,Rdata::read,helpers::read_name_rdata"
//   bound="same messages as c15_read_rr_ns_sk; peek_rr, owner() twice, then parse(); unwind 7"
//   stubs="S7" sym="h:[u8;12], a, b, class, ttl, 2 trailing octets"
#[kani::proof]
#[kani::unwind(7)]
#[kani::stub(arrayvec::ArrayVec::try_extend_from_slice, try_extend_model)]
fn c15_peek_owner_parse_ns_sk() {
    let all = ns_all(PEEK_OWNER_PARSE);
    kani::cover!(all, "RDLENGTH shorter or longer than the compressed NSDNAME, or past the end, or RDATA cut short: refused; exact: parsed, at the end of the message too");
}

macro_rules! mx_msg {
    ($h:ident, $d:ident, $rl:expr) => {
        msg![$h;
            1, $d[0], 0, // 12: owner a.
            0, 15, // 15: TYPE MX
            $d[1], $d[2], // 17: CLASS
            $d[3], $d[4], $d[5], $d[6], // 19: TTL
            0, $rl, // 23: RDLENGTH
            $d[7], $d[8], // 25: PREFERENCE
            1, $d[9], 0xc0, 12, // 27: EXCHANGE b.a.
            $d[10], // 31: an octet after the name
        ]
    };
}

fn mx_all(op: u8) -> bool {
    let h: [u8; 12] = kani::any();
    let d: [u8; 11] = kani::any();
    let l0 = read_rr_cut(op, L_MX, &mx_msg!(h, d, 0));
    let l1 = read_rr_cut(op, L_MX, &mx_msg!(h, d, 1));
    let l2 = read_rr_cut(op, L_MX, &mx_msg!(h, d, 2));
    let l3 = read_rr_cut(op, L_MX, &mx_msg!(h, d, 3));
    let l5 = read_rr_cut(op, L_MX, &mx_msg!(h, d, 5));
    let l6 = read_rr_cut(op, L_MX, &mx_msg!(h, d, 6));
    let l7 = read_rr_cut(op, L_MX, &mx_msg!(h, d, 7));
    let l8 = read_rr_cut(op, L_MX, &mx_msg!(h, d, 8));
    let b = mx_msg!(h, d, 6);
    let c27 = read_rr_cut(op, L_MX, &b[..27]);
    let c30 = read_rr_cut(op, L_MX, &b[..30]);
    let c31 = read_rr_cut(op, L_MX, &b[..31]);
    l0.late_err
        && l1.late_err
        && l2.late_err
        && l3.late_err
        && l5.late_err
        && l6.ok
        && l6.rd_ptr
        && l6.ttl_hi
        && !l6.to_eom
        && l7.late_err
        && l8.late_err
        && c27.late_err
        && c30.late_err
        && c31.ok
        && c31.to_eom
}

// @harness props=C15 panics=C15,C01 kani="--no-assertion-reach-checks" tier=quick mem=3 t=900 fn="Reader::read_rr,Rdata::read,Rdata::read_mx,Name::try_from_compressed"
//   bound="12 symbolic header octets + owner [1,a,0] + TYPE MX + symbolic CLASS, TTL + RDLENGTH r + RDATA [p0,p1,1,b,0xc0,12] + 1 symbolic octet: r in {0,1,2,3,5,6,7,8} on the whole 32-octet message (8 reaches past the end), r = 6 on the message cut at 27, 30, 31; unwind 9"
//   stubs="S7" sym="h:[u8;12], a, b, class, ttl, preference, trailing octet"
#[kani::proof]
#[kani::unwind(9)]
#[kani::stub(arrayvec::ArrayVec::try_extend_from_slice, try_extend_model)]
fn c15_read_rr_mx_sk() {
    let all = mx_all(READ);
    kani::cover!(all, "RDLENGTH below 2, ending where the exchange starts, shorter or longer than preference + exchange, past the end: refused; exact, TTL bit 31 set: read");
}

// @harness props=C15 panics=C15,C01 kani="--no-assertion-reach-checks" tier=thorough mem=4 t=900 fn="Reader::peek_rr,PeekRr::parse,Rdata::read,Rdata::read_mx"
//   bound="same messages as c15_read_rr_mx_sk; peek_rr then parse(); unwind 9"
//   stubs="S7" sym="h:[u8;12], a, b, class, ttl, preference, trailing octet"
#[kani::proof]
#[kani::unwind(9)]
#[kani::stub(arrayvec::ArrayVec::try_extend_from_slice, try_extend_model)]
fn c15_peek_parse_mx_sk() {
    let all = mx_all(PEEK_PARSE);
    kani::cover!(all, "RDLENGTH below 2, ending where the exchange starts, shorter or longer than preference + exchange, past the end: refused; exact, TTL bit 31 set: parsed");
}

macro_rules! a_msg {
    ($h:ident, $d:ident, $cl:expr, $rh:expr, $rl:expr) => {
        msg![$h;
            0, // 12: owner root
            0, 1, // 13: TYPE A
            0, $cl, // 15: CLASS
            $d[0], $d[1], $d[2], $d[3], // 17: TTL
            $rh, $rl, // 21: RDLENGTH
            0, $d[4], $d[5], $d[6], // 23: RDATA: IN address, or CH root name + address + 1 octet
        ]
    };
}

// @harness props=C15 panics=C15,C01 kani="--no-assertion-reach-checks" tier=quick mem=5 t=900 fn="Reader::read_rr,Rdata::read,Rdata::validate_as_in_a,Rdata::read_ch_a"
//   bound="12 symbolic header octets + root owner + TYPE A + CLASS c + symbolic TTL + RDLENGTH + RDATA [0,x,y,z]: c = IN and c = 2 with all 65536 RDLENGTH values, message cut at 26 and 27; c = CH with RDLENGTH 2, 3, 4 on the 27-octet message and 3 on the message cut at 25, 26; unwind 6"
//   stubs="S7" sym="h:[u8;12], ttl, rdlength (IN and class 2), x, y, z"
#[kani::proof]
#[kani::unwind(6)]
#[kani::stub(arrayvec::ArrayVec::try_extend_from_slice, try_extend_model)]
fn c15_read_rr_a_sk() {
    let h: [u8; 12] = kani::any();
    let d: [u8; 9] = kani::any();
    // class IN: exactly four octets
    let bi = a_msg!(h, d, 1, d[7], d[8]);
    let i26 = read_rr_cut(READ, L_A, &bi[..26]);
    let i27 = read_rr_cut(READ, L_A, &bi[..27]);
    // class 2 (nothing known about A there): opaque
    let bo = a_msg!(h, d, 2, d[7], d[8]);
    let o26 = read_rr_cut(READ, L_A, &bo[..26]);
    let o27 = read_rr_cut(READ, L_A, &bo[..27]);
    // class CH: a name, then 16 bits
    let c2 = read_rr_cut(READ, L_A, &a_msg!(h, d, 3, 0, 2));
    let c3 = read_rr_cut(READ, L_A, &a_msg!(h, d, 3, 0, 3));
    let c4 = read_rr_cut(READ, L_A, &a_msg!(h, d, 3, 0, 4));
    let bc = a_msg!(h, d, 3, 0, 3);
    let c3_25 = read_rr_cut(READ, L_A, &bc[..25]);
    let c3_26 = read_rr_cut(READ, L_A, &bc[..26]);
    kani::cover!(
        i26.late_err && i27.ok && i27.to_eom && o26.late_err && o27.ok && o27.to_eom && c2.late_err && c3.ok && c4.late_err
            && c3_25.late_err && c3_26.ok && c3_26.to_eom,
        "RDLENGTH 4: IN A and class-2 A cut after 3 octets refused, complete read; CH A: RDLENGTH 3 (root name + address) read, 2 and 4 refused"
    );
    kani::cover!(i27.late_err && o27.ok && !o27.to_eom, "RDLENGTH below 4: IN A refused, the same octets in class 2 read as opaque RDATA");
}

// ---- atomicity when only the RDATA is wrong ------------------------------------------------------
//
// The record frames (owner, fixed fields and RDLENGTH octets of RDATA are all
// inside the message) but the RDATA is not laid out as its TYPE prescribes, so
// the failure is detected last, after everything that could have moved the
// read position.  Small on purpose: this is the cheapest harness that sees a
// read position that was advanced before Rdata::read had its say.

macro_rules! ns3_msg {
    ($h:ident, $d:ident, $l:expr, $x:expr) => {
        msg![$h; 0, 0, 2, 0, 1, $d[0], $d[1], $d[2], $d[3], 0, 3, $l, $x, 0]
    };
}

// (Measured: with the NS label-length octet symbolic instead of the five
// concrete values below, symbolic execution did not finish in 10 min.)
// @harness props=C15 panics=C15,C01 kani="--no-assertion-reach-checks" tier=quick mem=4 t=900 fn="Reader::read_rr,Reader::peek_rr,PeekRr::parse,Rdata::read,Rdata::validate_as_in_a,helpers::read_name_rdata"
//   bound="12 symbolic header octets + root owner + CLASS IN + symbolic TTL: (1) TYPE A, RDLENGTH 3 and 5, 5 symbolic RDATA octets present (28 octets); (2) TYPE NS, RDLENGTH 3, RDATA [L,x,0] with L in {0 (root + junk), 1 (valid), 2 (label runs off the end), 0x40 (reserved label type)} and x symbolic, or [0xc0,12,0] (pointer to the owner + junk) (26 octets); read_rr and peek_rr+parse on each; unwind 6"
//   stubs="S7" sym="h:[u8;12], ttl, rdata:[u8;5] / x"
#[kani::proof]
#[kani::unwind(6)]
#[kani::stub(arrayvec::ArrayVec::try_extend_from_slice, try_extend_model)]
fn c15_rr_bad_rdata_atomic() {
    let h: [u8; 12] = kani::any();
    let d: [u8; 9] = kani::any();
    let a3 = msg![h; 0, 0, 1, 0, 1, d[0], d[1], d[2], d[3], 0, 3, d[4], d[5], d[6], d[7], d[8]];
    let a5 = msg![h; 0, 0, 1, 0, 1, d[0], d[1], d[2], d[3], 0, 5, d[4], d[5], d[6], d[7], d[8]];
    let p3 = read_rr_cut(PEEK_PARSE, L_A, &a3);
    let r3 = read_rr_cut(READ, L_A, &a3);
    let p5 = read_rr_cut(PEEK_PARSE, L_A, &a5);
    let r5 = read_rr_cut(READ, L_A, &a5);
    let pn0 = read_rr_cut(PEEK_PARSE, L_NAME, &ns3_msg!(h, d, 0, d[4]));
    let rn0 = read_rr_cut(READ, L_NAME, &ns3_msg!(h, d, 0, d[4]));
    let pn1 = read_rr_cut(PEEK_PARSE, L_NAME, &ns3_msg!(h, d, 1, d[4]));
    let rn1 = read_rr_cut(READ, L_NAME, &ns3_msg!(h, d, 1, d[4]));
    let pn2 = read_rr_cut(PEEK_PARSE, L_NAME, &ns3_msg!(h, d, 2, d[4]));
    let rn2 = read_rr_cut(READ, L_NAME, &ns3_msg!(h, d, 2, d[4]));
    let pn3 = read_rr_cut(PEEK_PARSE, L_NAME, &ns3_msg!(h, d, 0x40, d[4]));
    let rn3 = read_rr_cut(READ, L_NAME, &ns3_msg!(h, d, 0x40, d[4]));
    let pn4 = read_rr_cut(PEEK_PARSE, L_NAME, &ns3_msg!(h, d, 0xc0, 12));
    let rn4 = read_rr_cut(READ, L_NAME, &ns3_msg!(h, d, 0xc0, 12));
    kani::cover!(
        r3.late_err && p3.late_err && r5.late_err && p5.late_err && rn0.late_err && pn0.late_err && rn1.ok && pn1.ok && pn1.to_eom
            && rn2.late_err && pn2.late_err && rn3.late_err && pn3.late_err && rn4.late_err && pn4.late_err,
        "IN A with 3 and 5 octets, NS with root+junk, overlong label, reserved label type, pointer+junk: framed, refused by read_rr and by peek_rr+parse; NS with one label and the root: read"
    );
}

// ---- owner that passes the peek but does not decode ---------------------------------

fn bad_owner(op: u8) -> bool {
    let h: [u8; 12] = kani::any();
    let d: [u8; 8] = kani::any();
    // the first chunk of the owner is a well-formed pointer, which is all
    // skip_rr / peek_rr look at; the pointer points at itself
    let b1 = msg![h;
        0xc0, 12, // 12: owner
        0, 10, d[0], d[1], d[2], d[3], d[4], d[5], 0, 1, // 14: TYPE NULL, CLASS, TTL, RDLENGTH 1
        d[6], // 24: RDATA
    ];
    let o1 = read_rr_cut(op, L_OPAQUE, &b1);
    // a label, then a pointer to the label after it (forward)
    let b2 = msg![h;
        1, d[7], 0xc0, 16, // 12: owner
        0, 10, d[0], d[1], d[2], d[3], d[4], d[5], 0, 1, // 16
        d[6], // 26
    ];
    let o2 = read_rr_cut(op, L_OPAQUE, &b2);
    !o1.ok && !o2.ok
}

// @harness props=C15 panics=C15,C01 kani="--no-assertion-reach-checks" tier=quick mem=3 t=1200 fn="Reader::read_rr,Reader::peek_rr,PeekRr::owner,PeekRr::parse,PeekRr::take_owner,PeekRr::parse_owner"
//   bound="two 25/27-octet messages whose record frame is complete but whose owner is [0xc0,12] (points at itself) or [1,x,0xc0,16] (points forward); read_rr, peek+parse, peek+owner, peek+owner+parse on each; unwind 6"
//   stubs="S7" sym="h:[u8;12], class, ttl, rdata octet, x"
#[kani::proof]
#[kani::unwind(6)]
#[kani::stub(arrayvec::ArrayVec::try_extend_from_slice, try_extend_model)]
fn c15_rr_bad_owner_sk() {
    let a = bad_owner(READ);
    let b = bad_owner(PEEK_PARSE);
    let c = bad_owner(PEEK_OWNER);
    let d = bad_owner(PEEK_OWNER_PARSE);
    kani::cover!(a && b && c && d, "records whose owner passes the peek but does not decode are refused by every operation");
}

// ---- sequences over one three-item message ---------------------------------------------

// 12: question a. (7 octets)  19: NS record, owner -> 12, NSDNAME b.a. at 31
// 35: MX record, owner -> 31, EXCHANGE -> 31   51: end
macro_rules! three_items {
    ($h:ident, $d:ident) => {
        msg![$h;
            1, $d[0], 0, $d[1], $d[2], $d[3], $d[4], // 12: question
            0xc0, 12, 0, 2, $d[5], $d[6], $d[7], $d[8], $d[9], $d[10], 0, 4, // 19: owner, TYPE NS, CLASS, TTL, RDLENGTH
            1, $d[11], 0xc0, 12, // 31: NSDNAME
            0xc0, 31, 0, 15, $d[12], $d[13], $d[14], $d[15], $d[16], $d[17], 0, 4, // 35: owner, TYPE MX, CLASS, TTL, RDLENGTH
            $d[18], $d[19], 0xc0, 31, // 47: PREFERENCE, EXCHANGE
        ]
    };
}

// @harness props=C15 panics=C15,C01 kani="--no-assertion-reach-checks" tier=quick mem=3 t=1200 fn="Reader::read_question,Reader::read_rr,Reader::at_eom,Rdata::read"
//   bound="one 51-octet message: question a., NS record (owner -> QNAME, NSDNAME b.<QNAME>), MX record (owner and exchange -> NSDNAME); label contents, QTYPE/QCLASS, CLASS, TTL, preference symbolic; read_question, read_rr, read_rr, then read_rr at the end of the message; unwind 9"
//   stubs="S7" sym="h:[u8;12], d:[u8;20]"
#[kani::proof]
#[kani::unwind(9)]
#[kani::stub(arrayvec::ArrayVec::try_extend_from_slice, try_extend_model)]
fn c15_seq_read_all() {
    let h: [u8; 12] = kani::any();
    let d: [u8; 20] = kani::any();
    let b = three_items!(h, d);
    let mut r = Reader::try_from(&b[..]).unwrap();
    let q = read_question_at(&b, &mut r);
    assert!(!r.at_eom(), "[C15] at_eom is false while items remain");
    let r1 = read_rr_at(READ, L_NAME, &b, &mut r);
    let r2 = read_rr_at(READ, L_MX, &b, &mut r);
    assert!(r.at_eom(), "[C15] at_eom is true once the read position is the message length");
    let r3 = read_rr_at(READ, L_OPAQUE, &b, &mut r);
    kani::cover!(
        q.ok && r1.ok && r1.name_ptr && r1.rd_ptr && r2.ok && r2.name_ptr && r2.rd_ptr && r2.to_eom && r2.ttl_hi && !r3.ok,
        "question and both records read, a further read at the end of the message refused"
    );
}

// @harness props=C15 panics=C15,C01 kani="--no-assertion-reach-checks" tier=quick mem=3 t=1200 fn="Reader::mark,Reader::rewind,Reader::skip_question,Reader::peek_rr,PeekRr::parse,PeekRr::owner,Reader::skip_rr"
//   bound="the 51-octet message of c15_seq_read_all; mark, read_question, rewind, skip_question, peek+parse (NS), peek+owner+owner+parse (MX), skip_rr at the end of the message; unwind 9"
//   stubs="S7" sym="h:[u8;12], d:[u8;20]"
#[kani::proof]
#[kani::unwind(9)]
#[kani::stub(arrayvec::ArrayVec::try_extend_from_slice, try_extend_model)]
fn c15_seq_peek_parse() {
    let h: [u8; 12] = kani::any();
    let d: [u8; 20] = kani::any();
    let b = three_items!(h, d);
    let mut r = Reader::try_from(&b[..]).unwrap();
    r.mark();
    let q = read_question_at(&b, &mut r);
    r.rewind();
    assert!(r.message_to_cursor().len() == 12, "[C15] rewind returns to the marked read position");
    let before = r.message_to_cursor().len();
    assert!(r.skip_question().is_ok(), "[C15] skip_question accepts the question read_question accepted");
    assert!(r.message_to_cursor().len() == before + 7, "[C15] skip_question advances by exactly the question's length");
    let r1 = read_rr_at(PEEK_PARSE, L_NAME, &b, &mut r);
    let r2 = read_rr_at(PEEK_OWNER_PARSE, L_MX, &b, &mut r);
    let r3 = skip_or_peek_at(false, DROP, &b, &mut r);
    kani::cover!(
        q.ok && r1.ok && r1.rd_ptr && r2.ok && r2.name_ptr && r2.to_eom && !r3.ok,
        "question skipped, both records parsed through peek_rr, a further skip at the end of the message refused"
    );
}

// @harness props=C15 panics=C15,C01 kani="--no-assertion-reach-checks" tier=quick mem=3 t=1200 fn="Reader::skip_question,Reader::skip_rr,Reader::peek_rr,PeekRr::owner,PeekRr::skip"
//   bound="the 51-octet message of c15_seq_read_all; skip_question, peek+owner+drop, skip_rr, peek+skip, peek_rr at the end of the message; unwind 9"
//   stubs="S7" sym="h:[u8;12], d:[u8;20]"
#[kani::proof]
#[kani::unwind(9)]
#[kani::stub(arrayvec::ArrayVec::try_extend_from_slice, try_extend_model)]
fn c15_seq_skip_all() {
    let h: [u8; 12] = kani::any();
    let d: [u8; 20] = kani::any();
    let b = three_items!(h, d);
    let mut r = Reader::try_from(&b[..]).unwrap();
    assert!(r.skip_question().is_ok(), "[C15] skip_question accepts a well-formed question");
    assert!(r.message_to_cursor().len() == 19, "[C15] skip_question advances by exactly the question's length");
    let o = read_rr_at(PEEK_OWNER, L_NAME, &b, &mut r);
    let s1 = skip_or_peek_at(false, DROP, &b, &mut r);
    let s2 = skip_or_peek_at(true, SKIP, &b, &mut r);
    assert!(r.at_eom(), "[C15] at_eom is true once the read position is the message length");
    let s3 = skip_or_peek_at(true, DROP, &b, &mut r);
    kani::cover!(
        o.ok && o.name_ptr && s1.ok && s2.ok && s2.to_eom && !s3.ok,
        "owner peeked, both records skipped, a further peek at the end of the message refused"
    );
}

// ---- SOA (two names and 20 octets) -----------------------------------------------------------

macro_rules! soa_msg {
    ($h:ident, $d:ident, $s:ident, $rl:expr) => {
        msg![$h;
            1, $d[0], 0, // 12: owner a.
            0, 6, // 15: TYPE SOA
            $d[1], $d[2], // 17: CLASS
            $d[3], $d[4], $d[5], $d[6], // 19: TTL
            0, $rl, // 23: RDLENGTH
            0xc0, 12, // 25: MNAME a.
            1, $d[7], 0xc0, 12, // 27: RNAME b.a.
            $s[0], $s[1], $s[2], $s[3], $s[4], $s[5], $s[6], $s[7], $s[8], $s[9], // 31: SERIAL .. MINIMUM
            $s[10], $s[11], $s[12], $s[13], $s[14], $s[15], $s[16], $s[17], $s[18], $s[19], //
            $d[8], // 51: an octet after the RDATA
        ]
    };
}

// @harness props=C15 panics=C15,C01 kani="--no-assertion-reach-checks" tier=thorough mem=4 t=1200 fn="Reader::read_rr,Rdata::read,Rdata::read_soa"
//   bound="12 symbolic header octets + owner [1,a,0] + TYPE SOA + symbolic CLASS, TTL + RDLENGTH r + RDATA [0xc0,12 | 1,b,0xc0,12 | 20 symbolic octets] + 1 symbolic octet: r in {2, 6, 25, 26, 27} on the whole 52-octet message, r = 26 on the message cut at 50, 51; unwind 30"
//   stubs="S7" sym="h:[u8;12], a, b, class, ttl, 20 octets, trailing octet"
#[kani::proof]
#[kani::unwind(30)]
#[kani::stub(arrayvec::ArrayVec::try_extend_from_slice, try_extend_model)]
fn c15_read_rr_soa_sk() {
    let h: [u8; 12] = kani::any();
    let d: [u8; 9] = kani::any();
    let s: [u8; 20] = kani::any();
    let l2 = read_rr_cut(READ, L_SOA, &soa_msg!(h, d, s, 2));
    let l6 = read_rr_cut(READ, L_SOA, &soa_msg!(h, d, s, 6));
    let l25 = read_rr_cut(READ, L_SOA, &soa_msg!(h, d, s, 25));
    let l26 = read_rr_cut(READ, L_SOA, &soa_msg!(h, d, s, 26));
    let l27 = read_rr_cut(READ, L_SOA, &soa_msg!(h, d, s, 27));
    let b = soa_msg!(h, d, s, 26);
    let c50 = read_rr_cut(READ, L_SOA, &b[..50]);
    let c51 = read_rr_cut(READ, L_SOA, &b[..51]);
    kani::cover!(
        l2.late_err && l6.late_err && l25.late_err && l26.ok && l26.rd_ptr && !l26.to_eom && l27.late_err && c50.late_err
            && c51.ok && c51.to_eom,
        "RDATA ending after MNAME, after RNAME, one octet short or long: refused; complete SOA read, at the end of the message too"
    );
}

// ---- symbolic name structure: not covered here ----------------------------------------------
//
// Measured attempts to push symbolic name STRUCTURE through the allocating
// reader operations, all removed:
//  * read_question on a fully symbolic 17-octet message: no end of symbolic
//    execution after 16 min, 17 GB;
//  * the same with a zero header and 5 symbolic body octets: CBMC out of
//    memory after 600 s of symbolic execution (2.5 M steps);
//  * zero header, 3 symbolic octets where the QNAME starts, concrete tail:
//    15.9 GB after 16 min, no verdict;
//  * peek_rr + owner() with 3 symbolic owner octets in front of concrete
//    fixed fields: still in symbolic execution after 43 min at 7.3 GB;
//  * one symbolic label-length octet in NS RDATA (read_rr + peek/parse): no
//    end of symbolic execution in 10 min;
//  * both RDLENGTH octets symbolic on name-bearing RDATA: 10 min / 11 GB, no
//    verdict.
// Symbolic name structure is covered for the name decoder alone by C14
// (name_wire: every buffer of 3..7 octets, every start offset) and for the
// skipping / peeking operations by the "any" harnesses above (every message
// up to 48 octets).

// --------------------------------------------------------------------------
// C09 side harness: the TTL clamp over all u32
// --------------------------------------------------------------------------

// @harness props=C09 tier=quick mem=2 t=300 fn="<Ttl as From<u32>>::from,<u32 as From<Ttl>>::from"
//   bound="every u32" sym="x:u32"
#[kani::proof]
fn c09_ttl_clamp() {
    let x: u32 = kani::any();
    let t = u32::from(Ttl::from(x));
    assert!(t == ref_ttl(x), "[C09] Ttl::from is the RFC 2181 clamp: values with bit 31 set read as 0, all others unchanged");
    assert!(t <= 0x7fff_ffff, "[C09] a Ttl never has bit 31 set");
    // Fact finding, not an assertion: the EDNS version lives in bits 23-16 of
    // the OPT TTL field (RFC 6891 section 6.1.3).  When bit 31 of that field
    // (part of the extended RCODE) is set, the clamp erases the version, so a
    // consumer that extracts the version from the clamped Ttl sees 0.
    kani::cover!(
        (x >> 16) & 0xff != 0 && ((t >> 16) as u8) == 0,
        "an OPT TTL field with a non-zero EDNS version whose clamped Ttl shows version 0"
    );
    kani::cover!((x >> 16) & 0xff != 0 && ((t >> 16) as u8) == ((x >> 16) as u8), "an OPT TTL field whose version survives the clamp");
}


