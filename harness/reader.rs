// @host src/message/reader.rs
//
// C15: the message reader is total, atomic and faithful.  C09 side harness:
// the RFC 2181 TTL clamp over all u32.
//
// Oracles are written here (record framing, header bit extraction) or come
// from kani_common (RFC 1035 name decoder `ref_name`, first-chunk scanner
// `ref_skip`); nothing in the oracle calls quandary code.
//
// Two kinds of harness:
//
//  * "any": operations that do not allocate (header accessors, skip_question,
//    skip_rr, peek_rr and the PeekRr field accessors / skip / drop) run on
//    EVERY message of every length 12..=NMAX, all octets symbolic.
//  * "sk" (skeleton): operations that build a Box<Name> (read_question,
//    read_rr, PeekRr::owner, PeekRr::parse) run on messages of one concrete
//    length whose structure octets (label lengths, pointer octets, RDLENGTH)
//    and data octets are symbolic in the positions listed in each `bound=`.

use super::*;
use crate::kani_common::*;

// --------------------------------------------------------------------------
// reference
// --------------------------------------------------------------------------

/// RFC 2181 section 8: a TTL is 0..=2^31-1; a received value with the most
/// significant bit set is treated as zero.
fn ref_ttl(raw: u32) -> u32 {
    if raw & 0x8000_0000 != 0 {
        0
    } else {
        raw
    }
}

/// RFC 1035 section 4.1.2: QNAME (`first_chunk` octets at `at`), QTYPE,
/// QCLASS.  End offset of the question if it lies inside the message.
fn ref_question_end(n: usize, at: usize, first_chunk: usize) -> Option<usize> {
    if at + first_chunk + 4 <= n {
        Some(at + first_chunk + 4)
    } else {
        None
    }
}

#[derive(Clone, Copy)]
struct Frame {
    rtype: u16,
    class: u16,
    ttl_raw: u32,
    rdlen: usize,
    rd_at: usize,
    end: usize,
}

/// RFC 1035 section 4.1.3: owner (`first_chunk` octets at `at`), TYPE, CLASS,
/// TTL, RDLENGTH, RDATA.  None unless all of it lies inside `msg`.
fn ref_frame(msg: &[u8], at: usize, first_chunk: usize) -> Option<Frame> {
    let n = msg.len();
    let fixed = at + first_chunk;
    if fixed + 10 > n {
        return None;
    }
    let rdlen = be16(msg, fixed + 8) as usize;
    let rd_at = fixed + 10;
    if rd_at + rdlen > n {
        return None;
    }
    Some(Frame {
        rtype: be16(msg, fixed),
        class: be16(msg, fixed + 2),
        ttl_raw: be32(msg, fixed + 4),
        rdlen,
        rd_at,
        end: rd_at + rdlen,
    })
}

/// First chunk of the name at `at` (what a skipping reader validates).
fn ref_first_chunk(msg: &[u8], at: usize) -> Option<usize> {
    if at > msg.len() {
        return None;
    }
    match ref_skip(&msg[at..]) {
        Ok(l) => Some(l),
        Err(_) => None,
    }
}

fn same_wire(name: &Name, e: &RefName) {
    let w = name.wire_repr();
    assert!(w.len() == e.len, "[C15] decoded name has the reference decoder's wire length");
    let mut i = 0;
    while i < e.len {
        assert!(w[i] == e.wire[i], "[C15] decoded name has the reference decoder's wire octets");
        i += 1;
    }
}

// --------------------------------------------------------------------------
// header
// --------------------------------------------------------------------------

// @harness props=C15 panics=C15,C01 tier=quick mem=2 t=300
//   fn="Reader::try_from,Reader::id,qr,opcode,aa,tc,rd,ra,rcode,qdcount,ancount,nscount,arcount,at_eom,message_to_cursor"
//   bound="every octet string of every length 0..=13 (all octet values)"
//   sym="buf:[u8;13], len<=13"
#[kani::proof]
#[kani::unwind(4)]
fn c15_header_accessors() {
    let buf: [u8; 13] = kani::any();
    let len: usize = kani::any();
    kani::assume(len <= 13);
    let m = &buf[..len];
    match Reader::try_from(m) {
        Err(e) => {
            assert!(len < 12, "[C15] only octet strings shorter than a header are refused");
            assert!(e == Error::HeaderTooShort, "[C15] a short header is reported as HeaderTooShort");
            kani::cover!(len == 11, "11-octet string refused");
        }
        Ok(r) => {
            assert!(len >= 12, "[C15] a reader needs a full 12-octet header");
            assert!(r.id() == ((m[0] as u16) << 8) | m[1] as u16, "[C15] ID is octets 0-1, big endian");
            assert!(r.qr() == (m[2] >> 7 == 1), "[C15] QR is bit 7 of octet 2");
            assert!(u8::from(r.opcode()) == (m[2] >> 3) & 0x0f, "[C15] OPCODE is bits 6-3 of octet 2");
            assert!(r.aa() == ((m[2] >> 2) & 1 == 1), "[C15] AA is bit 2 of octet 2");
            assert!(r.tc() == ((m[2] >> 1) & 1 == 1), "[C15] TC is bit 1 of octet 2");
            assert!(r.rd() == (m[2] & 1 == 1), "[C15] RD is bit 0 of octet 2");
            assert!(r.ra() == (m[3] >> 7 == 1), "[C15] RA is bit 7 of octet 3");
            assert!(u8::from(r.rcode()) == m[3] & 0x0f, "[C15] RCODE is bits 3-0 of octet 3");
            assert!(r.qdcount() == ((m[4] as u16) << 8) | m[5] as u16, "[C15] QDCOUNT is octets 4-5");
            assert!(r.ancount() == ((m[6] as u16) << 8) | m[7] as u16, "[C15] ANCOUNT is octets 6-7");
            assert!(r.nscount() == ((m[8] as u16) << 8) | m[9] as u16, "[C15] NSCOUNT is octets 8-9");
            assert!(r.arcount() == ((m[10] as u16) << 8) | m[11] as u16, "[C15] ARCOUNT is octets 10-11");
            assert!(r.message_to_cursor().len() == 12, "[C15] reading starts right after the header");
            assert!(r.at_eom() == (len == 12), "[C15] at_eom iff nothing follows the read position");
            kani::cover!(len == 12 && r.qr() && u8::from(r.opcode()) == 15 && u8::from(r.rcode()) == 15, "header with all-ones opcode/rcode");
            kani::cover!(len == 13, "13-octet message accepted");
        }
    }
}

// --------------------------------------------------------------------------
// non-allocating operations on every message of length 12..=NMAX
// --------------------------------------------------------------------------

fn skip_question_any<const NMAX: usize>() {
    let buf: [u8; NMAX] = kani::any();
    let len: usize = kani::any();
    kani::assume(len >= 12 && len <= NMAX);
    let msg = &buf[..len];
    let mut r = Reader::try_from(msg).unwrap();
    let before = r.message_to_cursor().len();
    let res = r.skip_question();
    let after = r.message_to_cursor().len();
    let e = match ref_first_chunk(msg, 12) {
        Some(fc) => ref_question_end(len, 12, fc),
        None => None,
    };
    match (res, e) {
        (Ok(()), Some(end)) => {
            assert!(after == end, "[C15] skip_question advances by exactly the question's length");
            kani::cover!(end == len && end > 17, "skipped a question that ends exactly at the end of the message");
        }
        (Err(_), None) => {
            assert!(after == before, "[C15] a failed skip_question leaves the read position unchanged");
            kani::cover!(len == 12, "question requested exactly at the end of the message");
            kani::cover!(len == 16, "root QNAME, QCLASS cut short");
        }
        (Ok(()), None) => assert!(false, "[C15] skip_question accepts a question that is not inside the message"),
        (Err(_), Some(_)) => assert!(false, "[C15] skip_question refuses a question that is inside the message"),
    }
}

// @harness props=C15 panics=C15,C01 tier=quick mem=3 t=600 fn="Reader::skip_question"
//   bound="every message of every length 12..=24, all octets symbolic, read position 12; unwind 14"
//   sym="buf:[u8;24], len in 12..=24"
#[kani::proof]
#[kani::unwind(14)]
fn c15_skip_question_any24() {
    skip_question_any::<24>();
}

/// What to do with a successfully peeked record.
const DROP: u8 = 0;
const SKIP: u8 = 1;

/// skip_rr (PEEK = false) or peek_rr + accessors + {drop, skip} on the record
/// at `r`'s read position.  Returns nothing; asserts against the reference.
fn skip_or_peek_at<const PEEK: bool, const THEN: u8>(msg: &[u8], r: &mut Reader) {
    let len = msg.len();
    let at = r.message_to_cursor().len();
    let e = match ref_first_chunk(msg, at) {
        Some(fc) => ref_frame(msg, at, fc),
        None => None,
    };
    if !PEEK {
        let res = r.skip_rr();
        let after = r.message_to_cursor().len();
        match (res, e) {
            (Ok(()), Some(f)) => {
                assert!(after == f.end, "[C15] skip_rr advances by exactly the record's length");
                kani::cover!(f.end == len && f.rdlen > 0, "skipped a record with RDATA that ends exactly at the end of the message");
            }
            (Err(_), None) => {
                assert!(after == at, "[C15] a failed skip_rr leaves the read position unchanged");
                kani::cover!(at == len, "record requested exactly at the end of the message");
                kani::cover!(at + 5 == len && msg[at] == 0, "owner ends within 8 octets of the end of the message");
            }
            (Ok(()), None) => assert!(false, "[C15] skip_rr accepts a record that is not inside the message"),
            (Err(_), Some(_)) => assert!(false, "[C15] skip_rr refuses a record that is inside the message"),
        }
    } else {
        let ok = match r.peek_rr() {
            Ok(p) => {
                match e {
                    Some(f) => {
                        assert!(u16::from(p.rr_type()) == f.rtype, "[C15] peeked TYPE equals the reference's");
                        assert!(u16::from(p.class()) == f.class, "[C15] peeked CLASS equals the reference's");
                        assert!(u32::from(p.ttl()) == ref_ttl(f.ttl_raw), "[C15] peeked TTL is the RFC 2181 clamp of the raw field");
                        assert!(p.rdlength() as usize == f.rdlen, "[C15] peeked RDLENGTH equals the reference's");
                        assert!(p.message_to_rr().len() == at, "[C15] message_to_rr ends where the record starts");
                        kani::cover!(
                            f.ttl_raw >= 0x8000_0000 && f.end == len && f.rdlen > 0,
                            "peeked a record with TTL bit 31 set and RDATA, ending at the end of the message"
                        );
                    }
                    None => assert!(false, "[C15] peek_rr accepts a record that is not inside the message"),
                }
                if THEN == SKIP {
                    p.skip();
                } else {
                    drop(p);
                }
                true
            }
            Err(_) => false,
        };
        let after = r.message_to_cursor().len();
        match (ok, e) {
            (true, Some(f)) => {
                if THEN == SKIP {
                    assert!(after == f.end, "[C15] PeekRr::skip advances by exactly the record's length");
                } else {
                    assert!(after == at, "[C15] dropping a PeekRr leaves the read position unchanged");
                }
            }
            (false, None) => {
                assert!(after == at, "[C15] a failed peek_rr leaves the read position unchanged");
                kani::cover!(at == len, "record requested exactly at the end of the message");
                kani::cover!(at + 5 == len && msg[at] == 0, "owner ends within 8 octets of the end of the message");
            }
            (false, Some(_)) => assert!(false, "[C15] peek_rr refuses a record that is inside the message"),
            (true, None) => {}
        }
    }
}

fn rr_any<const NMAX: usize, const PEEK: bool, const THEN: u8>() {
    let buf: [u8; NMAX] = kani::any();
    let len: usize = kani::any();
    kani::assume(len >= 12 && len <= NMAX);
    let msg = &buf[..len];
    let mut r = Reader::try_from(msg).unwrap();
    skip_or_peek_at::<PEEK, THEN>(msg, &mut r);
}

// @harness props=C15 panics=C15,C01 tier=quick mem=3 t=600 fn="Reader::skip_rr"
//   bound="every message of every length 12..=28, all octets symbolic, read position 12; unwind 18"
//   sym="buf:[u8;28], len in 12..=28"
#[kani::proof]
#[kani::unwind(18)]
fn c15_skip_rr_any28() {
    rr_any::<28, false, DROP>();
}

// @harness props=C15 panics=C15,C01 tier=quick mem=3 t=600
//   fn="Reader::peek_rr,PeekRr::rr_type,PeekRr::class,PeekRr::ttl,PeekRr::rdlength,PeekRr::message_to_rr,drop(PeekRr)"
//   bound="every message of every length 12..=28, all octets symbolic, read position 12; unwind 18"
//   sym="buf:[u8;28], len in 12..=28"
#[kani::proof]
#[kani::unwind(18)]
fn c15_peek_rr_drop_any28() {
    rr_any::<28, true, DROP>();
}

// @harness props=C15 panics=C15,C01 tier=quick mem=3 t=600
//   fn="Reader::peek_rr,PeekRr::rr_type,PeekRr::class,PeekRr::ttl,PeekRr::rdlength,PeekRr::message_to_rr,PeekRr::skip"
//   bound="every message of every length 12..=28, all octets symbolic, read position 12; unwind 18"
//   sym="buf:[u8;28], len in 12..=28"
#[kani::proof]
#[kani::unwind(18)]
fn c15_peek_rr_skip_any28() {
    rr_any::<28, true, SKIP>();
}

// --------------------------------------------------------------------------
// C09 side harness: the TTL clamp over all u32
// --------------------------------------------------------------------------

// @harness props=C09 tier=quick mem=2 t=300 fn="<Ttl as From<u32>>::from,<u32 as From<Ttl>>::from"
//   bound="every u32" sym="x:u32"
#[kani::proof]
fn c09_ttl_clamp() {
    let x: u32 = kani::any();
    let t = u32::from(Ttl::from(x));
    assert!(t == ref_ttl(x), "[C09] Ttl::from is the RFC 2181 clamp: values with bit 31 set read as 0, all others unchanged");
    assert!(t <= 0x7fff_ffff, "[C09] a Ttl never has bit 31 set");
    // Fact finding, not an assertion: the EDNS version lives in bits 23-16 of
    // the OPT TTL field (RFC 6891 section 6.1.3).  When bit 31 of that field
    // (part of the extended RCODE) is set, the clamp erases the version, so a
    // consumer that extracts the version from the clamped Ttl sees 0.
    kani::cover!(
        (x >> 16) & 0xff != 0 && ((t >> 16) as u8) == 0,
        "an OPT TTL field with a non-zero EDNS version whose clamped Ttl shows version 0"
    );
    kani::cover!((x >> 16) & 0xff != 0 && ((t >> 16) as u8) == ((x >> 16) as u8), "an OPT TTL field whose version survives the clamp");
}
