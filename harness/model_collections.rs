// Stub S1: association-list model of the subset of std::collections
// {HashMap, HashSet, hash_map::{Entry, Values}} that quandary uses.
//
// hashbrown + RandomState::new() (getrandom FFI) cannot be analysed by
// Kani/CBMC.  Under cfg(kani) the overlay rewrites quandary's
// `use std::collections::...` lines to this module.  Keys are compared with
// `Eq` only (linear search), so the model is faithful iff the key types'
// Eq and Hash agree - which is property C16's obligation for Name/Label.
// Iteration order is insertion order; harnesses must not depend on it.

use std::borrow::Borrow;
use std::fmt;

pub struct HashMap<K, V> {
    items: Vec<(K, V)>,
}

impl<K, V> HashMap<K, V> {
    pub fn new() -> Self {
        Self { items: Vec::new() }
    }
    pub fn is_empty(&self) -> bool {
        self.items.is_empty()
    }
    pub fn len(&self) -> usize {
        self.items.len()
    }
    pub fn values(&self) -> Values<'_, K, V> {
        Values {
            inner: self.items.iter(),
        }
    }
    pub fn iter(&self) -> Iter<'_, K, V> {
        Iter {
            inner: self.items.iter(),
        }
    }
}

impl<K: Eq, V> HashMap<K, V> {
    fn find<Q: ?Sized + Eq>(&self, k: &Q) -> Option<usize>
    where
        K: Borrow<Q>,
    {
        let mut i = 0;
        while i < self.items.len() {
            if self.items[i].0.borrow() == k {
                return Some(i);
            }
            i += 1;
        }
        None
    }
    pub fn get<Q: ?Sized + Eq>(&self, k: &Q) -> Option<&V>
    where
        K: Borrow<Q>,
    {
        match self.find(k) {
            Some(i) => Some(&self.items[i].1),
            None => None,
        }
    }
    pub fn get_mut<Q: ?Sized + Eq>(&mut self, k: &Q) -> Option<&mut V>
    where
        K: Borrow<Q>,
    {
        match self.find(k) {
            Some(i) => Some(&mut self.items[i].1),
            None => None,
        }
    }
    pub fn contains_key<Q: ?Sized + Eq>(&self, k: &Q) -> bool
    where
        K: Borrow<Q>,
    {
        self.find(k).is_some()
    }
    pub fn insert(&mut self, k: K, v: V) -> Option<V> {
        match self.find(&k) {
            Some(i) => Some(std::mem::replace(&mut self.items[i].1, v)),
            None => {
                self.items.push((k, v));
                None
            }
        }
    }
    pub fn remove<Q: ?Sized + Eq>(&mut self, k: &Q) -> Option<V>
    where
        K: Borrow<Q>,
    {
        match self.find(k) {
            Some(i) => Some(self.items.remove(i).1),
            None => None,
        }
    }
    pub fn entry(&mut self, key: K) -> Entry<'_, K, V> {
        match self.find(&key) {
            Some(idx) => Entry::Occupied(OccupiedEntry { map: self, idx }),
            None => Entry::Vacant(VacantEntry { map: self, key }),
        }
    }
}

impl<K, V> Default for HashMap<K, V> {
    fn default() -> Self {
        Self::new()
    }
}

impl<K: Clone, V: Clone> Clone for HashMap<K, V> {
    fn clone(&self) -> Self {
        Self {
            items: self.items.clone(),
        }
    }
}

impl<K, V> fmt::Debug for HashMap<K, V> {
    fn fmt(&self, f: &mut fmt::Formatter) -> fmt::Result {
        f.write_str("HashMap(model)")
    }
}

impl<K: Eq, V, const N: usize> From<[(K, V); N]> for HashMap<K, V> {
    fn from(arr: [(K, V); N]) -> Self {
        let mut m = Self::new();
        for (k, v) in arr {
            m.insert(k, v);
        }
        m
    }
}

impl<K: Eq, V> FromIterator<(K, V)> for HashMap<K, V> {
    fn from_iter<I: IntoIterator<Item = (K, V)>>(iter: I) -> Self {
        let mut m = Self::new();
        for (k, v) in iter {
            m.insert(k, v);
        }
        m
    }
}

pub struct Values<'a, K, V> {
    inner: std::slice::Iter<'a, (K, V)>,
}

impl<'a, K, V> Iterator for Values<'a, K, V> {
    type Item = &'a V;
    fn next(&mut self) -> Option<&'a V> {
        self.inner.next().map(|kv| &kv.1)
    }
}

pub struct Iter<'a, K, V> {
    inner: std::slice::Iter<'a, (K, V)>,
}

impl<'a, K, V> Iterator for Iter<'a, K, V> {
    type Item = (&'a K, &'a V);
    fn next(&mut self) -> Option<(&'a K, &'a V)> {
        self.inner.next().map(|kv| (&kv.0, &kv.1))
    }
}

pub enum Entry<'a, K, V> {
    Occupied(OccupiedEntry<'a, K, V>),
    Vacant(VacantEntry<'a, K, V>),
}

pub struct OccupiedEntry<'a, K, V> {
    map: &'a mut HashMap<K, V>,
    idx: usize,
}

pub struct VacantEntry<'a, K, V> {
    map: &'a mut HashMap<K, V>,
    key: K,
}

impl<'a, K, V> OccupiedEntry<'a, K, V> {
    pub fn get(&self) -> &V {
        &self.map.items[self.idx].1
    }
    pub fn get_mut(&mut self) -> &mut V {
        &mut self.map.items[self.idx].1
    }
    pub fn into_mut(self) -> &'a mut V {
        &mut self.map.items[self.idx].1
    }
    pub fn remove(self) -> V {
        self.map.items.remove(self.idx).1
    }
}

impl<'a, K, V> VacantEntry<'a, K, V> {
    pub fn insert(self, value: V) -> &'a mut V {
        self.map.items.push((self.key, value));
        let last = self.map.items.len() - 1;
        &mut self.map.items[last].1
    }
}

impl<'a, K, V> Entry<'a, K, V> {
    pub fn or_insert_with<F: FnOnce() -> V>(self, default: F) -> &'a mut V {
        match self {
            Entry::Occupied(e) => e.into_mut(),
            Entry::Vacant(e) => e.insert(default()),
        }
    }
    pub fn or_insert(self, default: V) -> &'a mut V {
        match self {
            Entry::Occupied(e) => e.into_mut(),
            Entry::Vacant(e) => e.insert(default),
        }
    }
}

/// `use std::collections::{hash_map, HashMap}` style paths.
pub mod hash_map {
    pub use super::{Entry, HashMap, Iter, OccupiedEntry, VacantEntry, Values};
}

pub struct HashSet<T> {
    items: Vec<T>,
}

impl<T> HashSet<T> {
    pub fn new() -> Self {
        Self { items: Vec::new() }
    }
    pub fn len(&self) -> usize {
        self.items.len()
    }
    pub fn is_empty(&self) -> bool {
        self.items.is_empty()
    }
    pub fn iter(&self) -> std::slice::Iter<'_, T> {
        self.items.iter()
    }
}

impl<T: Eq> HashSet<T> {
    pub fn contains(&self, v: &T) -> bool {
        let mut i = 0;
        while i < self.items.len() {
            if &self.items[i] == v {
                return true;
            }
            i += 1;
        }
        false
    }
    pub fn insert(&mut self, v: T) -> bool {
        if self.contains(&v) {
            false
        } else {
            self.items.push(v);
            true
        }
    }
}

impl<T> Default for HashSet<T> {
    fn default() -> Self {
        Self::new()
    }
}

impl<T> IntoIterator for HashSet<T> {
    type Item = T;
    type IntoIter = std::vec::IntoIter<T>;
    fn into_iter(self) -> Self::IntoIter {
        self.items.into_iter()
    }
}

// `map[&key]` (used by quandary's own #[cfg(test)] modules, which are compiled
// during native counterexample playback)
impl<K: Eq + Borrow<Q>, V, Q: ?Sized + Eq> core::ops::Index<&Q> for HashMap<K, V> {
    type Output = V;
    fn index(&self, key: &Q) -> &V {
        self.get(key).expect("no entry found for key")
    }
}
