// Shared reference models used by the Kani harness families.
//
// Nothing in this file calls quandary code: these are the independent
// oracles (RFC 1035 name walk, record framing, message decoder) the harness
// assertions compare the real implementation against.  Attached to the crate
// root of the scratch copy as `crate::kani_common` under cfg(kani).

/// Capacity of the reference's name buffer.  Harnesses that use symbolic
/// buffers keep them far below this, so a name read from an N-octet buffer
/// (every chunk starts strictly before the previous one, so no octet is read
/// twice) always fits.
pub const REF_MAX: usize = 40;

#[derive(Clone, Copy)]
pub struct RefName {
    /// uncompressed wire form
    pub wire: [u8; REF_MAX],
    pub len: usize,
    /// offset of each label in `wire`
    pub offs: [u8; REF_MAX],
    pub n_labels: usize,
    /// number of contiguous octets occupied at `start`
    pub first_chunk: usize,
    /// whether a compression pointer was followed
    pub used_pointer: bool,
}

#[derive(Clone, Copy, PartialEq, Eq)]
pub enum RefErr {
    Eom,
    LabelTooLong,
    BadPointer,
    TooLong,
}

/// RFC 1035 section 4.1.4 decoder.  A pointer must refer to an offset strictly
/// before the start of the chunk of labels that contains it ("a prior
/// occurrence"); anything else either points forward or re-enters the chunk
/// it came from, which loops.  Labels are at most 63 octets, names at most
/// 255 octets.
pub fn ref_name(buf: &[u8], start: usize) -> Result<RefName, RefErr> {
    let mut out = RefName {
        wire: [0; REF_MAX],
        len: 0,
        offs: [0; REF_MAX],
        n_labels: 0,
        first_chunk: 0,
        used_pointer: false,
    };
    let mut pos = start;
    let mut chunk_start = start;
    let mut first = true;
    loop {
        if pos >= buf.len() {
            return Err(RefErr::Eom);
        }
        let b = buf[pos];
        if b >= 0xc0 {
            if pos + 1 >= buf.len() {
                return Err(RefErr::Eom);
            }
            let target = (((b & 0x3f) as usize) << 8) | buf[pos + 1] as usize;
            if target >= chunk_start {
                return Err(RefErr::BadPointer);
            }
            if first {
                out.first_chunk = pos + 2 - start;
                first = false;
            }
            out.used_pointer = true;
            pos = target;
            chunk_start = target;
        } else if b > 63 {
            return Err(RefErr::LabelTooLong);
        } else {
            let l = b as usize;
            // room for the label and its length octet in the 255-octet budget
            if out.len + 1 + l > 255 || out.len + 1 + l > REF_MAX {
                return Err(RefErr::TooLong);
            }
            if l != 0 && pos + 1 + l >= buf.len() {
                // the label (and at least the octet that must follow it) is
                // not inside the buffer
                return Err(RefErr::Eom);
            }
            out.offs[out.n_labels] = out.len as u8;
            out.n_labels += 1;
            out.wire[out.len] = b;
            out.len += 1;
            let mut i = 0;
            while i < l {
                out.wire[out.len] = buf[pos + 1 + i];
                out.len += 1;
                i += 1;
            }
            pos += 1 + l;
            if l == 0 {
                if first {
                    out.first_chunk = pos - start;
                }
                return Ok(out);
            }
        }
    }
}

/// Uncompressed name at the start of `buf`: Ok(length) or Err.
pub fn ref_uncompressed(buf: &[u8]) -> Result<usize, RefErr> {
    let mut pos = 0usize;
    loop {
        if pos >= buf.len() {
            return Err(RefErr::Eom);
        }
        let b = buf[pos];
        if b > 63 {
            return Err(RefErr::LabelTooLong);
        }
        pos += 1 + b as usize;
        if pos > 255 {
            return Err(RefErr::TooLong);
        }
        if b == 0 {
            return Ok(pos);
        }
    }
}

/// Length of the first chunk of a possibly compressed name at the start of
/// `buf` (what a record-skipping reader needs): labels up to and including
/// the root label or the first two-octet pointer, all inside the buffer.
pub fn ref_skip(buf: &[u8]) -> Result<usize, RefErr> {
    let mut pos = 0usize;
    loop {
        if pos >= buf.len() {
            return Err(RefErr::Eom);
        }
        let b = buf[pos];
        if b >= 0xc0 {
            if pos + 1 >= buf.len() {
                return Err(RefErr::Eom);
            }
            // uncompressed length is at least pos + 1 (the pointed-to name
            // has at least the root label)
            if pos + 1 > 255 {
                return Err(RefErr::TooLong);
            }
            return Ok(pos + 2);
        }
        if b > 63 {
            return Err(RefErr::LabelTooLong);
        }
        pos += 1 + b as usize;
        if pos > 255 {
            return Err(RefErr::TooLong);
        }
        if b == 0 {
            return Ok(pos);
        }
    }
}

pub fn lower(b: u8) -> u8 {
    if b >= b'A' && b <= b'Z' {
        b + 32
    } else {
        b
    }
}

// --------------------------------------------------------------------------
// Stub S7: arrayvec::ArrayVec::try_extend_from_slice
// --------------------------------------------------------------------------
// The arrayvec crate (a dependency, not quandary code) implements this with
// one ptr::copy_nonoverlapping of symbolic offset and symbolic length into a
// 255-element array; CBMC's array post-processing of that copy ran past 20 GB
// for a 3-octet input (measured).  The model below has the same contract
// (capacity check, then append every element in order) but appends element by
// element, which CBMC handles as single guarded stores.
pub fn try_extend_model<T: Copy, const CAP: usize>(
    v: &mut arrayvec::ArrayVec<T, CAP>,
    other: &[T],
) -> Result<(), arrayvec::CapacityError> {
    if v.remaining_capacity() < other.len() {
        return Err(arrayvec::CapacityError::new(()));
    }
    let mut i = 0;
    while i < other.len() {
        v.push(other[i]);
        i += 1;
    }
    Ok(())
}
