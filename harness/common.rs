// Shared reference models used by the Kani harness families.
//
// Nothing in this file calls quandary code: these are the independent
// oracles (RFC 1035 name walk, record framing, message decoder) the harness
// assertions compare the real implementation against.  Attached to the crate
// root of the scratch copy as `crate::kani_common` under cfg(kani).

/// Capacity of the reference's name buffer.  Harnesses that use symbolic
/// buffers keep them far below this, so a name read from an N-octet buffer
/// (every chunk starts strictly before the previous one, so no octet is read
/// twice) always fits.
pub const REF_MAX: usize = 40;

#[derive(Clone, Copy)]
pub struct RefName {
    /// uncompressed wire form
    pub wire: [u8; REF_MAX],
    pub len: usize,
    /// offset of each label in `wire`
    pub offs: [u8; REF_MAX],
    pub n_labels: usize,
    /// number of contiguous octets occupied at `start`
    pub first_chunk: usize,
    /// whether a compression pointer was followed
    pub used_pointer: bool,
}

#[derive(Clone, Copy, PartialEq, Eq)]
pub enum RefErr {
    Eom,
    LabelTooLong,
    BadPointer,
    TooLong,
}

/// RFC 1035 section 4.1.4 decoder.  A pointer must refer to an offset strictly
/// before the start of the chunk of labels that contains it ("a prior
/// occurrence"); anything else either points forward or re-enters the chunk
/// it came from, which loops.  Labels are at most 63 octets, names at most
/// 255 octets.
pub fn ref_name(buf: &[u8], start: usize) -> Result<RefName, RefErr> {
    let mut out = RefName {
        wire: [0; REF_MAX],
        len: 0,
        offs: [0; REF_MAX],
        n_labels: 0,
        first_chunk: 0,
        used_pointer: false,
    };
    let mut pos = start;
    let mut chunk_start = start;
    let mut first = true;
    loop {
        if pos >= buf.len() {
            return Err(RefErr::Eom);
        }
        let b = buf[pos];
        if b >= 0xc0 {
            if pos + 1 >= buf.len() {
                return Err(RefErr::Eom);
            }
            let target = (((b & 0x3f) as usize) << 8) | buf[pos + 1] as usize;
            if target >= chunk_start {
                return Err(RefErr::BadPointer);
            }
            if first {
                out.first_chunk = pos + 2 - start;
                first = false;
            }
            out.used_pointer = true;
            pos = target;
            chunk_start = target;
        } else if b > 63 {
            return Err(RefErr::LabelTooLong);
        } else {
            let l = b as usize;
            // room for the label and its length octet in the 255-octet budget
            if out.len + 1 + l > 255 || out.len + 1 + l > REF_MAX {
                return Err(RefErr::TooLong);
            }
            if l != 0 && pos + 1 + l >= buf.len() {
                // the label (and at least the octet that must follow it) is
                // not inside the buffer
                return Err(RefErr::Eom);
            }
            out.offs[out.n_labels] = out.len as u8;
            out.n_labels += 1;
            out.wire[out.len] = b;
            out.len += 1;
            let mut i = 0;
            while i < l {
                out.wire[out.len] = buf[pos + 1 + i];
                out.len += 1;
                i += 1;
            }
            pos += 1 + l;
            if l == 0 {
                if first {
                    out.first_chunk = pos - start;
                }
                return Ok(out);
            }
        }
    }
}

/// Uncompressed name at the start of `buf`: Ok(length) or Err.
pub fn ref_uncompressed(buf: &[u8]) -> Result<usize, RefErr> {
    let mut pos = 0usize;
    loop {
        if pos >= buf.len() {
            return Err(RefErr::Eom);
        }
        let b = buf[pos];
        if b > 63 {
            return Err(RefErr::LabelTooLong);
        }
        pos += 1 + b as usize;
        if pos > 255 {
            return Err(RefErr::TooLong);
        }
        if b == 0 {
            return Ok(pos);
        }
    }
}

/// Length of the first chunk of a possibly compressed name at the start of
/// `buf` (what a record-skipping reader needs): labels up to and including
/// the root label or the first two-octet pointer, all inside the buffer.
pub fn ref_skip(buf: &[u8]) -> Result<usize, RefErr> {
    let mut pos = 0usize;
    loop {
        if pos >= buf.len() {
            return Err(RefErr::Eom);
        }
        let b = buf[pos];
        if b >= 0xc0 {
            if pos + 1 >= buf.len() {
                return Err(RefErr::Eom);
            }
            // uncompressed length is at least pos + 1 (the pointed-to name
            // has at least the root label)
            if pos + 1 > 255 {
                return Err(RefErr::TooLong);
            }
            return Ok(pos + 2);
        }
        if b > 63 {
            return Err(RefErr::LabelTooLong);
        }
        pos += 1 + b as usize;
        if pos > 255 {
            return Err(RefErr::TooLong);
        }
        if b == 0 {
            return Ok(pos);
        }
    }
}

pub fn lower(b: u8) -> u8 {
    if b >= b'A' && b <= b'Z' {
        b + 32
    } else {
        b
    }
}

// --------------------------------------------------------------------------
// Stub S7: arrayvec::ArrayVec::try_extend_from_slice
// --------------------------------------------------------------------------
// The arrayvec crate (a dependency, not quandary code) implements this with
// one ptr::copy_nonoverlapping of symbolic offset and symbolic length into a
// 255-element array; CBMC's array post-processing of that copy ran past 20 GB
// for a 3-octet input (measured).  The model below has the same contract
// (capacity check, then append every element in order) but appends element by
// element, which CBMC handles as single guarded stores.
pub fn try_extend_model<T: Copy, const CAP: usize>(
    v: &mut arrayvec::ArrayVec<T, CAP>,
    other: &[T],
) -> Result<(), arrayvec::CapacityError> {
    if v.remaining_capacity() < other.len() {
        return Err(arrayvec::CapacityError::new(()));
    }
    let mut i = 0;
    while i < other.len() {
        v.push(other[i]);
        i += 1;
    }
    Ok(())
}

// --------------------------------------------------------------------------
// Independent DNS message decoder (RFC 1035 section 4) for small messages
// --------------------------------------------------------------------------

/// Largest message the reference decoder handles.
pub const LIM: usize = 160;
pub const MAXREC: usize = 8;

pub const T_A: u16 = 1;
pub const T_NS: u16 = 2;
pub const T_MD: u16 = 3;
pub const T_MF: u16 = 4;
pub const T_CNAME: u16 = 5;
pub const T_SOA: u16 = 6;
pub const T_MB: u16 = 7;
pub const T_MG: u16 = 8;
pub const T_MR: u16 = 9;
pub const T_PTR: u16 = 12;
pub const T_MINFO: u16 = 14;
pub const T_MX: u16 = 15;
pub const T_TXT: u16 = 16;
pub const T_AAAA: u16 = 28;
pub const T_SRV: u16 = 33;
pub const T_OPT: u16 = 41;
pub const T_TSIG: u16 = 250;

#[derive(Clone, Copy)]
pub struct RefRec {
    /// 1 = answer, 2 = authority, 3 = additional
    pub section: u8,
    pub owner_at: usize,
    pub rtype: u16,
    pub class: u16,
    pub ttl: u32,
    pub rd_at: usize,
    pub rdlen: usize,
}

#[derive(Clone, Copy)]
pub struct RefMsg {
    /// the message decodes completely and ends exactly at `n`
    pub wellformed: bool,
    /// where decoding stopped when not well formed (0 = fine)
    pub why: u8,
    pub id: u16,
    pub flags: u16,
    pub counts: [u16; 4],
    pub q_at: usize,
    pub q_end: usize,
    pub qtype: u16,
    pub qclass: u16,
    pub recs: [RefRec; MAXREC],
    pub n_recs: usize,
    pub n_opt: usize,
    pub n_tsig: usize,
    /// OPT only in the additional section
    pub opt_placement_ok: bool,
    /// TSIG, if any, is the very last record (and in the additional section)
    pub tsig_placement_ok: bool,
    /// every compression pointer points strictly backwards to a label start
    pub pointers_ok: bool,
    /// number of compression pointers seen (in owner names, QNAME, RDATA names)
    pub n_pointers: usize,
    /// a pointer was found inside RDATA of a type that must not be compressed
    pub forbidden_pointer: bool,
    pub end: usize,
}

pub struct NameWalk {
    /// octets occupied at the start position
    pub first_chunk: usize,
    /// uncompressed length
    pub total: usize,
    pub pointers: usize,
}

/// Walks one (possibly compressed) name inside a message, registering the
/// label starts of its first chunk in `starts`.  Pointers must point strictly
/// backwards to a registered label start.
pub fn ref_msg_name(msg: &[u8], n: usize, at: usize, starts: &mut [bool; LIM]) -> Option<NameWalk> {
    ref_msg_name_lim(msg, n, at, starts, usize::MAX)
}

/// Same, giving up (None) after `max_steps` labels/pointers.  A concrete
/// `max_steps` lets CBMC stop unwinding the walk without a solver call; a
/// name that needs more steps makes the caller's well-formedness assertion
/// fail, so the bound can never hide anything.
pub fn ref_msg_name_lim(
    msg: &[u8],
    n: usize,
    at: usize,
    starts: &mut [bool; LIM],
    max_steps: usize,
) -> Option<NameWalk> {
    let mut steps = 0usize;
    let mut pos = at;
    let mut total = 0usize;
    let mut first_chunk = 0usize;
    let mut in_first = true;
    let mut pointers = 0usize;
    loop {
        if steps >= max_steps {
            return None;
        }
        steps += 1;
        if pos >= n {
            return None;
        }
        let b = msg[pos];
        if b >= 0xc0 {
            if pos + 1 >= n {
                return None;
            }
            let target = (((b & 0x3f) as usize) << 8) | msg[pos + 1] as usize;
            if target >= pos || target >= LIM || !starts[target] {
                return None;
            }
            if in_first {
                first_chunk = pos + 2 - at;
                in_first = false;
            }
            pointers += 1;
            pos = target;
        } else if b > 63 {
            return None;
        } else {
            let l = b as usize;
            if pos + 1 + l > n {
                return None;
            }
            if in_first && pos < LIM {
                starts[pos] = true;
            }
            total += 1 + l;
            if total > 255 {
                return None;
            }
            pos += 1 + l;
            if l == 0 {
                if in_first {
                    first_chunk = pos - at;
                }
                return Some(NameWalk {
                    first_chunk,
                    total,
                    pointers,
                });
            }
        }
    }
}

pub fn be16(msg: &[u8], at: usize) -> u16 {
    ((msg[at] as u16) << 8) | msg[at + 1] as u16
}

pub fn be32(msg: &[u8], at: usize) -> u32 {
    ((msg[at] as u32) << 24) | ((msg[at + 1] as u32) << 16) | ((msg[at + 2] as u32) << 8) | msg[at + 3] as u32
}

/// Is `rtype` one whose RDATA names may be compressed (RFC 3597 section 4:
/// only the types defined in RFC 1035)?
pub fn compressible_type(rtype: u16) -> bool {
    matches!(
        rtype,
        T_NS | T_MD | T_MF | T_CNAME | T_SOA | T_MB | T_MG | T_MR | T_PTR | T_MINFO | T_MX
    )
}

/// Decodes `msg[..n]`.  `n` must be <= LIM.
pub fn ref_decode(msg: &[u8], n: usize) -> RefMsg {
    ref_decode_lim(msg, n, [usize::MAX; 4], usize::MAX)
}

/// Same with concrete caps on questions, records per section and name-walk steps: a
/// message beyond a cap is reported as NOT well formed (why = 20..22), never
/// silently truncated.
pub fn ref_decode_lim(msg: &[u8], n: usize, caps: [usize; 4], max_steps: usize) -> RefMsg {
    let zero = RefRec {
        section: 0,
        owner_at: 0,
        rtype: 0,
        class: 0,
        ttl: 0,
        rd_at: 0,
        rdlen: 0,
    };
    let mut m = RefMsg {
        wellformed: false,
        why: 0,
        id: 0,
        flags: 0,
        counts: [0; 4],
        q_at: 12,
        q_end: 12,
        qtype: 0,
        qclass: 0,
        recs: [zero; MAXREC],
        n_recs: 0,
        n_opt: 0,
        n_tsig: 0,
        opt_placement_ok: true,
        tsig_placement_ok: true,
        pointers_ok: true,
        n_pointers: 0,
        forbidden_pointer: false,
        end: 0,
    };
    if n < 12 || n > LIM || n > msg.len() {
        m.why = 1;
        return m;
    }
    m.id = be16(msg, 0);
    m.flags = be16(msg, 2);
    m.counts = [be16(msg, 4), be16(msg, 6), be16(msg, 8), be16(msg, 10)];
    let mut starts = [false; LIM];
    let mut pos = 12usize;
    // questions
    let mut qi = 0u16;
    while qi < m.counts[0] {
        if qi as usize >= caps[0] {
            m.why = 20;
            return m;
        }
        let w = match ref_msg_name_lim(msg, n, pos, &mut starts, max_steps) {
            Some(w) => w,
            None => {
                m.why = 2;
                m.pointers_ok = false;
                return m;
            }
        };
        m.n_pointers += w.pointers;
        if pos + w.first_chunk + 4 > n {
            m.why = 3;
            return m;
        }
        if qi == 0 {
            m.q_at = pos;
            m.qtype = be16(msg, pos + w.first_chunk);
            m.qclass = be16(msg, pos + w.first_chunk + 2);
            m.q_end = pos + w.first_chunk + 4;
        }
        pos += w.first_chunk + 4;
        qi += 1;
    }
    // records
    let mut section = 1u8;
    while section <= 3 {
        let mut k = 0u16;
        while k < m.counts[section as usize] {
            if k as usize >= caps[section as usize] {
                m.why = 21;
                return m;
            }
            let w = match ref_msg_name_lim(msg, n, pos, &mut starts, max_steps) {
                Some(w) => w,
                None => {
                    m.why = 4;
                    m.pointers_ok = false;
                    return m;
                }
            };
            m.n_pointers += w.pointers;
            let fixed = pos + w.first_chunk;
            if fixed + 10 > n {
                m.why = 5;
                return m;
            }
            let rtype = be16(msg, fixed);
            let class = be16(msg, fixed + 2);
            let ttl = be32(msg, fixed + 4);
            let rdlen = be16(msg, fixed + 8) as usize;
            let rd_at = fixed + 10;
            if rd_at + rdlen > n {
                m.why = 6;
                return m;
            }
            // names inside RDATA
            let rd_end = rd_at + rdlen;
            let mut name_at = [usize::MAX; 2];
            let mut tail = 0usize; // octets required after the last name
            match rtype {
                T_NS | T_MD | T_MF | T_CNAME | T_MB | T_MG | T_MR | T_PTR => name_at[0] = rd_at,
                T_MX => {
                    if rdlen < 2 {
                        m.why = 7;
                        return m;
                    }
                    name_at[0] = rd_at + 2
                }
                T_SRV if class == 1 => {
                    if rdlen < 6 {
                        m.why = 7;
                        return m;
                    }
                    name_at[0] = rd_at + 6
                }
                T_A if class == 3 => {
                    // Chaosnet A: name + 16-bit address
                    name_at[0] = rd_at;
                    tail = 2;
                }
                T_SOA => {
                    name_at[0] = rd_at;
                    name_at[1] = 0; // second name follows the first
                    tail = 20;
                }
                T_MINFO => {
                    name_at[0] = rd_at;
                    name_at[1] = 0;
                }
                _ => {}
            }
            if name_at[0] != usize::MAX {
                let w1 = match ref_msg_name_lim(msg, rd_end, name_at[0], &mut starts, max_steps) {
                    Some(w) => w,
                    None => {
                        m.why = 8;
                        m.pointers_ok = false;
                        return m;
                    }
                };
                m.n_pointers += w1.pointers;
                let mut after = name_at[0] + w1.first_chunk;
                let mut ptrs = w1.pointers;
                if name_at[1] != usize::MAX {
                    let w2 = match ref_msg_name_lim(msg, rd_end, after, &mut starts, max_steps) {
                        Some(w) => w,
                        None => {
                            m.why = 9;
                            m.pointers_ok = false;
                            return m;
                        }
                    };
                    m.n_pointers += w2.pointers;
                    ptrs += w2.pointers;
                    after += w2.first_chunk;
                }
                if after + tail != rd_end {
                    m.why = 10;
                    return m;
                }
                if ptrs > 0 && !(compressible_type(rtype) && !(rtype == T_A)) {
                    m.forbidden_pointer = true;
                }
            }
            if rtype == T_OPT {
                m.n_opt += 1;
                if section != 3 {
                    m.opt_placement_ok = false;
                }
            }
            if rtype == T_TSIG {
                m.n_tsig += 1;
                if !(section == 3 && k + 1 == m.counts[3]) {
                    m.tsig_placement_ok = false;
                }
            }
            if m.n_recs < MAXREC {
                m.recs[m.n_recs] = RefRec {
                    section,
                    owner_at: pos,
                    rtype,
                    class,
                    ttl,
                    rd_at,
                    rdlen,
                };
            }
            m.n_recs += 1;
            pos = rd_end;
            k += 1;
        }
        section += 1;
    }
    m.end = pos;
    if pos != n {
        m.why = 11;
        return m;
    }
    if m.n_tsig > 1 {
        m.tsig_placement_ok = false;
    }
    m.wellformed = true;
    m
}

// --------------------------------------------------------------------------
// Independent request classifier (what RFC 1035 / 6891 / 8945 and the
// property statements C03, C07, C08, C09 say about a request)
// --------------------------------------------------------------------------

#[derive(Clone, Copy, PartialEq, Eq)]
pub enum Problem {
    None,
    QuestionUnparseable,
    RecordNotDelimitable,
    OptOutsideAdditional,
    TsigOutsideAdditional,
    SecondOpt,
    OptUnparseable,
    OptOwnerNotRoot,
    TsigNotLast,
    TsigBadClassOrTtl,
    TsigMalformed,
    TrailingOctets,
    QueryWithoutQuestion,
}

#[derive(Clone, Copy)]
pub struct RefScan {
    /// false: shorter than a header, QR set, or QDCOUNT > 1 -> no response at all
    pub respond: bool,
    pub id: u16,
    pub opcode: u8,
    pub rd: bool,
    pub qd: u16,
    pub q_at: usize,
    pub q_end: usize,
    pub qtype: u16,
    pub qclass: u16,
    /// the QNAME contains no compression pointer
    pub q_plain: bool,
    /// first FORMERR-class problem in message order
    pub problem: Problem,
    /// an OPT record in the additional section was reached by in-order
    /// processing (possibly being itself the site of the problem)
    pub opt_reached: bool,
    pub opt_class: u16,
    pub opt_ttl: u32,
    /// a reached, well-formed OPT with root owner carried version != 0, and
    /// no FORMERR-class problem precedes it
    pub badvers_first: bool,
    /// a syntactically acceptable TSIG (last record, class ANY, TTL 0, RDATA
    /// layout valid) was reached before any problem: TSIG processing decides
    pub tsig_reached: bool,
}

/// OPT RDATA: a sequence of (code, length, data) options filling it exactly.
pub fn ref_opt_rdata_ok(msg: &[u8], at: usize, len: usize) -> bool {
    let end = at + len;
    let mut pos = at;
    loop {
        if pos == end {
            return true;
        }
        if pos + 4 > end {
            return false;
        }
        let l = be16(msg, pos + 2) as usize;
        if pos + 4 + l > end {
            return false;
        }
        pos += 4 + l;
    }
}

/// TSIG RDATA layout (RFC 8945 section 4.2): algorithm name, 48-bit time,
/// fudge, MAC size + MAC, original ID, error, other len + other data.
pub fn ref_tsig_rdata_ok(msg: &[u8], at: usize, len: usize) -> bool {
    let end = at + len;
    let alg = match ref_uncompressed(&msg[at..end]) {
        Ok(l) => l,
        Err(_) => return false,
    };
    let mut pos = at + alg;
    if pos + 10 > end {
        return false;
    }
    let mac = be16(msg, pos + 8) as usize;
    pos += 10 + mac;
    if pos + 6 > end {
        return false;
    }
    let other = be16(msg, pos + 4) as usize;
    pos += 6 + other;
    pos == end
}

pub fn ref_scan(req: &[u8], n: usize) -> RefScan {
    let mut s = RefScan {
        respond: false,
        id: 0,
        opcode: 0,
        rd: false,
        qd: 0,
        q_at: 12,
        q_end: 12,
        qtype: 0,
        qclass: 0,
        q_plain: true,
        problem: Problem::None,
        opt_reached: false,
        opt_class: 0,
        opt_ttl: 0,
        badvers_first: false,
        tsig_reached: false,
    };
    if n < 12 {
        return s;
    }
    s.id = be16(req, 0);
    if req[2] & 0x80 != 0 {
        return s;
    }
    s.opcode = (req[2] >> 3) & 0xf;
    s.rd = req[2] & 1 != 0;
    s.qd = be16(req, 4);
    if s.qd > 1 {
        return s;
    }
    s.respond = true;
    let an = be16(req, 6) as usize;
    let ns = be16(req, 8) as usize;
    let ar = be16(req, 10) as usize;
    let mut pos = 12usize;
    if s.qd == 1 {
        if pos >= n {
            // (redundant with ref_name's own end-of-buffer test; stated on
            // concrete values so that CBMC prunes the rest of the scan)
            s.problem = Problem::QuestionUnparseable;
            return s;
        }
        match ref_name(&req[..n], pos) {
            Ok(nm) => {
                if pos + nm.first_chunk + 4 > n {
                    s.problem = Problem::QuestionUnparseable;
                    return s;
                }
                s.q_plain = !nm.used_pointer;
                s.qtype = be16(req, pos + nm.first_chunk);
                s.qclass = be16(req, pos + nm.first_chunk + 2);
                pos += nm.first_chunk + 4;
                s.q_end = pos;
            }
            Err(_) => {
                s.problem = Problem::QuestionUnparseable;
                return s;
            }
        }
    }
    let total = an + ns + ar;
    let mut i = 0usize;
    let mut seen_opt = false;
    while i < total {
        let in_additional = i >= an + ns;
        if pos >= n {
            // (redundant fast path on concrete values, see above)
            if s.problem == Problem::None {
                s.problem = Problem::RecordNotDelimitable;
            }
            return s;
        }
        // delimit the record: first chunk of the owner, 10 fixed octets, RDATA
        let first = match ref_skip(&req[pos..n]) {
            Ok(l) => l,
            Err(_) => {
                if s.problem == Problem::None {
                    s.problem = Problem::RecordNotDelimitable;
                }
                return s;
            }
        };
        let fixed = pos + first;
        if fixed + 10 > n {
            if s.problem == Problem::None {
                s.problem = Problem::RecordNotDelimitable;
            }
            return s;
        }
        let rtype = be16(req, fixed);
        let class = be16(req, fixed + 2);
        let ttl = be32(req, fixed + 4);
        let rdlen = be16(req, fixed + 8) as usize;
        let rd_at = fixed + 10;
        if rd_at + rdlen > n {
            if s.problem == Problem::None {
                s.problem = Problem::RecordNotDelimitable;
            }
            return s;
        }
        if rtype == T_OPT {
            if !in_additional {
                if s.problem == Problem::None {
                    s.problem = Problem::OptOutsideAdditional;
                }
                return s;
            }
            if seen_opt {
                if s.problem == Problem::None {
                    s.problem = Problem::SecondOpt;
                }
                return s;
            }
            seen_opt = true;
            if s.problem == Problem::None && !s.badvers_first {
                s.opt_reached = true;
                s.opt_class = class;
                s.opt_ttl = ttl;
            }
            let owner = ref_name(&req[..n], pos);
            let owner_ok = owner.is_ok();
            if !owner_ok || !ref_opt_rdata_ok(req, rd_at, rdlen) {
                if s.problem == Problem::None {
                    s.problem = Problem::OptUnparseable;
                }
                return s;
            }
            let root = matches!(owner, Ok(ref o) if o.len == 1);
            if !root {
                if s.problem == Problem::None {
                    s.problem = Problem::OptOwnerNotRoot;
                }
                return s;
            }
            if (ttl >> 16) & 0xff != 0 && s.problem == Problem::None {
                s.badvers_first = true;
            }
        } else if rtype == T_TSIG {
            if !in_additional {
                if s.problem == Problem::None {
                    s.problem = Problem::TsigOutsideAdditional;
                }
                return s;
            }
            if i + 1 != total {
                if s.problem == Problem::None {
                    s.problem = Problem::TsigNotLast;
                }
                return s;
            }
            let owner_ok = ref_name(&req[..n], pos).is_ok();
            if !owner_ok || !ref_tsig_rdata_ok(req, rd_at, rdlen) {
                if s.problem == Problem::None {
                    s.problem = Problem::TsigMalformed;
                }
                return s;
            }
            if class != 255 || ttl != 0 {
                if s.problem == Problem::None {
                    s.problem = Problem::TsigBadClassOrTtl;
                }
                return s;
            }
            if s.problem == Problem::None && !s.badvers_first {
                s.tsig_reached = true;
            }
        }
        pos = rd_at + rdlen;
        i += 1;
    }
    if pos != n && s.problem == Problem::None {
        s.problem = Problem::TrailingOctets;
    }
    if s.opcode == 0 && s.qd == 0 && s.problem == Problem::None {
        s.problem = Problem::QueryWithoutQuestion;
    }
    s
}
