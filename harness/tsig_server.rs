// @host src/server/mod.rs
// @transform hashmap_model
//
// C10 at function level: the three TSIG helpers of the server
// (find_tsig_algorithm_or_write_error, find_tsig_key_or_write_error,
// verify_tsig_and_write_tsig_rr) driven with a ReadTsigRr obtained from the
// real ReadTsigRr::try_from, a Writer over a 512-octet buffer prepared the way
// Server::handle_message prepares it, then Writer::finish_with_mac and the
// independent decoder of kani_common on the finished response.
//
// Stubs (each is part of every claim below):
//   S1   std HashMap -> association list (overlay transform), for TsigKeyMap.
//   S5   Algorithm::make_authenticator -> RecordingMac (see tsig_mac.rs): HMAC
//        is abstracted by a deterministic fold of key and octet stream; what
//        is decided is which octets are fed, and what is done with the verdict.
//   S5a  Algorithm::name -> static name views with the same content (proved
//        equal to the real lazy_static names by c11_name_views_wellformed).
//   S5b  Algorithm::from_name -> `from_name_model`: octet-wise, ASCII
//        case-insensitive comparison with "hmac-sha1." / "hmac-sha256.".  The
//        real function is a lookup in a lazy_static HashMap keyed by heap
//        names; comparing two heap names is out of CBMC's reach here (measured:
//        Name == Name on two parsed names did not finish symbolic execution in
//        15 min).  c10_from_name_real decides the real function on concrete
//        names with no stub.
//   S8   name::new_boxed_name (the one allocation routine behind every
//        Box<Name>) -> same allocation, initialised octet by octet instead of
//        with ptr::copy_nonoverlapping, so that CBMC keeps the (concrete)
//        lengths and label offsets of names.  The real routine is C14's
//        subject.
//   S9   TimeSigned::to_unix_time -> `to_unix_time_model` (shift/or of the six
//        octets).  The real function assembles the u64 with copy_from_slice,
//        through which CBMC loses constants, so that check_time on CONCRETE
//        times would fork into both outcomes.  c10_to_unix_time_model decides,
//        without any stub, that model and real function agree on all 2^48
//        values.
//   The recording of S5 lives in a private module of message::tsig; the
//   harness reads it through `rec_fetch`/`rec_reset`, whose bodies are
//   provided by #[kani::stub] (the only way across the module boundary).
//
// What is decided, and what is not (measured limits):
//   * complete exchanges (helper(s) -> Writer::finish_with_mac -> independent
//     decoder) for every outcome with an UNSIGNED response: unknown algorithm,
//     no such key (empty key map), MAC rejected (BADSIG), MAC size not allowed
//     (FORMERR);
//   * for the outcomes with a SIGNED response (authenticated; BADTIME) only
//     the helper itself: return value, RCODE, which MAC was submitted for
//     verification over which octets.  Running finish_with_mac on top did not
//     finish in 57 min: CBMC loses the constants of the TsigMode / PreparedTsigRr
//     handed to set_tsig and then explores all four signing modes with both
//     algorithms.  The signed response is covered piecewise instead:
//     c11_new_from_read (fields of the response TSIG, BADTIME time swap),
//     c11_sign_response_* (MAC input, MAC and RDATA of a signed response),
//     writer family (RR placement).  That verify_tsig_and_write_tsig_rr hands
//     exactly (request MAC, algorithm, key) to TsigMode::Response is read off
//     the code, not decided.
//   * key lookup in a NON-EMPTY key map and the real Algorithm::from_name are
//     not decided (harnesses kept below, not registered).
//
// Native replay (`cargo kani playback`) does not apply #[kani::stub]: a
// counterexample of these harnesses will in general not reproduce natively.

use super::*;
use crate::class::Class;
use crate::kani_common::*;
use crate::message::{Qclass, Qtype};
use crate::rr::{Rdata, Ttl};

// --------------------------------------------------------------------------
// bridge to the recording of stub S5 (bodies supplied by #[kani::stub])
// --------------------------------------------------------------------------

const REC_CAP: usize = 128;
const MAC_MAX: usize = 32;
const KEY_LEN: usize = 2;
const ROWS: usize = 7;

fn rec_fetch(_out: &mut [u8; REC_CAP]) -> (usize, usize, bool) {
    panic!("rec_fetch must be stubbed")
}

fn rec_reset() {
    panic!("rec_reset must be stubbed")
}

/// Guard against native replay (see tsig_mac.rs::stubs_in_force): replaced by
/// a function returning true in the attribute list of every harness here, so
/// that `cargo kani playback` (no stubs) returns at once instead of failing in
/// the bridge functions - a counterexample of these harnesses cannot be
/// confirmed natively and must count as "not reproduced".
fn stubs_in_force() -> bool {
    false
}

/// 1: the MAC model reports "match", 2: "mismatch" (0 would compare)
fn rec_force(_v: u8) {
    panic!("rec_force must be stubbed")
}

const TAG_CAP: usize = 34;

/// the tag most recently submitted for verification (usize::MAX: none)
fn rec_tag(_out: &mut [u8; TAG_CAP]) -> usize {
    panic!("rec_tag must be stubbed")
}

/// Harness copy of the MAC model of stub S5 (tsig_mac.rs::model_mac); a
/// mismatch between the two can only make a harness fail.
fn model_mac(key: &[u8; KEY_LEN], stream: &[u8; REC_CAP], n: usize, out: usize) -> [u8; MAC_MAX] {
    let mut m = [0u8; MAC_MAX];
    let mut j = 0;
    while j < out {
        let mut v = key[j % KEY_LEN];
        let mut r = 0;
        while r < ROWS {
            let i = j + r * out;
            if i < n && i < REC_CAP {
                v ^= stream[i].rotate_left(r as u32);
            }
            r += 1;
        }
        m[j] = v;
        j += 1;
    }
    m[out - 1] ^= n as u8;
    m
}

// --------------------------------------------------------------------------
// Stub S8: name::new_boxed_name
// --------------------------------------------------------------------------

unsafe fn new_boxed_name_model(wire_len: usize, label_offsets: &[u8], slices: &[&[u8]]) -> Box<Name> {
    let n_labels = label_offsets.len();
    let size = 1 + n_labels + wire_len;
    let layout = std::alloc::Layout::from_size_align_unchecked(size, 1);
    let allocation = std::alloc::alloc(layout);
    *allocation = n_labels as u8;
    // wire form, octet by octet
    let mut index = 1 + n_labels;
    let mut s = 0;
    while s < slices.len() {
        let sl = slices[s];
        let mut j = 0;
        while j < sl.len() {
            *allocation.add(index) = sl[j];
            index += 1;
            j += 1;
        }
        s += 1;
    }
    // label offsets: recomputed from the wire form just written (callers
    // carry them through an ArrayVec<u8, 128>, where CBMC loses constants)
    // and required to equal the ones passed in
    let mut off = 0usize;
    let mut i = 0;
    while i < n_labels {
        assert!(label_offsets[i] as usize == off, "new_boxed_name: label offsets describe the wire form");
        *allocation.add(1 + i) = off as u8;
        off += 1 + *allocation.add(1 + n_labels + off) as usize;
        i += 1;
    }
    Box::from_raw(core::ptr::slice_from_raw_parts_mut(allocation, n_labels + wire_len) as *mut Name)
}

// --------------------------------------------------------------------------
// Stub S9: TimeSigned::to_unix_time
// --------------------------------------------------------------------------

fn to_unix_time_model(t: TimeSigned) -> u64 {
    let a = t.as_array();
    ((a[0] as u64) << 40) | ((a[1] as u64) << 32) | ((a[2] as u64) << 24) | ((a[3] as u64) << 16) | ((a[4] as u64) << 8) | a[5] as u64
}

// @harness props=C10 tier=quick mem=2 t=300
//   fn="TimeSigned::to_unix_time" bound="all 2^48 time values; justifies stub S9" sym="t:[u8;6]"
#[kani::proof]
#[kani::unwind(10)]
fn c10_to_unix_time_model() {
    let t: [u8; 6] = kani::any();
    let ts = TimeSigned::from(t);
    assert!(ts.to_unix_time() == to_unix_time_model(ts), "[C10] stub S9 equals TimeSigned::to_unix_time on every value");
    kani::cover!(ts.to_unix_time() == 0xffff_ffff_ffff, "largest time");
}

// --------------------------------------------------------------------------
// Stub S5b: Algorithm::from_name
// --------------------------------------------------------------------------

const SHA1_WIRE: [u8; 11] = [9, b'h', b'm', b'a', b'c', b'-', b's', b'h', b'a', b'1', 0];
const SHA256_WIRE: [u8; 13] = [11, b'h', b'm', b'a', b'c', b'-', b's', b'h', b'a', b'2', b'5', b'6', 0];
const UNKNOWN_WIRE: [u8; 11] = [9, b'h', b'm', b'a', b'c', b'-', b's', b'h', b'a', b'7', 0];
const KEY_NAME_WIRE: [u8; 3] = [1, b'k', 0];

fn same_caseless(a: &[u8], b: &[u8]) -> bool {
    if a.len() != b.len() {
        return false;
    }
    let mut i = 0;
    let mut same = true;
    while i < b.len() {
        if lower(a[i]) != lower(b[i]) {
            same = false;
        }
        i += 1;
    }
    same
}

fn from_name_model(name: &Name) -> Option<Algorithm> {
    let w = name.wire_repr();
    if same_caseless(w, &SHA1_WIRE) {
        Some(Algorithm::HmacSha1)
    } else if same_caseless(w, &SHA256_WIRE) {
        Some(Algorithm::HmacSha256)
    } else {
        None
    }
}

// --------------------------------------------------------------------------
// The harness's own RFC 8945 section 4.3 digest stream
// --------------------------------------------------------------------------

struct Stream {
    s: [u8; REC_CAP],
    n: usize,
}

impl Stream {
    fn new() -> Self {
        Stream { s: [0; REC_CAP], n: 0 }
    }
    fn b(&mut self, v: u8) {
        self.s[self.n] = v;
        self.n += 1;
    }
    fn u16(&mut self, v: u16) {
        self.b((v >> 8) as u8);
        self.b(v as u8);
    }
    fn all(&mut self, d: &[u8]) {
        let mut i = 0;
        while i < d.len() {
            self.b(d[i]);
            i += 1;
        }
    }
    fn prior_mac(&mut self, mac: &[u8]) {
        self.u16(mac.len() as u16);
        self.all(mac);
    }
    /// message up to the TSIG RR, with the original ID and ARCOUNT - 1
    fn message(&mut self, msg: &[u8], len: usize, original_id: u16) {
        self.u16(original_id);
        let mut i = 2;
        while i < 10 {
            self.b(msg[i]);
            i += 1;
        }
        self.u16(be16(msg, 10).wrapping_sub(1));
        let mut i = 12;
        while i < len {
            self.b(msg[i]);
            i += 1;
        }
    }
    fn variables(&mut self, key_name: &[u8], alg_name: &[u8], time: &[u8; 6], fudge: u16, error: u16, other: &[u8]) {
        self.all(key_name);
        self.u16(255);
        self.u16(0);
        self.u16(0);
        self.all(alg_name);
        self.all(time);
        self.u16(fudge);
        self.u16(error);
        self.u16(other.len() as u16);
        self.all(other);
    }
}

fn same_chunk(got: &[u8; REC_CAP], e: &Stream, from: usize) {
    let mut i = from;
    while i < from + 16 {
        if i < e.n {
            assert!(got[i] == e.s[i], "[C10] MAC input equals the RFC 8945 4.3 digest stream octet for octet");
        }
        i += 1;
    }
}

/// What the MAC model recorded is exactly `e`, in one MAC computation.
fn recorded_is(e: &Stream) {
    let mut got = [0u8; REC_CAP];
    let (n, made, ovf) = rec_fetch(&mut got);
    assert!(!ovf, "[C10] recording overflow (harness capacity)");
    assert!(made == 1, "[C10] exactly one MAC computation");
    assert!(n == e.n, "[C10] MAC input has the length of the RFC 8945 4.3 digest stream");
    let mut c = 0;
    while c < 8 {
        same_chunk(&got, e, c * 16);
        c += 1;
    }
}

// --------------------------------------------------------------------------
// one TSIG exchange at function level
// --------------------------------------------------------------------------

#[derive(Clone, Copy, PartialEq, Eq)]
enum AlgSel {
    Sha1,
    Sha256,
    Unknown,
}

#[derive(Clone, Copy, PartialEq, Eq)]
enum KeySel {
    /// the key map has key "k." for the request's algorithm
    Match,
    /// the key map has key "k." but for the other algorithm
    OtherAlg,
    /// the key map has no key of that name (it has "j.")
    Absent,
}

/// Relation between the server's clock and the request's time signed.
#[derive(Clone, Copy, PartialEq, Eq)]
enum Clock {
    /// `now` fully symbolic (only for shapes whose outcome does not depend on it)
    Any,
    /// concrete: time signed = T0, fudge = F0, now = T0 + offset (offset may be negative)
    At(i64),
}

const T0: u64 = 0x0000_6523_1200; // some time in 2023
const F0: u16 = 300;

const RC_NOERROR: u16 = 0;
const RC_FORMERR: u16 = 1;
const RC_NOTAUTH: u16 = 9;
const TE_BADSIG: u16 = 16;
const TE_BADKEY: u16 = 17;
const TE_BADTIME: u16 = 18;

fn t48(v: u64) -> [u8; 6] {
    [(v >> 40) as u8, (v >> 32) as u8, (v >> 24) as u8, (v >> 16) as u8, (v >> 8) as u8, v as u8]
}

fn u48(t: &[u8; 6]) -> u64 {
    ((t[0] as u64) << 40) | ((t[1] as u64) << 32) | ((t[2] as u64) << 24) | ((t[3] as u64) << 16) | ((t[4] as u64) << 8) | t[5] as u64
}

fn ref_size_ok(out: usize, mac_len: usize) -> bool {
    let half = out / 2 + out % 2;
    let min = if half > 10 { half } else { 10 };
    mac_len <= out && mac_len >= min
}

fn alg_wire(a: AlgSel) -> &'static [u8] {
    match a {
        AlgSel::Sha1 => &SHA1_WIRE,
        AlgSel::Sha256 => &SHA256_WIRE,
        AlgSel::Unknown => &UNKNOWN_WIRE,
    }
}

/// TSIG RDATA of exactly N octets (no other data).
fn fill_rdata<const N: usize>(rd: &mut [u8; N], aw: &[u8], upcase: bool, time: &[u8; 6], fudge: u16, mac: &[u8], oid: u16, error: u16) {
    let mut c = 0;
    let mut i = 0;
    while i < aw.len() {
        let b = aw[i];
        rd[c] = if upcase && b >= b'a' && b <= b'z' { b - 32 } else { b };
        c += 1;
        i += 1;
    }
    let mut i = 0;
    while i < 6 {
        rd[c] = time[i];
        c += 1;
        i += 1;
    }
    rd[c] = (fudge >> 8) as u8;
    rd[c + 1] = fudge as u8;
    rd[c + 2] = (mac.len() >> 8) as u8;
    rd[c + 3] = mac.len() as u8;
    c += 4;
    let mut i = 0;
    while i < mac.len() {
        rd[c] = mac[i];
        c += 1;
        i += 1;
    }
    rd[c] = (oid >> 8) as u8;
    rd[c + 1] = oid as u8;
    rd[c + 2] = (error >> 8) as u8;
    rd[c + 3] = error as u8;
    rd[c + 4] = 0;
    rd[c + 5] = 0;
    c += 6;
    assert!(c == N, "harness: RDATA length constant is wrong");
}

/// What the harness expects of the response.
#[derive(Clone, Copy)]
struct Expect {
    rcode: u16,
    tsig_error: u16,
    signed: bool,
}

/// Checks the finished response (the caller runs Writer::finish_with_mac in
/// place: handing the Writer over by value costs CBMC its constants) with
/// the independent decoder:
/// question echoed, no answer/authority data, exactly one TSIG RR (last),
/// its fields, and (for signed responses) its MAC and the MAC input.
fn check_response(
    n: usize,
    ret_mac: Option<Box<[u8]>>,
    buf: &[u8; 512],
    x: Expect,
    aw: &[u8],
    out: usize,
    key: &[u8; 2],
    req_mac: &[u8],
    oid: u16,
    time: &[u8; 6],
    now: &[u8; 6],
) {
    assert!(n >= 12 && n <= 160, "[C10] response length");
    let d = ref_decode_lim(buf, n, [1, 0, 0, 1], 4);
    assert!(d.wellformed && d.pointers_ok, "[C10] the response decodes completely");
    assert!(
        d.counts[0] == 1 && d.counts[1] == 0 && d.counts[2] == 0 && d.counts[3] == 1,
        "[C10] question echoed, no answer/authority records, exactly the TSIG RR in the additional section"
    );
    assert!(d.n_recs == 1 && d.n_tsig == 1 && d.tsig_placement_ok, "[C10] the TSIG RR is the last record");
    let rcode = d.flags & 0xf;
    assert!(rcode == x.rcode, "[C10] RCODE: NOERROR when authenticated, NOTAUTH for bad key/signature/time, FORMERR for an unacceptable MAC size");
    let rec = d.recs[0];
    assert!(rec.owner_at == 17, "[C10] the TSIG RR follows the echoed question");
    assert!(rec.rtype == T_TSIG && rec.class == 255 && rec.ttl == 0, "[C10] TSIG RR has class ANY and TTL 0");
    assert!(
        rec.rd_at == 17 + 3 + 10 && buf[17] == 1 && buf[18] == b'k' && buf[19] == 0,
        "[C10] the response TSIG RR is owned by the request's key name"
    );
    let r0 = 30;
    assert!(ref_tsig_rdata_ok(buf, r0, rec.rdlen), "[C10] response TSIG RDATA has the RFC 8945 4.2 layout");
    let al = aw.len();
    let mut i = 0;
    while i < al {
        assert!(buf[r0 + i] == aw[i], "[C10] response TSIG carries the request's algorithm name");
        i += 1;
    }
    let x_maclen = if x.signed { out } else { 0 };
    let x_other = if x.tsig_error == TE_BADTIME { 6 } else { 0 };
    assert!(rec.rdlen == al + 16 + x_maclen + x_other, "[C10] response TSIG RDATA length");
    // time signed: the server's time, except for BADTIME where it is the request's (RFC 8945 5.2.3)
    let x_time: &[u8; 6] = if x.tsig_error == TE_BADTIME { time } else { now };
    let mut i = 0;
    while i < 6 {
        assert!(buf[r0 + al + i] == x_time[i], "[C10] response time signed");
        i += 1;
    }
    assert!(be16(buf, r0 + al + 6) == 300, "[C10] response fudge is 300 s");
    assert!(
        be16(buf, r0 + al + 8) as usize == x_maclen,
        "[C10] response MAC present exactly for NOERROR and BADTIME; empty for BADKEY, BADSIG and FORMERR"
    );
    let p = r0 + al + 10 + x_maclen;
    assert!(be16(buf, p) == oid, "[C10] response original ID is the request's");
    if x.rcode != RC_FORMERR {
        assert!(be16(buf, p + 2) == x.tsig_error, "[C10] TSIG error: 0, BADSIG(16), BADKEY(17) or BADTIME(18)");
    }
    assert!(be16(buf, p + 4) as usize == x_other, "[C10] other data only for BADTIME");
    if x.tsig_error == TE_BADTIME {
        let mut i = 0;
        while i < 6 {
            assert!(buf[p + 6 + i] == now[i], "[C10] BADTIME other data is the server's time");
            i += 1;
        }
    }
    assert!(ret_mac.is_some() == x.signed, "[C10] finish_with_mac returns a MAC exactly for signed responses");
    if x.signed {
        let mut e = Stream::new();
        e.prior_mac(req_mac);
        e.message(buf, 17, oid);
        let other: &[u8] = if x.tsig_error == TE_BADTIME { now } else { &[] };
        e.variables(&KEY_NAME_WIRE, aw, x_time, 300, x.tsig_error, other);
        recorded_is(&e);
        let mm = model_mac(key, &e.s, e.n, out);
        let rm = ret_mac.as_ref().unwrap();
        assert!(rm.len() == out, "[C10] returned MAC length");
        let mut i = 0;
        while i < out {
            assert!(buf[r0 + al + 10 + i] == mm[i], "[C10] response MAC = MAC(request MAC || response || TSIG variables) under the request's key");
            assert!(rm[i] == mm[i], "[C10] returned MAC equals the one in the RR");
            i += 1;
        }
    } else {
        let mut got = [0u8; REC_CAP];
        let (_, made, _) = rec_fetch(&mut got);
        assert!(made == 0, "[C10] no MAC is computed for an unsigned response");
    }
    core::mem::forget(ret_mac);
}

/// The response under construction, as Server::handle_message sets it up
/// for a 17-octet query with root QNAME (a macro: the Writer must be built
/// where it is used, see check_response).
macro_rules! start_response {
    ($response:ident, $buf:ident, $msg:ident) => {
        let mut $response = Writer::new(&mut $buf, 512).unwrap();
        $response.set_id(be16(&$msg, 0));
        $response.set_qr(true);
        {
            let question = Question {
                qname: Name::root().to_owned(),
                qtype: Qtype::from(be16(&$msg, 13)),
                qclass: Qclass::from(be16(&$msg, 15)),
            };
            $response.add_question(&question).unwrap();
            core::mem::forget(question);
        }
    };
}

/// The ReadTsigRr of the request, through the real ReadTsigRr::try_from (a
/// macro for the same reason as start_response).
macro_rules! read_tsig {
    ($tsig_rr:ident, $rd:ident, $upcase:ident) => {
        let owner_wire: [u8; 3] = [1, if $upcase { b'K' } else { b'k' }, 0];
        let rr = ReadRr {
            owner: Name::try_from_uncompressed_all(&owner_wire).unwrap(),
            rr_type: Type::TSIG,
            class: Qclass::ANY.into(),
            ttl: Ttl::from(0),
            rdata: Cow::Borrowed((&$rd[..]).try_into().unwrap()),
        };
        let $tsig_rr = match ReadTsigRr::try_from(rr) {
            Ok(t) => t,
            Err(_) => {
                assert!(false, "[C10] a well-formed TSIG RR is rejected");
                return;
            }
        };
    };
}

/// Steps 1 and 2: algorithm and key lookup (no MAC is involved; the request
/// MAC is 10 symbolic octets).  N = RDATA length = algorithm name + 26.
fn lookup_case<const N: usize>(alg: AlgSel, keysel: KeySel, upcase: bool) {
    let h: [u8; 4] = kani::any();
    let q: [u8; 4] = kani::any();
    let msg: [u8; 17] = [h[0], h[1], h[2], h[3], 0, 1, 0, 0, 0, 0, 0, 1, 0, q[0], q[1], q[2], q[3]];
    let key: [u8; 2] = kani::any();
    let mac: [u8; 10] = kani::any();
    let oid: u16 = kani::any();
    let req_error: u16 = kani::any();
    let time: [u8; 6] = kani::any();
    let fudge: u16 = kani::any();
    let now: [u8; 6] = kani::any();
    // all symbolic values are drawn; see stubs_in_force
    if !stubs_in_force() {
        return;
    }
    let aw = alg_wire(alg);
    let mut rd = [0u8; N];
    fill_rdata::<N>(&mut rd, aw, upcase, &time, fudge, &mac, oid, req_error);
    read_tsig!(tsig_rr, rd, upcase);

    let mut keys = TsigKeyMap::new();
    let other_alg = if alg == AlgSel::Sha1 { Algorithm::HmacSha256 } else { Algorithm::HmacSha1 };
    let this_alg = if alg == AlgSel::Sha1 { Algorithm::HmacSha1 } else { Algorithm::HmacSha256 };
    let kbox: Box<[u8]> = Box::new([key[0], key[1]]);
    match keysel {
        KeySel::Match => {
            keys.insert(Name::try_from_uncompressed_all(&KEY_NAME_WIRE).unwrap(), (this_alg, kbox));
        }
        KeySel::OtherAlg => {
            keys.insert(Name::try_from_uncompressed_all(&KEY_NAME_WIRE).unwrap(), (other_alg, kbox));
        }
        KeySel::Absent => {
            // no key at all
            core::mem::forget(kbox);
        }
    }

    let mut buf = [0u8; 512];
    start_response!(response, buf, msg);
    rec_reset();
    let now_ts = TimeSigned::from(now);
    let found_alg = find_tsig_algorithm_or_write_error(&tsig_rr, now_ts, &mut response);
    let alg_known = alg != AlgSel::Unknown;
    assert!(found_alg.is_some() == alg_known, "[C10] exactly hmac-sha1 and hmac-sha256 are known algorithms");
    let mut found_key = false;
    if let Some(a) = found_alg {
        assert!(a == this_alg, "[C10] the algorithm found is the one named in the TSIG RR");
        if let Some(k) = find_tsig_key_or_write_error(&tsig_rr, a, &keys, now_ts, &mut response) {
            found_key = true;
            assert!(k.len() == 2 && k[0] == key[0] && k[1] == key[1], "[C10] the key found is the configured secret");
        }
    }
    assert!(found_key == (alg_known && keysel == KeySel::Match), "[C10] a key is found exactly when it is configured under that name for that algorithm");
    if !found_key {
        let x = Expect {
            rcode: RC_NOTAUTH,
            tsig_error: TE_BADKEY,
            signed: false,
        };
        rec_reset();
        let (n, ret_mac) = response.finish_with_mac();
        check_response(n, ret_mac, &buf, x, aw, 32, &key, &mac, oid, &time, &now);
    } else {
        // nothing has been decided yet: no TSIG RR, RCODE untouched
        let n = response.finish();
        assert!(n == 17 && buf[3] & 0xf == 0 && be16(&buf, 10) == 0, "[C10] a successful lookup leaves the response untouched");
    }
    kani::cover!(true, "lookup decided");
    core::mem::forget(tsig_rr);
    core::mem::forget(keys);
}

/// Step 3: verify_tsig_and_write_tsig_rr with the algorithm and key that the
/// lookups hand over.  L = request MAC length, N = request RDATA length
/// (algorithm name + 16 + L).  `accept`: what the MAC model answers when asked
/// to verify (S5, forced).
/// `finish` = false: stop after the helper (return value, RCODE, the MAC check
/// made on the request); used for the outcomes with a SIGNED response, where
/// running Writer::finish_with_mac on top did not finish (see the file header).
fn verify_case<const L: usize, const N: usize>(alg: AlgSel, accept: bool, clock: Clock, upcase: bool, finish: bool) {
    let h: [u8; 4] = kani::any();
    let q: [u8; 4] = kani::any();
    let msg: [u8; 17] = [h[0], h[1], h[2], h[3], 0, 1, 0, 0, 0, 0, 0, 1, 0, q[0], q[1], q[2], q[3]];
    let key: [u8; 2] = kani::any();
    let mac: [u8; L] = kani::any();
    let oid: u16 = kani::any();
    let req_error: u16 = kani::any();
    let (time, fudge, now): ([u8; 6], u16, [u8; 6]) = match clock {
        Clock::Any => (kani::any(), kani::any(), kani::any()),
        Clock::At(off) => (t48(T0), F0, t48((T0 as i64 + off) as u64)),
    };
    // all symbolic values are drawn; see stubs_in_force
    if !stubs_in_force() {
        return;
    }
    let aw = alg_wire(alg);
    let mut rd = [0u8; N];
    fill_rdata::<N>(&mut rd, aw, upcase, &time, fudge, &mac, oid, req_error);
    read_tsig!(tsig_rr, rd, upcase);
    let this_alg = if alg == AlgSel::Sha1 { Algorithm::HmacSha1 } else { Algorithm::HmacSha256 };
    let out = if alg == AlgSel::Sha1 { 20 } else { 32 };

    let mut buf = [0u8; 512];
    start_response!(response, buf, msg);
    rec_reset();
    rec_force(if accept { 1 } else { 2 });
    let verified = verify_tsig_and_write_tsig_rr(&tsig_rr, &msg, this_alg, &key, TimeSigned::from(now), &mut response);

    // ---- oracle
    let size_ok = ref_size_ok(out, L);
    let time_ok = {
        let a = u48(&time);
        let b = u48(&now);
        let d = if a > b { a - b } else { b - a };
        d <= fudge as u64
    };
    let x = if !size_ok {
        Expect { rcode: RC_FORMERR, tsig_error: TE_BADSIG, signed: false }
    } else if !accept {
        Expect { rcode: RC_NOTAUTH, tsig_error: TE_BADSIG, signed: false }
    } else if !time_ok {
        Expect { rcode: RC_NOTAUTH, tsig_error: TE_BADTIME, signed: true }
    } else {
        Expect { rcode: RC_NOERROR, tsig_error: 0, signed: true }
    };
    assert!(verified == (x.rcode == RC_NOERROR), "[C10] the request counts as authenticated exactly when MAC size, MAC and time are all good");

    // ---- the MAC check that was made on the request
    if size_ok {
        let mut tag = [0u8; TAG_CAP];
        let tl = rec_tag(&mut tag);
        assert!(tl == L, "[C10] the request MAC submitted for verification has the length given in the TSIG RR");
        let mut i = 0;
        while i < L && i < TAG_CAP {
            assert!(tag[i] == mac[i], "[C10] the MAC submitted for verification is the request's MAC");
            i += 1;
        }
        let mut e = Stream::new();
        e.message(&msg, 17, oid);
        e.variables(&KEY_NAME_WIRE, aw, &time, fudge, req_error, &[]);
        recorded_is(&e);
    } else {
        let mut got = [0u8; REC_CAP];
        let (_, made, _) = rec_fetch(&mut got);
        assert!(made == 0, "[C10] no MAC is computed for an unacceptable MAC size");
    }
    assert!(u8::from(response.rcode()) as u16 == x.rcode, "[C10] RCODE set by verify_tsig_and_write_tsig_rr");
    if finish {
        rec_reset();
        let (n, ret_mac) = response.finish_with_mac();
        check_response(n, ret_mac, &buf, x, aw, out, &key, &mac, oid, &time, &now);
    }
    kani::cover!(true, "exchange completed");
    core::mem::forget(tsig_rr);
}

macro_rules! c10_stubs {
    ($name:ident, $unwind:literal, $body:expr) => {
        #[kani::proof]
        #[kani::unwind($unwind)]
        #[kani::stub(crate::message::tsig::Algorithm::make_authenticator, crate::message::tsig::kani_tsig_mac::recording_authenticator)]
        #[kani::stub(crate::message::tsig::Algorithm::name, crate::message::tsig::kani_tsig_mac::alg_name_static)]
        #[kani::stub(crate::message::tsig::Algorithm::from_name, from_name_model)]
        #[kani::stub(crate::name::new_boxed_name, new_boxed_name_model)]
        #[kani::stub(crate::rr::rdata::TimeSigned::to_unix_time, to_unix_time_model)]
        #[kani::stub(stubs_in_force, crate::message::tsig::kani_tsig_mac::stubs_are_in_force)]
        #[kani::stub(rec_fetch, crate::message::tsig::kani_tsig_mac::rec_fetch_impl)]
        #[kani::stub(rec_reset, crate::message::tsig::kani_tsig_mac::rec_reset_impl)]
        #[kani::stub(rec_force, crate::message::tsig::kani_tsig_mac::rec_force_impl)]
        #[kani::stub(rec_tag, crate::message::tsig::kani_tsig_mac::rec_tag_impl)]
        fn $name() {
            $body
        }
    };
}

// RDATA length N = algorithm name (13 hmac-sha256., 11 hmac-sha1., 11 hmac-sha7.) + 16 + L

// ---- step 3: verification and the response TSIG

// @harness name=c10_verify_ok_sha256_l32 props=C10 tier=quick mem=6 t=1200 stubs="S5,S5a,S8,S9" kani="--no-assertion-reach-checks"
//   fn="verify_tsig_and_write_tsig_rr,ReadTsigRr::try_from,ReadTsigRr::verify_request,verification_core,check_mac_size,check_time,PreparedTsigRr::new_from_read,Writer::set_tsig,Writer::finish_with_mac,PreparedTsigRr::sign_response"
//   bound="17-octet query (symbolic ID, flags, QTYPE, QCLASS) + TSIG RR: key 'k.', hmac-sha256, 32 symbolic MAC octets, symbolic original ID and error field; 2 symbolic key octets; MAC model answers 'match'; time signed T0, fudge 300, now = T0 + 300 (edge of the window); 512-octet response buffer; decided up to the return of the helper (RCODE NOERROR, request MAC and digest checked), NOT through finish_with_mac; unwind 34"
//   sym="id, flags, qtype, qclass, key:[u8;2], mac:[u8;32], original_id, error"
c10_stubs!(c10_verify_ok_sha256_l32, 34, verify_case::<32, 61>(AlgSel::Sha256, true, Clock::At(300), false, false));

// @harness name=c10_verify_ok_sha1_l10_early_upcase props=C10 tier=quick mem=6 t=1200 stubs="S5,S5a,S8,S9" kani="--no-assertion-reach-checks"
//   fn="verify_tsig_and_write_tsig_rr,ReadTsigRr::try_from,verification_core,check_mac_size,check_time,Writer::finish_with_mac,PreparedTsigRr::sign_response"
//   bound="as c10_verify_ok_sha256_l32 with hmac-sha1, a MAC truncated to 10 octets (the minimum), owner 'K.' and algorithm 'HMAC-SHA1.' in upper case, now = T0 - 300 (early edge); up to the return of the helper; unwind 22"
//   sym="id, flags, qtype, qclass, key:[u8;2], mac:[u8;10], original_id, error"
c10_stubs!(c10_verify_ok_sha1_l10_early_upcase, 22, verify_case::<10, 37>(AlgSel::Sha1, true, Clock::At(-300), true, false));

// @harness name=c10_verify_badtime_sha1_l20_late props=C10 tier=quick mem=6 t=1200 stubs="S5,S5a,S8,S9" kani="--no-assertion-reach-checks"
//   fn="verify_tsig_and_write_tsig_rr,check_time,PreparedTsigRr::new_from_read,PreparedTsigRr::other,Writer::finish_with_mac,PreparedTsigRr::sign_response"
//   bound="hmac-sha1, full 20-octet MAC that the MAC model accepts, now = T0 + 301 (one second past the window): NOTAUTH and not authenticated; decided up to the return of the helper, NOT through finish_with_mac; unwind 22"
//   sym="id, flags, qtype, qclass, key:[u8;2], mac:[u8;20], original_id, error"
c10_stubs!(c10_verify_badtime_sha1_l20_late, 22, verify_case::<20, 47>(AlgSel::Sha1, true, Clock::At(301), false, false));

// @harness name=c10_verify_badtime_sha256_l16_early props=C10 tier=thorough mem=6 t=1200 stubs="S5,S5a,S8,S9" kani="--no-assertion-reach-checks"
//   fn="verify_tsig_and_write_tsig_rr,check_time,PreparedTsigRr::new_from_read,Writer::finish_with_mac"
//   bound="hmac-sha256, MAC truncated to 16, accepted by the MAC model, now = T0 - 301: NOTAUTH, not authenticated; up to the return of the helper; unwind 34"
//   sym="id, flags, qtype, qclass, key:[u8;2], mac:[u8;16], original_id, error"
c10_stubs!(c10_verify_badtime_sha256_l16_early, 34, verify_case::<16, 45>(AlgSel::Sha256, true, Clock::At(-301), false, false));

// @harness name=c10_badsig_sha256_l32 props=C10 tier=quick mem=6 t=1200 stubs="S5,S5a,S8,S9" kani="--no-assertion-reach-checks"
//   fn="verify_tsig_and_write_tsig_rr,verification_core,Writer::set_tsig,Writer::finish_with_mac,PreparedTsigRr::unsigned"
//   bound="hmac-sha256, 32-octet MAC that the MAC model rejects; time signed, fudge and now fully symbolic: NOTAUTH/BADSIG, empty MAC, whatever the time; unwind 34"
//   sym="id, flags, qtype, qclass, key, mac:[u8;32], original_id, error, time:[u8;6], fudge:u16, now:[u8;6]"
c10_stubs!(c10_badsig_sha256_l32, 34, verify_case::<32, 61>(AlgSel::Sha256, false, Clock::Any, false, true));

// @harness name=c10_badsig_sha1_l20 props=C10 tier=thorough mem=6 t=1200 stubs="S5,S5a,S8,S9" kani="--no-assertion-reach-checks"
//   fn="verify_tsig_and_write_tsig_rr" bound="hmac-sha1, 20-octet MAC rejected by the MAC model; symbolic times; unwind 34"
//   sym="id, flags, qtype, qclass, key, mac:[u8;20], original_id, error, time, fudge, now"
c10_stubs!(c10_badsig_sha1_l20, 22, verify_case::<20, 47>(AlgSel::Sha1, false, Clock::Any, false, true));

// @harness name=c10_formerr_sha256_l0 props=C10 tier=quick mem=6 t=1200 stubs="S5,S5a,S8,S9" kani="--no-assertion-reach-checks"
//   fn="verify_tsig_and_write_tsig_rr,check_mac_size" bound="hmac-sha256 with an empty MAC: FORMERR, no answer data; symbolic times; unwind 34"
//   sym="id, flags, qtype, qclass, key, original_id, error, time, fudge, now"
c10_stubs!(c10_formerr_sha256_l0, 34, verify_case::<0, 29>(AlgSel::Sha256, true, Clock::Any, false, true));

// @harness name=c10_formerr_sha256_l33 props=C10 tier=quick mem=6 t=1200 stubs="S5,S5a,S8,S9" kani="--no-assertion-reach-checks"
//   fn="verify_tsig_and_write_tsig_rr,check_mac_size" bound="hmac-sha256 with a 33-octet MAC (longer than the output): FORMERR; symbolic times; unwind 35"
//   sym="id, flags, qtype, qclass, key, mac:[u8;33], original_id, error, time, fudge, now"
c10_stubs!(c10_formerr_sha256_l33, 35, verify_case::<33, 62>(AlgSel::Sha256, true, Clock::Any, false, true));

// @harness name=c10_formerr_sha256_l10 props=C10 tier=thorough mem=6 t=1200 stubs="S5,S5a,S8,S9" kani="--no-assertion-reach-checks"
//   fn="verify_tsig_and_write_tsig_rr,check_mac_size" bound="hmac-sha256 with a 10-octet MAC (acceptable for hmac-sha1 only): FORMERR; unwind 34"
//   sym="id, flags, qtype, qclass, key, mac:[u8;10], original_id, error, time, fudge, now"
c10_stubs!(c10_formerr_sha256_l10, 34, verify_case::<10, 39>(AlgSel::Sha256, true, Clock::Any, false, true));

// @harness name=c10_formerr_sha1_l21 props=C10 tier=thorough mem=6 t=1200 stubs="S5,S5a,S8,S9" kani="--no-assertion-reach-checks"
//   fn="verify_tsig_and_write_tsig_rr,check_mac_size" bound="hmac-sha1 with a 21-octet MAC: FORMERR; unwind 34"
//   sym="id, flags, qtype, qclass, key, mac:[u8;21], original_id, error, time, fudge, now"
c10_stubs!(c10_formerr_sha1_l21, 34, verify_case::<21, 48>(AlgSel::Sha1, true, Clock::Any, false, true));

// ---- steps 1 and 2: algorithm and key lookup

// @harness name=c10_lookup_unknown_alg props=C10 tier=quick mem=6 t=1200 stubs="S1,S5b,S8" kani="--no-assertion-reach-checks"
//   fn="find_tsig_algorithm_or_write_error,PreparedTsigRr::new_from_read,Writer::set_tsig,Writer::finish_with_mac,PreparedTsigRr::unsigned"
//   bound="algorithm name 'hmac-sha7.' (not defined), 10 MAC octets; symbolic times: NOTAUTH/BADKEY, empty MAC, the response TSIG repeats the unknown algorithm name; unwind 18"
//   sym="id, flags, qtype, qclass, key, mac:[u8;10], original_id, error, time, fudge, now"
c10_stubs!(c10_lookup_unknown_alg, 18, lookup_case::<37>(AlgSel::Unknown, KeySel::Match, false));

// @harness name=c10_lookup_no_key_sha256 props=C10 tier=quick mem=6 t=1200 stubs="S1,S5b,S8" kani="--no-assertion-reach-checks"
//   fn="find_tsig_algorithm_or_write_error,find_tsig_key_or_write_error,PreparedTsigRr::new_from_read,Writer::set_tsig,Writer::finish_with_mac"
//   bound="hmac-sha256, empty key map: NOTAUTH/BADKEY; symbolic times; unwind 18"
//   sym="id, flags, qtype, qclass, mac:[u8;10], original_id, error, time, fudge, now"
c10_stubs!(c10_lookup_no_key_sha256, 18, lookup_case::<39>(AlgSel::Sha256, KeySel::Absent, false));

// NOT REGISTERED (did not finish: 40 min timeout, one Name == Name against a key stored in the HashMap model's Vec):
// harness name=c10_lookup_other_alg_sha1 props=C10 tier=thorough mem=8 t=3400 stubs="S1,S5b,S8" kani="--no-assertion-reach-checks"
//   fn="find_tsig_algorithm_or_write_error,find_tsig_key_or_write_error,<Name as PartialEq>::eq"
//   bound="request names hmac-sha1 but key 'k.' is configured for hmac-sha256 (one-entry key map): NOTAUTH/BADKEY; symbolic times; unwind 18"
//   sym="id, flags, qtype, qclass, key, mac:[u8;10], original_id, error, time, fudge, now"
c10_stubs!(c10_lookup_other_alg_sha1, 17, lookup_case::<37>(AlgSel::Sha1, KeySel::OtherAlg, false));

// NOT REGISTERED (did not finish: 40 min timeout, one Name == Name against a key stored in the HashMap model's Vec):
// harness name=c10_lookup_match_sha1_upcase props=C10 tier=thorough mem=8 t=3400 stubs="S1,S5b,S8" kani="--no-assertion-reach-checks"
//   fn="find_tsig_algorithm_or_write_error,find_tsig_key_or_write_error,<Name as PartialEq>::eq"
//   bound="owner 'K.' and algorithm 'HMAC-SHA1.' in upper case, key map {k. -> (hmac-sha1, 2 symbolic octets)}: algorithm and key are found, the response is left untouched; unwind 18"
//   sym="id, flags, qtype, qclass, key, mac:[u8;10], original_id, error, time, fudge, now"
c10_stubs!(c10_lookup_match_sha1_upcase, 17, lookup_case::<37>(AlgSel::Sha1, KeySel::Match, true));

// --------------------------------------------------------------------------
// the real Algorithm::from_name (no S5b)
// --------------------------------------------------------------------------

fn from_name_case(wire: &[u8], expect: Option<Algorithm>) {
    let n = Name::try_from_uncompressed_all(wire).unwrap();
    let real = Algorithm::from_name(&n);
    assert!(real == expect, "[C10] Algorithm::from_name knows exactly hmac-sha1. and hmac-sha256. (in any case)");
    assert!(from_name_model(&n) == real, "[C10] the harness model of from_name (stub S5b) agrees with the real function");
}

// NOT REGISTERED (did not finish in 30 min with six names; never run to completion with three):
// harness props=C10 tier=thorough mem=8 t=3400 stubs="S1,S8" kani="--no-assertion-reach-checks"
//   fn="Algorithm::from_name,<Name as PartialEq>::eq,<Label as PartialEq>::eq"
//   bound="the real lookup (lazy_static names parsed from text, association-list HashMap model) on three concrete names: hmac-sha1., HMAC-SHA256. (upper case), hmac-sha7.; unwind 16"
//   sym="none (concrete names)"
#[kani::proof]
#[kani::unwind(16)]
#[kani::stub(crate::name::new_boxed_name, new_boxed_name_model)]
fn c10_from_name_real() {
    from_name_case(&SHA1_WIRE, Some(Algorithm::HmacSha1));
    let up: [u8; 13] = [11, b'H', b'M', b'A', b'C', b'-', b'S', b'H', b'A', b'2', b'5', b'6', 0];
    from_name_case(&up, Some(Algorithm::HmacSha256));
    from_name_case(&UNKNOWN_WIRE, None);
    kani::cover!(true, "from_name decided");
}
