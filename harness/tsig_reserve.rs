// @host src/server/mod.rs
//
// C01, defect D7: the three TSIG helpers of the server attach the response
// TSIG RR with `response.set_tsig(...).unwrap()`.  set_tsig fails with
// Truncation when the space to reserve (key name + algorithm name + 26, + MAC
// size for signed modes, + 6 for BADTIME) does not fit the response size
// limit; the unwrap then panics.  This is decided as a LENGTH question: the
// names have concrete contents ('x' labels) and concrete lengths taken from a
// small grid that includes the 255-octet maximum; the response buffer is the
// 512-octet UDP response that Server::handle_message uses without EDNS.
//
// This family deliberately has NO hashmap_model transform (it is selected
// together with server_small under C01); Algorithm::from_name, which would
// reach the lazy_static std HashMap, is replaced (S5b), and the key map is an
// empty std HashMap built without RandomState::new().
//
// Stubs: S5a (Algorithm::name -> static views), S5b (Algorithm::from_name ->
// octet comparison), S8 (name::new_boxed_name -> same allocation, initialised
// octet by octet).  None of them takes part in the length arithmetic that
// fails; native replay runs the real functions.

use super::*;
use crate::kani_common::*;
use crate::message::{Qclass, Qtype};
use crate::rr::Ttl;
use std::collections::hash_map::RandomState;

static SHA256_REPR: [u8; 16] = [2, 0, 12, 11, b'h', b'm', b'a', b'c', b'-', b's', b'h', b'a', b'2', b'5', b'6', 0];
static SHA1_REPR: [u8; 14] = [2, 0, 10, 9, b'h', b'm', b'a', b'c', b'-', b's', b'h', b'a', b'1', 0];
const SHA1_WIRE: [u8; 11] = [9, b'h', b'm', b'a', b'c', b'-', b's', b'h', b'a', b'1', 0];
const SHA256_WIRE: [u8; 13] = [11, b'h', b'm', b'a', b'c', b'-', b's', b'h', b'a', b'2', b'5', b'6', 0];

fn alg_name_static(alg: &Algorithm) -> &'static LowercaseName {
    let repr: &'static [u8] = match alg {
        Algorithm::HmacSha1 => &SHA1_REPR,
        Algorithm::HmacSha256 => &SHA256_REPR,
    };
    unsafe { &*(core::ptr::slice_from_raw_parts(repr.as_ptr(), repr.len() - 1) as *const LowercaseName) }
}

fn same_caseless(a: &[u8], b: &[u8]) -> bool {
    if a.len() != b.len() {
        return false;
    }
    let mut i = 0;
    let mut same = true;
    while i < b.len() {
        if lower(a[i]) != lower(b[i]) {
            same = false;
        }
        i += 1;
    }
    same
}

fn from_name_model(name: &Name) -> Option<Algorithm> {
    let w = name.wire_repr();
    if same_caseless(w, &SHA1_WIRE) {
        Some(Algorithm::HmacSha1)
    } else if same_caseless(w, &SHA256_WIRE) {
        Some(Algorithm::HmacSha256)
    } else {
        None
    }
}

unsafe fn new_boxed_name_model(wire_len: usize, label_offsets: &[u8], slices: &[&[u8]]) -> Box<Name> {
    let n_labels = label_offsets.len();
    let size = 1 + n_labels + wire_len;
    let layout = std::alloc::Layout::from_size_align_unchecked(size, 1);
    let allocation = std::alloc::alloc(layout);
    *allocation = n_labels as u8;
    // wire form, octet by octet
    let mut index = 1 + n_labels;
    let mut s = 0;
    while s < slices.len() {
        let sl = slices[s];
        let mut j = 0;
        while j < sl.len() {
            *allocation.add(index) = sl[j];
            index += 1;
            j += 1;
        }
        s += 1;
    }
    // label offsets: recomputed from the wire form just written (callers
    // carry them through an ArrayVec<u8, 128>, where CBMC loses constants)
    // and required to equal the ones passed in
    let mut off = 0usize;
    let mut i = 0;
    while i < n_labels {
        assert!(label_offsets[i] as usize == off, "new_boxed_name: label offsets describe the wire form");
        *allocation.add(1 + i) = off as u8;
        off += 1 + *allocation.add(1 + n_labels + off) as usize;
        i += 1;
    }
    Box::from_raw(core::ptr::slice_from_raw_parts_mut(allocation, n_labels + wire_len) as *mut Name)
}

/// Wire form of a name of exactly N octets (N in 1, 3..=255) made of 'x' labels.
fn x_name<const N: usize>() -> [u8; N] {
    let mut w = [b'x'; N];
    // labels of 63 octets while more than 65 octets remain, then one label
    // that uses up the rest, then the root label
    let mut at = 0;
    let mut k = 0;
    while k < 4 {
        let remaining = N - at;
        if remaining > 65 {
            w[at] = 63;
            at += 64;
        } else if remaining > 1 {
            w[at] = (remaining - 2) as u8;
            at += remaining - 1;
        }
        k += 1;
    }
    w[N - 1] = 0;
    w
}

fn empty_keys() -> TsigKeyMap {
    // RandomState::new() reaches getrandom (FFI); an empty map never hashes.
    let rs: RandomState = unsafe { core::mem::transmute([1u64, 2u64]) };
    HashMap::with_hasher(rs)
}

#[derive(Clone, Copy, PartialEq, Eq)]
enum Site {
    /// find_tsig_algorithm_or_write_error, unknown algorithm (mod.rs:621-628)
    UnknownAlgorithm,
    /// find_tsig_key_or_write_error, unknown key (mod.rs:653-660)
    UnknownKey,
    /// verify_tsig_and_write_tsig_rr, MAC of unacceptable size (mod.rs:722-727)
    BadMacSize,
}

/// LQ / LK / LA: wire lengths of QNAME, key name and algorithm name; NR =
/// LA + 16 (RDATA with an empty MAC).  The response is the 512-octet UDP
/// response of a request without EDNS.
fn reservation<const LQ: usize, const LK: usize, const LA: usize, const NR: usize>(site: Site) {
    let qn: [u8; LQ] = x_name::<LQ>();
    let kn: [u8; LK] = x_name::<LK>();
    let time: [u8; 6] = kani::any();
    let now: [u8; 6] = kani::any();
    let mut rd = [0u8; NR];
    if site == Site::UnknownAlgorithm {
        let an: [u8; LA] = x_name::<LA>();
        let mut i = 0;
        while i < LA {
            rd[i] = an[i];
            i += 1;
        }
    } else {
        let mut i = 0;
        while i < LA {
            rd[i] = SHA256_WIRE[i];
            i += 1;
        }
    }
    let mut i = 0;
    while i < 6 {
        rd[LA + i] = time[i];
        i += 1;
    }
    // fudge 300, MAC size 0, original ID 0, error 0, other len 0
    rd[LA + 6] = 1;
    rd[LA + 7] = 44;
    let rr = ReadRr {
        owner: Name::try_from_uncompressed_all(&kn).unwrap(),
        rr_type: Type::TSIG,
        class: Qclass::ANY.into(),
        ttl: Ttl::from(0),
        rdata: Cow::Borrowed((&rd[..]).try_into().unwrap()),
    };
    let tsig_rr = ReadTsigRr::try_from(rr).unwrap();

    let mut buf = [0u8; 512];
    let mut response = Writer::new(&mut buf, 512).unwrap();
    response.set_qr(true);
    let question = Question {
        qname: Name::try_from_uncompressed_all(&qn).unwrap(),
        qtype: Qtype::from(1),
        qclass: Qclass::from(1),
    };
    response.add_question(&question).unwrap();

    let now_ts = TimeSigned::from(now);
    let keys = empty_keys();
    let key: [u8; 2] = [1, 2];
    // the TSIG RR the server wants to attach: owner + 10 + RDATA(alg + 16 [+ MAC] [+ 6])
    let needed = 12 + LQ + 4 + LK + LA + 26;
    match site {
        Site::UnknownAlgorithm => {
            let r = find_tsig_algorithm_or_write_error(&tsig_rr, now_ts, &mut response);
            assert!(r.is_none(), "[C01] an algorithm name made of 'x' labels is unknown");
        }
        Site::UnknownKey => {
            let a = find_tsig_algorithm_or_write_error(&tsig_rr, now_ts, &mut response);
            assert!(a == Some(Algorithm::HmacSha256), "[C01] hmac-sha256 is known");
            let r = find_tsig_key_or_write_error(&tsig_rr, Algorithm::HmacSha256, &keys, now_ts, &mut response);
            assert!(r.is_none(), "[C01] no key is configured");
        }
        Site::BadMacSize => {
            let ok = verify_tsig_and_write_tsig_rr(&tsig_rr, &[0u8, 0, 0, 0, 0, 0, 0, 0, 0, 0, 0, 1], Algorithm::HmacSha256, &key, now_ts, &mut response);
            assert!(!ok, "[C01] an empty MAC never authenticates");
        }
    }
    // reaching this point means set_tsig(...).unwrap() did not panic
    let _ = needed;
    kani::cover!(true, "the helper returned without panicking");
    core::mem::forget(tsig_rr);
    core::mem::forget(question);
    core::mem::forget(keys);
}

macro_rules! reservation_harness {
    ($name:ident, $lq:literal, $lk:literal, $la:literal, $nr:literal, $site:expr) => {
        #[kani::proof]
        #[kani::unwind(262)]
        #[kani::stub(crate::message::tsig::Algorithm::name, alg_name_static)]
        #[kani::stub(crate::message::tsig::Algorithm::from_name, from_name_model)]
        #[kani::stub(crate::name::new_boxed_name, new_boxed_name_model)]
        fn $name() {
            reservation::<$lq, $lk, $la, $nr>($site);
        }
    };
}

// @harness name=c01_tsig_reserve_fits_1_64_64 props=C01 tier=quick mem=6 t=1200 stubs="S5a,S5b,S8" kani="--no-assertion-reach-checks"
//   fn="find_tsig_algorithm_or_write_error,PreparedTsigRr::new_from_read,PreparedTsigRr::unsigned_len,Writer::set_tsig"
//   bound="[C01]/D7 length arithmetic: root QNAME (1), key name of 64 octets, unknown algorithm name of 64 octets ('x' labels); 512-octet response; 17+64+64+26 = 171 <= 512: must not panic; unwind 262"
//   sym="time signed, now"
reservation_harness!(c01_tsig_reserve_fits_1_64_64, 1, 64, 64, 80, Site::UnknownAlgorithm);

// @harness name=c01_tsig_reserve_unknown_alg_1_255_255 props=C01 tier=quick mem=8 t=1800 stubs="S5a,S5b,S8" kani="--no-assertion-reach-checks"
//   fn="find_tsig_algorithm_or_write_error,PreparedTsigRr::new_from_read,PreparedTsigRr::unsigned_len,Writer::set_tsig"
//   bound="[C01]/D7: root QNAME, key name 255 octets, unknown algorithm name 255 octets; 17+255+255+26 = 553 > 512 (request of 553 octets); unwind 262"
//   sym="time signed, now"
reservation_harness!(c01_tsig_reserve_unknown_alg_1_255_255, 1, 255, 255, 271, Site::UnknownAlgorithm);

// @harness name=c01_tsig_reserve_unknown_key_255_255 props=C01 tier=quick mem=8 t=1800 stubs="S5a,S5b,S8" kani="--no-assertion-reach-checks"
//   fn="find_tsig_key_or_write_error,PreparedTsigRr::new_from_read,PreparedTsigRr::unsigned_len,Writer::set_tsig"
//   bound="[C01]/D7: QNAME 255 octets, unknown key name 255 octets, algorithm hmac-sha256.; 12+259+255+13+26 = 565 > 512; unwind 262"
//   sym="time signed, now"
reservation_harness!(c01_tsig_reserve_unknown_key_255_255, 255, 255, 13, 29, Site::UnknownKey);

// @harness name=c01_tsig_reserve_bad_mac_255_255 props=C01 tier=quick mem=8 t=1800 stubs="S5a,S5b,S8" kani="--no-assertion-reach-checks"
//   fn="verify_tsig_and_write_tsig_rr,ReadTsigRr::verify_request,check_mac_size,PreparedTsigRr::new_from_read,Writer::set_tsig"
//   bound="[C01]/D7: QNAME 255 octets, key name 255 octets, hmac-sha256 with an empty MAC (FORMERR path, unsigned response TSIG); 565 > 512; unwind 262"
//   sym="time signed, now"
reservation_harness!(c01_tsig_reserve_bad_mac_255_255, 255, 255, 13, 29, Site::BadMacSize);

// @harness name=c01_tsig_reserve_edge_255_128_64 props=C01 tier=thorough mem=8 t=1800 stubs="S5a,S5b,S8" kani="--no-assertion-reach-checks"
//   fn="find_tsig_algorithm_or_write_error,Writer::set_tsig"
//   bound="[C01]/D7: QNAME 255, key name 128, unknown algorithm name 64: 12+259+128+64+26 = 489 <= 512: must not panic; unwind 262"
//   sym="time signed, now"
reservation_harness!(c01_tsig_reserve_edge_255_128_64, 255, 128, 64, 80, Site::UnknownAlgorithm);
