// @host src/server/mod.rs
//
// C01, defect D7: the three TSIG helpers of the server attach the response
// TSIG RR with `response.set_tsig(...).unwrap()`.  set_tsig fails with
// Truncation when the space to reserve (key name + algorithm name + 26, + MAC
// size for signed modes, + 6 for BADTIME) does not fit the response size
// limit; the unwrap then panics.  This is decided as a LENGTH question: names
// with concrete contents ('x' labels) and concrete lengths from a small grid
// that includes the 255-octet maximum, in the 512-octet UDP response that
// Server::handle_message uses without EDNS.
//
// The harnesses make the reservation exactly as the helpers make it for a
// BADKEY response (Writer::set_tsig with TsigMode::Unsigned and a
// PreparedTsigRr), with names from the real constructor and no stub: set_tsig
// succeeds exactly when question + TSIG RR fit the limit.  The `Err` for
// (1, 255, 255) and (255, 255, 13) is what the `.unwrap()` at mod.rs:621-628,
// 653-660 and 722-727 turns into a panic; that last step is reproduced
// natively through Server::handle_message with a 553-octet request (see
// /verif/proposed_fixes/tsig-unwrap.md).
//
// Not registered here: harnesses that call the three helpers themselves with
// 255-octet names.  Two variants were tried (ReadTsigRr from the real try_from;
// ReadTsigRr built from static name views through a stub bridge) and neither
// finished within 30 min: every loop over such a name is unwound to the bound.
//
// This family has NO hashmap_model transform (it is selected together with
// server_small under C01) and reaches neither HashMap nor HMAC.

use super::*;
use crate::kani_common::*;
use crate::message::{Qclass, Qtype};

/// Wire form of a name of exactly N octets (N in 1, 3..=65, 128, 255) made of 'x' labels.
fn x_name<const N: usize>() -> [u8; N] {
    let mut w = [b'x'; N];
    // labels of 63 octets while more than 65 octets remain, then one label
    // that uses up the rest, then the root label
    let mut at = 0;
    let mut k = 0;
    while k < 4 {
        let remaining = N - at;
        if remaining > 65 {
            w[at] = 63;
            at += 64;
        } else if remaining > 1 {
            w[at] = (remaining - 2) as u8;
            at += remaining - 1;
        }
        k += 1;
    }
    w[N - 1] = 0;
    w
}

// --------------------------------------------------------------------------
// Writer level: what the `.unwrap()` of the three helpers relies on
// --------------------------------------------------------------------------

fn lower_box(n: Box<Name>) -> Box<LowercaseName> {
    // the 'x' names are lower case already; Box<LowercaseName>::from would
    // walk every octet
    unsafe { Box::from_raw(Box::into_raw(n) as *mut LowercaseName) }
}

/// The reservation that find_tsig_algorithm_or_write_error /
/// find_tsig_key_or_write_error make for a BADKEY response (unsigned TSIG RR,
/// error != BADTIME) to a query whose question has a QNAME of LQ octets,
/// with a key name of LK and an algorithm name of LA octets, over UDP without
/// EDNS (512-octet limit).
fn set_tsig_reservation<const LQ: usize, const LK: usize, const LA: usize>() {
    let qn: [u8; LQ] = x_name::<LQ>();
    let kn: [u8; LK] = x_name::<LK>();
    let an: [u8; LA] = x_name::<LA>();
    let time: [u8; 6] = kani::any();
    let oid: u16 = kani::any();
    let mut buf = [0u8; 512];
    let mut response = Writer::new(&mut buf, 512).unwrap();
    response.set_qr(true);
    let question = Question {
        qname: Name::try_from_uncompressed_all(&qn).unwrap(),
        qtype: Qtype::from(1),
        qclass: Qclass::from(1),
    };
    let added = response.add_question(&question);
    assert!(added.is_ok(), "[C01] the question fits the 512-octet response");
    response.set_rcode(Rcode::NOTAUTH);
    let prepared = PreparedTsigRr {
        key_name: lower_box(Name::try_from_uncompressed_all(&kn).unwrap()),
        time_signed: TimeSigned::from(time),
        fudge: TSIG_FUDGE,
        original_id: oid,
        error: ExtendedRcode::BADKEY,
        server_time: TimeSigned::from(time),
    };
    let mode = writer::TsigMode::Unsigned {
        algorithm: lower_box(Name::try_from_uncompressed_all(&an).unwrap()),
    };
    let r = response.set_tsig(mode, prepared);
    let needed = 12 + LQ + 4 + LK + 10 + LA + 16;
    assert!(r.is_ok() == (needed <= 512), "[C01] set_tsig fails exactly when question + TSIG RR exceed the size limit");
    // mod.rs:621-628, 653-660 and 722-727 call .unwrap() on this result; the
    // panic itself is reproduced natively (proposed_fixes/tsig-unwrap.md)
    kani::cover!(true, "reservation made");
    core::mem::forget(question);
}

// @harness props=C01 tier=quick mem=3 t=600 kani="--no-assertion-reach-checks"
//   fn="Writer::set_tsig,PreparedTsigRr::unsigned_len,Writer::add_question"
//   bound="[C01]/D7 at Writer level: root QNAME, key name 64 octets, algorithm name 64 octets, 512-octet limit: 17+64+10+64+16 = 171: fits; unwind 8"
//   sym="time signed, original ID"
#[kani::proof]
#[kani::unwind(8)]
fn c01_set_tsig_fits_1_64_64() {
    set_tsig_reservation::<1, 64, 64>();
}

// @harness props=C01 tier=quick mem=3 t=600 kani="--no-assertion-reach-checks"
//   fn="Writer::set_tsig,PreparedTsigRr::unsigned_len,Writer::add_question"
//   bound="[C01]/D7 at Writer level: QNAME 255, key name 128, algorithm name 64: 12+259+128+10+64+16 = 489: fits; unwind 8"
//   sym="time signed, original ID"
#[kani::proof]
#[kani::unwind(8)]
fn c01_set_tsig_fits_255_128_64() {
    set_tsig_reservation::<255, 128, 64>();
}

// @harness props=C01 tier=quick mem=3 t=600 kani="--no-assertion-reach-checks"
//   fn="Writer::set_tsig,PreparedTsigRr::unsigned_len,Writer::add_question"
//   bound="[C01]/D7 at Writer level: root QNAME, key name 255, algorithm name 255: 17+255+10+255+16 = 553 > 512 (what a 553-octet request with an unknown key produces); unwind 8"
//   sym="time signed, original ID"
#[kani::proof]
#[kani::unwind(8)]
fn c01_set_tsig_overflow_1_255_255() {
    set_tsig_reservation::<1, 255, 255>();
}

// @harness props=C01 tier=quick mem=3 t=600 kani="--no-assertion-reach-checks"
//   fn="Writer::set_tsig,PreparedTsigRr::unsigned_len,Writer::add_question"
//   bound="[C01]/D7 at Writer level: QNAME 255, key name 255, algorithm hmac-sha256. (13): 12+259+255+10+13+16 = 565 > 512; unwind 8"
//   sym="time signed, original ID"
#[kani::proof]
#[kani::unwind(8)]
fn c01_set_tsig_overflow_255_255_13() {
    set_tsig_reservation::<255, 255, 13>();
}
