// @host src/server/mod.rs
//
// C01, defect D7: the three TSIG helpers of the server attach the response
// TSIG RR with `response.set_tsig(...).unwrap()`.  set_tsig fails with
// Truncation when the space to reserve (key name + algorithm name + 26, + MAC
// size for signed modes, + 6 for BADTIME) does not fit the response size
// limit; the unwrap then panics.  This is decided as a LENGTH question: the
// names have concrete contents ('x' labels) and concrete lengths taken from a
// small grid that includes the 255-octet maximum; the response buffer is the
// 512-octet UDP response that Server::handle_message uses without EDNS.
//
// This family deliberately has NO hashmap_model transform (it is selected
// together with server_small under C01); Algorithm::from_name, which would
// reach the lazy_static std HashMap, is replaced (S5b), and the key map is an
// empty std HashMap built without RandomState::new().
//
// Stubs: S5a (Algorithm::name -> static views), S5b (Algorithm::from_name ->
// octet comparison).  Neither takes part in the length arithmetic that fails;
// native replay runs the real functions.
//
// Two levels:
//  * c01_tsig_reserve_*: the real server helpers.  The ReadTsigRr they get is
//    built from static name representations (through a bridge into
//    tsig_mac.rs, because its fields are private): ReadTsigRr::try_from on a
//    255-octet name lower-cases every octet in loops whose bounds CBMC
//    cannot see (measured: no result in 30 min).  The helpers themselves only
//    clone the names and add up their lengths.
//  * c01_set_tsig_*: the reservation made directly with Writer::set_tsig and
//    a PreparedTsigRr / TsigMode::Unsigned as the helpers build them, names
//    from the real constructor, no stub at all: set_tsig fails exactly when
//    question + TSIG RR exceed the limit.

use super::*;
use crate::kani_common::*;
use crate::message::{Qclass, Qtype};
use crate::rr::Ttl;
use std::collections::hash_map::RandomState;

static SHA256_REPR: [u8; 16] = [2, 0, 12, 11, b'h', b'm', b'a', b'c', b'-', b's', b'h', b'a', b'2', b'5', b'6', 0];
static SHA1_REPR: [u8; 14] = [2, 0, 10, 9, b'h', b'm', b'a', b'c', b'-', b's', b'h', b'a', b'1', 0];
const SHA1_WIRE: [u8; 11] = [9, b'h', b'm', b'a', b'c', b'-', b's', b'h', b'a', b'1', 0];
const SHA256_WIRE: [u8; 13] = [11, b'h', b'm', b'a', b'c', b'-', b's', b'h', b'a', b'2', b'5', b'6', 0];

fn alg_name_static(alg: &Algorithm) -> &'static LowercaseName {
    let repr: &'static [u8] = match alg {
        Algorithm::HmacSha1 => &SHA1_REPR,
        Algorithm::HmacSha256 => &SHA256_REPR,
    };
    unsafe { &*(core::ptr::slice_from_raw_parts(repr.as_ptr(), repr.len() - 1) as *const LowercaseName) }
}

fn same_caseless(a: &[u8], b: &[u8]) -> bool {
    if a.len() != b.len() {
        return false;
    }
    let mut i = 0;
    let mut same = true;
    while i < b.len() {
        if lower(a[i]) != lower(b[i]) {
            same = false;
        }
        i += 1;
    }
    same
}

fn from_name_model(name: &Name) -> Option<Algorithm> {
    let w = name.wire_repr();
    if same_caseless(w, &SHA1_WIRE) {
        Some(Algorithm::HmacSha1)
    } else if same_caseless(w, &SHA256_WIRE) {
        Some(Algorithm::HmacSha256)
    } else {
        None
    }
}

/// Wire form of a name of exactly N octets (N in 1, 3..=65, 128, 255) made of 'x' labels.
const fn x_name<const N: usize>() -> [u8; N] {
    let mut w = [b'x'; N];
    // labels of 63 octets while more than 65 octets remain, then one label
    // that uses up the rest, then the root label
    let mut at = 0;
    let mut k = 0;
    while k < 4 {
        let remaining = N - at;
        if remaining > 65 {
            w[at] = 63;
            at += 64;
        } else if remaining > 1 {
            w[at] = (remaining - 2) as u8;
            at += remaining - 1;
        }
        k += 1;
    }
    w[N - 1] = 0;
    w
}

/// In-memory representation of the same name: [n_labels, label offsets.., wire..];
/// R = 1 + n_labels + N.
const fn x_repr<const N: usize, const R: usize>() -> [u8; R] {
    let w = x_name::<N>();
    let n_labels = R - 1 - N;
    let mut r = [0u8; R];
    r[0] = n_labels as u8;
    let mut off = 0usize;
    let mut i = 0;
    while i < n_labels {
        r[1 + i] = off as u8;
        off += 1 + w[off] as usize;
        i += 1;
    }
    let mut j = 0;
    while j < N {
        r[1 + n_labels + j] = w[j];
        j += 1;
    }
    r
}

/// TSIG RDATA with an empty MAC: algorithm name (LA octets) + 16 (fudge 300).
const fn x_rdata<const LA: usize, const NR: usize>(known: bool) -> [u8; NR] {
    let an = x_name::<LA>();
    let mut rd = [0u8; NR];
    let mut i = 0;
    while i < LA {
        rd[i] = if known { SHA256_WIRE[i] } else { an[i] };
        i += 1;
    }
    rd[LA + 6] = 1;
    rd[LA + 7] = 44;
    rd
}

// 255 octets: labels 63, 63, 63, 61, root (5 labels); 64 octets: 62, root (2 labels)
static K255: [u8; 261] = x_repr::<255, 261>();
static K64: [u8; 67] = x_repr::<64, 67>();
static RD_X255: [u8; 271] = x_rdata::<255, 271>(false);
static RD_X64: [u8; 80] = x_rdata::<64, 80>(false);
static RD_SHA256: [u8; 29] = x_rdata::<13, 29>(true);

/// Body supplied by #[kani::stub] from tsig_mac.rs (ReadTsigRr has private
/// fields): a ReadTsigRr with these names and RDATA, as try_from builds it.
fn view_tsig_rr(_key_repr: &'static [u8], _alg_repr: &'static [u8], _rdata: &'static [u8]) -> ReadTsigRr<'static> {
    panic!("view_tsig_rr must be stubbed")
}

fn empty_keys() -> TsigKeyMap {
    // RandomState::new() reaches getrandom (FFI); an empty map never hashes.
    let rs: RandomState = unsafe { core::mem::transmute([1u64, 2u64]) };
    HashMap::with_hasher(rs)
}

#[derive(Clone, Copy, PartialEq, Eq)]
enum Site {
    /// find_tsig_algorithm_or_write_error, unknown algorithm (mod.rs:621-628)
    UnknownAlgorithm,
    /// find_tsig_key_or_write_error, unknown key (mod.rs:653-660)
    UnknownKey,
    /// verify_tsig_and_write_tsig_rr, MAC of unacceptable size (mod.rs:722-727)
    BadMacSize,
}

/// One of the three helpers on a request whose question has the root QNAME
/// (17-octet query) and whose TSIG RR has the given key name / RDATA; the
/// response is the 512-octet UDP response of a request without EDNS.
fn reservation(site: Site, long_qname: bool, key_repr: &'static [u8], alg_repr: &'static [u8], rdata: &'static [u8]) {
    let now: [u8; 6] = kani::any();
    let tsig_rr = view_tsig_rr(key_repr, alg_repr, rdata);
    let mut buf = [0u8; 512];
    let mut response = Writer::new(&mut buf, 512).unwrap();
    response.set_qr(true);
    let qname: Box<Name> = if long_qname {
        // a view of the 255-octet name (never dropped)
        unsafe { Box::from_raw(core::ptr::slice_from_raw_parts(K255.as_ptr(), K255.len() - 1) as *mut Name) }
    } else {
        Name::root().to_owned()
    };
    let question = Question {
        qname,
        qtype: Qtype::from(1),
        qclass: Qclass::from(1),
    };
    response.add_question(&question).unwrap();
    let now_ts = TimeSigned::from(now);
    match site {
        Site::UnknownAlgorithm => {
            let r = find_tsig_algorithm_or_write_error(&tsig_rr, now_ts, &mut response);
            assert!(r.is_none(), "[C01] an algorithm name made of 'x' labels is unknown");
        }
        Site::UnknownKey => {
            let keys = empty_keys();
            let r = find_tsig_key_or_write_error(&tsig_rr, Algorithm::HmacSha256, &keys, now_ts, &mut response);
            assert!(r.is_none(), "[C01] no key is configured");
            core::mem::forget(keys);
        }
        Site::BadMacSize => {
            let key: [u8; 2] = [1, 2];
            let ok = verify_tsig_and_write_tsig_rr(&tsig_rr, &[0u8, 0, 0, 0, 0, 0, 0, 0, 0, 0, 0, 1], Algorithm::HmacSha256, &key, now_ts, &mut response);
            assert!(!ok, "[C01] an empty MAC never authenticates");
        }
    }
    // reaching this point means the helper did not panic
    let n = response.finish();
    assert!(n >= 17 && n <= 512, "[C01] response length");
    kani::cover!(true, "the helper returned without panicking");
    core::mem::forget(tsig_rr);
    core::mem::forget(question);
}

macro_rules! reservation_harness {
    ($name:ident, $site:expr, $lq:literal, $k:expr, $a:expr, $rd:expr) => {
        #[kani::proof]
        #[kani::unwind(8)]
        #[kani::stub(crate::message::tsig::Algorithm::name, alg_name_static)]
        #[kani::stub(crate::message::tsig::Algorithm::from_name, from_name_model)]
        #[kani::stub(view_tsig_rr, crate::message::tsig::kani_tsig_mac::view_tsig_rr_impl)]
        fn $name() {
            reservation($site, $lq, $k, $a, $rd);
        }
    };
}

// @harness name=c01_tsig_reserve_fits_64_64 props=C01 tier=quick mem=6 t=1800 stubs="S5a,S5b" kani="--no-assertion-reach-checks"
//   fn="find_tsig_algorithm_or_write_error,PreparedTsigRr::new_from_read,PreparedTsigRr::unsigned_len,Writer::set_tsig,Writer::finish"
//   bound="[C01]/D7: 17-octet query, key name of 64 octets, unknown algorithm name of 64 octets ('x' labels), empty MAC; 512-octet response; 17+64+10+64+16 = 171 <= 512: must not panic; unwind 8"
//   sym="now"
reservation_harness!(c01_tsig_reserve_fits_64_64, Site::UnknownAlgorithm, false, &K64, &K64, &RD_X64);

// @harness name=c01_tsig_reserve_unknown_alg_255_255 props=C01 tier=quick mem=6 t=1800 stubs="S5a,S5b" kani="--no-assertion-reach-checks"
//   fn="find_tsig_algorithm_or_write_error,PreparedTsigRr::new_from_read,PreparedTsigRr::unsigned_len,Writer::set_tsig"
//   bound="[C01]/D7: 17-octet query, key name 255 octets, unknown algorithm name 255 octets; 17+255+10+255+16 = 553 > 512 (a 553-octet request); unwind 8"
//   sym="now"
reservation_harness!(c01_tsig_reserve_unknown_alg_255_255, Site::UnknownAlgorithm, false, &K255, &K255, &RD_X255);

// @harness name=c01_tsig_reserve_unknown_key_255_x255 props=C01 tier=quick mem=6 t=1800 stubs="S5a,S5b" kani="--no-assertion-reach-checks"
//   fn="find_tsig_key_or_write_error,PreparedTsigRr::new_from_read,PreparedTsigRr::unsigned_len,Writer::set_tsig"
//   bound="[C01]/D7: unknown key name of 255 octets with a 255-octet algorithm name, helper called as for a known algorithm; 553 > 512; unwind 8"
//   sym="now"
reservation_harness!(c01_tsig_reserve_unknown_key_255_x255, Site::UnknownKey, false, &K255, &K255, &RD_X255);

// @harness name=c01_tsig_reserve_unknown_key_255_sha256 props=C01 tier=quick mem=6 t=1800 stubs="S5a,S5b" kani="--no-assertion-reach-checks"
//   fn="find_tsig_key_or_write_error,Writer::set_tsig"
//   bound="[C01]/D7: unknown key name of 255 octets, algorithm hmac-sha256.: 17+255+10+13+16 = 311 <= 512: must not panic; unwind 8"
//   sym="now"
reservation_harness!(c01_tsig_reserve_unknown_key_255_sha256, Site::UnknownKey, false, &K255, &SHA256_REPR, &RD_SHA256);

// @harness name=c01_tsig_reserve_bad_mac_q255_k255 props=C01 tier=quick mem=6 t=1800 stubs="S5a,S5b" kani="--no-assertion-reach-checks"
//   fn="verify_tsig_and_write_tsig_rr,ReadTsigRr::verify_request,check_mac_size,PreparedTsigRr::new_from_read,Writer::set_tsig"
//   bound="[C01]/D7: QNAME 255 octets, key name 255 octets, hmac-sha256 with an empty MAC (FORMERR path, unsigned response TSIG): 12+259+255+10+13+16 = 565 > 512; unwind 8"
//   sym="now"
reservation_harness!(c01_tsig_reserve_bad_mac_q255_k255, Site::BadMacSize, true, &K255, &SHA256_REPR, &RD_SHA256);

// --------------------------------------------------------------------------
// Writer level: what the `.unwrap()` of the three helpers relies on
// --------------------------------------------------------------------------

fn lower_box(n: Box<Name>) -> Box<LowercaseName> {
    // the 'x' names are lower case already; Box<LowercaseName>::from would
    // walk every octet
    unsafe { Box::from_raw(Box::into_raw(n) as *mut LowercaseName) }
}

/// The reservation that find_tsig_algorithm_or_write_error /
/// find_tsig_key_or_write_error make for a BADKEY response (unsigned TSIG RR,
/// error != BADTIME) to a query whose question has a QNAME of LQ octets,
/// with a key name of LK and an algorithm name of LA octets, over UDP without
/// EDNS (512-octet limit).
fn set_tsig_reservation<const LQ: usize, const LK: usize, const LA: usize>() {
    let qn: [u8; LQ] = x_name::<LQ>();
    let kn: [u8; LK] = x_name::<LK>();
    let an: [u8; LA] = x_name::<LA>();
    let time: [u8; 6] = kani::any();
    let oid: u16 = kani::any();
    let mut buf = [0u8; 512];
    let mut response = Writer::new(&mut buf, 512).unwrap();
    response.set_qr(true);
    let question = Question {
        qname: Name::try_from_uncompressed_all(&qn).unwrap(),
        qtype: Qtype::from(1),
        qclass: Qclass::from(1),
    };
    let added = response.add_question(&question);
    assert!(added.is_ok(), "[C01] the question fits the 512-octet response");
    response.set_rcode(Rcode::NOTAUTH);
    let prepared = PreparedTsigRr {
        key_name: lower_box(Name::try_from_uncompressed_all(&kn).unwrap()),
        time_signed: TimeSigned::from(time),
        fudge: TSIG_FUDGE,
        original_id: oid,
        error: ExtendedRcode::BADKEY,
        server_time: TimeSigned::from(time),
    };
    let mode = writer::TsigMode::Unsigned {
        algorithm: lower_box(Name::try_from_uncompressed_all(&an).unwrap()),
    };
    let r = response.set_tsig(mode, prepared);
    let needed = 12 + LQ + 4 + LK + 10 + LA + 16;
    assert!(r.is_ok() == (needed <= 512), "[C01] set_tsig fails exactly when question + TSIG RR exceed the size limit");
    // mod.rs:621-628, 653-660 and 722-727 call .unwrap() on this result: the
    // server-level harnesses above decide whether that panics
    kani::cover!(true, "reservation made");
    core::mem::forget(question);
}

// @harness props=C01 tier=quick mem=3 t=600 kani="--no-assertion-reach-checks"
//   fn="Writer::set_tsig,PreparedTsigRr::unsigned_len,Writer::add_question"
//   bound="[C01]/D7 at Writer level: root QNAME, key name 64 octets, algorithm name 64 octets, 512-octet limit: 17+64+10+64+16 = 171: fits; unwind 8"
//   sym="time signed, original ID"
#[kani::proof]
#[kani::unwind(8)]
fn c01_set_tsig_fits_1_64_64() {
    set_tsig_reservation::<1, 64, 64>();
}

// @harness props=C01 tier=quick mem=3 t=600 kani="--no-assertion-reach-checks"
//   fn="Writer::set_tsig,PreparedTsigRr::unsigned_len,Writer::add_question"
//   bound="[C01]/D7 at Writer level: QNAME 255, key name 128, algorithm name 64: 12+259+128+10+64+16 = 489: fits; unwind 8"
//   sym="time signed, original ID"
#[kani::proof]
#[kani::unwind(8)]
fn c01_set_tsig_fits_255_128_64() {
    set_tsig_reservation::<255, 128, 64>();
}

// @harness props=C01 tier=quick mem=3 t=600 kani="--no-assertion-reach-checks"
//   fn="Writer::set_tsig,PreparedTsigRr::unsigned_len,Writer::add_question"
//   bound="[C01]/D7 at Writer level: root QNAME, key name 255, algorithm name 255: 17+255+10+255+16 = 553 > 512 (what a 553-octet request with an unknown key produces); unwind 8"
//   sym="time signed, original ID"
#[kani::proof]
#[kani::unwind(8)]
fn c01_set_tsig_overflow_1_255_255() {
    set_tsig_reservation::<1, 255, 255>();
}

// @harness props=C01 tier=quick mem=3 t=600 kani="--no-assertion-reach-checks"
//   fn="Writer::set_tsig,PreparedTsigRr::unsigned_len,Writer::add_question"
//   bound="[C01]/D7 at Writer level: QNAME 255, key name 255, algorithm hmac-sha256. (13): 12+259+255+10+13+16 = 565 > 512; unwind 8"
//   sym="time signed, original ID"
#[kani::proof]
#[kani::unwind(8)]
fn c01_set_tsig_overflow_255_255_13() {
    set_tsig_reservation::<255, 255, 13>();
}
